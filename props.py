"""Per-property configuration for ./check (what to build, what to run, what is trusted)."""

SDK_TRUST = "Cosmos-SDK (bank, staking, store, baseapp) is modelled, not verified; the correspondence runs against the real SDK"

PROPS = {
    "C04": dict(
        lean_modules=["PalomaModel.Props.C04"],
        harness_test="TestC04",
        n_quick=3000, n_thorough=40000, thorough_seeds=8,
        # ops whose model output is exactly what the property demands
        spec_ops=["median", "evidence", "gas", "addev"],
        rule="per case: random snapshot (1-7 validators; tiny/equal/random/huge shares, optionally scaled by up to 9*2^199 so exact-2/3 boundaries survive), "
             "partition of validators over 1-3 evidence values with abstainers and outsiders, gas-estimate multisets over the full uint64 range incl. edge values, "
             "AddEvidence re-submission histories; distinct = distinct canonical input text; non-trivial = at least one submission",
        trusted_base=["SHA-256 collision freeness (distinct proof bytes = distinct group key) is a hypothesis: evidence hashes are abstract naturals",
                      "sdkmath.Int is modelled as unbounded Nat (the harness stays below its 2^256 cap)"],
        assumptions=["snapshot total = sum of shares (createNewSnapshot builds it so; C10 proves it for the snapshot model)"],
    ),
}
