"""Per-property configuration for ./check (what to build, what to run, what is trusted)."""

SDK_TRUST = "Cosmos-SDK (bank, staking, store, baseapp) is modelled, not verified; the correspondence runs against the real SDK"

PROPS = {
    "C04": dict(
        lean_modules=["PalomaModel.Props.C04", "PalomaModel.Props.Consts.C04", "PalomaModel.Props.Translated.C04", "PalomaModel.Props.Translated.C06"], gen=["Consts.lean", "ConstTable.lean", "Translated.lean"],
        harness_test="TestC04",
        extra_tests=[{"test": "TestC04Keeper", "dir": "C04K", "n_quick": 300, "n_thorough": 2500}, {"test": "TestC04Reassign", "dir": "C04R", "n_quick": 120, "n_thorough": 1200}],
        n_quick=3000, n_thorough=40000, thorough_seeds=8,
        # ops whose model output is exactly what the property demands
        spec_ops=["median", "evidence", "gas", "addev", "enc", "evp", "endblock", "reassign", "attest"],
        rule="per case: random snapshot (1-7 validators; tiny/equal/random/huge shares, optionally scaled by up to 9*2^199 so exact-2/3 boundaries survive), "
             "partition of validators over 1-3 evidence values with abstainers and outsiders, gas-estimate multisets over the full uint64 range incl. edge values, "
             "AddEvidence re-submission histories; distinct = distinct canonical input text; non-trivial = at least one submission",
        trusted_base=["SHA-256 collision freeness (distinct proof bytes = distinct group key) is a hypothesis: evidence hashes are abstract naturals",
                      "sdkmath.Int is modelled as unbounded Nat (the harness stays below its 2^256 cap)"],
        assumptions=["snapshot total = sum of shares (createNewSnapshot builds it so; C10 proves it for the snapshot model)"],
    ),
    "C01": dict(
        lean_modules=["PalomaModel.Props.C01", "PalomaModel.Props.Consts.Bridge", "PalomaModel.Props.Translated.C01"], gen=["Atomicity.lean", "ConstTable.lean", "Translated.lean"],
        harness_test="TestBridge", env={"VERIF_PROP": "C01"},
        # the fully wired application: nothing an ordinary account can do with the bank credits the escrow
        extra_tests=[{"test": "TestC01App", "dir": "C01A", "n_quick": 60, "n_thorough": 600}],
        n_quick=120, n_thorough=1500, thorough_seeds=8, timeout_quick=900,
        spec_ops=["bind", "sentunder", "paidin", "outside"],
        rule="per case: fresh skyway keeper fixture (5 validators, 3 users, 2 bridged tokens); 40 ops drawn from send / cancel / direct batch build / "
             "fully-voted executed-batch and deposit claims / gas-estimate submissions / tax+limit governance / end-blocks (every-50th-height builds, tally, "
             "estimate election, 10-minute timeouts); 22% of ops carry a fault (the n-th call, n in 1..3, of one collaborator class: chain-info, relayer pick, "
             "remote-address lookup, bank lock/send/pool/mint/burn) injected through the verif hook; plus 1+N/4 directed histories in which denoms move between "
             "token contracts (governance / token admin msg / wasm binding) while transfers are pending; distinct = distinct op text of the case; non-trivial = at least one accepted op",
        trusted_base=[SDK_TRUST, "claims are modelled as fully voted (quorum is C02's subject); IBC forwarding is not on the pinned deposit path"],
        assumptions=["every message runs on a cached store committed only on success (baseapp per-message atomicity, reproduced by the harness)",
                     "governance does not bind a denom to a contract that serves another denom (SaneRun)"],
    ),
    "C15": dict(
        lean_modules=["PalomaModel.Props.C15", "PalomaModel.Props.Consts.Bridge", "PalomaModel.Props.Translated.C15"], gen=["ConstTable.lean", "Translated.lean"],
        harness_test="TestBridge", env={"VERIF_PROP": "C15"},
        n_quick=120, n_thorough=1500, thorough_seeds=8, timeout_quick=900,
        extra_tests=[{"test": "TestC15Window", "dir": "C15W", "n_quick": 400, "n_thorough": 4000}],
        spec_ops=["send", "cancel", "walk"],
        rule="same generator as C01 with tax/limit governance three times as frequent; rates rendered as fraction, decimal and exponent strings; "
             "amounts 0..1000, 2^64..2^214 and 2^256-k; heights moved to window start+period-1/+0/+1 for all four limit periods; plus window walks (TestC15Window): a fresh token, a limit with one of the periods, "
             "two sends a distance around the window's length apart, the length in blocks taken from the harness's own table and decided by the model's limitStep; "
             "distinct = distinct op text; non-trivial = at least one accepted op",
        trusted_base=[SDK_TRUST, "big.Rat parsing is validated by correspondence (the model receives numerator/denominator)"],
        assumptions=["limit setting unchanged within a window for the window-total clause (governance may lower a limit below current usage)"],
    ),
    "C19": dict(
        lean_modules=["PalomaModel.Props.C19"], gen=["Mempool.lean"],
        harness_test="TestC19",
        n_quick=2000, n_thorough=20000, thorough_seeds=8,
        spec_ops=["select", "count"],
        rule="random insert/remove/select/count histories on the real PriorityNonceMempool[int64] with mock sdk.Tx values whose single message type URL is drawn from the five priority classes "
             "(so NewDefaultTxPriority is under test), unique (sender, seq) among pending, priority ties across senders, repeated selects; distinct = distinct canonical history; non-trivial = a select over >= 2 pending txs",
        trusted_base=["huandu/skiplist is abstracted as a list kept sorted by the code's comparator (validated by correspondence)"],
        assumptions=["Admissible = no insert on a pending (sender, sequence) key with a changed priority - stronger than the literal precondition (unique pending keys), which holds for every history and is proved insufficient (keys_unique_always, literal_precondition_insufficient). It is discharged for the wired application by admission_admissible / mempool_wired under the external assumption ACovered (CometBFT re-checks everything the app pool holds after each commit); without re-check the replacement is reachable through the real app (stat finding.fullapp_*, Props/C19.md). NoMin (no pending priority = MinInt64) for completeness and CheckTx priority < MaxInt64-3 for the class clause are proved necessary and hold in the app because TxFeeSkipper returns 42 (model_constants_from_source ties the class table, the 42 and the app.go wiring to the source). Interleaving a live iterator with Insert/Remove is modelled: safety holds, completeness does not (live_remove_current_ends_iteration, live_reinsert_current_panics); baseapp SelectBy does not interleave"],
    ),
    "C02": dict(
        lean_modules=["PalomaModel.Props.C02", "PalomaModel.Props.Consts.C02", "PalomaModel.Props.Translated.C02"], gen=["Consts.lean", "Claims.lean", "Auth.lean", "ConstTable.lean", "Translated.lean"],
        harness_test="TestC02",
        n_quick=150, n_thorough=2000, thorough_seeds=8, timeout_quick=900,
        # every observable of the oracle driver (cursor, observed flags, vote lists, minted total) is the property's own subject
        spec_ops=["vote", "votex", "endblock", "endblock50", "override", "activate", "send", "build", "votel"],
        rule="one honest event per nonce (deposit or executed-batch claim) plus competing claims that differ from it in exactly one field (compass, token, height, amount, sender, receiver, batch nonce); send / build ops; end-blocks whose time is +2 s, exactly at, one second past or 11 min past an open batch's timeout; one case in three opens with a directed batch -> claim -> tally-around-the-timeout history; "
             "per case: fresh skyway keeper fixture with 5 validators; 45 ops: votes (random validator or bursts of 2-4 validators, next/stale/gapped nonce, up to 3 competing deposit claims per nonce incl. one the handler cannot apply, "
             "occasionally a remote height below an earlier one), end-blocks that first install a fresh power table (equal / tiny / random powers, extra outside power) and then tally (every 4th one at a multiple of 50: validator-nonce catch-up), "
             "governance nonce overrides to last / last-1 / ahead; distinct = distinct op text; non-trivial = at least one attestation became observed",
        trusted_base=[SDK_TRUST, "pointwise hash collision freeness on the claims of the history (NoCollisionAt)", "per-chain stores are disjoint (applyM); the harness drives one chain with several bridge deployments"],
        assumptions=["validators stay bonded (checkOrchestratorValidatorInSet); pruning (cutoff 1000 nonces) is not reached"],
    ),
    "C13": dict(
        lean_modules=["PalomaModel.Props.C13", "PalomaModel.Props.Consts.Bridge", "PalomaModel.Props.Consts.C13", "PalomaModel.Props.Translated.C13"], gen=["Atomicity.lean", "ConstTable.lean", "Translated.lean"],
        harness_test="TestBridge", env={"VERIF_PROP": "C13"},
        extra_tests=[{"test": "TestC13Prune", "dir": "C13B", "n_quick": 400, "n_thorough": 4000}],
        n_quick=120, n_thorough=1500, thorough_seeds=8, timeout_quick=900,
        spec_ops=["evidence", "prune", "pubevidence", "pending", "published", "confirm"],
        rule="bridge generator (see C01) with 22% evidence ops: a recorded checkpoint of any batch at any stage of its life (built, re-estimated, cancelled, executed) signed by a validator's real secp256k1 key "
             "is replayed by a third party as MsgSubmitBadSignatureEvidence — genuine (must be refused), forged timeout / forged estimate (jails the signer), or signed by an unregistered key (refused); "
             "distinct = distinct op text; non-trivial = at least one accepted op",
        trusted_base=[SDK_TRUST, "ECDSA recover/verify soundness and keccak collision freeness: a checkpoint is identified by (token, batch nonce, gas estimate, content variant)",
                      "ECDSA recovery over bytes other than the handler's re-derived digest yields an unregistered address; deployment ids are compared as indices", "one remote account per validator on the bridge chain (key registry of the model)"],
        assumptions=[],
    ),
    "C11": dict(
        lean_modules=["PalomaModel.Props.C11"], gen=["Claims.lean", "Auth.lean"],
        harness_test="TestC11",
        extra_tests=[{"test": "TestC11Keeper", "dir": "C11K", "n_quick": 60, "n_thorough": 600}],
        n_quick=1500, n_thorough=20000, thorough_seeds=8,
        spec_ops=[],
        rule="random claims of the three submittable claim types (uint64 fields over edge values, amounts nil/0/negative/2^256-1, strings incl. '/', ',', '=', NUL, non-ASCII, eth and bech32 addresses); "
             "per claim 18 single-field mutations (every effect-bearing field) and re-splits of '/'-joined adjacent free-form fields; real ClaimHash vs the SHA-256 of the model's pre-image built from the generated format table; "
             "for every hashed string field of every claim type values of 20..1000 characters (around 32, 64, 128, 256) changed at the last character, extended by one, changed in the middle (c11LongFields); "
             "distinct = distinct claim text; all cases non-trivial",
        trusted_base=["tmhash (SHA-256) collision freeness is a hypothesis of same_key_same_fields; the executable Lean SHA-256 is validated by the correspondence and test vectors",
                      "the extractor's reading of ClaimHash (format literal, argument list), of the claim structs and of the handlers' `claim.X` selectors (Gen/Claims.lean, printed in evidence)"],
        assumptions=["chain_reference_id is bound by the attestation key's store prefix, not by the hash"],
    ),
    "C16": dict(
        lean_modules=["PalomaModel.Props.C16", "PalomaModel.Props.Consts.C16", "PalomaModel.Props.Translated.C16"], gen=["ConstTable.lean", "Translated.lean"],
        harness_test="TestC16",
        n_quick=150, n_thorough=1500, thorough_seeds=8, timeout_quick=900,
        spec_ops=["*"],  # every observable the driver prints for this property is the property's own subject (canonical state / verdicts)
        rule="full-app fixture (real ante chain and msg router), 4 users + 2 contract stand-ins; histories of 20-31 ops: create / mint / burn / change-admin / set-metadata by any account on own, foreign, not-yet-created, native and malformed denoms "
             "(2 parts, wrong prefix, non-bech32 creator, over-long, illegal characters), fee grants, forged signers, the exported wasm-binding entry points; distinct = distinct op text of the case; non-trivial = at least one accepted op",
        trusted_base=[SDK_TRUST, "no coins exist under a factory-shaped denom at genesis (hypothesis hclean of supply_eq_mints_minus_burns)"],
        assumptions=["wasm PerformMint mints to the contract (the admin) and then the contract itself transfers to mint_to_address: counted as a mint followed by the admin's own transfer"],
    ),
    "C08": dict(
        lean_modules=["PalomaModel.Props.C08", "PalomaModel.Props.Consts.Schedule"], gen=["Nondet.lean", "ConstTable.lean"],
        harness_test="TestC08",
        # the same seeded workloads in a second process built with Go's `faketime` runtime (wall clock = 2009): snapshot
        # publication / keep-warm ages, jail sentences and keep-alive expiry, relayer picks, vesting
        clock_twin=[{"test": "TestC10", "dir": "C10", "n_quick": 60, "n_thorough": 600},
                    {"test": "TestC12", "dir": "C12", "n_quick": 40, "n_thorough": 400},
                    {"test": "TestC14", "dir": "C14", "n_quick": 40, "n_thorough": 400},
                    {"test": "TestC18", "dir": "C18", "n_quick": 30, "n_thorough": 300},
                    # the oracle histories (several claims reaching their quorum in one end blocker): two executions, two map orders
                    {"test": "TestC02", "dir": "C02", "n_quick": 250, "n_thorough": 1500},
                    # pruning with its jailing (order-sensitive protections of valset.Jail): two executions, two map orders
                    {"test": "TestC13Prune", "dir": "C13B", "n_quick": 200, "n_thorough": 2000}],
        n_quick=6, n_thorough=60, thorough_seeds=4, timeout_quick=900,
        spec_ops=[],
        level_text="PARTIAL. Lean 4 theorems: order-independence of every map-iteration on a consensus path (min/max window, total-order sort uniqueness, distinct-key writes, unique evidence winner) and, by decide over the inventory regenerated "
                   "from the typed source on every run, that every map range / environment read / wall-clock read / randomness use is a justified shape. Go runtime behaviour (actual map order, process environment, restart) is exercised, not proved: twin execution of "
                   "the full app comparing AppHash, results hash and per-store digests after every block.",
        rule="twin execution: the same genesis and the same block/tx history on two full-app instances that differ in process environment (every env var the extractor found is set on one twin), restarts (app.New over the same DB at random heights), extra read-only queries between blocks, "
             "and Go's per-run map randomisation; AppHash, LastResultsHash and per-store digests compared after every block; distinct = distinct histories; non-trivial = history with >= 10 delivered paloma txs",
        trusted_base=[SDK_TRUST, "Go map order and process environment can be sampled, not enumerated: named limitation (DESIGN.md C08)"],
        assumptions=[],
    ),
    "C18": dict(
        lean_modules=["PalomaModel.Props.C18", "PalomaModel.Props.Consts.C18", "PalomaModel.Props.Translated.C18"], gen=["ConstTable.lean", "Translated.lean"],
        harness_test="TestC18",
        n_quick=150, n_thorough=1500, thorough_seeds=8, timeout_quick=900,
        spec_ops=["*"],  # every observable the driver prints for this property is the property's own subject (canonical state / verdicts)
        rule="full-app fixture, one validator; signed txs through the real ante chain for licence creation / activation / authentication by any account, sales voted through the real oracle (MsgLightNodeSaleClaim + skyway end-blocker, "
             "so the attestation's cached context is exercised), governance config through the proposal handlers; interleaved licences for several addresses incl. existing accounts, funders with/without (spendable) balance, right/wrong sale contract, "
             "re-activation, vesting sampled at start / mid / end / end+1; distinct = distinct op text of the case; non-trivial = at least one accepted op",
        trusted_base=[SDK_TRUST, "time.AddDate(0, months, 0) is re-implemented in the model (addMonths) and diffed against the EndTime the real code stored; block times are assumed UTC and >= 1970"],
        assumptions=["'only by the licensed address itself' holds as: the signer is the licensee, an address the licensee itself fee-granted (a MsgGrantAllowance is signed by its granter), or a sale client of the configured fee granter when governance set the fee granter to a licensed address (theorems activate_only_by_licensee_or_delegate, activate_only_by_licensee_or_own_delegate; the last case is the known finding C18-feegranter-licensee)"],
    ),
    "C09": dict(
        lean_modules=["PalomaModel.Props.C09", "PalomaModel.Props.C09Gate", "PalomaModel.Props.Consts.Schedule", "PalomaModel.Props.Translated.C09"], gen=["Panics.lean", "ConstTable.lean", "Atomicity.lean", "Translated.lean"],
        harness_test="TestC09",
        # TestC14 (the queue harness) runs here for its `endblock` observable: after the consensus end-blocker every queued
        # message is either fully processed or exactly as it was (estimate elected <=> fees attached), whatever its neighbours did
        extra_tests=[{"test": "TestC09Gate", "dir": "C09G", "n_quick": 4000, "n_thorough": 40000},
                     {"test": "TestC14", "dir": "C14", "n_quick": 150, "n_thorough": 1200},
                     # the bridge module's EndBlock with collaborators that panic (batch build, tally, time-out sweep)
                     {"test": "TestC09Sky", "dir": "C09S", "n_quick": 40, "n_thorough": 400}],
        n_quick=8, n_thorough=8, thorough_seeds=4, timeout_quick=900, timeout_thorough=5000, env_thorough={"VERIF_BLOCKS": "10100"},
        spec_ops=["block", "gate", "endblock", "attestch", "attestref"],
        level_text="PARTIAL. Lean 4 theorems: the per-message loops of the consensus end-blocker treat a failing message exactly as if it were absent (failing_message_is_skipped, every_message_gets_its_turn; tied to the source by the regenerated fact that no statement inside those loops leaves the function with an error); the fee arithmetic on the end-block path is total with explicit error outcomes for every multiplicator (missing, negative, astronomically large) and estimate, and — by decide over the inventory "
                   "regenerated from the typed source on every run (call-graph reachability from every module's Begin/EndBlock, stopping at functions that install a recover) — every explicit panic, Must* call, narrowing sdkmath conversion, sdkmath division, "
                   "unchecked type assertion and slice-to-array conversion on the block path is a harmless kind or individually justified. Panics inside the SDK / wasm / IBC and resource exhaustion are outside the inventory: the full application is fuzzed with hostile values "
                   "at every height class and FinalizeBlock must never err or panic.",
        rule="full application with an active EVM chain; per case a PRNG history up to height 330 (thorough: 10100) with jumps to just before multiples of 10 / 50 / 300 / 303 / 10000: logic calls enqueued with sender lengths 1/20/32 and payloads up to 70 kB, "
             "gas estimates 0 / 1 / 2^63 / 2^64-1 from every validator, relayer-fee upserts with omitted / negative / 10^30 / 2^128 multiplicators, status updates with unknown levels, tokenfactory and bank traffic, creator/signer mismatches; "
             "distinct = distinct histories; non-trivial = at least one message reached the consensus queue",
        trusted_base=[SDK_TRUST, "only Paloma's own packages are walked by the inventory; interface calls are resolved conservatively by method name and implemented interface"],
        assumptions=["bonded stake stays below 2^63 ugrain (bounded by the bond-denom supply)"],
    ),
    "C10": dict(
        lean_modules=["PalomaModel.Props.C10", "PalomaModel.Props.Consts.C10", "PalomaModel.Props.Translated.C10"], gen=["ConstTable.lean", "Translated.lean"],
        harness_test="TestC10",
        n_quick=300, n_thorough=3000, thorough_seeds=6, timeout_quick=900,
        spec_ops=["*"],  # every observable the driver prints for this property is the property's own subject (canonical state / verdicts)
        rule="pure layer: transformSnapshotToCompass / isEnoughToReachConsensus on arbitrary snapshots (stakes 1, equal, 2^53+-1, 2^62, 2^63, adversarial total*k = 1 mod 2^32, the float counterexample; validators with two accounts on one chain) through public entry points and the verif export; "
             "keeper layer on the full app: bond / unbond / jail / external-account registration / chain activation / snapshot build / on-chain activation sequences, observing FindSnapshotByID for every id after every op and the UpdateValset messages in the queue; "
             "distinct = distinct op text; non-trivial = a snapshot or valset was produced",
        trusted_base=[SDK_TRUST, "staking state and relayer-pick success are inputs of the model (observed with the real calls)"],
        assumptions=["StakingWF (SDK staking, an input of the model): the iterator yields each validator once AND bonded => tokens > 0 (staking EndBlock runs before valset EndBlock and leaves Bonded only validators with consensus power >= 1) - used for each-exactly-once, stored_total_pos, build_never_panics; necessity: staking_assumption_needed, bonded_positive_needed", "RegsEvmTyped (registered accounts are EVM-typed; NOT enforced by /repo) - only for the any-account reading of 'restricted to validators with an account there', which is otherwise refuted (sent_restricted_any_account_violated; known finding C10-account-type)"],
    ),
    "C05": dict(
        lean_modules=["PalomaModel.Props.C05", "PalomaModel.Props.SignSource"], gen=["SignBytes.lean"],
        harness_test="TestC05",
        n_quick=300, n_thorough=3000, thorough_seeds=6, timeout_quick=900,
        spec_ops=["bdep"],
        rule="random evm Message values of every action type and random skyway batches: the real Keccak256WithSignedMessage / GetCheckpoint digest vs the Lean Keccak-256 of the model's pre-image (ABI encoder model, proved injective); "
             "single- and multi-field mutation sweep on the real functions (every delivered field must change the bytes); queue ids on a 3-chain full app (put / replace / remove across queues); distinct = distinct op text; all cases non-trivial",
        trusted_base=["Keccak-256 collision freeness is a pointwise hypothesis (NoColl) of the binding theorems; the executable Lean Keccak is validated by test vectors and the correspondence",
                      "go-ethereum abi.Arguments.Pack is modelled by Model/Abi.lean (validated by TestABI correspondence)"],
        assumptions=["message-id theorems are stated for fewer than 2^64 enqueue operations (the counter is a uint64)"],
    ),
    "C07": dict(
        lean_modules=["PalomaModel.Props.C07", "PalomaModel.Props.SignSource"], gen=["SignBytes.lean"],
        harness_test="TestC07",
        n_quick=300, n_thorough=3000, thorough_seeds=6, timeout_quick=900,
        # the attestation verdict and the success effects printed by the driver are the property's own subject
        spec_ops=["attest", "attestev", "used"],
        rule="keeper layer on the full app with an active EVM chain: messages of every action type put in the queue, estimate election, real validator signatures, the real expected call data (compass ABI) wrapped in a real ethtypes.Transaction + receipt, "
             "evidence from a quorum through CheckAndProcessAttestedMessages (one scenario through real MsgAddEvidence txs and the real end blocker); corruptions: single/multi-field edits of the call data, wrong signature-prefix length, failed receipt, "
             "re-submission of a used tx, evidence before estimate election; distinct = distinct op text; non-trivial = an attestation attempt reached the action attester",
        trusted_base=["Keccak-256 collision freeness is a pointwise hypothesis; RLP (de)serialisation of tx/receipt by go-ethereum is used as is on both sides", SDK_TRUST],
        assumptions=["VerifyAgainstTX reads only the call data (destination / chain id / sender of the remote tx are not part of the property)", "update-valset / handover / upload call data carries no message id (compass ABI): twin messages of identical content are interchangeable (Props/C07.md finding 6; theorems what_the_calldata_binds, calldata_does_not_identify_the_message)"],
    ),
    "C03": dict(
        lean_modules=["PalomaModel.Props.C03", "PalomaModel.Props.Translated.C03", "PalomaModel.Props.Consts.C03"], gen=["Auth.lean", "Translated.lean", "ConstTable.lean"],
        harness_test="TestC03",
        # the scheduler histories (TestC17) run here for their `create` / `jobs` observables: "a user's jobs" change only through
        # that user's own transactions — a create by somebody else under any spelling of the id never alters a stored job
        extra_tests=[{"test": "TestC17", "dir": "C17", "n_quick": 150, "n_thorough": 1500}],
        n_quick=700, n_thorough=1500, thorough_seeds=6, timeout_quick=900,
        spec_ops=["dnh", "cbh", "lnh", "xdh", "create", "jobs"],  # directed histories: denom hand-over, batch-confirmation attempts, light-node licences / client records
        rule="multi-message transactions incl. messages that declare NO signer and ride on other messages' signatures (creator = sender / grantee / victim / third party), light-node histories (licences by sale, purchase or legacy grant; register / authenticate as time jumps; strangers running the open migration or acting in another principal's name with and without a fee grant); "
             "full application; for every one of the 41 Msg RPCs (message zoo) and every identity-bearing field: signed by A for itself (B bystander); signed by A with creator = B without / with a fee grant B->A; creator A with one identity field pointed at B; "
             "message built for B but creator/signer A; governance-only messages signed by a user (three variants) and delivered as executed proposal; forged metadata.signers; the monitor diffs every store entry attributed to the victim "
             "(keyed by or mentioning its account / valoper / eth address, decoded queue records) minus what an empty block changes; distinct = distinct op text; all cases non-trivial",
        trusted_base=[SDK_TRUST, "the extractor's reading of the msg-server handlers (Gen/Auth.lean, printed in evidence); SDK signature verification and feegrant lookups are used as they are"],
        assumptions=["a fee grant is total delegation (the property says so); handlers classified `open` with a reason in Props/C03.lean: RemoveSmartContractDeployment, SetLegacyLightNodeClients (workflow state anyone may trigger)"],
    ),
    "C06": dict(
        lean_modules=["PalomaModel.Props.C06", "PalomaModel.Props.Consts.Queue", "PalomaModel.Props.Translated.C06"], gen=["ConstTable.lean", "Translated.lean"],
        harness_test="TestC06",
        n_quick=300, n_thorough=2500, thorough_seeds=6, timeout_quick=900,
        spec_ops=["*"],  # every observable the driver prints for this property is the property's own subject (canonical state / verdicts)
        rule="full application with an active EVM chain: histories of enqueue, sign (valid, invalid, wrong key, duplicate validator / key, alias spellings of a key), gas-estimate submission and election, fee attachment by replace-put, "
             "batch confirmations before and after estimate election, key re-registration and take-over of a released address; after EVERY op every stored SignData and batch confirm is re-verified with real secp256k1 against the item's current signing bytes; "
             "distinct = distinct op text; non-trivial = at least one signature stored",
        trusted_base=[SDK_TRUST, "ECDSA recover/verify soundness; signing bytes are abstract versions in the model (their concrete dependence on the fields is C05)"],
        assumptions=["ReassignOrphanedMessages (keeps signatures while changing the relayer) has no caller in the repository (checked by the harness and by grep)"],
    ),
    "C14": dict(
        lean_modules=["PalomaModel.Props.C14", "PalomaModel.Props.Consts.Queue", "PalomaModel.Props.Translated.C14"], gen=["ConstTable.lean", "Translated.lean"],
        harness_test="TestC14",
        extra_tests=[{"test": "TestC14Fees", "dir": "C14F", "n_quick": 300, "n_thorough": 3000}],
        n_quick=300, n_thorough=2500, thorough_seeds=6, timeout_quick=900,
        spec_ops=["*"],  # every observable the driver prints for this property is the property's own subject (canonical state / verdicts)
        rule="full application: snapshots, metrics, fee tables, trait sets and MEV requirement flags incl. score ties and missing records; queues mixing UpdateValset / SubmitLogicCall / UploadUserSmartContract with several senders (incl. empty), "
             "assignees, estimate states, delivery / error reports; GetMessagesForRelaying of every validator vs the model's `offered`; fees vs an independent big-rational ceil; distinct = distinct op text; non-trivial = a message was assigned",
        trusted_base=[SDK_TRUST, "relayer scores are modelled in exact LegacyDec arithmetic (banker's rounding, truncating division), validated by correspondence"],
        assumptions=[],
    ),
    "C12": dict(
        lean_modules=["PalomaModel.Props.C12", "PalomaModel.Props.Consts.C12", "PalomaModel.Props.Translated.C12"], gen=["ConstTable.lean", "Translated.lean"],
        harness_test="TestC12",
        n_quick=300, n_thorough=3000, thorough_seeds=6, timeout_quick=900,
        spec_ops=["*"],  # every observable the driver prints for this property is the property's own subject (canonical state / verdicts)
        rule="mock world (real valset keeper + AppModule Begin/EndBlock + msg server + gov handler over a fake staking/slashing view) with ARBITRARY address bytes (0x2c anywhere, all-0x2c, prefixes of one another, 'hex:'-looking, 1-32 bytes) and the full app with operator keys filtered "
             "so that about half of the addresses contain 0x2c; histories of keep-alives (good / old / invalid versions), block advancement over sweep heights incl. real 2000-block expiries, jail / unjail / bond / unbond, stake distributions with whales and exact-quarter stakes, "
             "minimum-version changes through real governance; distinct = distinct op text; non-trivial = at least one sweep ran",
        trusted_base=[SDK_TRUST, "the float64 share test equals 4*p > total for totals below 2^53 (powers are kept below 2^50, exact boundary included)", "semver.Compare is modelled by an order-preserving key, validated against the real function"],
        assumptions=[],
    ),
    "C17": dict(
        lean_modules=["PalomaModel.Props.C17", "PalomaModel.Props.Consts.C17", "PalomaModel.Props.Translated.C17"], gen=["ConstTable.lean", "Translated.lean"],
        harness_test="TestC17",
        n_quick=300, n_thorough=3000, thorough_seeds=6, timeout_quick=900,
        spec_ops=["*"],  # every observable the driver prints for this property is the property's own subject (canonical state / verdicts)
        rule="full application with three chains (active with MEV, supported-but-idle, active) plus unregistered targets: create / execute requests as signed txs through ante + router, through the real wasm bindings (create_job, execute_job, legacy fallback) "
             "and through SchedulerKeeper.ExecuteJob with arbitrary sender / contract bytes (nil, empty, 20, 32, 33 bytes); modifiable and fixed jobs, duplicate ids, supplied payload absent / empty / malformed / bytes, relayer outage (fee records removed), "
             "new snapshots with the MEV trait toggled, explicit end-blocks; observed: job store digest and the NEW messages in each chain's turnstone queue; distinct = distinct op text; non-trivial = at least one successful execution",
        trusted_base=[SDK_TRUST, "relayer selection success is an input of the model (C14 proves which validator is picked)"],
        assumptions=[],
    ),
}

LEVEL_TEXT = ("Lean 4 theorems (all inputs / histories / fault points, no bounds) about an executable model of the code; the model is tied to the Go code on "
              "every run by differential correspondence on PRNG-derived inputs plus property monitors evaluated on the real implementation")
NOT_APPLICABLE = {}
