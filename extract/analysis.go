package main

import (
	"fmt"
	"go/ast"
	"go/token"
	"go/types"
	"os"
	"sort"
	"strings"

	"golang.org/x/tools/go/packages"
)

// typed view of the repository's own packages (no tests, no hooks behind the verif tag)
type funcInfo struct {
	obj  *types.Func
	decl *ast.FuncDecl
	pkg  *packages.Package
	file *ast.File
}

type world struct {
	pkgs  []*packages.Package
	funcs map[*types.Func]*funcInfo
	byKey map[string]*funcInfo
}

const modPath = "github.com/palomachain/paloma/v2"

func loadWorld() *world {
	cfg := &packages.Config{
		Mode: packages.NeedName | packages.NeedFiles | packages.NeedSyntax | packages.NeedTypes | packages.NeedTypesInfo | packages.NeedImports | packages.NeedDeps,
		Dir:  *repo,
		Env:  append(os.Environ(), "GOFLAGS=-mod=mod", "GOPROXY=off", "GOSUMDB=off"),
		Fset: fset,
	}
	pkgs, err := packages.Load(cfg, "./x/...", "./util/...", "./app/...", "./internal/...")
	if err != nil {
		fail("packages.Load: %v", err)
	}
	w := &world{funcs: map[*types.Func]*funcInfo{}, byKey: map[string]*funcInfo{}}
	for _, p := range pkgs {
		if len(p.Errors) > 0 {
			fail("package %s does not type-check: %v", p.PkgPath, p.Errors[0])
		}
		w.pkgs = append(w.pkgs, p)
		for _, f := range p.Syntax {
			name := fset.Position(f.Pos()).Filename
			if strings.HasSuffix(name, "_test.go") || hasVerifTag(f) {
				continue
			}
			for _, d := range f.Decls {
				fd, ok := d.(*ast.FuncDecl)
				if !ok || fd.Body == nil {
					continue
				}
				obj, _ := p.TypesInfo.Defs[fd.Name].(*types.Func)
				if obj == nil {
					continue
				}
				fi := &funcInfo{obj, fd, p, f}
				w.funcs[obj] = fi
				w.byKey[funcKey(obj)] = fi
			}
		}
	}
	sort.Slice(w.pkgs, func(i, j int) bool { return w.pkgs[i].PkgPath < w.pkgs[j].PkgPath })
	return w
}

// funcKey: "x/skyway/keeper.Keeper.TryAttestation" / "x/skyway.EndBlocker"
func funcKey(f *types.Func) string {
	pkg := ""
	if f.Pkg() != nil {
		pkg = strings.TrimPrefix(strings.TrimPrefix(f.Pkg().Path(), modPath), "/")
	}
	sig, _ := f.Type().(*types.Signature)
	if sig != nil && sig.Recv() != nil {
		t := sig.Recv().Type()
		if p, ok := t.(*types.Pointer); ok {
			t = p.Elem()
		}
		if n, ok := t.(*types.Named); ok {
			return fmt.Sprintf("%s.%s.%s", pkg, n.Obj().Name(), f.Name())
		}
		// generic or unnamed receiver
		s := t.String()
		if i := strings.LastIndex(s, "."); i >= 0 {
			s = s[i+1:]
		}
		if i := strings.Index(s, "["); i >= 0 {
			s = s[:i]
		}
		return fmt.Sprintf("%s.%s.%s", pkg, s, f.Name())
	}
	return fmt.Sprintf("%s.%s", pkg, f.Name())
}

func isOwn(p *types.Package) bool { return p != nil && strings.HasPrefix(p.Path(), modPath) }

// excluded from consensus-path inventories: CLI, simulation, test helpers, mocks, generated gateway code
func offPath(fi *funcInfo) bool {
	p := fi.pkg.PkgPath
	name := fset.Position(fi.file.Pos()).Filename
	for _, s := range []string{"/client/", "/simulation", "/testutil", "/mocks", "/types/mocks"} {
		if strings.Contains(p+"/", s+"") || strings.Contains(p, s) {
			return true
		}
	}
	for _, s := range []string{"test_common.go", ".pb.gw.go", "_mock.go"} {
		if strings.HasSuffix(name, s) {
			return true
		}
	}
	return false
}

// callees of a function body: static functions and concrete methods are resolved exactly,
// interface method calls conservatively to every own method with that name whose receiver
// implements the interface.
func (w *world) callees(fi *funcInfo) []*types.Func {
	seen := map[*types.Func]bool{}
	var out []*types.Func
	add := func(f *types.Func) {
		if f != nil && !seen[f] {
			seen[f] = true
			out = append(out, f)
		}
	}
	info := fi.pkg.TypesInfo
	ast.Inspect(fi.decl.Body, func(n ast.Node) bool {
		ce, ok := n.(*ast.CallExpr)
		if !ok {
			return true
		}
		var id *ast.Ident
		switch f := ce.Fun.(type) {
		case *ast.Ident:
			id = f
		case *ast.SelectorExpr:
			id = f.Sel
		case *ast.IndexExpr: // generic instantiation f[T](…)
			switch g := f.X.(type) {
			case *ast.Ident:
				id = g
			case *ast.SelectorExpr:
				id = g.Sel
			}
		}
		if id == nil {
			return true
		}
		fn, _ := info.Uses[id].(*types.Func)
		if fn == nil {
			return true
		}
		fn = fn.Origin()
		sig, _ := fn.Type().(*types.Signature)
		if sig != nil && sig.Recv() != nil {
			if _, isIface := sig.Recv().Type().Underlying().(*types.Interface); isIface {
				iface := sig.Recv().Type().Underlying().(*types.Interface)
				for cand, cfi := range w.funcs {
					if cand.Name() != fn.Name() {
						continue
					}
					csig, _ := cand.Type().(*types.Signature)
					if csig == nil || csig.Recv() == nil {
						continue
					}
					rt := csig.Recv().Type()
					if types.Implements(rt, iface) || types.Implements(types.NewPointer(rt), iface) {
						_ = cfi
						add(cand)
					}
				}
				return true
			}
		}
		add(fn)
		return true
	})
	sort.Slice(out, func(i, j int) bool { return funcKey(out[i]) < funcKey(out[j]) })
	return out
}

func hasRecover(fd *ast.FuncDecl) bool {
	found := false
	ast.Inspect(fd.Body, func(n ast.Node) bool {
		if ce, ok := n.(*ast.CallExpr); ok {
			if id, ok := ce.Fun.(*ast.Ident); ok && id.Name == "recover" {
				found = true
			}
		}
		return true
	})
	return found
}

// reach: own functions reachable from the roots. stopAtRecover: do not descend below a
// function that installs a recover (everything it calls is protected).
func (w *world) reach(roots []*funcInfo, stopAtRecover bool) map[*types.Func]string {
	via := map[*types.Func]string{}
	var queue []*funcInfo
	for _, r := range roots {
		if _, ok := via[r.obj]; !ok {
			via[r.obj] = "(entry)"
			queue = append(queue, r)
		}
	}
	for len(queue) > 0 {
		fi := queue[0]
		queue = queue[1:]
		if stopAtRecover && hasRecover(fi.decl) {
			continue
		}
		for _, c := range w.callees(fi) {
			cfi := w.funcs[c]
			if cfi == nil || offPath(cfi) {
				continue
			}
			if _, ok := via[c]; !ok {
				via[c] = funcKey(fi.obj)
				queue = append(queue, cfi)
			}
		}
	}
	return via
}

func (w *world) entryPoints(names ...string) []*funcInfo {
	want := map[string]bool{}
	for _, n := range names {
		want[n] = true
	}
	var out []*funcInfo
	for obj, fi := range w.funcs {
		if want[obj.Name()] && !offPath(fi) {
			out = append(out, fi)
		}
	}
	sort.Slice(out, func(i, j int) bool { return funcKey(out[i].obj) < funcKey(out[j].obj) })
	return out
}

func posOf(p token.Pos) string {
	pp := fset.Position(p)
	return fmt.Sprintf("%s:%d", strings.TrimPrefix(pp.Filename, *repo+"/"), pp.Line)
}
