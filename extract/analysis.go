package main

import (
	"fmt"
	"go/ast"
	"go/token"
	"go/types"
	"os"
	"sort"
	"strings"

	"golang.org/x/tools/go/packages"
)

// typed view of the repository's own packages (no tests, no hooks behind the verif tag)
type funcInfo struct {
	obj  *types.Func
	decl *ast.FuncDecl
	pkg  *packages.Package
	file *ast.File
}

type world struct {
	pkgs  []*packages.Package
	funcs map[*types.Func]*funcInfo
	byKey map[string]*funcInfo
	// package-level variables with an initialiser: a function that mentions the variable may end up
	// calling whatever function values the initialiser stores (e.g. the table of attestation callbacks)
	varInit map[*types.Var]varInit
}

type varInit struct {
	expr ast.Expr
	pkg  *packages.Package
}

const modPath = "github.com/palomachain/paloma/v2"

func loadWorld() *world {
	cfg := &packages.Config{
		Mode: packages.NeedName | packages.NeedFiles | packages.NeedSyntax | packages.NeedTypes | packages.NeedTypesInfo | packages.NeedImports | packages.NeedDeps,
		Dir:  *repo,
		Env:  append(os.Environ(), "GOFLAGS=-mod=mod", "GOPROXY=off", "GOSUMDB=off"),
		Fset: fset,
	}
	pkgs, err := packages.Load(cfg, "./x/...", "./util/...", "./app/...", "./internal/...")
	if err != nil {
		fail("packages.Load: %v", err)
	}
	w := &world{funcs: map[*types.Func]*funcInfo{}, byKey: map[string]*funcInfo{}, varInit: map[*types.Var]varInit{}}
	for _, p := range pkgs {
		if len(p.Errors) > 0 {
			fail("package %s does not type-check: %v", p.PkgPath, p.Errors[0])
		}
		w.pkgs = append(w.pkgs, p)
		for _, f := range p.Syntax {
			name := fset.Position(f.Pos()).Filename
			if strings.HasSuffix(name, "_test.go") || hasVerifTag(f) {
				continue
			}
			for _, d := range f.Decls {
				if gd, ok := d.(*ast.GenDecl); ok && gd.Tok == token.VAR {
					for _, sp := range gd.Specs {
						vs := sp.(*ast.ValueSpec)
						for i, n := range vs.Names {
							if v, _ := p.TypesInfo.Defs[n].(*types.Var); v != nil && len(vs.Values) > 0 {
								e := vs.Values[0]
								if len(vs.Values) == len(vs.Names) {
									e = vs.Values[i]
								}
								w.varInit[v] = varInit{e, p}
							}
						}
					}
					continue
				}
				fd, ok := d.(*ast.FuncDecl)
				if !ok || fd.Body == nil {
					continue
				}
				obj, _ := p.TypesInfo.Defs[fd.Name].(*types.Func)
				if obj == nil {
					continue
				}
				fi := &funcInfo{obj, fd, p, f}
				w.funcs[obj] = fi
				w.byKey[funcKey(obj)] = fi
			}
		}
	}
	sort.Slice(w.pkgs, func(i, j int) bool { return w.pkgs[i].PkgPath < w.pkgs[j].PkgPath })
	return w
}

// funcKey: "x/skyway/keeper.Keeper.TryAttestation" / "x/skyway.EndBlocker"
func funcKey(f *types.Func) string {
	pkg := ""
	if f.Pkg() != nil {
		pkg = strings.TrimPrefix(strings.TrimPrefix(f.Pkg().Path(), modPath), "/")
	}
	sig, _ := f.Type().(*types.Signature)
	if sig != nil && sig.Recv() != nil {
		t := sig.Recv().Type()
		if p, ok := t.(*types.Pointer); ok {
			t = p.Elem()
		}
		if n, ok := t.(*types.Named); ok {
			return fmt.Sprintf("%s.%s.%s", pkg, n.Obj().Name(), f.Name())
		}
		// generic or unnamed receiver
		s := t.String()
		if i := strings.LastIndex(s, "."); i >= 0 {
			s = s[i+1:]
		}
		if i := strings.Index(s, "["); i >= 0 {
			s = s[:i]
		}
		return fmt.Sprintf("%s.%s.%s", pkg, s, f.Name())
	}
	return fmt.Sprintf("%s.%s", pkg, f.Name())
}

func isOwn(p *types.Package) bool { return p != nil && strings.HasPrefix(p.Path(), modPath) }

// excluded from consensus-path inventories: CLI, simulation, test helpers, mocks, generated gateway code
func offPathPkg(p string) bool {
	for _, s := range []string{"/client/", "/simulation", "/testutil", "/mocks", "/types/mocks"} {
		if strings.Contains(p+"/", s) || strings.Contains(p, s) {
			return true
		}
	}
	return false
}

func offPath(fi *funcInfo) bool {
	p := fi.pkg.PkgPath
	name := fset.Position(fi.file.Pos()).Filename
	for _, s := range []string{"/client/", "/simulation", "/testutil", "/mocks", "/types/mocks"} {
		if strings.Contains(p+"/", s+"") || strings.Contains(p, s) {
			return true
		}
	}
	for _, s := range []string{"test_common.go", ".pb.gw.go", "_mock.go"} {
		if strings.HasSuffix(name, s) {
			return true
		}
	}
	return false
}

// callees of a function body (function literals included): every own function or concrete method the
// body mentions - called or taken as a value - is resolved exactly,
// interface method calls conservatively to every own method with that name whose receiver
// implements the interface.
func (w *world) callees(fi *funcInfo) []*types.Func {
	seen := map[*types.Func]bool{}
	var out []*types.Func
	add := func(f *types.Func) {
		if f != nil && !seen[f] {
			seen[f] = true
			out = append(out, f)
		}
	}
	// every USE of a function or method counts, called on the spot or passed on as a value
	// (callbacks such as `AttestFn: k.attestRouter` are invoked later through the field)
	seenVar := map[*types.Var]bool{}
	var visit func(root ast.Node, info *types.Info)
	visit = func(root ast.Node, info *types.Info) {
		ast.Inspect(root, func(n ast.Node) bool {
			id, ok := n.(*ast.Ident)
			if !ok {
				return true
			}
			if v, _ := info.Uses[id].(*types.Var); v != nil {
				if vi, ok := w.varInit[v]; ok && !seenVar[v] {
					seenVar[v] = true
					visit(vi.expr, vi.pkg.TypesInfo)
				}
				return true
			}
			fn, _ := info.Uses[id].(*types.Func)
			if fn == nil {
				return true
			}
			fn = fn.Origin()
			sig, _ := fn.Type().(*types.Signature)
			if sig != nil && sig.Recv() != nil {
				if _, isIface := sig.Recv().Type().Underlying().(*types.Interface); isIface {
					iface := sig.Recv().Type().Underlying().(*types.Interface)
					for cand, cfi := range w.funcs {
						if cand.Name() != fn.Name() {
							continue
						}
						csig, _ := cand.Type().(*types.Signature)
						if csig == nil || csig.Recv() == nil {
							continue
						}
						rt := csig.Recv().Type()
						if types.Implements(rt, iface) || types.Implements(types.NewPointer(rt), iface) {
							_ = cfi
							add(cand)
						}
					}
					return true
				}
			}
			add(fn)
			return true
		})
	}
	visit(fi.decl.Body, fi.pkg.TypesInfo)
	sort.Slice(out, func(i, j int) bool { return funcKey(out[i]) < funcKey(out[j]) })
	return out
}

func hasRecover(fd *ast.FuncDecl) bool {
	found := false
	ast.Inspect(fd.Body, func(n ast.Node) bool {
		if ce, ok := n.(*ast.CallExpr); ok {
			if id, ok := ce.Fun.(*ast.Ident); ok && id.Name == "recover" {
				found = true
			}
		}
		return true
	})
	return found
}

// reach: own functions reachable from the roots. stopAtRecover: do not descend below a
// function that installs a recover (everything it calls is protected).
func (w *world) reach(roots []*funcInfo, stopAtRecover bool) map[*types.Func]string {
	via := map[*types.Func]string{}
	var queue []*funcInfo
	for _, r := range roots {
		if _, ok := via[r.obj]; !ok {
			via[r.obj] = "(entry)"
			queue = append(queue, r)
		}
	}
	for len(queue) > 0 {
		fi := queue[0]
		queue = queue[1:]
		if stopAtRecover && hasRecover(fi.decl) {
			continue
		}
		for _, c := range w.callees(fi) {
			cfi := w.funcs[c]
			if cfi == nil || offPath(cfi) {
				continue
			}
			if _, ok := via[c]; !ok {
				via[c] = funcKey(fi.obj)
				queue = append(queue, cfi)
			}
		}
	}
	return via
}

func (w *world) entryPoints(names ...string) []*funcInfo {
	want := map[string]bool{}
	for _, n := range names {
		want[n] = true
	}
	var out []*funcInfo
	for obj, fi := range w.funcs {
		if want[obj.Name()] && !offPath(fi) {
			out = append(out, fi)
		}
	}
	sort.Slice(out, func(i, j int) bool { return funcKey(out[i].obj) < funcKey(out[j].obj) })
	return out
}

func posOf(p token.Pos) string {
	pp := fset.Position(p)
	return fmt.Sprintf("%s:%d", strings.TrimPrefix(pp.Filename, *repo+"/"), pp.Line)
}
