package main

import (
	"fmt"
	"go/ast"
	"go/token"
	"go/types"
	"sort"
	"strings"
)

// genNondet: every source of run-to-run nondeterminism in the repository's own consensus-side
// code: ranges over maps (classified by what the loop body does), reads of the process
// environment, wall-clock reads, randomness; plus the receiver kind of the relayer assigner.
func genNondet(w *world) {
	type row struct{ key, fn, expr, kind, pos string }
	var rows []row
	var envs, clocks, rands, zones []row
	for _, fi := range w.funcs {
		if offPath(fi) {
			continue
		}
		info := fi.pkg.TypesInfo
		fkey := funcKey(fi.obj)
		ast.Inspect(fi.decl.Body, func(n ast.Node) bool {
			switch s := n.(type) {
			case *ast.RangeStmt:
				tv, ok := info.Types[s.X]
				if !ok {
					return true
				}
				if _, isMap := tv.Type.Underlying().(*types.Map); !isMap {
					return true
				}
				rows = append(rows, row{fkey + "#" + src(s.X), fkey, src(s.X), classifyMapRange(fi, s), posOf(s.Pos())})
			case *ast.CallExpr:
				t := src(s.Fun)
				switch {
				case t == "os.Getenv" || t == "os.LookupEnv" || t == "os.Environ":
					envs = append(envs, row{fkey + "#" + src(s), fkey, src(s), "env", posOf(s.Pos())})
				case t == "time.Now" || t == "time.Since" || t == "time.Until":
					clocks = append(clocks, row{fkey + "#" + t, fkey, t, "clock", posOf(s.Pos())})
				case strings.HasPrefix(t, "rand.") || strings.HasPrefix(t, "mathrand.") || strings.HasPrefix(t, "crand."):
					rands = append(rands, row{fkey + "#" + t, fkey, t, "rand", posOf(s.Pos())})
				case t == "time.Unix" || t == "time.UnixMilli" || t == "time.UnixMicro" || t == "time.LoadLocation" || t == "time.ParseInLocation" || strings.HasSuffix(t, ".Local"):
					// these produce / depend on the process-local time zone (TZ)
					zones = append(zones, row{fkey + "#" + t, fkey, t, "local-zone", posOf(s.Pos())})
				}
			}
			return true
		})
	}
	for _, l := range []*[]row{&rows, &envs, &clocks, &rands, &zones} {
		sort.Slice(*l, func(i, j int) bool { return (*l)[i].key+(*l)[i].pos < (*l)[j].key+(*l)[j].pos })
	}
	var b strings.Builder
	b.WriteString("namespace Paloma.Gen.Nondet\n\n")
	b.WriteString("structure Site where\n  fn : String\n  expr : String\n  kind : String\n  pos : String\nderiving Repr\n\n")
	wr := func(name string, l []row) {
		fmt.Fprintf(&b, "def %s : List Site := [\n", name)
		for i, r := range l {
			fmt.Fprintf(&b, "  { fn := %s, expr := %s, kind := %s, pos := %s }", leanStr(r.fn), leanStr(r.expr), leanStr(r.kind), leanStr(r.pos))
			if i < len(l)-1 {
				b.WriteString(",")
			}
			b.WriteString("\n")
		}
		b.WriteString("]\n\n")
	}
	wr("mapRanges", rows)
	wr("envReads", envs)
	wr("clockReads", clocks)
	wr("randomUses", rands)
	wr("localZoneUses", zones)
	// receiver kind of the relayer assigner: a value receiver cannot keep its score cache between calls
	recv := "unknown"
	if fi := w.byKey["x/evm/keeper.msgAssigner.PickValidatorForMessage"]; fi != nil {
		recv = "value"
		if _, ok := fi.decl.Recv.List[0].Type.(*ast.StarExpr); ok {
			recv = "pointer"
		}
	}
	fmt.Fprintf(&b, "def assignerReceiver : String := %s\n\n", leanStr(recv))
	// package-level variables that some function WRITES (assignment, element / field assignment, append,
	// ++/--, address taken): in-memory state that survives from one block or query to the next and is
	// lost at a restart. Error sentinels, codecs and tables that are only read are not listed.
	type gvar struct {
		name, typ string
		writers   []string
	}
	var gvars []gvar
	pkgVars := map[*types.Var]bool{}
	for _, p := range w.pkgs {
		if offPathPkg(p.PkgPath) {
			continue
		}
		sc := p.Types.Scope()
		for _, n := range sc.Names() {
			if v, ok := sc.Lookup(n).(*types.Var); ok {
				pkgVars[v] = true
			}
		}
	}
	writers := map[*types.Var]map[string]bool{}
	note := func(info *types.Info, e ast.Expr, fn string) {
		for {
			switch x := e.(type) {
			case *ast.IndexExpr:
				e = x.X
				continue
			case *ast.SelectorExpr:
				if id, ok := x.X.(*ast.Ident); ok {
					if _, isPkg := info.Uses[id].(*types.PkgName); isPkg {
						e = x.Sel
						continue
					}
				}
				e = x.X
				continue
			case *ast.StarExpr:
				e = x.X
				continue
			case *ast.ParenExpr:
				e = x.X
				continue
			}
			break
		}
		if id, ok := e.(*ast.Ident); ok {
			if v, ok := info.Uses[id].(*types.Var); ok && pkgVars[v] {
				if writers[v] == nil {
					writers[v] = map[string]bool{}
				}
				writers[v][fn] = true
			}
		}
	}
	for _, fi := range w.funcs {
		if offPath(fi) || fi.obj.Name() == "init" {
			continue
		}
		info := fi.pkg.TypesInfo
		fkey := funcKey(fi.obj)
		ast.Inspect(fi.decl.Body, func(n ast.Node) bool {
			switch s := n.(type) {
			case *ast.AssignStmt:
				if s.Tok.String() != ":=" {
					for _, l := range s.Lhs {
						note(info, l, fkey)
					}
				}
			case *ast.IncDecStmt:
				note(info, s.X, fkey)
			case *ast.UnaryExpr:
				if s.Op.String() == "&" {
					note(info, s.X, fkey)
				}
			}
			return true
		})
	}
	for v, ws := range writers {
		if strings.HasSuffix(v.Name(), "_serviceDesc") {
			continue // generated gRPC descriptors, handed to the router by address at wiring time
		}
		var l []string
		for f := range ws {
			l = append(l, f)
		}
		sort.Strings(l)
		gvars = append(gvars, gvar{strings.TrimPrefix(strings.TrimPrefix(v.Pkg().Path(), modPath), "/") + "." + v.Name(), v.Type().String(), l})
	}
	sort.Slice(gvars, func(i, j int) bool { return gvars[i].name < gvars[j].name })
	b.WriteString("structure GlobalVar where\n  name : String\n  type : String\n  writers : List String\nderiving Repr\n\n")
	b.WriteString("/-- package-level variables written by some function other than `init` (process-local state) -/\n")
	b.WriteString("def writtenGlobals : List GlobalVar := [\n")
	for i, g := range gvars {
		fmt.Fprintf(&b, "  { name := %s, type := %s, writers := %s }", leanStr(g.name), leanStr(g.typ), leanStrList(g.writers))
		if i < len(gvars)-1 {
			b.WriteString(",")
		}
		b.WriteString("\n")
	}
	b.WriteString("]\n\n")
	// methods that write THROUGH their receiver: a field of a pointer receiver, or — for any receiver — an element
	// of a map / a field behind a pointer reached from the receiver.  For a long-lived object (keeper, msg server,
	// module) that is in-memory state surviving from one transaction, block or query to the next.
	type rwrite struct{ fn, recv, lhs string }
	var rws []rwrite
	for _, fi := range w.funcs {
		if offPath(fi) || fi.decl.Recv == nil || len(fi.decl.Recv.List) != 1 || len(fi.decl.Recv.List[0].Names) != 1 {
			continue
		}
		fname := fset.Position(fi.decl.Pos()).Filename
		if strings.HasSuffix(fname, ".pb.go") || strings.HasSuffix(fname, ".pb.gw.go") {
			continue
		}
		// long-lived objects only: keepers, msg / query servers, modules, ante decorators, wasm plugins,
		// proposal handlers (data objects — messages, results, iterators — live for one call)
		rt := src(fi.decl.Recv.List[0].Type)
		longLived := false
		for _, mark := range []string{"Keeper", "msgServer", "queryServer", "AppModule", "Messenger", "Decorator", "Handler", "Plugin", "Querier"} {
			if strings.Contains(rt, mark) {
				longLived = true
			}
		}
		if !longLived {
			continue
		}
		info := fi.pkg.TypesInfo
		recvID := fi.decl.Recv.List[0].Names[0]
		recvObj := info.Defs[recvID]
		_, ptrRecv := fi.decl.Recv.List[0].Type.(*ast.StarExpr)
		fkey := funcKey(fi.obj)
		check := func(lhs ast.Expr) {
			// walk to the root; remember whether the path goes through a map index, slice index or pointer deref
			through := false
			e := lhs
			depth := 0
			for {
				switch x := e.(type) {
				case *ast.IndexExpr:
					through = true
					e = x.X
					depth++
					continue
				case *ast.SelectorExpr:
					if tv, ok := info.Types[x.X]; ok {
						if _, isPtr := tv.Type.Underlying().(*types.Pointer); isPtr {
							if _, isID := x.X.(*ast.Ident); !isID {
								through = true
							}
						}
					}
					e = x.X
					depth++
					continue
				case *ast.StarExpr:
					through = true
					e = x.X
					depth++
					continue
				case *ast.ParenExpr:
					e = x.X
					continue
				}
				break
			}
			id, ok := e.(*ast.Ident)
			if !ok || depth == 0 || info.Uses[id] != recvObj {
				return
			}
			if ptrRecv || through {
				rws = append(rws, rwrite{fkey, src(fi.decl.Recv.List[0].Type), src(lhs)})
			}
		}
		ast.Inspect(fi.decl.Body, func(n ast.Node) bool {
			switch st := n.(type) {
			case *ast.AssignStmt:
				if st.Tok.String() != ":=" {
					for _, l := range st.Lhs {
						check(l)
					}
				}
			case *ast.IncDecStmt:
				check(st.X)
			case *ast.CallExpr:
				if id, ok := st.Fun.(*ast.Ident); ok && (id.Name == "delete" || id.Name == "clear") && len(st.Args) > 0 {
					check(&ast.IndexExpr{X: st.Args[0], Index: ast.NewIdent("_")})
				}
			}
			return true
		})
	}
	sort.Slice(rws, func(i, j int) bool { return rws[i].fn+rws[i].lhs < rws[j].fn+rws[j].lhs })
	// who calls the writers (static callees over the whole module, app wiring included)
	callersOf := map[string][]string{}
	for _, fi := range w.funcs {
		for _, c := range w.callees(fi) {
			k := funcKey(c)
			for _, r := range rws {
				if r.fn == k {
					callersOf[k] = append(callersOf[k], funcKey(fi.obj))
					break
				}
			}
		}
	}
	b.WriteString("/-- writes through the receiver of a long-lived object (function, receiver type, written location, callers) -/\n")
	b.WriteString("def receiverWrites : List (String × String × String × List String) := [\n")
	for i, r := range rws {
		cs := callersOf[r.fn]
		sort.Strings(cs)
		var uniq []string
		for j, c := range cs {
			if j == 0 || cs[j-1] != c {
				uniq = append(uniq, c)
			}
		}
		fmt.Fprintf(&b, "  (%s, %s, %s, %s)", leanStr(r.fn), leanStr(r.recv), leanStr(r.lhs), leanStrList(uniq))
		if i < len(rws)-1 {
			b.WriteString(",")
		}
		b.WriteString("\n")
	}
	b.WriteString("]\n\n")
	// who changes the subscriber tables of the process-wide event bus
	var subs []string
	for _, fi := range w.funcs {
		if offPath(fi) {
			continue
		}
		info := fi.pkg.TypesInfo
		ast.Inspect(fi.decl.Body, func(n ast.Node) bool {
			ce, ok := n.(*ast.CallExpr)
			if !ok {
				return true
			}
			sel, ok := ce.Fun.(*ast.SelectorExpr)
			if !ok || (sel.Sel.Name != "Subscribe" && sel.Sel.Name != "Unsubscribe") {
				return true
			}
			if tv, ok := info.Types[sel.X]; ok && strings.Contains(tv.Type.String(), "/util/eventbus.Event[") {
				subs = append(subs, funcKey(fi.obj)+"#"+sel.Sel.Name)
			}
			return true
		})
	}
	sort.Strings(subs)
	b.WriteString("/-- functions that change the subscriber table of a process-wide event-bus event -/\n")
	b.WriteString("def eventBusSubscriptions : List String := " + leanStrList(subs) + "\n\n")
	// what a function can still do differently AFTER it has looked at the environment: error returns
	// (a different transaction result) and keeper calls (state access)
	b.WriteString("structure EnvRegion where\n  fn : String\n  errorReturns : List String\n  keeperCalls : List String\nderiving Repr\n\n")
	b.WriteString("def envRegions : List EnvRegion := [\n")
	for i, e := range envs {
		fi := w.byKey[e.fn]
		var rets, calls []string
		seenCall := map[string]bool{}
		recvName := ""
		if fi.decl.Recv != nil && len(fi.decl.Recv.List) == 1 && len(fi.decl.Recv.List[0].Names) == 1 {
			recvName = fi.decl.Recv.List[0].Names[0].Name
		}
		var readPos token.Pos
		ast.Inspect(fi.decl.Body, func(n ast.Node) bool {
			if ce, ok := n.(*ast.CallExpr); ok && src(ce) == e.expr && readPos == 0 {
				readPos = ce.Pos()
			}
			return true
		})
		ast.Inspect(fi.decl.Body, func(n ast.Node) bool {
			if n == nil || n.Pos() < readPos {
				return true
			}
			switch s := n.(type) {
			case *ast.ReturnStmt:
				if k := len(s.Results); k > 0 {
					if id, ok := s.Results[k-1].(*ast.Ident); !ok || id.Name != "nil" {
						if tv, ok := fi.pkg.TypesInfo.Types[s.Results[k-1]]; ok && tv.Type.String() == "error" {
							rets = append(rets, src(s))
						}
					}
				}
			case *ast.CallExpr:
				if sel, ok := s.Fun.(*ast.SelectorExpr); ok && recvName != "" {
					root := sel.X
					for {
						if inner, ok := root.(*ast.SelectorExpr); ok {
							root = inner.X
							continue
						}
						break
					}
					if id, ok := root.(*ast.Ident); ok && id.Name == recvName && !seenCall[src(s.Fun)] {
						seenCall[src(s.Fun)] = true
						calls = append(calls, src(s.Fun))
					}
				}
			}
			return true
		})
		sort.Strings(calls)
		fmt.Fprintf(&b, "  { fn := %s, errorReturns := %s, keeperCalls := %s }", leanStr(e.fn), leanStrList(rets), leanStrList(calls))
		if i < len(envs)-1 {
			b.WriteString(",")
		}
		b.WriteString("\n")
	}
	b.WriteString("]\n\n")
	// package-level mutable variables written outside init/constructors are rare; list package-level
	// vars of map/slice/pointer type in on-path packages for review
	b.WriteString("end Paloma.Gen.Nondet\n")
	emit("Nondet.lean", b.String())
}

// classifyMapRange recognises order-insensitive loop shapes:
//
//	collect-then-sort : body only appends to slices, and every such slice is sorted later in the function
//	map-to-map        : body only assigns into maps / sets, deletes, or counts
//	exists-early-return: body is `if … { return <const> }`
//	other             : anything else (needs a hand-written justification in Lean)
//
// filteredAppend: an if statement (no else) whose body consists of self-appends only; records the
// slices appended to.
func filteredAppend(s *ast.IfStmt, appended map[string]bool) bool {
	if s.Else != nil || len(s.Body.List) == 0 {
		return false
	}
	for _, st := range s.Body.List {
		switch a := st.(type) {
		case *ast.AssignStmt:
			ok := false
			if len(a.Lhs) == 1 && len(a.Rhs) == 1 {
				if ce, isCall := a.Rhs[0].(*ast.CallExpr); isCall {
					if id, isId := ce.Fun.(*ast.Ident); isId && id.Name == "append" && len(ce.Args) >= 1 && src(ce.Args[0]) == src(a.Lhs[0]) {
						ok = true
						appended[src(a.Lhs[0])] = true
					}
				}
			}
			if !ok {
				return false
			}
		case *ast.IfStmt:
			if !filteredAppend(a, appended) {
				return false
			}
		default:
			return false
		}
	}
	return true
}

func classifyMapRange(fi *funcInfo, rs *ast.RangeStmt) string {
	appended := map[string]bool{}
	onlyAppend, onlyMapWrites, onlyExists := true, true, true
	for _, st := range rs.Body.List {
		switch s := st.(type) {
		case *ast.AssignStmt:
			isAppend := false
			if len(s.Lhs) == 1 && len(s.Rhs) == 1 {
				if ce, ok := s.Rhs[0].(*ast.CallExpr); ok {
					if id, ok := ce.Fun.(*ast.Ident); ok && id.Name == "append" && len(ce.Args) >= 1 && src(ce.Args[0]) == src(s.Lhs[0]) {
						isAppend = true
						appended[src(s.Lhs[0])] = true
					}
				}
			}
			if !isAppend {
				onlyAppend = false
			}
			isMapWrite := true
			for _, l := range s.Lhs {
				ix, ok := l.(*ast.IndexExpr)
				if !ok {
					isMapWrite = false
					break
				}
				if tv, ok := fi.pkg.TypesInfo.Types[ix.X]; !ok {
					isMapWrite = false
				} else if _, isMap := tv.Type.Underlying().(*types.Map); !isMap {
					isMapWrite = false
				}
			}
			if !isMapWrite {
				onlyMapWrites = false
			}
			onlyExists = false
		case *ast.ExprStmt:
			onlyAppend = false
			onlyExists = false
			if ce, ok := s.X.(*ast.CallExpr); !ok || src(ce.Fun) != "delete" {
				onlyMapWrites = false
			}
		case *ast.IfStmt:
			// `if cond { xs = append(xs, …) }`: a filtered collect is still a collect
			if !filteredAppend(s, appended) {
				onlyAppend = false
			}
			onlyMapWrites = false
			ok := s.Else == nil && len(s.Body.List) == 1
			if ok {
				if r, isRet := s.Body.List[0].(*ast.ReturnStmt); !isRet {
					ok = false
				} else {
					for _, res := range r.Results {
						switch res.(type) {
						case *ast.Ident, *ast.BasicLit:
						default:
							ok = false
						}
					}
				}
			}
			if !ok {
				onlyExists = false
			}
		default:
			onlyAppend, onlyMapWrites, onlyExists = false, false, false
		}
	}
	if len(rs.Body.List) == 0 {
		return "empty"
	}
	if onlyAppend && len(appended) > 0 {
		// every appended slice must be sorted after the loop, in the same function
		sorted := map[string]bool{}
		ast.Inspect(fi.decl.Body, func(n ast.Node) bool {
			ce, ok := n.(*ast.CallExpr)
			if !ok || ce.Pos() < rs.End() {
				return true
			}
			f := src(ce.Fun)
			if strings.HasPrefix(f, "sort.") || strings.HasPrefix(f, "slices.Sort") {
				if len(ce.Args) > 0 {
					sorted[src(ce.Args[0])] = true
				}
			}
			return true
		})
		all := true
		for a := range appended {
			if !sorted[a] {
				all = false
			}
		}
		if all {
			return "collect-then-sort"
		}
		return "collect-unsorted"
	}
	if onlyMapWrites {
		return "map-to-map"
	}
	if onlyExists {
		return "exists-early-return"
	}
	return "other"
}
