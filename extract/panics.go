package main

import (
	"fmt"
	"go/ast"
	"go/types"
	"regexp"
	"sort"
	"strings"
)

// protobuf getters: `x.GetFoo()` reads the same slice as `x.Foo`
var getterRe = regexp.MustCompile(`\.Get([A-Z]\w*)\(\)`)

// genPanics: potentially panicking constructs in the repository's own functions reachable from
// the modules' begin/end-block entry points without passing through a function that installs a
// `recover` (what is below such a function is protected).
func genPanics(w *world) {
	roots := w.entryPoints("BeginBlock", "EndBlock", "BeginBlocker", "EndBlocker", "PreBlock")
	via := w.reach(roots, true)
	type row struct{ fn, what, kind, pos, via string }
	var rows []row
	var fns []*funcInfo
	for obj := range via {
		if fi := w.funcs[obj]; fi != nil {
			fns = append(fns, fi)
		}
	}
	sort.Slice(fns, func(i, j int) bool { return funcKey(fns[i].obj) < funcKey(fns[j].obj) })
	for _, fi := range fns {
		if hasRecover(fi.decl) {
			continue // the function protects itself
		}
		info := fi.pkg.TypesInfo
		fkey := funcKey(fi.obj)
		okAsserts := map[*ast.TypeAssertExpr]bool{}
		ast.Inspect(fi.decl.Body, func(n ast.Node) bool {
			switch s := n.(type) {
			case *ast.AssignStmt:
				if len(s.Lhs) == 2 && len(s.Rhs) == 1 {
					if ta, ok := s.Rhs[0].(*ast.TypeAssertExpr); ok {
						okAsserts[ta] = true
					}
				}
			case *ast.ValueSpec:
				if len(s.Names) == 2 && len(s.Values) == 1 {
					if ta, ok := s.Values[0].(*ast.TypeAssertExpr); ok {
						okAsserts[ta] = true
					}
				}
			case *ast.TypeSwitchStmt:
				ast.Inspect(s.Assign, func(m ast.Node) bool {
					if ta, ok := m.(*ast.TypeAssertExpr); ok {
						okAsserts[ta] = true
					}
					return true
				})
			}
			return true
		})
		// loops that bound an index variable by the indexed expression itself
		rangeIdx := map[string]bool{} // "<var>\x00<expr>"
		ast.Inspect(fi.decl.Body, func(n ast.Node) bool {
			switch s := n.(type) {
			case *ast.RangeStmt:
				if id, ok := s.Key.(*ast.Ident); ok && id.Name != "_" {
					rangeIdx[id.Name+"\x00"+src(s.X)] = true
				}
			case *ast.ForStmt:
				if be, ok := s.Cond.(*ast.BinaryExpr); ok && (be.Op.String() == "<") {
					if id, ok := be.X.(*ast.Ident); ok {
						if c, ok := be.Y.(*ast.CallExpr); ok && src(c.Fun) == "len" && len(c.Args) == 1 {
							rangeIdx[id.Name+"\x00"+src(c.Args[0])] = true
						}
					}
				}
			}
			return true
		})
		// `x := make([]T, len(y))`: x is as long as y
		allocLen := map[string]string{}
		// index expressions inside a `sort.Slice(x, func(i, j int) bool {… x[i] … x[j] …})` callback
		sortIdx := map[*ast.IndexExpr]bool{}
		ast.Inspect(fi.decl.Body, func(n ast.Node) bool {
			switch s := n.(type) {
			case *ast.AssignStmt:
				if len(s.Lhs) == 1 && len(s.Rhs) == 1 {
					if c, ok := s.Rhs[0].(*ast.CallExpr); ok && src(c.Fun) == "make" && len(c.Args) == 2 {
						if l, ok := c.Args[1].(*ast.CallExpr); ok && src(l.Fun) == "len" && len(l.Args) == 1 {
							allocLen[src(s.Lhs[0])] = src(l.Args[0])
						}
					}
				}
			case *ast.CallExpr:
				if f := src(s.Fun); (f == "sort.Slice" || f == "sort.SliceStable") && len(s.Args) == 2 {
					if fl, ok := s.Args[1].(*ast.FuncLit); ok {
						params := map[string]bool{}
						for _, fld := range fl.Type.Params.List {
							for _, nm := range fld.Names {
								params[nm.Name] = true
							}
						}
						x := src(s.Args[0])
						ast.Inspect(fl.Body, func(m ast.Node) bool {
							if ie, ok := m.(*ast.IndexExpr); ok && src(ie.X) == x {
								if id, ok := ie.Index.(*ast.Ident); ok && params[id.Name] {
									sortIdx[ie] = true
								}
							}
							return true
						})
					}
				}
			}
			return true
		})
		bodySrc := src(fi.decl.Body)
		indexSite := func(x ast.Expr, idx ast.Expr, whole ast.Node) {
			tv, ok := info.Types[x]
			if !ok || !tv.IsValue() {
				return // generic instantiation or type expression
			}
			switch u := tv.Type.Underlying().(type) {
			case *types.Slice:
			case *types.Basic:
				if u.Info()&types.IsString == 0 {
					return
				}
			default:
				return // arrays are bounds-checked at compile time for constants; maps never panic on read
			}
			if id, ok := idx.(*ast.Ident); ok {
				if rangeIdx[id.Name+"\x00"+src(x)] {
					return
				}
				// allocated with the length of the slice the loop runs over
				if y, ok := allocLen[src(x)]; ok && rangeIdx[id.Name+"\x00"+y] {
					return
				}
			}
			if ie, ok := whole.(*ast.IndexExpr); ok && sortIdx[ie] {
				return
			}
			kind := "index-unguarded"
			if strings.Contains(getterRe.ReplaceAllString(bodySrc, ".$1"), "len("+getterRe.ReplaceAllString(src(x), ".$1")+")") {
				kind = "index-guarded"
			}
			rows = append(rows, row{fkey, src(whole), kind, posOf(whole.Pos()), via[fi.obj]})
		}
		ast.Inspect(fi.decl.Body, func(n ast.Node) bool {
			switch s := n.(type) {
			case *ast.IndexExpr:
				indexSite(s.X, s.Index, s)
			case *ast.SliceExpr:
				// x[:i] / x[i+1:] with i the range index over x itself cannot be out of bounds
				bounded := func(e ast.Expr) bool {
					if e == nil {
						return true
					}
					if be, ok := e.(*ast.BinaryExpr); ok && be.Op.String() == "+" && src(be.Y) == "1" {
						e = be.X
					}
					id, ok := e.(*ast.Ident)
					return ok && rangeIdx[id.Name+"\x00"+src(s.X)]
				}
				if (s.Low != nil || s.High != nil) && !(bounded(s.Low) && bounded(s.High)) {
					indexSite(s.X, nil, s)
				}
			case *ast.CallExpr:
				name := ""
				var recvT types.Type
				switch f := s.Fun.(type) {
				case *ast.Ident:
					name = f.Name
				case *ast.SelectorExpr:
					name = f.Sel.Name
					if tv, ok := info.Types[f.X]; ok {
						recvT = tv.Type
					}
				}
				if name == "panic" {
					rows = append(rows, row{fkey, "panic(…)", "explicit-panic", posOf(s.Pos()), via[fi.obj]})
					return true
				}
				if strings.HasPrefix(name, "Must") {
					kind := "must-call"
					switch {
					case name == "MustUnmarshal" || name == "MustMarshal" || name == "MustUnmarshalJSON" || name == "MustMarshalJSON" || name == "MustSortJSON" || name == "MustUnmarshalLengthPrefixed":
						kind = "codec-own-data"
					case name == "Must" && strings.Contains(src(s), "abi.NewType("):
						kind = "const-abi-type"
					}
					rows = append(rows, row{fkey, src(s.Fun), kind, posOf(s.Pos()), via[fi.obj]})
					return true
				}
				if recvT != nil {
					ts := recvT.String()
					if strings.HasPrefix(ts, "cosmossdk.io/math.") || strings.HasPrefix(ts, "*cosmossdk.io/math.") {
						switch name {
						case "Uint64", "Int64", "MustFloat64", "TruncateInt64", "RoundInt64":
							kind := "narrowing-conversion"
							// guarded: the same function tests `<recv>.IsUint64()` / `.IsInt64()` on the same expression
							if sel, ok := s.Fun.(*ast.SelectorExpr); ok {
								guard := src(sel.X) + ".Is" + name + "()"
								if strings.Contains(src(fi.decl.Body), "!"+guard) || strings.Contains(src(fi.decl.Body), guard) {
									kind = "narrowing-conversion-guarded"
								}
							}
							rows = append(rows, row{fkey, src(s.Fun) + "()", kind, posOf(s.Pos()), via[fi.obj]})
						case "Quo", "QuoInt", "QuoInt64", "QuoRaw", "QuoTruncate", "QuoRoundUp", "Mod", "ModRaw":
							rows = append(rows, row{fkey, src(s), "division", posOf(s.Pos()), via[fi.obj]})
						}
					}
				}
				// slice -> array conversion
				if tv, ok := info.Types[s.Fun]; ok && tv.IsType() {
					if _, isArr := tv.Type.Underlying().(*types.Array); isArr && len(s.Args) == 1 {
						if at, ok := info.Types[s.Args[0]]; ok {
							if _, isSlice := at.Type.Underlying().(*types.Slice); isSlice {
								rows = append(rows, row{fkey, src(s), "slice-to-array", posOf(s.Pos()), via[fi.obj]})
							}
						}
					}
				}
			case *ast.TypeAssertExpr:
				if s.Type != nil && !okAsserts[s] {
					rows = append(rows, row{fkey, src(s), "unchecked-type-assertion", posOf(s.Pos()), via[fi.obj]})
				}
			}
			return true
		})
	}
	sort.Slice(rows, func(i, j int) bool { return rows[i].fn+rows[i].pos < rows[j].fn+rows[j].pos })
	var b strings.Builder
	b.WriteString("namespace Paloma.Gen.Panics\n\n")
	b.WriteString("structure Site where\n  fn : String\n  what : String\n  kind : String\n  pos : String\n  via : String\nderiving Repr\n\n")
	b.WriteString("def entryPoints : List String := ")
	var eps []string
	for _, r := range roots {
		eps = append(eps, funcKey(r.obj))
	}
	b.WriteString(leanStrList(eps) + "\n\n")
	var guards []string
	for obj := range via {
		if fi := w.funcs[obj]; fi != nil && hasRecover(fi.decl) {
			guards = append(guards, funcKey(obj))
		}
	}
	sort.Strings(guards)
	b.WriteString("/-- reachable functions that install a `recover` (their callees are protected) -/\n")
	b.WriteString("def recoverGuards : List String := " + leanStrList(guards) + "\n\n")
	fmt.Fprintf(&b, "def reachableFunctions : Nat := %d\n\n", len(fns))
	b.WriteString("def sites : List Site := [\n")
	for i, r := range rows {
		fmt.Fprintf(&b, "  { fn := %s, what := %s, kind := %s, pos := %s, via := %s }", leanStr(r.fn), leanStr(r.what), leanStr(r.kind), leanStr(r.pos), leanStr(r.via))
		if i < len(rows)-1 {
			b.WriteString(",")
		}
		b.WriteString("\n")
	}
	b.WriteString("]\n\n")
	// the per-message loops of the consensus end-blocker: statements inside a loop that leave the
	// function with an error (a failing message would then keep the remaining ones from being processed)
	b.WriteString("structure BlockLoop where\n  fn : String\n  loops : Nat\n  errorReturnsInLoops : List String\nderiving Repr\n\n")
	b.WriteString("def blockLoops : List BlockLoop := [\n")
	loopFns := []string{"x/consensus/keeper.Keeper.CheckAndProcessAttestedMessages", "x/consensus/keeper.Keeper.CheckAndProcessEstimatedMessages"}
	for i, key := range loopFns {
		fi := w.byKey[key]
		if fi == nil {
			fail("block loop function %s not found", key)
		}
		nloops := 0
		var rets []string
		var walk func(n ast.Node, depth int)
		walk = func(n ast.Node, depth int) {
			ast.Inspect(n, func(m ast.Node) bool {
				switch s := m.(type) {
				case *ast.FuncLit:
					return false // a closure's return does not leave the loop's function
				case *ast.ForStmt:
					if m != n {
						nloops++
						walk(s.Body, depth+1)
						return false
					}
				case *ast.RangeStmt:
					if m != n {
						nloops++
						walk(s.Body, depth+1)
						return false
					}
				case *ast.ReturnStmt:
					if depth > 0 && len(s.Results) > 0 {
						last := s.Results[len(s.Results)-1]
						if id, ok := last.(*ast.Ident); !ok || id.Name != "nil" {
							rets = append(rets, fmt.Sprintf("%s (%s)", src(s), posOf(s.Pos())))
						}
					}
				}
				return true
			})
		}
		walk(fi.decl.Body, 0)
		fmt.Fprintf(&b, "  { fn := %s, loops := %d, errorReturnsInLoops := %s }", leanStr(key), nloops, leanStrList(rets))
		if i < len(loopFns)-1 {
			b.WriteString(",")
		}
		b.WriteString("\n")
	}
	b.WriteString("]\n\nend Paloma.Gen.Panics\n")
	emit("Panics.lean", b.String())
}
