package main

import (
	"fmt"
	"go/ast"
	"go/token"
	"sort"
	"strconv"
	"strings"
)

// genClaims: for every EthereumClaim implementation — the struct's fields, the
// Sprintf format and argument list of its ClaimHash, and the claim fields its
// attestation handler reads.
func genClaims() {
	types := parseDir("x/skyway/types")
	keeper := parseDir("x/skyway/keeper")
	fns := funcDecls(types)
	kfns := funcDecls(keeper)

	// claim types = receivers of a ClaimHash method
	var claimTypes []string
	for k := range fns {
		if strings.HasSuffix(k, ".ClaimHash") {
			claimTypes = append(claimTypes, strings.TrimSuffix(k, ".ClaimHash"))
		}
	}
	sort.Strings(claimTypes)
	var b strings.Builder
	b.WriteString("namespace Paloma.Gen.Claims\n\n")
	b.WriteString("structure ClaimDesc where\n  name : String\n  fields : List (String × String)\n  format : String\n  verbs : List String\n  seps : List String\n  args : List String\n  handlerReads : List String\nderiving Repr\n\n")
	b.WriteString("def claims : List ClaimDesc := [\n")
	for i, ct := range claimTypes {
		fd := fns[ct+".ClaimHash"]
		recv := ""
		if len(fd.Recv.List[0].Names) > 0 {
			recv = fd.Recv.List[0].Names[0].Name
		}
		format, args := "opaque", []string{}
		nSprintf := 0
		ast.Inspect(fd.Body, func(n ast.Node) bool {
			ce, ok := n.(*ast.CallExpr)
			if !ok {
				return true
			}
			if src(ce.Fun) != "fmt.Sprintf" || len(ce.Args) == 0 {
				return true
			}
			nSprintf++
			lit, ok := ce.Args[0].(*ast.BasicLit)
			if !ok {
				// a named format: resolve a constant / variable initialised with a string literal
				if id, isID := ce.Args[0].(*ast.Ident); isID {
					lit = resolveStringLit(types, fd, id.Name)
					ok = lit != nil
				}
			}
			if !ok || lit.Kind != token.STRING {
				format = "opaque"
				return true
			}
			f, err := strconv.Unquote(lit.Value)
			if err != nil {
				return true
			}
			format = f
			args = nil
			for _, a := range ce.Args[1:] {
				s := src(a)
				if recv != "" {
					s = strings.TrimPrefix(s, recv+".")
				}
				args = append(args, s)
			}
			return true
		})
		if nSprintf != 1 {
			format = "opaque" // several or no Sprintf: shape not recognised
		}
		verbs, seps := splitFormat(format)
		fields := structFields(types, ct)
		var fl []string
		for _, f := range fields {
			if strings.HasPrefix(f[0], "XXX_") {
				continue
			}
			fl = append(fl, fmt.Sprintf("(%s, %s)", leanStr(f[0]), leanStr(f[1])))
		}
		// handler reads: selectors `claim.X` in keeper functions that take this claim type by value/pointer
		reads := map[string]bool{}
		for _, kfd := range kfns {
			if kfd.Type.Params == nil || kfd.Body == nil {
				continue
			}
			for _, p := range kfd.Type.Params.List {
				ts := src(p.Type)
				if ts != "types."+ct && ts != "*types."+ct {
					continue
				}
				for _, pn := range p.Names {
					ast.Inspect(kfd.Body, func(n ast.Node) bool {
						se, ok := n.(*ast.SelectorExpr)
						if !ok {
							return true
						}
						if id, ok := se.X.(*ast.Ident); ok && id.Name == pn.Name {
							reads[se.Sel.Name] = true
						}
						return true
					})
				}
			}
		}
		var rl []string
		for r := range reads {
			rl = append(rl, r)
		}
		sort.Strings(rl)
		fmt.Fprintf(&b, "  { name := %s,\n    fields := [%s],\n    format := %s,\n    verbs := %s,\n    seps := %s,\n    args := %s,\n    handlerReads := %s }",
			leanStr(ct), strings.Join(fl, ", "), leanStr(format), leanStrList(verbs), leanStrList(seps), leanStrList(args), leanStrList(rl))
		if i < len(claimTypes)-1 {
			b.WriteString(",")
		}
		b.WriteString("\n")
	}
	b.WriteString("]\n\nend Paloma.Gen.Claims\n")
	emit("Claims.lean", b.String())
}

// splitFormat splits a Sprintf format into its verbs ("%d", "%x", …) and the
// literal text between them (first element = text before the first verb).
func splitFormat(f string) (verbs, seps []string) {
	cur := ""
	for i := 0; i < len(f); i++ {
		if f[i] == '%' && i+1 < len(f) {
			if f[i+1] == '%' {
				cur += "%"
				i++
				continue
			}
			// verb: % flags/width then a letter
			j := i + 1
			for j < len(f) && !((f[j] >= 'a' && f[j] <= 'z') || (f[j] >= 'A' && f[j] <= 'Z')) {
				j++
			}
			if j >= len(f) {
				cur += f[i:]
				break
			}
			seps = append(seps, cur)
			cur = ""
			verbs = append(verbs, f[i:j+1])
			i = j
			continue
		}
		cur += string(f[i])
	}
	seps = append(seps, cur)
	return
}

// resolveStringLit finds `name := "lit"` inside fd or a package-level `const/var name = "lit"`.
func resolveStringLit(files []*ast.File, fd *ast.FuncDecl, name string) *ast.BasicLit {
	var found *ast.BasicLit
	n := 0
	ast.Inspect(fd.Body, func(nd ast.Node) bool {
		as, ok := nd.(*ast.AssignStmt)
		if !ok || len(as.Lhs) != 1 || len(as.Rhs) != 1 {
			return true
		}
		if id, ok := as.Lhs[0].(*ast.Ident); ok && id.Name == name {
			n++
			if bl, ok := as.Rhs[0].(*ast.BasicLit); ok {
				found = bl
			} else {
				found = nil
			}
		}
		return true
	})
	if n == 1 && found != nil {
		return found
	}
	if n > 0 {
		return nil // reassigned: not a fixed format
	}
	for _, f := range files {
		for _, d := range f.Decls {
			gd, ok := d.(*ast.GenDecl)
			if !ok {
				continue
			}
			for _, sp := range gd.Specs {
				vs, ok := sp.(*ast.ValueSpec)
				if !ok {
					continue
				}
				for i, id := range vs.Names {
					if id.Name == name && i < len(vs.Values) && gd.Tok == token.CONST {
						if bl, ok := vs.Values[i].(*ast.BasicLit); ok {
							return bl
						}
					}
				}
			}
		}
	}
	return nil
}
