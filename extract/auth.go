package main

import (
	"fmt"
	"go/ast"
	"go/token"
	"os"
	"path/filepath"
	"regexp"
	"sort"
	"strings"
)

// genAuth: authorisation facts of every Msg service handler (C03).
//
// For every `func (k msgServer) X(ctx, msg *types.MsgY)` in x/*/keeper it emits
// module, method, request type; whether the body (or a same-package helper the
// message or a part of it is passed to, one level deep) reads the metadata
// creator; whether it compares against the keeper's authority / calls a
// governance guard; the string / bytes fields of the request it reads; the same
// for the request type's ValidateBasic (which baseapp runs before the handler);
// and ALL string / bytes leaf fields of the request type.  It also lists the RPC
// methods of every generated MsgServer interface so that Lean can check that
// handlers and services coincide.
func genAuth() {
	mods := authModules()
	var b strings.Builder
	b.WriteString("namespace Paloma.Gen.Auth\n\n")
	b.WriteString("structure Handler where\n  module : String\n  method : String\n  request : String\n  usesCreator : Bool\n  vbUsesCreator : Bool\n  authorityCheck : Bool\n  reads : List String\n  vbReads : List String\n  fields : List (String × String)\n  idFields : List String\n  eqCreator : List String\n  setFromCreator : List String\n  eqAuthority : List String\n  extSig : Bool\n  signer : String\nderiving Repr, DecidableEq\n\n")
	var rows, rpcs []string
	for _, mod := range mods {
		keeper := parseDir("x/" + mod + "/keeper")
		types := parseDir("x/" + mod + "/types")
		kfns := funcDecls(keeper)
		tfns := funcDecls(types)
		structs := authStructs(types)
		signerOpt := authProtoSigners(mod)
		for _, m := range authServiceMethods(types) {
			rpcs = append(rpcs, fmt.Sprintf("(%s, %s)", leanStr(mod), leanStr(m)))
		}
		var names []string
		for k := range kfns {
			if strings.HasPrefix(k, "msgServer.") {
				names = append(names, k)
			}
		}
		sort.Strings(names)
		for _, k := range names {
			fd := kfns[k]
			param, req, ok := authRequestParam(fd)
			if !ok {
				continue
			}
			reads := map[string]bool{}
			authCollect(fd, map[string]string{param: ""}, reads, kfns, 1)
			vbReads := map[string]bool{}
			if vb := tfns[req+".ValidateBasic"]; vb != nil && vb.Recv != nil && len(vb.Recv.List[0].Names) > 0 {
				authCollect(vb, map[string]string{vb.Recv.List[0].Names[0].Name: ""}, vbReads, tfns, 0)
			}
			fields := authLeafFields(structs, req, "", 0)
			isField := map[string]bool{}
			for _, f := range fields {
				isField[f[0]] = true
			}
			pick := func(m map[string]bool) []string {
				var out []string
				for p := range m {
					if isField[p] {
						out = append(out, p)
					}
				}
				sort.Strings(out)
				return out
			}
			var fl []string
			for _, f := range fields {
				fl = append(fl, fmt.Sprintf("(%s, %s)", leanStr(f[0]), leanStr(f[1])))
			}
			body := src(fd.Body)
			authority := strings.Contains(body, ".authority") || strings.Contains(body, "governanceMsgGuard(")
			// guard facts (C03): how the handler, its same-package helpers (one level) and the
			// request's ValidateBasic treat the identity-like fields
			g := newAuthGuards()
			authGuardCollect(fd, map[string]string{param: ""}, g, kfns, 1)
			if vb := tfns[req+".ValidateBasic"]; vb != nil && vb.Recv != nil && len(vb.Recv.List[0].Names) > 0 {
				authGuardCollect(vb, map[string]string{vb.Recv.List[0].Names[0].Name: ""}, g, tfns, 0)
			}
			var idFields []string
			for _, f := range fields {
				if f[2] == "address" || g.parsed[f[0]] || authIdentityName(f[0]) {
					idFields = append(idFields, f[0])
				}
			}
			extSig := authReaches(fd, kfns, map[string]bool{"ValidateEthereumSignature": true, "EthAddressFromSignature": true}, 3, map[*ast.FuncDecl]bool{})
			pickAll := func(m map[string]bool, extra ...string) []string {
				var out []string
				for p := range m {
					if isField[p] {
						out = append(out, p)
						continue
					}
					for _, e := range extra {
						if p == e {
							out = append(out, p)
						}
					}
				}
				sort.Strings(out)
				return out
			}
			rows = append(rows, fmt.Sprintf("  { module := %s, method := %s, request := %s,\n    usesCreator := %v, vbUsesCreator := %v, authorityCheck := %v,\n    reads := %s,\n    vbReads := %s,\n    fields := [%s],\n    idFields := %s,\n    eqCreator := %s,\n    setFromCreator := %s,\n    eqAuthority := %s,\n    extSig := %v,\n    signer := %s }",
				leanStr(mod), leanStr(fd.Name.Name), leanStr(req),
				reads["Metadata.Creator"], vbReads["Metadata.Creator"], authority,
				leanStrList(pick(reads)), leanStrList(pick(vbReads)), strings.Join(fl, ", "),
				leanStrList(idFields), leanStrList(pickAll(g.eqCreator)), leanStrList(pickAll(g.setFromCreator)),
				leanStrList(pickAll(g.eqAuthority, "Metadata.Creator")), extSig, leanStr(signerOpt[req])))
		}
	}
	b.WriteString("def handlers : List Handler := [\n" + strings.Join(rows, ",\n") + "\n]\n\n")
	b.WriteString("/-- (module, method) of every generated `MsgServer` interface -/\n")
	b.WriteString("def rpcs : List (String × String) := [\n  " + strings.Join(rpcs, ",\n  ") + "\n]\n\n")
	b.WriteString("end Paloma.Gen.Auth\n")
	emit("Auth.lean", b.String())
}

// authModules: every x/<module> that has a keeper and a types directory.
func authModules() []string {
	ents, err := os.ReadDir(filepath.Join(*repo, "x"))
	if err != nil {
		fail("%v", err)
	}
	var out []string
	for _, e := range ents {
		if !e.IsDir() {
			continue
		}
		if _, err := os.Stat(filepath.Join(*repo, "x", e.Name(), "keeper")); err != nil {
			continue
		}
		if _, err := os.Stat(filepath.Join(*repo, "x", e.Name(), "types")); err != nil {
			continue
		}
		out = append(out, e.Name())
	}
	sort.Strings(out)
	return out
}

// authServiceMethods: method names of `type MsgServer interface`.
func authServiceMethods(files []*ast.File) []string {
	var out []string
	for _, f := range files {
		for _, d := range f.Decls {
			gd, ok := d.(*ast.GenDecl)
			if !ok {
				continue
			}
			for _, sp := range gd.Specs {
				ts, ok := sp.(*ast.TypeSpec)
				if !ok || ts.Name.Name != "MsgServer" {
					continue
				}
				it, ok := ts.Type.(*ast.InterfaceType)
				if !ok {
					continue
				}
				for _, m := range it.Methods.List {
					for _, n := range m.Names {
						out = append(out, n.Name)
					}
				}
			}
		}
	}
	sort.Strings(out)
	return out
}

// authRequestParam: (name of the request parameter, request type name) when fd
// has the shape of a service handler: (ctx, req *types.T).
func authRequestParam(fd *ast.FuncDecl) (string, string, bool) {
	ps := fd.Type.Params.List
	if len(ps) != 2 || len(ps[1].Names) != 1 {
		return "", "", false
	}
	st, ok := ps[1].Type.(*ast.StarExpr)
	if !ok {
		return "", "", false
	}
	sel, ok := st.X.(*ast.SelectorExpr)
	if !ok || src(sel.X) != "types" || !strings.HasPrefix(sel.Sel.Name, "Msg") {
		return "", "", false
	}
	return ps[1].Names[0].Name, sel.Sel.Name, true
}

// authPath resolves e to a field path below one of the aliased identifiers:
// msg.Metadata.Creator, msg.GetMetadata().GetCreator(), msg.Job.Owner …
// (getters are normalised to the field name).  ok=false when e is not rooted
// at an alias.
func authPath(e ast.Expr, alias map[string]string) (string, bool) {
	switch x := e.(type) {
	case *ast.Ident:
		p, ok := alias[x.Name]
		return p, ok
	case *ast.ParenExpr:
		return authPath(x.X, alias)
	case *ast.StarExpr:
		return authPath(x.X, alias)
	case *ast.UnaryExpr:
		if x.Op == token.AND {
			return authPath(x.X, alias)
		}
	case *ast.IndexExpr:
		return authPath(x.X, alias)
	case *ast.SelectorExpr:
		base, ok := authPath(x.X, alias)
		if !ok {
			return "", false
		}
		return authJoin(base, x.Sel.Name), true
	case *ast.CallExpr:
		// getter call: <path>.GetX()
		if sel, ok := x.Fun.(*ast.SelectorExpr); ok && len(x.Args) == 0 && strings.HasPrefix(sel.Sel.Name, "Get") && len(sel.Sel.Name) > 3 {
			base, ok := authPath(sel.X, alias)
			if !ok {
				return "", false
			}
			return authJoin(base, authGetter(sel.Sel.Name[3:])), true
		}
	}
	return "", false
}

// authGetter maps getter suffixes whose spelling differs from the field.
func authGetter(s string) string {
	switch s {
	case "ChainReferenceID":
		return s
	}
	return s
}

func authJoin(base, name string) string {
	if base == "" {
		return name
	}
	return base + "." + name
}

// authCollect records every field path read in fd below the aliases, follows
// `x := <path>` and `for _, x := range <path>` bindings, and (depth > 0) follows
// calls to same-package functions that receive an aliased value.
func authCollect(fd *ast.FuncDecl, alias map[string]string, reads map[string]bool, fns map[string]*ast.FuncDecl, depth int) {
	if fd.Body == nil {
		return
	}
	ast.Inspect(fd.Body, func(n ast.Node) bool {
		switch x := n.(type) {
		case *ast.AssignStmt:
			if x.Tok == token.DEFINE || x.Tok == token.ASSIGN {
				for i, lhs := range x.Lhs {
					id, ok := lhs.(*ast.Ident)
					if !ok || i >= len(x.Rhs) || len(x.Lhs) != len(x.Rhs) {
						continue
					}
					if p, ok := authPath(x.Rhs[i], alias); ok && p != "" {
						alias[id.Name] = p
					}
				}
			}
		case *ast.RangeStmt:
			if id, ok := x.Value.(*ast.Ident); ok {
				if p, ok := authPath(x.X, alias); ok && p != "" {
					alias[id.Name] = p
				}
			}
		case *ast.SelectorExpr, *ast.CallExpr:
			if p, ok := authPath(x.(ast.Expr), alias); ok && p != "" {
				// record the path and every prefix (reading a.b.c reads a.b)
				parts := strings.Split(p, ".")
				for i := 1; i <= len(parts); i++ {
					reads[strings.Join(parts[:i], ".")] = true
				}
			}
			ce, ok := x.(*ast.CallExpr)
			if !ok || depth <= 0 {
				return true
			}
			callee := authCallee(ce, fns)
			if callee == nil || callee.Body == nil {
				return true
			}
			params := authParamNames(callee)
			sub := map[string]string{}
			for i, a := range ce.Args {
				if i >= len(params) || params[i] == "_" {
					continue
				}
				if p, ok := authPath(a, alias); ok {
					sub[params[i]] = p
				}
			}
			if len(sub) > 0 {
				authCollect(callee, sub, reads, fns, depth-1)
			}
		}
		return true
	})
}

func authParamNames(fd *ast.FuncDecl) []string {
	var out []string
	for _, f := range fd.Type.Params.List {
		if len(f.Names) == 0 {
			out = append(out, "_")
		}
		for _, n := range f.Names {
			out = append(out, n.Name)
		}
	}
	return out
}

// authCallee resolves k.Foo / k.Keeper.Foo / server.Keeper.foo / Foo to a
// declaration of the same package (methods of msgServer or Keeper, or functions).
func authCallee(ce *ast.CallExpr, fns map[string]*ast.FuncDecl) *ast.FuncDecl {
	switch f := ce.Fun.(type) {
	case *ast.Ident:
		return fns[f.Name]
	case *ast.SelectorExpr:
		for _, recv := range []string{"msgServer", "Keeper"} {
			if fd := fns[recv+"."+f.Sel.Name]; fd != nil {
				return fd
			}
		}
	}
	return nil
}

// authStructs: struct name -> fields (name, type expression) of a package.
func authStructs(files []*ast.File) map[string][][2]ast.Expr {
	out := map[string][][2]ast.Expr{}
	for _, f := range files {
		for _, d := range f.Decls {
			gd, ok := d.(*ast.GenDecl)
			if !ok {
				continue
			}
			for _, sp := range gd.Specs {
				ts, ok := sp.(*ast.TypeSpec)
				if !ok {
					continue
				}
				st, ok := ts.Type.(*ast.StructType)
				if !ok {
					continue
				}
				var fl [][2]ast.Expr
				for _, fld := range st.Fields.List {
					for _, n := range fld.Names {
						fl = append(fl, [2]ast.Expr{n, fld.Type})
					}
				}
				out[ts.Name.Name] = fl
			}
		}
	}
	return out
}

// authLeafFields lists the string / []string / bytes leaf fields of struct name
// (recursing into message types of the same package; other packages' types are
// opaque), as (path, kind, cast) with kind string | strings | bytes and cast =
// "address" when the Go type is an sdk address cast type (AccAddress / ValAddress).
// Metadata is skipped: it is what the authorisation decorator itself checks.
func authLeafFields(structs map[string][][2]ast.Expr, name, prefix string, depth int) [][3]string {
	var out [][3]string
	if depth > 4 {
		return out
	}
	for _, f := range structs[name] {
		fname := f[0].(*ast.Ident).Name
		if strings.HasPrefix(fname, "XXX_") || (prefix == "" && fname == "Metadata") {
			continue
		}
		path := authJoin(prefix, fname)
		t := f[1]
		for {
			switch x := t.(type) {
			case *ast.StarExpr:
				t = x.X
				continue
			case *ast.ArrayType:
				if id, ok := x.Elt.(*ast.Ident); ok && (id.Name == "byte" || id.Name == "uint8") {
					out = append(out, [3]string{path, "bytes", ""})
					t = nil
				} else if id, ok := x.Elt.(*ast.Ident); ok && id.Name == "string" {
					out = append(out, [3]string{path, "strings", ""})
					t = nil
				} else {
					t = x.Elt
					continue
				}
			}
			break
		}
		switch x := t.(type) {
		case *ast.Ident:
			if x.Name == "string" {
				out = append(out, [3]string{path, "string", ""})
			} else if _, ok := structs[x.Name]; ok {
				out = append(out, authLeafFields(structs, x.Name, path, depth+1)...)
			}
		case *ast.SelectorExpr:
			// casttype bytes such as github_com_cosmos_cosmos_sdk_types.AccAddress
			if x.Sel.Name == "AccAddress" || x.Sel.Name == "ValAddress" {
				out = append(out, [3]string{path, "bytes", "address"})
			}
		}
	}
	return out
}

// ---- guard facts ------------------------------------------------------------

// authGuards: per request-field facts about how a handler treats it.
//
//	eqCreator[P]      P is compared for equality with metadata.creator and a mismatch returns
//	setFromCreator[P] P is overwritten with a value derived from metadata.creator
//	eqAuthority[P]    P (a field, or "Metadata.Creator") is compared with the keeper's authority
//	                  and a mismatch returns
//	parsed[P]         P is parsed as a bech32 account / validator address
type authGuards struct {
	eqCreator, setFromCreator, eqAuthority, parsed map[string]bool
}

func newAuthGuards() *authGuards {
	return &authGuards{map[string]bool{}, map[string]bool{}, map[string]bool{}, map[string]bool{}}
}

const authAuthority = "$authority"

// authIdentityName: the last component of the field path reads like a principal.
func authIdentityName(path string) bool {
	parts := strings.Split(path, ".")
	last := parts[len(parts)-1]
	for _, suf := range []string{"Address", "Addresses", "Orchestrator", "Owner", "Admin", "Sender", "Receiver", "Authority", "Signer", "Creator"} {
		if strings.HasSuffix(last, suf) {
			return true
		}
	}
	return false
}

func authCallName(ce *ast.CallExpr) string {
	switch f := ce.Fun.(type) {
	case *ast.Ident:
		return f.Name
	case *ast.SelectorExpr:
		return f.Sel.Name
	}
	return ""
}

var authBech32Parsers = map[string]bool{
	"AccAddressFromBech32": true, "ValAddressFromBech32": true, "MustAccAddressFromBech32": true,
	"MustValAddressFromBech32": true, "AccAddressFromHexUnsafe": true,
}

// conversions that keep denoting the same principal
var authAddrConvs = map[string]bool{"ValAddress": true, "AccAddress": true}

// authDerive resolves e to the request path it is derived from, seeing through
// address parsers, address conversions and .String() / .Bytes(); the keeper's
// authority resolves to authAuthority.
func authDerive(e ast.Expr, alias map[string]string) (string, bool) {
	if p, ok := authPath(e, alias); ok && p != "" {
		return p, true
	}
	switch x := e.(type) {
	case *ast.ParenExpr:
		return authDerive(x.X, alias)
	case *ast.SelectorExpr:
		if x.Sel.Name == "authority" {
			return authAuthority, true
		}
	case *ast.CallExpr:
		name := authCallName(x)
		if (authBech32Parsers[name] || authAddrConvs[name]) && len(x.Args) >= 1 {
			return authDerive(x.Args[len(x.Args)-1], alias)
		}
		if sel, ok := x.Fun.(*ast.SelectorExpr); ok && len(x.Args) == 0 && (sel.Sel.Name == "String" || sel.Sel.Name == "Bytes") {
			return authDerive(sel.X, alias)
		}
	}
	return "", false
}

func authContainsReturn(b *ast.BlockStmt) bool {
	found := false
	ast.Inspect(b, func(n ast.Node) bool {
		if _, ok := n.(*ast.ReturnStmt); ok {
			found = true
		}
		return !found
	})
	return found
}

// authMismatchPairs: the (left, right) operand pairs whose MISMATCH makes cond true:
// a != b, !a.Equals(b), !bytes.Equal(a, b), and disjunctions of those.
func authMismatchPairs(cond ast.Expr) [][2]ast.Expr {
	switch x := cond.(type) {
	case *ast.ParenExpr:
		return authMismatchPairs(x.X)
	case *ast.BinaryExpr:
		if x.Op == token.NEQ {
			return [][2]ast.Expr{{x.X, x.Y}}
		}
		if x.Op == token.LOR {
			return append(authMismatchPairs(x.X), authMismatchPairs(x.Y)...)
		}
	case *ast.UnaryExpr:
		if x.Op == token.NOT {
			if ce, ok := x.X.(*ast.CallExpr); ok {
				if sel, ok := ce.Fun.(*ast.SelectorExpr); ok {
					if sel.Sel.Name == "Equals" && len(ce.Args) == 1 {
						return [][2]ast.Expr{{sel.X, ce.Args[0]}}
					}
					if sel.Sel.Name == "Equal" && len(ce.Args) == 2 {
						return [][2]ast.Expr{{ce.Args[0], ce.Args[1]}}
					}
				}
			}
		}
	}
	return nil
}

// authGuardCollect walks fd like authCollect does (same alias rules, plus aliases
// through address parsers) and records the guard facts.
func authGuardCollect(fd *ast.FuncDecl, alias map[string]string, g *authGuards, fns map[string]*ast.FuncDecl, depth int) {
	if fd.Body == nil {
		return
	}
	const creator = "Metadata.Creator"
	// only UNCONDITIONAL statements (direct children of the function body) count as guards /
	// overwrites: `if owner.Empty() { owner = creator }` is not an overwrite
	top := map[ast.Node]bool{}
	for _, st := range fd.Body.List {
		top[st] = true
	}
	ast.Inspect(fd.Body, func(n ast.Node) bool {
		switch x := n.(type) {
		case *ast.AssignStmt:
			if x.Tok != token.DEFINE && x.Tok != token.ASSIGN {
				return true
			}
			rhsOf := func(i int) ast.Expr {
				if len(x.Lhs) == len(x.Rhs) {
					return x.Rhs[i]
				}
				if len(x.Rhs) == 1 && i == 0 {
					// v, err := f(...): the value is the first result
					return x.Rhs[0]
				}
				return nil
			}
			for i, lhs := range x.Lhs {
				rhs := rhsOf(i)
				if rhs == nil {
					continue
				}
				d, ok := authDerive(rhs, alias)
				if !ok {
					continue
				}
				// a request field overwritten with something derived from the creator
				if lp, ok := authPath(lhs, alias); ok && lp != "" && !strings.HasPrefix(lp, "Metadata") {
					if _, isIdent := lhs.(*ast.Ident); !isIdent && d == creator && top[x] {
						g.setFromCreator[lp] = true
					}
				}
				if id, ok := lhs.(*ast.Ident); ok && id.Name != "_" {
					alias[id.Name] = d
				}
			}
		case *ast.RangeStmt:
			if id, ok := x.Value.(*ast.Ident); ok {
				if p, ok := authPath(x.X, alias); ok && p != "" {
					alias[id.Name] = p
				}
			}
		case *ast.IfStmt:
			if !top[x] || !authContainsReturn(x.Body) {
				return true
			}
			for _, pr := range authMismatchPairs(x.Cond) {
				l, lok := authDerive(pr[0], alias)
				r, rok := authDerive(pr[1], alias)
				if !lok || !rok {
					continue
				}
				for _, o := range [][2]string{{l, r}, {r, l}} {
					if o[0] == creator && o[1] != creator && o[1] != authAuthority {
						g.eqCreator[o[1]] = true
					}
					if o[0] == authAuthority && o[1] != authAuthority {
						g.eqAuthority[o[1]] = true
					}
				}
			}
		case *ast.CallExpr:
			name := authCallName(x)
			if authBech32Parsers[name] && len(x.Args) >= 1 {
				if p, ok := authDerive(x.Args[len(x.Args)-1], alias); ok {
					g.parsed[p] = true
				}
			}
			if depth <= 0 {
				return true
			}
			callee := authCallee(x, fns)
			if callee == nil || callee.Body == nil {
				return true
			}
			params := authParamNames(callee)
			sub := map[string]string{}
			for i, a := range x.Args {
				if i >= len(params) || params[i] == "_" {
					continue
				}
				if p, ok := authPath(a, alias); ok {
					sub[params[i]] = p
				} else if p, ok := authDerive(a, alias); ok {
					sub[params[i]] = p
				}
			}
			if len(sub) > 0 {
				authGuardCollect(callee, sub, g, fns, depth-1)
			}
		}
		return true
	})
}

// authReaches: does fd (or a same-package function it calls, up to depth levels) call a
// function with one of the given names?
func authReaches(fd *ast.FuncDecl, fns map[string]*ast.FuncDecl, names map[string]bool, depth int, seen map[*ast.FuncDecl]bool) bool {
	if fd == nil || fd.Body == nil || seen[fd] {
		return false
	}
	seen[fd] = true
	found := false
	ast.Inspect(fd.Body, func(n ast.Node) bool {
		if found {
			return false
		}
		ce, ok := n.(*ast.CallExpr)
		if !ok {
			return true
		}
		if names[authCallName(ce)] {
			found = true
			return false
		}
		if depth > 0 {
			if callee := authCallee(ce, fns); callee != nil && authReaches(callee, fns, names, depth-1, seen) {
				found = true
				return false
			}
		}
		return true
	})
	return found
}

var (
	authProtoMsgRe    = regexp.MustCompile(`^\s*message\s+(\w+)\s*\{`)
	authProtoSignerRe = regexp.MustCompile(`option\s*\(cosmos\.msg\.v1\.signer\)\s*=\s*"(\w+)"`)
)

// authProtoSigners: request message name -> value of its `cosmos.msg.v1.signer` option
// ("metadata": the transaction must be signed by metadata.signers; "authority": by the
// Authority field), read from proto/palomachain/paloma/<module>/*.proto (top-level messages).
func authProtoSigners(mod string) map[string]string {
	out := map[string]string{}
	files, _ := filepath.Glob(filepath.Join(*repo, "proto", "palomachain", "paloma", mod, "*.proto"))
	sort.Strings(files)
	for _, f := range files {
		data, err := os.ReadFile(f)
		if err != nil {
			fail("%v", err)
		}
		cur, depth := "", 0
		for _, line := range strings.Split(string(data), "\n") {
			if i := strings.Index(line, "//"); i >= 0 {
				line = line[:i]
			}
			if depth == 0 {
				if m := authProtoMsgRe.FindStringSubmatch(line); m != nil {
					cur = m[1]
				}
			}
			if depth == 1 && cur != "" {
				if m := authProtoSignerRe.FindStringSubmatch(line); m != nil {
					out[cur] = m[1]
				}
			}
			depth += strings.Count(line, "{") - strings.Count(line, "}")
			if depth == 0 {
				cur = ""
			}
		}
	}
	return out
}
