package main

import (
	"fmt"
	"go/ast"
	"go/token"
	"os"
	"path/filepath"
	"sort"
	"strings"
)

// genAuth: authorisation facts of every Msg service handler (C03).
//
// For every `func (k msgServer) X(ctx, msg *types.MsgY)` in x/*/keeper it emits
// module, method, request type; whether the body (or a same-package helper the
// message or a part of it is passed to, one level deep) reads the metadata
// creator; whether it compares against the keeper's authority / calls a
// governance guard; the string / bytes fields of the request it reads; the same
// for the request type's ValidateBasic (which baseapp runs before the handler);
// and ALL string / bytes leaf fields of the request type.  It also lists the RPC
// methods of every generated MsgServer interface so that Lean can check that
// handlers and services coincide.
func genAuth() {
	mods := authModules()
	var b strings.Builder
	b.WriteString("namespace Paloma.Gen.Auth\n\n")
	b.WriteString("structure Handler where\n  module : String\n  method : String\n  request : String\n  usesCreator : Bool\n  vbUsesCreator : Bool\n  authorityCheck : Bool\n  reads : List String\n  vbReads : List String\n  fields : List (String × String)\nderiving Repr, DecidableEq\n\n")
	var rows, rpcs []string
	for _, mod := range mods {
		keeper := parseDir("x/" + mod + "/keeper")
		types := parseDir("x/" + mod + "/types")
		kfns := funcDecls(keeper)
		tfns := funcDecls(types)
		structs := authStructs(types)
		for _, m := range authServiceMethods(types) {
			rpcs = append(rpcs, fmt.Sprintf("(%s, %s)", leanStr(mod), leanStr(m)))
		}
		var names []string
		for k := range kfns {
			if strings.HasPrefix(k, "msgServer.") {
				names = append(names, k)
			}
		}
		sort.Strings(names)
		for _, k := range names {
			fd := kfns[k]
			param, req, ok := authRequestParam(fd)
			if !ok {
				continue
			}
			reads := map[string]bool{}
			authCollect(fd, map[string]string{param: ""}, reads, kfns, 1)
			vbReads := map[string]bool{}
			if vb := tfns[req+".ValidateBasic"]; vb != nil && vb.Recv != nil && len(vb.Recv.List[0].Names) > 0 {
				authCollect(vb, map[string]string{vb.Recv.List[0].Names[0].Name: ""}, vbReads, tfns, 0)
			}
			fields := authLeafFields(structs, req, "", 0)
			isField := map[string]bool{}
			for _, f := range fields {
				isField[f[0]] = true
			}
			pick := func(m map[string]bool) []string {
				var out []string
				for p := range m {
					if isField[p] {
						out = append(out, p)
					}
				}
				sort.Strings(out)
				return out
			}
			var fl []string
			for _, f := range fields {
				fl = append(fl, fmt.Sprintf("(%s, %s)", leanStr(f[0]), leanStr(f[1])))
			}
			body := src(fd.Body)
			authority := strings.Contains(body, ".authority") || strings.Contains(body, "governanceMsgGuard(")
			rows = append(rows, fmt.Sprintf("  { module := %s, method := %s, request := %s,\n    usesCreator := %v, vbUsesCreator := %v, authorityCheck := %v,\n    reads := %s,\n    vbReads := %s,\n    fields := [%s] }",
				leanStr(mod), leanStr(fd.Name.Name), leanStr(req),
				reads["Metadata.Creator"], vbReads["Metadata.Creator"], authority,
				leanStrList(pick(reads)), leanStrList(pick(vbReads)), strings.Join(fl, ", ")))
		}
	}
	b.WriteString("def handlers : List Handler := [\n" + strings.Join(rows, ",\n") + "\n]\n\n")
	b.WriteString("/-- (module, method) of every generated `MsgServer` interface -/\n")
	b.WriteString("def rpcs : List (String × String) := [\n  " + strings.Join(rpcs, ",\n  ") + "\n]\n\n")
	b.WriteString("end Paloma.Gen.Auth\n")
	emit("Auth.lean", b.String())
}

// authModules: every x/<module> that has a keeper and a types directory.
func authModules() []string {
	ents, err := os.ReadDir(filepath.Join(*repo, "x"))
	if err != nil {
		fail("%v", err)
	}
	var out []string
	for _, e := range ents {
		if !e.IsDir() {
			continue
		}
		if _, err := os.Stat(filepath.Join(*repo, "x", e.Name(), "keeper")); err != nil {
			continue
		}
		if _, err := os.Stat(filepath.Join(*repo, "x", e.Name(), "types")); err != nil {
			continue
		}
		out = append(out, e.Name())
	}
	sort.Strings(out)
	return out
}

// authServiceMethods: method names of `type MsgServer interface`.
func authServiceMethods(files []*ast.File) []string {
	var out []string
	for _, f := range files {
		for _, d := range f.Decls {
			gd, ok := d.(*ast.GenDecl)
			if !ok {
				continue
			}
			for _, sp := range gd.Specs {
				ts, ok := sp.(*ast.TypeSpec)
				if !ok || ts.Name.Name != "MsgServer" {
					continue
				}
				it, ok := ts.Type.(*ast.InterfaceType)
				if !ok {
					continue
				}
				for _, m := range it.Methods.List {
					for _, n := range m.Names {
						out = append(out, n.Name)
					}
				}
			}
		}
	}
	sort.Strings(out)
	return out
}

// authRequestParam: (name of the request parameter, request type name) when fd
// has the shape of a service handler: (ctx, req *types.T).
func authRequestParam(fd *ast.FuncDecl) (string, string, bool) {
	ps := fd.Type.Params.List
	if len(ps) != 2 || len(ps[1].Names) != 1 {
		return "", "", false
	}
	st, ok := ps[1].Type.(*ast.StarExpr)
	if !ok {
		return "", "", false
	}
	sel, ok := st.X.(*ast.SelectorExpr)
	if !ok || src(sel.X) != "types" || !strings.HasPrefix(sel.Sel.Name, "Msg") {
		return "", "", false
	}
	return ps[1].Names[0].Name, sel.Sel.Name, true
}

// authPath resolves e to a field path below one of the aliased identifiers:
// msg.Metadata.Creator, msg.GetMetadata().GetCreator(), msg.Job.Owner …
// (getters are normalised to the field name).  ok=false when e is not rooted
// at an alias.
func authPath(e ast.Expr, alias map[string]string) (string, bool) {
	switch x := e.(type) {
	case *ast.Ident:
		p, ok := alias[x.Name]
		return p, ok
	case *ast.ParenExpr:
		return authPath(x.X, alias)
	case *ast.StarExpr:
		return authPath(x.X, alias)
	case *ast.UnaryExpr:
		if x.Op == token.AND {
			return authPath(x.X, alias)
		}
	case *ast.IndexExpr:
		return authPath(x.X, alias)
	case *ast.SelectorExpr:
		base, ok := authPath(x.X, alias)
		if !ok {
			return "", false
		}
		return authJoin(base, x.Sel.Name), true
	case *ast.CallExpr:
		// getter call: <path>.GetX()
		if sel, ok := x.Fun.(*ast.SelectorExpr); ok && len(x.Args) == 0 && strings.HasPrefix(sel.Sel.Name, "Get") && len(sel.Sel.Name) > 3 {
			base, ok := authPath(sel.X, alias)
			if !ok {
				return "", false
			}
			return authJoin(base, authGetter(sel.Sel.Name[3:])), true
		}
	}
	return "", false
}

// authGetter maps getter suffixes whose spelling differs from the field.
func authGetter(s string) string {
	switch s {
	case "ChainReferenceID":
		return s
	}
	return s
}

func authJoin(base, name string) string {
	if base == "" {
		return name
	}
	return base + "." + name
}

// authCollect records every field path read in fd below the aliases, follows
// `x := <path>` and `for _, x := range <path>` bindings, and (depth > 0) follows
// calls to same-package functions that receive an aliased value.
func authCollect(fd *ast.FuncDecl, alias map[string]string, reads map[string]bool, fns map[string]*ast.FuncDecl, depth int) {
	if fd.Body == nil {
		return
	}
	ast.Inspect(fd.Body, func(n ast.Node) bool {
		switch x := n.(type) {
		case *ast.AssignStmt:
			if x.Tok == token.DEFINE || x.Tok == token.ASSIGN {
				for i, lhs := range x.Lhs {
					id, ok := lhs.(*ast.Ident)
					if !ok || i >= len(x.Rhs) || len(x.Lhs) != len(x.Rhs) {
						continue
					}
					if p, ok := authPath(x.Rhs[i], alias); ok && p != "" {
						alias[id.Name] = p
					}
				}
			}
		case *ast.RangeStmt:
			if id, ok := x.Value.(*ast.Ident); ok {
				if p, ok := authPath(x.X, alias); ok && p != "" {
					alias[id.Name] = p
				}
			}
		case *ast.SelectorExpr, *ast.CallExpr:
			if p, ok := authPath(x.(ast.Expr), alias); ok && p != "" {
				// record the path and every prefix (reading a.b.c reads a.b)
				parts := strings.Split(p, ".")
				for i := 1; i <= len(parts); i++ {
					reads[strings.Join(parts[:i], ".")] = true
				}
			}
			ce, ok := x.(*ast.CallExpr)
			if !ok || depth <= 0 {
				return true
			}
			callee := authCallee(ce, fns)
			if callee == nil || callee.Body == nil {
				return true
			}
			params := authParamNames(callee)
			sub := map[string]string{}
			for i, a := range ce.Args {
				if i >= len(params) || params[i] == "_" {
					continue
				}
				if p, ok := authPath(a, alias); ok {
					sub[params[i]] = p
				}
			}
			if len(sub) > 0 {
				authCollect(callee, sub, reads, fns, depth-1)
			}
		}
		return true
	})
}

func authParamNames(fd *ast.FuncDecl) []string {
	var out []string
	for _, f := range fd.Type.Params.List {
		if len(f.Names) == 0 {
			out = append(out, "_")
		}
		for _, n := range f.Names {
			out = append(out, n.Name)
		}
	}
	return out
}

// authCallee resolves k.Foo / k.Keeper.Foo / server.Keeper.foo / Foo to a
// declaration of the same package (methods of msgServer or Keeper, or functions).
func authCallee(ce *ast.CallExpr, fns map[string]*ast.FuncDecl) *ast.FuncDecl {
	switch f := ce.Fun.(type) {
	case *ast.Ident:
		return fns[f.Name]
	case *ast.SelectorExpr:
		for _, recv := range []string{"msgServer", "Keeper"} {
			if fd := fns[recv+"."+f.Sel.Name]; fd != nil {
				return fd
			}
		}
	}
	return nil
}

// authStructs: struct name -> fields (name, type expression) of a package.
func authStructs(files []*ast.File) map[string][][2]ast.Expr {
	out := map[string][][2]ast.Expr{}
	for _, f := range files {
		for _, d := range f.Decls {
			gd, ok := d.(*ast.GenDecl)
			if !ok {
				continue
			}
			for _, sp := range gd.Specs {
				ts, ok := sp.(*ast.TypeSpec)
				if !ok {
					continue
				}
				st, ok := ts.Type.(*ast.StructType)
				if !ok {
					continue
				}
				var fl [][2]ast.Expr
				for _, fld := range st.Fields.List {
					for _, n := range fld.Names {
						fl = append(fl, [2]ast.Expr{n, fld.Type})
					}
				}
				out[ts.Name.Name] = fl
			}
		}
	}
	return out
}

// authLeafFields lists the string / []string / bytes leaf fields of struct name
// (recursing into message types of the same package; other packages' types are
// opaque), as (path, kind) with kind string | strings | bytes.  Metadata is
// skipped: it is what the authorisation decorator itself checks.
func authLeafFields(structs map[string][][2]ast.Expr, name, prefix string, depth int) [][2]string {
	var out [][2]string
	if depth > 4 {
		return out
	}
	for _, f := range structs[name] {
		fname := f[0].(*ast.Ident).Name
		if strings.HasPrefix(fname, "XXX_") || (prefix == "" && fname == "Metadata") {
			continue
		}
		path := authJoin(prefix, fname)
		t := f[1]
		for {
			switch x := t.(type) {
			case *ast.StarExpr:
				t = x.X
				continue
			case *ast.ArrayType:
				if id, ok := x.Elt.(*ast.Ident); ok && (id.Name == "byte" || id.Name == "uint8") {
					out = append(out, [2]string{path, "bytes"})
					t = nil
				} else if id, ok := x.Elt.(*ast.Ident); ok && id.Name == "string" {
					out = append(out, [2]string{path, "strings"})
					t = nil
				} else {
					t = x.Elt
					continue
				}
			}
			break
		}
		switch x := t.(type) {
		case *ast.Ident:
			if x.Name == "string" {
				out = append(out, [2]string{path, "string"})
			} else if _, ok := structs[x.Name]; ok {
				out = append(out, authLeafFields(structs, x.Name, path, depth+1)...)
			}
		case *ast.SelectorExpr:
			// casttype bytes such as github_com_cosmos_cosmos_sdk_types.AccAddress
			if x.Sel.Name == "AccAddress" || x.Sel.Name == "ValAddress" {
				out = append(out, [2]string{path, "bytes"})
			}
		}
	}
	return out
}
