package main

import (
	"fmt"
	"go/ast"
	"go/token"
	"strings"
)

// genConsts: numeric constants and comparison operators the theorems are stated about.
func genConsts() {
	var b strings.Builder
	b.WriteString("namespace Paloma.Gen.Consts\n\n")
	emitNat := func(name string, v string) { fmt.Fprintf(&b, "def %s : Nat := %s\n", name, v) }
	emitStr := func(name string, v string) { fmt.Fprintf(&b, "def %s : String := %s\n", name, leanStr(v)) }

	// skyway: AttestationVotesPowerThreshold = math.NewInt(66)
	emitNat("attestationVotesPowerThreshold", findIntCallConst("x/skyway/types/genesis.go", "AttestationVotesPowerThreshold"))
	// skyway TryAttestation: comparator between attestationPower and requiredPower; and the /100
	cmp, div := "opaque", "0"
	kfns := funcDecls(parseDir("x/skyway/keeper"))
	if fd := kfns["Keeper.TryAttestation"]; fd != nil {
		// the variable holding the threshold: assigned from an expression mentioning AttestationVotesPowerThreshold
		required := ""
		ast.Inspect(fd.Body, func(n ast.Node) bool {
			as, ok := n.(*ast.AssignStmt)
			if !ok || len(as.Lhs) != 1 || len(as.Rhs) != 1 {
				return true
			}
			s := src(as.Rhs[0])
			if strings.Contains(s, "AttestationVotesPowerThreshold") {
				required = src(as.Lhs[0])
				if i := strings.Index(s, "Quo(math.NewInt("); i >= 0 {
					rest := s[i+len("Quo(math.NewInt("):]
					div = rest[:strings.Index(rest, ")")]
				}
			}
			return true
		})
		// the comparison against it: <power>.<CMP>(<required>)
		n := 0
		ast.Inspect(fd.Body, func(nd ast.Node) bool {
			ce, ok := nd.(*ast.CallExpr)
			if !ok || len(ce.Args) != 1 || required == "" || src(ce.Args[0]) != required {
				return true
			}
			if sel, ok := ce.Fun.(*ast.SelectorExpr); ok {
				switch sel.Sel.Name {
				case "GT", "GTE", "LT", "LTE", "Equal":
					cmp = sel.Sel.Name
					n++
				}
			}
			return true
		})
		if n != 1 {
			cmp = "opaque"
		}
	}
	emitStr("tryAttestationComparator", cmp)
	emitNat("tryAttestationDivisor", div)
	// skyway abci: update-validator-nonces period, batch build period, batch size, batch timeout
	emitNat("updateValidatorNoncesPeriod", findConst("x/skyway/abci.go", "updateValidatorNoncesPeriod"))
	emitNat("outgoingTxBatchSize", findConst("x/skyway/keeper/batch.go", "OutgoingTxBatchSize"))
	// libcons consensus(): runningSum.Mul(NewInt(a)).GTE(totalPower.Mul(NewInt(b)))
	a, c, op := "0", "0", "opaque"
	lfns := funcDecls(parseDir("util/libcons"))
	if fd := lfns["consensusPower.consensus"]; fd != nil {
		ast.Inspect(fd.Body, func(n ast.Node) bool {
			rs, ok := n.(*ast.ReturnStmt)
			if !ok || len(rs.Results) != 1 {
				return true
			}
			s := src(rs.Results[0])
			// c.runningSum.Mul(sdkmath.NewInt(3)).GTE( c.totalPower.Mul(sdkmath.NewInt(2)), )
			if strings.HasPrefix(s, "c.runningSum.Mul(sdkmath.NewInt(") {
				r := strings.TrimPrefix(s, "c.runningSum.Mul(sdkmath.NewInt(")
				a = r[:strings.Index(r, ")")]
				r = r[strings.Index(r, "))")+2:]
				if strings.HasPrefix(r, ".") {
					op = r[1:strings.Index(r, "(")]
				}
				if i := strings.Index(r, "c.totalPower.Mul(sdkmath.NewInt("); i >= 0 {
					r2 := r[i+len("c.totalPower.Mul(sdkmath.NewInt("):]
					c = r2[:strings.Index(r2, ")")]
				}
			}
			return true
		})
	}
	emitNat("consensusSumFactor", a)
	emitNat("consensusTotalFactor", c)
	emitStr("consensusComparator", op)
	b.WriteString("\nend Paloma.Gen.Consts\n")
	emit("Consts.lean", b.String())
}

// findConst returns the literal value of `const name = <int literal>` (underscores removed), else "0".
func findConst(rel, name string) string {
	f := parseFile(rel)
	val := "0"
	ast.Inspect(f, func(n ast.Node) bool {
		vs, ok := n.(*ast.ValueSpec)
		if !ok {
			return true
		}
		for i, id := range vs.Names {
			if id.Name == name && i < len(vs.Values) {
				if bl, ok := vs.Values[i].(*ast.BasicLit); ok && bl.Kind == token.INT {
					val = strings.ReplaceAll(bl.Value, "_", "")
				}
			}
		}
		return true
	})
	return val
}

// findIntCallConst: `name = math.NewInt(<int literal>)`
func findIntCallConst(rel, name string) string {
	f := parseFile(rel)
	val := "0"
	ast.Inspect(f, func(n ast.Node) bool {
		vs, ok := n.(*ast.ValueSpec)
		if !ok {
			return true
		}
		for i, id := range vs.Names {
			if id.Name == name && i < len(vs.Values) {
				if ce, ok := vs.Values[i].(*ast.CallExpr); ok && len(ce.Args) == 1 {
					if bl, ok := ce.Args[0].(*ast.BasicLit); ok && bl.Kind == token.INT {
						val = strings.ReplaceAll(bl.Value, "_", "")
					}
				}
			}
		}
		return true
	})
	return val
}
