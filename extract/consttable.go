package main

import (
	"fmt"
	"go/ast"
	"go/constant"
	"go/token"
	"go/types"
	"sort"
	"strings"
)

// genConstTable: every package-level constant of the repository's own packages with its EVALUATED value
// (go/types constant folding: `2 * time.Minute` is 120000000000), every package-level variable with the
// source text of its initialiser, and — for the functions that schedule periodic work (module Begin/EndBlock
// hooks and the keeper functions that carry a literal in a comparison / modulus) — every condition or
// arithmetic expression that mentions an integer, float or duration literal.
//
// The per-property modules `Props/Consts/Cxx.lean` state, for each number a model hard-codes, that the source
// has the same number in the same place (`decide` on this table) next to the `rfl` that the model uses it.
func genConstTable(w *world) {
	var b strings.Builder
	b.WriteString("namespace Paloma.Gen.ConstTable\n\n")
	b.WriteString("/-- evaluated package-level constants: (package-dir.Name, kind, exact value as text) -/\n")
	type row struct{ k, kind, v string }
	var rows []row
	var vars []row
	for _, p := range w.pkgs {
		dir := strings.TrimPrefix(p.PkgPath, modPath+"/")
		for _, f := range p.Syntax {
			name := fset.Position(f.Pos()).Filename
			if strings.HasSuffix(name, "_test.go") || hasVerifTag(f) || strings.HasSuffix(name, ".pb.go") || strings.HasSuffix(name, ".pb.gw.go") ||
				strings.HasSuffix(name, "test_common.go") || strings.Contains(name, "/mocks/") || strings.Contains(name, "/testutil/") {
				continue
			}
			for _, d := range f.Decls {
				gd, ok := d.(*ast.GenDecl)
				if !ok {
					continue
				}
				for _, sp := range gd.Specs {
					vs, ok := sp.(*ast.ValueSpec)
					if !ok {
						continue
					}
					for i, n := range vs.Names {
						if n.Name == "_" {
							continue
						}
						switch gd.Tok {
						case token.CONST:
							c, _ := p.TypesInfo.Defs[n].(*types.Const)
							if c == nil {
								continue
							}
							kind, val := "other", c.Val().ExactString()
							switch c.Val().Kind() {
							case constant.Int:
								kind = "int"
							case constant.Float:
								kind = "float"
							case constant.String:
								kind = "string"
								val = constant.StringVal(c.Val())
							case constant.Bool:
								kind = "bool"
							}
							rows = append(rows, row{dir + "." + n.Name, kind, val})
						case token.VAR:
							if len(vs.Values) == 0 {
								continue
							}
							e := vs.Values[0]
							if len(vs.Values) == len(vs.Names) {
								e = vs.Values[i]
							}
							s := src(e)
							if len(s) > 400 || strings.HasPrefix(s, "func") {
								continue
							}
							// interface-satisfaction assertions are named `_`; error values and codecs are not numbers
							if strings.HasPrefix(s, "errors.") || strings.HasPrefix(s, "whoops.") || strings.Contains(s, "errors.Register") {
								continue
							}
							vars = append(vars, row{dir + "." + n.Name, "var", s})
						}
					}
				}
			}
		}
	}
	sort.Slice(rows, func(i, j int) bool { return rows[i].k < rows[j].k })
	sort.Slice(vars, func(i, j int) bool { return vars[i].k < vars[j].k })
	b.WriteString("def consts : List (String × String × String) := [\n")
	for i, r := range rows {
		fmt.Fprintf(&b, "  (%s, %s, %s)", leanStr(r.k), leanStr(r.kind), leanStr(r.v))
		if i+1 < len(rows) {
			b.WriteString(",")
		}
		b.WriteString("\n")
	}
	b.WriteString("]\n\n/-- package-level variables with a short initialiser: (package-dir.Name, source text) -/\n")
	b.WriteString("def vars : List (String × String) := [\n")
	for i, r := range vars {
		fmt.Fprintf(&b, "  (%s, %s)", leanStr(r.k), leanStr(r.v))
		if i+1 < len(vars) {
			b.WriteString(",")
		}
		b.WriteString("\n")
	}
	b.WriteString("]\n\n")

	// literal-bearing conditions / arithmetic in the functions that decide WHEN and HOW MUCH
	b.WriteString("/-- per function: every comparison, modulus or arithmetic expression (and every call argument list) that\n    mentions a numeric literal, in source order -/\n")
	b.WriteString("def literalUses : List (String × List String) := [\n")
	var keys []string
	for k := range w.byKey {
		keys = append(keys, k)
	}
	sort.Strings(keys)
	first := true
	for _, k := range keys {
		fi := w.byKey[k]
		fname := fset.Position(fi.decl.Pos()).Filename
		if strings.HasSuffix(fname, "test_common.go") || strings.Contains(fname, "/mocks/") || strings.Contains(fname, "/testutil/") || strings.HasSuffix(fname, ".pb.go") || strings.HasSuffix(fname, ".pb.gw.go") || strings.Contains(fname, "/client/cli/") || strings.Contains(fname, "/simulation/") || strings.Contains(fname, "module_simulation") {
			continue
		}
		uses := literalUses(fi.decl)
		if len(uses) == 0 {
			continue
		}
		if !first {
			b.WriteString(",\n")
		}
		first = false
		fmt.Fprintf(&b, "  (%s, %s)", leanStr(k), leanStrList(uses))
	}
	b.WriteString("\n]\n\n")
	// conjunction chains of predicate calls (`return f(a) && g(b) && …`, closures included): Go evaluates them left to
	// right and stops at the first false one, so the ORDER decides which side effects of the predicates happen
	b.WriteString("/-- per function: every `&&` chain of three or more calls, as the list of the called functions in evaluation order -/\n")
	b.WriteString("def andChains : List (String × List (List String)) := [\n")
	first = true
	for _, k := range keys {
		fi := w.byKey[k]
		fname := fset.Position(fi.decl.Pos()).Filename
		if strings.HasSuffix(fname, "test_common.go") || strings.Contains(fname, "/mocks/") || strings.HasSuffix(fname, ".pb.go") || strings.HasSuffix(fname, ".pb.gw.go") || strings.Contains(fname, "/client/cli/") {
			continue
		}
		var chains []string
		ast.Inspect(fi.decl.Body, func(n ast.Node) bool {
			be, ok := n.(*ast.BinaryExpr)
			if !ok || be.Op != token.LAND {
				return true
			}
			// flatten the left-leaning chain
			var parts []ast.Expr
			var flat func(e ast.Expr)
			flat = func(e ast.Expr) {
				if b2, ok := e.(*ast.BinaryExpr); ok && b2.Op == token.LAND {
					flat(b2.X)
					flat(b2.Y)
					return
				}
				if p, ok := e.(*ast.ParenExpr); ok {
					flat(p.X)
					return
				}
				parts = append(parts, e)
			}
			flat(be)
			var names []string
			for _, pe := range parts {
				ce, ok := pe.(*ast.CallExpr)
				if !ok {
					return false
				}
				names = append(names, src(ce.Fun))
			}
			if len(names) >= 3 {
				chains = append(chains, leanStrList(names))
			}
			return false
		})
		if len(chains) == 0 {
			continue
		}
		if !first {
			b.WriteString(",\n")
		}
		first = false
		fmt.Fprintf(&b, "  (%s, [%s])", leanStr(k), strings.Join(chains, ", "))
	}
	b.WriteString("\n]\n\nend Paloma.Gen.ConstTable\n")
	emit("ConstTable.lean", b.String())
}

// literalUses: maximal binary expressions / unary comparisons-method calls that contain a numeric literal
func literalUses(fd *ast.FuncDecl) []string {
	var out []string
	hasNumLit := func(n ast.Node) bool {
		found := false
		ast.Inspect(n, func(x ast.Node) bool {
			if bl, ok := x.(*ast.BasicLit); ok && (bl.Kind == token.INT || bl.Kind == token.FLOAT) {
				found = true
			}
			return !found
		})
		return found
	}
	var visit func(n ast.Node) bool
	visit = func(n ast.Node) bool {
		switch e := n.(type) {
		case *ast.FuncLit:
			return true
		case *ast.BinaryExpr:
			if hasNumLit(e) {
				out = append(out, src(e))
				return false // maximal expression only
			}
		case *ast.CallExpr:
			// method-style arithmetic / comparison on sdkmath values and time: x.Mul(NewInt(3)), x.GTE(…), Add(30*time.Minute)
			if sel, ok := e.Fun.(*ast.SelectorExpr); ok {
				switch sel.Sel.Name {
				case "Mul", "Quo", "Add", "Sub", "GT", "GTE", "LT", "LTE", "Equal", "MulInt", "QuoInt", "MulInt64", "QuoInt64", "Mod", "ModRaw", "AddRaw", "SubRaw", "MulRaw", "QuoRaw", "After", "Before", "NewInt", "NewDec", "NewDecWithPrec", "LegacyNewDec", "LegacyNewDecWithPrec", "LegacyMustNewDecFromStr", "SetUint64", "NewIntFromUint64":
					if hasNumLit(e) {
						out = append(out, src(e))
						return false
					}
				}
			}
		case *ast.AssignStmt:
			// `keepWarmDays := 30`: a local that is a bare number
			if len(e.Lhs) == 1 && len(e.Rhs) == 1 {
				if bl, ok := e.Rhs[0].(*ast.BasicLit); ok && (bl.Kind == token.INT || bl.Kind == token.FLOAT) {
					out = append(out, src(e))
					return false
				}
			}
		case *ast.IndexExpr:
			return true
		case *ast.CaseClause:
			for _, x := range e.List {
				if hasNumLit(x) {
					out = append(out, "case "+src(x))
				}
			}
			for _, s := range e.Body {
				ast.Inspect(s, visit)
			}
			return false
		}
		return true
	}
	if fd.Body != nil {
		ast.Inspect(fd.Body, visit)
	}
	return out
}
