package main

import (
	"fmt"
	"regexp"
	"go/ast"
	"go/constant"
	"go/token"
	"go/types"
	"sort"
	"strings"
)

// genTranslated: a small Go -> Lean TRANSLATOR for pure decision / arithmetic cores of the repository.
// For each configured function the body is translated statement by statement into a Lean `Id.run do` block
// (Go's `if`, `return`, `:=`, `=`, `+=`, `for _, v := range`, `switch` map one to one onto Lean's `do` notation
// with `let mut`, `for … in … do`, early `return`).  Types: uint64 -> UInt64 (wraps like Go), int / int64 /
// time.Duration / sdkmath.Int -> Int (no wrap / no 2^256 panic: named in DESIGN), bool -> Bool, []T -> List T.
// Integer `/` and `%` on signed values are Go's truncating operators: `Int.tdiv`, `Int.tmod`.
// Package-level constants are replaced by their go/types-evaluated values, package-level slices of constants
// by the evaluated list.  What is NOT plain arithmetic — getters on messages, fields of a receiver — enters as
// an *atom*: the configuration maps the atom's exact source text to a Lean parameter.  Any statement or
// expression outside this subset makes the function UNTRANSLATABLE: no definition is emitted, the consuming
// theorem in Props/Translated.lean no longer builds (fails closed), and the reason is written next to it.
//
// Props/Translated.lean proves, for every input, that each translated function equals the hand-written model
// function the property theorems are about — so those theorems are about what the code says NOW.

type trParam struct{ name, typ string }

type trConf struct {
	key    string            // funcKey of the Go function
	lean   string            // Lean definition name
	params []trParam         // Lean parameters, in order
	atoms  map[string]string // Go source text -> Lean term
	skip   []string          // statements (source text) that only serve atoms
	ret    string            // Lean result type
	// returns: for functions whose results are not plain values (errors, store writes): the exact source text of
	// each `return …` statement -> the Lean term it stands for
	returns map[string]string
	prelude string // Lean declarations the definition needs (result type)
	typeParam string // Lean type a Go type parameter is instantiated with (generic functions)
	// stmts: effectful statements (store reads / writes and their error results) -> the Lean statements that stand for
	// them; init: Lean statements in front of the body (declarations of the variables `stmts` assign)
	stmts map[string][]string
	init  []string
	// elemTypes: Lean type of the elements a loop variable ranges over, when it is not a translatable basic type
	elemTypes map[string]string
	// foldLoops: also a plain top-level loop (no early exit at all) that assigns one variable becomes a left fold
	foldLoops bool
	// atEnd: what a function without results stands for when it runs to its end
	atEnd string
	// must: statements (source text, also listed in `skip`) the function has to contain — a guard the theorems lean on,
	// e.g. the deferred `recover`; without it the function counts as untranslatable
	must []string
}

var trConfs = []trConf{
	{key: "x/valset/keeper.deriveJailSentence", lean: "deriveJailSentence", ret: "Int",
		params: []trParam{{"d", "Int"}}},
	{key: "x/valset/keeper.calculateJailSentenceResetThreshold", lean: "calculateJailSentenceResetThreshold", ret: "Int",
		params: []trParam{{"d", "Int"}}},
	{key: "x/skyway/keeper.Keeper.Attest", lean: "attest", ret: "AttestOutcome",
		prelude: "/-- what `Attest` does with a claim message: refuse it (1 orchestrator / address problem, 2 not the validator's next nonce,\n    3 claim hash, 4 stored claim undecodable, 5 remote height differs from the stored claim's, 6 store failure) or store the\n    attestation with this vote list and move the validator's nonce -/\ninductive AttestOutcome where\n  | rejected (code : Nat)\n  | voted (votes : List Nat)\nderiving DecidableEq, Repr",
		params: []trParam{{"validatorFound", "Bool"}, {"validator", "Nat"}, {"validatorNonce", "UInt64"}, {"claimNonce", "UInt64"},
			{"claimHeight", "UInt64"}, {"attStored", "Bool"}, {"storedVotes", "List Nat"}, {"storedHeight", "UInt64"}},
		init: []string{"let mut err : Nat := 0", "let mut attVotes : List Nat := storedVotes", "let mut attHeight : UInt64 := storedHeight", "let mut lastSkywayNonce : UInt64 := 0"},
		atoms: map[string]string{"err != nil": "err != 0", "found": "validatorFound", "claim.GetSkywayNonce()": "claimNonce",
			"att == nil": "!attStored", "ethClaim.GetEthBlockHeight()": "attHeight", "claim.GetEthBlockHeight()": "claimHeight",
			"slices.Contains(att.Votes, valAddr)": "attVotes.contains validator"},
		skip: []string{"val, found, err := k.GetOrchestratorValidator(ctx, claim.GetClaimer())", "valAddr := val.GetOperator()",
			"valAddress, err := utilkeeper.ValAddressFromBech32(k.AddressCodec, val.GetOperator())",
			"hash, err := claim.ClaimHash()", "att := k.GetAttestation(ctx, claim.GetChainReferenceId(), claim.GetSkywayNonce(), hash)",
			"sdkCtx := sdk.UnwrapSDKContext(ctx)", "ethClaim, err := k.UnpackAttestationClaim(att)",
			"k.SetAttestation(ctx, claim.GetChainReferenceId(), claim.GetSkywayNonce(), hash, att)"},
		stmts: map[string][]string{
			"if err := sdk.VerifyAddressFormat(valAddress); err != nil { return nil, sdkerrors.Wrap(err, \"invalid orchestrator validator address\") }": {},
			"lastSkywayNonce, err := k.GetLastSkywayNonceByValidator(ctx, valAddress, claim.GetChainReferenceId())":                                          {"lastSkywayNonce := validatorNonce"},
			"att = &types.Attestation{ Observed: false, Votes: []string{}, Height: uint64(sdkCtx.BlockHeight()), Claim: anyClaim, }":                       {"attVotes := []", "attHeight := claimHeight"},
			"att.Votes = append(att.Votes, valAddr)": {"attVotes := attVotes ++ [validator]"},
			"err = k.SetLastSkywayNonceByValidator(ctx, valAddress, claim.GetChainReferenceId(), claim.GetSkywayNonce())": {"err := 0"},
		},
		returns: map[string]string{"return nil, err": ".rejected 6",
			"return nil, fmt.Errorf(\"could not find ValAddr for delegate key, should be checked by now\")": ".rejected 1",
			"return nil, fmt.Errorf(types.ErrNonContiguousEventNonce.Error(), lastSkywayNonce+1, claim.GetSkywayNonce())": ".rejected 2",
			"return nil, sdkerrors.Wrap(err, \"unable to compute claim hash\")":                                          ".rejected 3",
			"return nil, fmt.Errorf(\"could not unpack stored attestation claim, %v\", err)":                             ".rejected 4",
			"return att, nil": ".voted attVotes",
			"return nil, fmt.Errorf(\"invalid height - this claim's height is %v while the stored height is %v\", claim.GetEthBlockHeight(), ethClaim.GetEthBlockHeight())": ".rejected 5"}},
	{key: "x/skyway/keeper.Keeper.TryAttestation", lean: "tryAttestation", ret: "AttOutcome",
		prelude: "/-- what `TryAttestation` decides: `error c` = it returned an error (1 a store / codec failure, 2 the remote height was refused,\n    3 the claim is out of order, 4 the observation event could not be emitted AFTER the claim was applied, 9 already observed),\n    `pending` = not enough voting power yet, `observed` = marked observed and handed to the handler -/\ninductive AttOutcome where\n  | error (code : Nat) | pending | observed\nderiving DecidableEq, Repr",
		params: []trParam{{"alreadyObserved", "Bool"}, {"totalPower", "Int"}, {"votes", "List Nat"}, {"power", "Nat → Int"},
			{"lastNonce", "UInt64"}, {"claimNonce", "UInt64"}, {"heightRefused", "Bool"}, {"eventFails", "Bool"}},
		init: []string{"let mut err : Nat := 0", "let mut becameObserved : Bool := false", "let mut lastSkywayNonce : UInt64 := 0"},
		atoms: map[string]string{"att.Observed": "alreadyObserved", "att.Votes": "votes", "err != nil": "err != 0",
			"math.NewInt(validatorPower)": "power validator", "claim.GetSkywayNonce()": "claimNonce",
		},
		skip: []string{"claim, err := k.UnpackAttestationClaim(att)", "hash, err := claim.ClaimHash()",
			"val, err := utilkeeper.ValAddressFromBech32(k.AddressCodec, validator)",
			"validatorPower, err := k.StakingKeeper.GetLastValidatorPower(ctx, val)",
			"totalPower, err := k.StakingKeeper.GetLastTotalPower(ctx)",
			"k.SetAttestation(ctx, claim.GetChainReferenceId(), claim.GetSkywayNonce(), hash, att)"},
		stmts: map[string][]string{
			"lastSkywayNonce, err := k.GetLastObservedSkywayNonce(ctx, claim.GetChainReferenceId())": {"lastSkywayNonce := lastNonce"},
			"err = k.SetLastObservedEthereumBlockHeight(ctx, claim.GetChainReferenceId(), claim.GetEthBlockHeight())": {"err := if heightRefused then 2 else 0"},
			"err = k.setLastObservedSkywayNonce(ctx, claim.GetChainReferenceId(), claim.GetSkywayNonce())":            {"err := 0"},
			"att.Observed = true":                    {"becameObserved := true"},
			"err = k.processAttestation(ctx, att, claim)": {"err := 0"},
			"err = k.emitObservedEvent(ctx, att, claim)":  {"err := if eventFails then 4 else 0"},
		},
		returns: map[string]string{"return fmt.Errorf(\"could not cast to claim\")": ".error 1", "return fmt.Errorf(\"unable to compute claim hash\")": ".error 1",
			"return err": ".error err", "return fmt.Errorf(\"attempting to apply events to state out of order\")": ".error 3",
			"return fmt.Errorf(\"attempting to process observed attestation\")": ".error 9",
			"return nil": "if becameObserved then .observed else .pending"}},
	{key: "util/palomath.Median", lean: "median", ret: "UInt64", typeParam: "UInt64",
		// `w` is the sorted copy of `s` (make / copy / slices.Sort are library calls): it enters as a parameter and the
		// theorem instantiates it with the sorted list
		params: []trParam{{"s", "List UInt64"}, {"w", "List UInt64"}},
		skip:   []string{"w := make([]E, len(s))", "copy(w, s)", "slices.Sort(w)"}},
	{key: "x/evm/keeper.isEnoughToReachConsensus", lean: "isEnoughToReachConsensus", ret: "Bool",
		params: []trParam{{"powers", "List UInt64"}},
		atoms:  map[string]string{"val.Powers": "powers"}},
	{key: "x/skyway/types.BridgeTransferLimit.BlockLimit", lean: "blockLimit", ret: "Int",
		params: []trParam{{"period", "Int"}},
		atoms:  map[string]string{"m.LimitPeriod": "period"}},
	{key: "util/libcons.consensusPower.consensus", lean: "consensus", ret: "Bool",
		params: []trParam{{"sumUnset", "Bool"}, {"sum", "Int"}, {"total", "Int"}},
		atoms:  map[string]string{"c.runningSum == zero": "sumUnset", "c.runningSum": "sum", "c.totalPower": "total"},
		skip:   []string{"var zero sdkmath.Int"}},
	{key: "x/consensus/keeper/filters.HasGasEstimate", lean: "hasGasEstimate", ret: "Bool",
		params: []trParam{{"requires", "Bool"}, {"estimate", "UInt64"}},
		atoms:  map[string]string{"msg.GetRequireGasEstimation()": "requires", "msg.GetGasEstimate()": "estimate"}},
	{key: "x/consensus/keeper/filters.IsNotBlockedByValset", lean: "isNotBlockedByValset", ret: "Bool",
		params: []trParam{{"pendingIds", "List UInt64"}, {"id", "UInt64"}},
		atoms: map[string]string{"pendingValsetUpdates == nil": "pendingIds.isEmpty", "len(pendingValsetUpdates)": "(pendingIds.length : Int)",
			"pendingValsetUpdates[0].GetId()": "pendingIds.headD 0", "msg.GetId()": "id"}},
	{key: "x/consensus/keeper/filters.IsUnprocessed", lean: "isUnprocessed", ret: "Bool",
		params: []trParam{{"hasPublicAccessData", "Bool"}, {"hasErrorData", "Bool"}},
		atoms:  map[string]string{"msg.GetPublicAccessData() == nil": "!hasPublicAccessData", "msg.GetErrorData() == nil": "!hasErrorData"}},
	{key: "x/skyway/keeper.Keeper.bridgeTaxAmount", lean: "bridgeTaxAmount", ret: "Option Int",
		params: []trParam{{"settingFound", "Bool"}, {"lookupFailed", "Bool"}, {"num", "Int"}, {"denom", "Int"}, {"exempt", "List Nat"}, {"sender", "Nat"}, {"amt", "Int"}},
		atoms: map[string]string{"err != nil": "!settingFound", "errors.Is(err, keeperutil.ErrNotFound)": "!lookupFailed",
			"bRate.Sign() == 0": "num == 0", "bridgeTax.ExemptAddresses": "exempt", "sender.Equals(addr)": "sender == addr", "coin.Amount": "amt"},
		skip: []string{"bridgeTax, err := k.BridgeTax(ctx, coin.Denom)", "bRate, _ := new(big.Rat).SetString(bridgeTax.Rate)",
			"num := math.NewIntFromBigInt(bRate.Num())", "denom := math.NewIntFromBigInt(bRate.Denom())"},
		returns: map[string]string{"return math.ZeroInt(), nil": "some 0", "return math.ZeroInt(), err": "none",
			"return coin.Amount.Mul(num).Quo(denom), nil": "some (Int.tdiv (amt * num) denom)"}},
	{key: "x/skyway/keeper.Keeper.UpdateBridgeTransferUsageWithLimit", lean: "updateUsage", ret: "UsageOutcome",
		prelude: "/-- what `UpdateBridgeTransferUsageWithLimit` does: nothing, fail on a store error, refuse the transfer, or persist a usage record -/\ninductive UsageOutcome where\n  | unchanged | error | rejected\n  | saved (total start : Int)\nderiving DecidableEq, Repr",
		params: []trParam{{"limitsFound", "Bool"}, {"limitsLookupFailed", "Bool"}, {"usageLookupFailed", "Bool"}, {"exempt", "List Nat"}, {"sender", "Nat"},
			{"period", "Int"}, {"limit", "Int"}, {"usageAbsent", "Bool"}, {"uStart", "Int"}, {"uTotal", "Int"}, {"h", "Int"}, {"amt", "Int"}},
		atoms: map[string]string{"err != nil": "!limitsFound", "errors.Is(err, keeperutil.ErrNotFound)": "!limitsLookupFailed",
			"err != nil && !errors.Is(err, keeperutil.ErrNotFound)": "usageLookupFailed",
			"limits.ExemptAddresses": "exempt", "sender.Equals(addr)": "sender == addr",
			"limits.LimitPeriod == types.LimitPeriod_NONE": "period == 0",
			"sdk.UnwrapSDKContext(ctx).BlockHeight()": "h", "usage == nil || usage.Total.IsNil()": "usageAbsent",
			"usage.StartBlockHeight": "uStart", "usage.Total": "uTotal", "limits.BlockLimit()": "period", "limits.Limit": "limit", "coin.Amount": "amt"},
		skip: []string{"limits, err := k.BridgeTransferLimit(ctx, coin.Denom)", "usage, err := k.BridgeTransferUsage(ctx, coin.Denom)",
			"st := k.GetStore(ctx, types.BridgeTransferUsagePrefix)"},
		returns: map[string]string{"return nil": ".unchanged", "return err": ".error",
			"return fmt.Errorf(\"limit for bridge transfer reached %v\", limits.Limit)": ".rejected",
			"return keeperutil.Save(st, k.cdc, []byte(coin.Denom), &newUsage)": ".saved newUsage_Total newUsage_StartBlockHeight"}},
	{key: "x/scheduler/keeper.Keeper.ScheduleNow", lean: "scheduleNow", ret: "SchedOutcome",
		prelude: "/-- what `ScheduleNow` does with an execution request: refuse it (1 no such job, 2 payload supplied for a job whose payload is fixed,\n    3 the chain bridge's `ExecuteJob` failed) or hand the job's definition to the bridge with the stored payload / the supplied one -/\ninductive SchedOutcome where\n  | rejected (code : Nat)\n  | scheduled (supplied : Bool)\nderiving DecidableEq, Repr",
		params: []trParam{{"jobFound", "Bool"}, {"modifiable", "Bool"}, {"inNil", "Bool"}, {"inLen", "Int"}, {"executeFails", "Bool"}},
		init:   []string{"let mut err : Nat := 0", "let mut useSupplied : Bool := false"},
		atoms: map[string]string{"err != nil": "err != 0", "len(in)": "inLen", "job.GetIsPayloadModifiable()": "modifiable", "in != nil": "!inNil"},
		skip: []string{"router := job.GetRouting()", "chain := k.Chains[router.GetChainType()]", "payload := job.GetPayload()",
			"jcfg := &xchain.JobConfiguration{ Definition: job.GetDefinition(), Payload: payload, SenderAddress: senderAddress, ContractAddress: contractAddress, RefID: router.GetChainReferenceID(), Requirements: xchain.JobRequirements{ EnforceMEVRelay: job.EnforceMEVRelay, }, }"},
		stmts: map[string][]string{
			"job, err := k.GetJob(ctx, jobID)":          {"err := if jobFound then 0 else 1"},
			"payload = in":                              {"useSupplied := true"},
			"msgID, err := chain.ExecuteJob(ctx, jcfg)": {"err := if executeFails then 3 else 0"},
		},
		returns: map[string]string{"return 0, err": ".rejected err",
			"return 0, types.ErrCannotModifyJobPayload.Wrapf(\"jobID: %s\", jobID)": ".rejected 2",
			"return msgID, nil": ".scheduled useSupplied"}},
	{key: "x/evm/keeper.zeroPadBytes", lean: "zeroPadBytes", ret: "Option (List UInt8)",
		params:  []trParam{{"input", "List UInt8"}, {"size", "Int"}},
		returns: map[string]string{"return nil, whoops.String(fmt.Sprintf(\"Can not zero pad byte array of size %d to %d\", inputLen, size))": "none", "return ret, nil": "some ret"}},
	{key: "x/evm/keeper.injectSenderIntoPayload", lean: "injectSenderIntoPayload", ret: "Option (List UInt8)",
		params: []trParam{{"senderBytes", "List UInt8"}, {"payload", "List UInt8"}},
		init:   []string{"let mut err : Nat := 0", "let mut appendSenderBytes : List UInt8 := []"},
		atoms:  map[string]string{"err != nil": "err != 0"},
		stmts: map[string][]string{"appendSenderBytes, err := zeroPadBytes(senderBytes, 32)": {
			"err := if (zeroPadBytes senderBytes 32).isNone then 1 else 0", "appendSenderBytes := (zeroPadBytes senderBytes 32).getD []"}},
		returns: map[string]string{"return nil, err": "none", "return append(payload, appendSenderBytes...), nil": "some (payload ++ appendSenderBytes)"}},
	{key: "x/tokenfactory/keeper.Keeper.mintTo", lean: "tfMintTo", ret: "Nat",
		params: []trParam{{"deconstructFails", "Bool"}, {"mintCoinsCode", "Nat"}, {"addrBad", "Bool"}, {"sendCode", "Nat"}},
		init:   []string{"let mut err : Nat := 0"},
		atoms:  map[string]string{"err != nil": "err != 0"},
		stmts: map[string][]string{
			"_, _, err := types.DeconstructDenom(amount.Denom)":                                {"err := if deconstructFails then 4 else 0"},
			"err = k.bankKeeper.MintCoins(ctx, types.ModuleName, sdk.NewCoins(amount))": {"err := mintCoinsCode"},
			"addr, err := sdk.AccAddressFromBech32(mintTo)":                                  {"err := if addrBad then 6 else 0"}},
		returns: map[string]string{"return err": "err",
			"return k.bankKeeper.SendCoinsFromModuleToAccount(ctx, types.ModuleName, addr, sdk.NewCoins(amount))": "sendCode"}},
	{key: "x/tokenfactory/keeper.Keeper.burnFrom", lean: "tfBurnFrom", ret: "Nat",
		params: []trParam{{"deconstructFails", "Bool"}, {"addrBad", "Bool"}, {"sendCode", "Nat"}, {"burnCoinsCode", "Nat"}},
		init:   []string{"let mut err : Nat := 0"},
		atoms:  map[string]string{"err != nil": "err != 0"},
		stmts: map[string][]string{
			"_, _, err := types.DeconstructDenom(amount.Denom)": {"err := if deconstructFails then 4 else 0"},
			"addr, err := sdk.AccAddressFromBech32(burnFrom)":  {"err := if addrBad then 6 else 0"},
			"err = k.bankKeeper.SendCoinsFromAccountToModule(ctx, addr, types.ModuleName, sdk.NewCoins(amount))": {"err := sendCode"}},
		returns: map[string]string{"return err": "err",
			"return k.bankKeeper.BurnCoins(ctx, types.ModuleName, sdk.NewCoins(amount))": "burnCoinsCode"}},
	{key: "x/tokenfactory/keeper.msgServer.Mint", lean: "tfMint", ret: "TfOutcome",
		prelude: "/-- what a token factory handler does with an authenticated message: refuse it (1 authority metadata unreadable, 3 not the admin,\n    4 not a factory denomination, 6 address does not parse, 10 no such denomination, other codes: what the bank returned) or carry it out -/\ninductive TfOutcome where\n  | rejected (code : Nat)\n  | done\nderiving DecidableEq, Repr",
		params: []trParam{{"denomExists", "Bool"}, {"authorityErr", "Bool"}, {"creator", "Nat"}, {"admin", "Option Nat"}, {"mintToCode", "Nat"}},
		init:   []string{"let mut err : Nat := 0"},
		atoms:  map[string]string{"err != nil": "err != 0", "msg.Metadata.Creator != authorityMetadata.GetAdmin()": "some creator != admin"},
		skip:   []string{"sdkCtx := sdk.UnwrapSDKContext(ctx)"},
		stmts: map[string][]string{
			"_, denomExists := server.bankKeeper.GetDenomMetaData(ctx, msg.Amount.Denom)":                      {},
			"authorityMetadata, err := server.Keeper.GetAuthorityMetadata(ctx, msg.Amount.GetDenom())": {"err := if authorityErr then 1 else 0"},
			"err = server.Keeper.mintTo(ctx, msg.Amount, msg.Metadata.Creator)":                         {"err := mintToCode"}},
		returns: map[string]string{"return nil, types.ErrDenomDoesNotExist.Wrapf(\"denom: %s\", msg.Amount.Denom)": ".rejected 10",
			"return nil, err": ".rejected err", "return nil, types.ErrUnauthorized": ".rejected 3", "return &types.MsgMintResponse{}, nil": ".done"}},
	{key: "x/tokenfactory/keeper.msgServer.Burn", lean: "tfBurn", ret: "TfOutcome",
		params: []trParam{{"authorityErr", "Bool"}, {"creator", "Nat"}, {"admin", "Option Nat"}, {"burnFromCode", "Nat"}},
		init:   []string{"let mut err : Nat := 0"},
		atoms:  map[string]string{"err != nil": "err != 0", "msg.Metadata.Creator != authorityMetadata.GetAdmin()": "some creator != admin"},
		skip:   []string{"sdkCtx := sdk.UnwrapSDKContext(ctx)"},
		stmts: map[string][]string{
			"authorityMetadata, err := server.Keeper.GetAuthorityMetadata(ctx, msg.Amount.GetDenom())": {"err := if authorityErr then 1 else 0"},
			"err = server.Keeper.burnFrom(ctx, msg.Amount, msg.Metadata.Creator)":                       {"err := burnFromCode"}},
		returns: map[string]string{"return nil, err": ".rejected err", "return nil, types.ErrUnauthorized": ".rejected 3", "return &types.MsgBurnResponse{}, nil": ".done"}},
	{key: "x/tokenfactory/keeper.msgServer.ChangeAdmin", lean: "tfChangeAdmin", ret: "TfOutcome",
		params: []trParam{{"authorityErr", "Bool"}, {"creator", "Nat"}, {"admin", "Option Nat"}, {"setAdminCode", "Nat"}},
		init:   []string{"let mut err : Nat := 0"},
		atoms:  map[string]string{"err != nil": "err != 0", "msg.Metadata.Creator != authorityMetadata.GetAdmin()": "some creator != admin"},
		skip:   []string{"sdkCtx := sdk.UnwrapSDKContext(ctx)"},
		stmts: map[string][]string{
			"authorityMetadata, err := server.Keeper.GetAuthorityMetadata(ctx, msg.Denom)": {"err := if authorityErr then 1 else 0"},
			"err = server.Keeper.setAdmin(ctx, msg.Denom, msg.NewAdmin)":                    {"err := setAdminCode"}},
		returns: map[string]string{"return nil, err": ".rejected err", "return nil, types.ErrUnauthorized": ".rejected 3", "return &types.MsgChangeAdminResponse{}, nil": ".done"}},
	{key: "x/tokenfactory/keeper.msgServer.SetDenomMetadata", lean: "tfSetDenomMetadata", ret: "TfOutcome",
		params: []trParam{{"metadataInvalid", "Bool"}, {"authorityErr", "Bool"}, {"creator", "Nat"}, {"admin", "Option Nat"}},
		init:   []string{"let mut err : Nat := 0"},
		atoms:  map[string]string{"err != nil": "err != 0", "msg.Metadata.Creator != authorityMetadata.GetAdmin()": "some creator != admin"},
		skip:   []string{"sdkCtx := sdk.UnwrapSDKContext(ctx)", "server.Keeper.bankKeeper.SetDenomMetaData(ctx, msg.DenomMetadata)"},
		stmts: map[string][]string{
			"err := msg.DenomMetadata.Validate()": {"err := if metadataInvalid then 7 else 0"},
			"authorityMetadata, err := server.Keeper.GetAuthorityMetadata(ctx, msg.DenomMetadata.Base)": {"err := if authorityErr then 1 else 0"}},
		returns: map[string]string{"return nil, err": ".rejected err", "return nil, types.ErrUnauthorized": ".rejected 3", "return &types.MsgSetDenomMetadataResponse{}, nil": ".done"}},
	{key: "x/paloma/keeper.Keeper.CreateLightNodeClientLicense", lean: "createLicense", ret: "LicOutcome",
		prelude: "/-- what the light-node licence functions do: refuse (code; `accountCreated`: the new base account had already been written when the\n    function failed, so the caller's branched store must be dropped) or complete -/\ninductive LicOutcome where\n  | rejected (code : Nat) (accountCreated : Bool)\n  | done\nderiving DecidableEq, Repr",
		params: []trParam{{"creatorBad", "Bool"}, {"formatBad", "Bool"}, {"amountValid", "Bool"}, {"licLookup", "Nat"}, {"clientBad", "Bool"},
			{"hasAccount", "Bool"}, {"lockFails", "Bool"}, {"storeFails", "Bool"}},
		init: []string{"let mut err : Nat := 0", "let mut accountCreated : Bool := false"},
		atoms: map[string]string{"err != nil": "err != 0", "err == nil": "err == 0", "errors.Is(err, keeperutil.ErrNotFound)": "err == 1",
			"sdk.VerifyAddressFormat(creatorAcct) != nil": "formatBad", "amount.IsValid()": "amountValid", "k.accountKeeper.HasAccount(ctx, acct)": "hasAccount"},
		skip: []string{"license := &types.LightNodeClientLicense{ ClientAddress: clientAddr, Amount: amount, VestingMonths: vestingMonths, }",
			"baseAccount := authtypes.NewBaseAccountWithAddress(acct)", "baseAccount = k.accountKeeper.NewAccount(ctx, baseAccount).(*authtypes.BaseAccount)"},
		stmts: map[string][]string{
			"creatorAcct, err := sdk.AccAddressFromBech32(creatorAddr)":                  {"err := if creatorBad then 2 else 0"},
			"_, err = k.GetLightNodeClientLicense(ctx, clientAddr)":                      {"err := licLookup"},
			"acct, err := k.accountKeeper.AddressCodec().StringToBytes(clientAddr)":       {"err := if clientBad then 3 else 0"},
			"k.accountKeeper.SetAccount(ctx, baseAccount)":                               {"accountCreated := true"},
			"err = k.bankKeeper.SendCoinsFromAccountToModule(ctx, creatorAcct, types.ModuleName, sdk.Coins{amount})": {"err := if lockFails then 5 else 0"}},
		returns: map[string]string{"return err": ".rejected err accountCreated", "return types.ErrInvalidParameters": ".rejected 10 accountCreated",
			"return types.ErrLicenseExists": ".rejected 11 accountCreated", "return types.ErrAccountExists": ".rejected 12 accountCreated",
			"return k.SetLightNodeClientLicense(ctx, clientAddr, license)": "if storeFails then .rejected 6 accountCreated else .done"}},
	{key: "x/paloma/keeper.Keeper.CreateSaleLightNodeClientLicense", lean: "createSaleLicense", ret: "SaleOutcome",
		prelude: "/-- what `CreateSaleLightNodeClientLicense` does: refuse (20 no fee granter, 21 no funder, 22 no funder can pay, 1 store failure, 3 client address,\n    other: what licence creation / the fee grant returned) or create the licence paid by funder number `funder` and grant the fee allowance -/\ninductive SaleOutcome where\n  | rejected (code : Nat)\n  | done (funder : Nat)\nderiving DecidableEq, Repr",
		params: []trParam{{"feegranterLookup", "Nat"}, {"fundersLookup", "Nat"}, {"hasBalance", "List Bool"}, {"createCode", "Nat → Nat"}, {"clientBad", "Bool"}, {"grantCode", "Nat"}},
		init: []string{"let mut err : Nat := 0", "let mut funder : Option Nat := none"},
		atoms: map[string]string{"err != nil": "err != 0", "errors.Is(err, keeperutil.ErrNotFound)": "err == 1",
			"funders.Accounts": "hasBalance", "k.bankKeeper.HasBalance(ctx, funders.Accounts[i], coin)": "hasBalance.getD i false", "funder == nil": "funder.isNone"},
		skip: []string{"coin := sdk.NewCoin(k.bondDenom, amount.Mul(math.NewInt(1_000_000)))", "var funder sdk.AccAddress",
			"allowance := &feegrantmodule.BasicAllowance{ SpendLimit: sdk.NewCoins(sdk.NewCoin(k.bondDenom, math.NewInt(1_000_000))), Expiration: nil, }"},
		stmts: map[string][]string{
			"feegranter, err := k.LightNodeClientFeegranter(ctx)": {"err := feegranterLookup"},
			"funders, err := k.LightNodeClientFunders(ctx)":       {"err := fundersLookup"},
			"funder = funders.Accounts[i]":                        {"funder := some i"},
			"err = k.CreateLightNodeClientLicense(ctx, funder.String(), clientAddr, coin, lightNodeSaleVestingMonths)": {"err := createCode (funder.getD 0)"},
			"acct, err := k.accountKeeper.AddressCodec().StringToBytes(clientAddr)":                                    {"err := if clientBad then 3 else 0"}},
		returns: map[string]string{"return types.ErrNoFeegranter": ".rejected 20", "return types.ErrNoFunder": ".rejected 21", "return err": ".rejected err",
			"return types.ErrInsufficientBalance": ".rejected 22",
			"return k.feegrantKeeper.GrantAllowance(ctx, feegranter.Account, acct, allowance)": "if grantCode != 0 then .rejected grantCode else .done (funder.getD 0)"}},
	{key: "x/skyway/keeper.Keeper.AddToOutgoingPool", lean: "addToOutgoingPool", ret: "PoolOutcome",
		prelude: "/-- the effects of the two pool functions, in the order they are performed -/\ninductive PoolEffect where\n  | usage | lock (amount : Int) | allocId | store (amount tax : Int) | remove | refund (amount : Int)\nderiving DecidableEq, Repr\n\n/-- how a pool function ended and what it had done by then (a failure after the first effect is undone by the caller's branched store) -/\ninductive PoolOutcome where\n  | failed (code : Nat) (done : List PoolEffect)\n  | ok (done : List PoolEffect)\nderiving DecidableEq, Repr",
		params: []trParam{{"argsInvalid", "Bool"}, {"usageCode", "Nat"}, {"taxResult", "Option Int"}, {"amt", "Int"}, {"erc20Missing", "Bool"}, {"lockFails", "Bool"},
			{"idFails", "Bool"}, {"tokenBad", "Bool"}, {"convFails", "Bool"}, {"storeFails", "Bool"}, {"chainInfoFails", "Bool"}, {"eventFails", "Bool"}},
		init: []string{"let mut err : Nat := 0", "let mut trace : List PoolEffect := []", "let mut taxedAmount : Int := 0"},
		atoms: map[string]string{"err != nil": "err != 0", "amount.Amount": "amt",
			"sdkCtx.IsZero() || sdk.VerifyAddressFormat(sender) != nil || counterpartReceiver.ValidateBasic() != nil || !amount.IsValid()": "argsInvalid"},
		skip: []string{"sdkCtx := sdk.UnwrapSDKContext(ctx)", "amountInVouchers := sdk.Coins{totalAmount}"},
		stmts: map[string][]string{
			"err := k.UpdateBridgeTransferUsageWithLimit(ctx, sender, amount)": {"err := usageCode", "if err == 0 then", "  trace := trace ++ [.usage]"},
			"taxedAmount, err := k.bridgeTaxAmount(ctx, sender, amount)":       {"err := if taxResult.isNone then 2 else 0", "taxedAmount := taxResult.getD 0"},
			"tokenContract, err := k.GetERC20OfDenom(ctx, chainReferenceID, amount.Denom)": {"err := if erc20Missing then 3 else 0"},
			"if err := k.bankKeeper.SendCoinsFromAccountToModule(ctx, sender, types.ModuleName, amountInVouchers); err != nil { return 0, err }": {
				"if lockFails then", "  return .failed 4 trace", "trace := trace ++ [.lock totalAmount_Amount]"},
			"nextID, err := k.autoIncrementID(ctx, types.KeyLastTXPoolID)": {"err := if idFails then 5 else 0", "if err == 0 then", "  trace := trace ++ [.allocId]"},
			"erc20Token, err := types.NewInternalERC20Token(amount.Amount, tokenContract.GetAddress().Hex(), chainReferenceID)": {"err := if tokenBad then 6 else 0"},
			"outgoing, err := types.OutgoingTransferTx{ Id: nextID, Sender: sender.String(), DestAddress: counterpartReceiver.GetAddress().Hex(), Erc20Token: erc20Token.ToExternal(), BridgeTaxAmount: taxedAmount, }.ToInternal()": {"err := if convFails then 7 else 0"},
			"err = k.addUnbatchedTX(ctx, outgoing)":                          {"err := if storeFails then 8 else 0", "if err == 0 then", "  trace := trace ++ [.store amt taxedAmount]"},
			"ci, err := k.EVMKeeper.GetChainInfo(ctx, chainReferenceID)":     {"err := if chainInfoFails then 9 else 0"}},
		returns: map[string]string{"return 0, sdkerrors.Wrap(types.ErrInvalid, \"arguments\")": ".failed 1 trace", "return 0, err": ".failed err trace",
			"return 0, sdkerrors.Wrapf(err, \"invalid ERC20Token from amount %d and contract %v\", amount.Amount, tokenContract)": ".failed err trace",
			"return 0, sdkerrors.Wrap(err, \"unable to create InternalOutgoingTransferTx\")":                                        ".failed err trace",
			"return nextID, sdkCtx.EventManager().EmitTypedEvent( &types.EventWithdrawalReceived{ BridgeContract: ci.SmartContractAddr, BridgeChainId: strconv.Itoa(int(ci.ChainID)), OutgoingTxId: strconv.Itoa(int(nextID)), Nonce: fmt.Sprint(nextID), }, )": "if eventFails then .failed 10 trace else .ok trace"}},
	{key: "x/skyway/keeper.Keeper.RemoveFromOutgoingPoolAndRefund", lean: "removeFromPoolAndRefund", ret: "PoolOutcome",
		params: []trParam{{"ctxZero", "Bool"}, {"txId", "UInt64"}, {"senderBad", "Bool"}, {"txFound", "Bool"}, {"txSender", "Nat"}, {"sender", "Nat"},
			{"txAmount", "Int"}, {"txTax", "Int"}, {"removeFails", "Bool"}, {"stillThere", "Bool"}, {"denomMissing", "Bool"}, {"refundFails", "Bool"},
			{"chainInfoFails", "Bool"}, {"eventFails", "Bool"}},
		init: []string{"let mut err : Nat := 0", "let mut trace : List PoolEffect := []"},
		atoms: map[string]string{"err != nil": "err != 0", "sdkCtx.IsZero()": "ctxZero", "sdk.VerifyAddressFormat(sender) != nil": "senderBad",
			"tx.Sender.Equals(sender)": "txSender == sender", "oldTx != nil || oldTxErr == nil": "stillThere",
			"tx.Erc20Token.Amount": "txAmount", "tx.BridgeTaxAmount": "txTax"},
		skip: []string{"sdkCtx := sdk.UnwrapSDKContext(ctx)", "oldTx, oldTxErr := k.GetUnbatchedTxByAmountAndId(ctx, *tx.Erc20Token, tx.Id)",
			"totalToRefundCoins := sdk.NewCoins(totalToRefund)"},
		stmts: map[string][]string{
			"tx, err := k.GetUnbatchedTxById(ctx, txId)":                   {"err := if txFound then 0 else 2"},
			"err = k.removeUnbatchedTX(ctx, *tx.Erc20Token, txId)":        {"err := if removeFails then 3 else 0", "if err == 0 then", "  trace := trace ++ [.remove]"},
			"denom, err := k.GetDenomOfERC20(ctx, tx.Erc20Token.ChainReferenceID, tx.Erc20Token.Contract)": {"err := if denomMissing then 5 else 0"},
			"if err = k.bankKeeper.SendCoinsFromModuleToAccount(ctx, types.ModuleName, sender, totalToRefundCoins); err != nil { return sdkerrors.Wrap(err, \"transfer vouchers\") }": {
				"if refundFails then", "  return .failed 6 trace", "trace := trace ++ [.refund totalToRefund_Amount]"},
			"ci, err := k.EVMKeeper.GetChainInfo(ctx, tx.Erc20Token.ChainReferenceID)": {"err := if chainInfoFails then 9 else 0"}},
		returns: map[string]string{"return sdkerrors.Wrap(types.ErrInvalid, \"arguments\")": ".failed 1 trace", "return err": ".failed err trace",
			"return sdkerrors.Wrapf(err, \"unknown transaction with id %d from sender %s\", txId, sender.String())": ".failed err trace",
			"return sdkerrors.Wrapf(types.ErrInvalid, \"Sender %s did not send Id %d\", sender, txId)":             ".failed 7 trace",
			"return sdkerrors.Wrapf(types.ErrInvalid, \"txId %d not in unbatched index! Must be in a batch!\", txId)": ".failed err trace",
			"return sdkerrors.Wrapf(types.ErrInvalid, \"tx with id %d was not fully removed from the pool, a duplicate must exist\", txId)": ".failed 4 trace",
			"return sdkCtx.EventManager().EmitTypedEvent( &types.EventWithdrawCanceled{ Sender: sender.String(), TxId: fmt.Sprint(txId), BridgeContract: ci.SmartContractAddr, BridgeChainId: strconv.Itoa(int(ci.ChainID)), }, )": "if eventFails then .failed 10 trace else .ok trace"}},
	{key: "x/consensus/keeper/consensus.Queue.AddSignature", lean: "addSignature", ret: "QueueOutcome",
		prelude: "/-- what the queue does with a signature / an estimate: refuse (`failed 1` no such message, `failed 2` signing bytes unavailable, duplicate key,\n    duplicate validator, signature does not verify, not a message that takes estimates, already elected) or store it -/\ninductive QueueOutcome where\n  | failed (code : Nat) | dupKey | dupVal | badSig | noEstimation | alreadyElected | saveFailed | saved\nderiving DecidableEq, Repr",
		params: []trParam{{"msgFound", "Bool"}, {"existing", "List (Nat × Nat)"}, {"newKey", "Nat"}, {"newVal", "Nat"}, {"bytesFail", "Bool"}, {"verifies", "Bool"}, {"saveFails", "Bool"}},
		init:      []string{"let mut err : Nat := 0"},
		elemTypes: map[string]string{"existingSigData": "(Nat × Nat)"},
		atoms: map[string]string{"err != nil": "err != 0", "msg.GetSignData()": "existing",
			"bytes.Equal(existingSigData.PublicKey, signData.PublicKey)": "existingSigData.1 == newKey",
			"signData.ValAddress.Equals(existingSigData.ValAddress)":    "newVal == existingSigData.2",
			"c.qo.VerifySignature(bytesToSign, signData.Signature, signData.PublicKey)": "verifies"},
		skip: []string{"sdkCtx := sdk.UnwrapSDKContext(ctx)", "msg.AddSignData(signData)"},
		stmts: map[string][]string{"msg, err := c.GetMsgByID(sdkCtx, msgID)": {"err := if msgFound then 0 else 1"},
			"bytesToSign, err := msg.GetBytesToSign(c.qo.Cdc)": {"err := if bytesFail then 2 else 0"}},
		returns: map[string]string{"return err": ".failed err",
			"return ErrAlreadySignedWithKey.Format(msgID, c.qo.QueueTypeName, existingSigData.PublicKey)": ".dupKey",
			"return ErrValidatorAlreadySigned.Format(signData.ValAddress)":                               ".dupVal",
			"return ErrInvalidSignature": ".badSig", "return c.save(sdkCtx, msg)": "if saveFails then .saveFailed else .saved"}},
	{key: "x/consensus/keeper/consensus.Queue.AddGasEstimate", lean: "addGasEstimate", ret: "QueueOutcome",
		params: []trParam{{"msgFound", "Bool"}, {"requires", "Bool"}, {"estimators", "List Nat"}, {"newVal", "Nat"}, {"saveFails", "Bool"}},
		init:   []string{"let mut err : Nat := 0"},
		atoms: map[string]string{"err != nil": "err != 0", "msg.GetRequireGasEstimation()": "requires", "msg.GetGasEstimates()": "estimators",
			"estimate.ValAddress.Equals(v.ValAddress)": "newVal == v"},
		skip:  []string{"sdkCtx := sdk.UnwrapSDKContext(ctx)", "msg.AddGasEstimate(estimate)"},
		stmts: map[string][]string{"msg, err := c.GetMsgByID(sdkCtx, msgID)": {"err := if msgFound then 0 else 1"}},
		returns: map[string]string{"return err": ".failed err", "return fmt.Errorf(\"message %d does not require gas estimation\", msgID)": ".noEstimation",
			"return fmt.Errorf(\"gas estimate already exists for validator %s\", v.ValAddress)": ".dupVal",
			"return c.save(sdkCtx, msg)": "if saveFails then .saveFailed else .saved"}},
	{key: "x/consensus/keeper/consensus.Queue.SetElectedGasEstimate", lean: "setElectedGasEstimate", ret: "QueueOutcome",
		params: []trParam{{"msgFound", "Bool"}, {"requires", "Bool"}, {"elected", "UInt64"}, {"saveFails", "Bool"}},
		init:   []string{"let mut err : Nat := 0"},
		atoms:  map[string]string{"err != nil": "err != 0", "msg.GetRequireGasEstimation()": "requires", "msg.GetGasEstimate()": "elected"},
		skip:   []string{"msg.SetElectedGasEstimate(estimate)"},
		stmts:  map[string][]string{"msg, err := c.GetMsgByID(ctx, msgID)": {"err := if msgFound then 0 else 1"}},
		returns: map[string]string{"return err": ".failed err", "return fmt.Errorf(\"message %d does not require gas estimation\", msgID)": ".noEstimation",
			"return fmt.Errorf(\"gas estimate already exists for message %d\", msgID)": ".alreadyElected",
			"return c.save(ctx, msg)": "if saveFails then .saveFailed else .saved"}},
	{key: "x/skyway/keeper.Keeper.checkBadSignatureEvidenceInternal", lean: "checkBadSignatureEvidence", ret: "EvidenceOutcome",
		prelude: "/-- what bad-signature evidence leads to: refuse (1 chain unknown, 2 checkpoint cannot be computed, 3 the checkpoint was issued by the chain,\n    4 signature does not decode, 5 no key recovered, 6 validator look-up failed, 7 key belongs to no validator, 8 consensus address, 9 / 10 staking failure)\n    or accept — jailing the key's validator unless it is jailed already -/\ninductive EvidenceOutcome where\n  | rejected (code : Nat) | jailed | alreadyJailed\nderiving DecidableEq, Repr",
		params: []trParam{{"chainKnown", "Bool"}, {"checkpointFails", "Bool"}, {"archived", "Bool"}, {"sigDecodes", "Bool"}, {"recovers", "Bool"},
			{"lookupFails", "Bool"}, {"found", "Bool"}, {"consFails", "Bool"}, {"isJailed", "Bool"}, {"jailFails", "Bool"}, {"slashFails", "Bool"}},
		init:  []string{"let mut err : Nat := 0", "let mut didJail : Bool := false"},
		atoms: map[string]string{"err != nil": "err != 0", "k.GetPastEthSignatureCheckpoint(ctx, checkpoint)": "archived", "val.IsJailed()": "isJailed"},
		skip:  []string{"turnstoneID := string(ci.SmartContractUniqueID)", "sdkCtx := sdk.UnwrapSDKContext(ctx)", "slashingFrac := math.LegacyZeroDec()"},
		stmts: map[string][]string{
			"ci, err := k.EVMKeeper.GetChainInfo(ctx, subject.GetChainReferenceID())": {"err := if chainKnown then 0 else 1"},
			"checkpoint, err := subject.GetCheckpoint(turnstoneID)":                   {"err := if checkpointFails then 2 else 0"},
			"if signature[:2] == \"0x\" { signature = signature[2:] }":              {},
			"sigBytes, err := hex.DecodeString(signature)":                            {"err := if sigDecodes then 0 else 4"},
			"ethAddress, err := types.EthAddressFromSignature(checkpoint, sigBytes)":  {"err := if recovers then 0 else 5"},
			"val, found, err := k.GetValidatorByEthAddress(ctx, *ethAddress, subject.GetChainReferenceID())": {"err := if lookupFails then 6 else 0"},
			"cons, err := val.GetConsAddr()":            {"err := if consFails then 8 else 0"},
			"err := k.StakingKeeper.Jail(ctx, cons)":    {"err := if jailFails then 9 else 0", "if err == 0 then", "  didJail := true"},
			"_, err = k.StakingKeeper.Slash(ctx, cons, sdkCtx.BlockHeight(), val.ConsensusPower(sdk.DefaultPowerReduction), slashingFrac)": {"err := if slashFails then 10 else 0"}},
		returns: map[string]string{"return sdkerrors.Wrap(err, \"unable to create batch\")": ".rejected err", "return err": ".rejected err",
			"return sdkerrors.Wrap(types.ErrInvalid, \"Checkpoint exists, cannot slash\")": ".rejected 3",
			"return sdkerrors.Wrap(types.ErrInvalid, fmt.Sprintf(\"signature decoding %s\", signature))": ".rejected err",
			"return sdkerrors.Wrap(types.ErrInvalid, fmt.Sprintf(\"signature to eth address failed with checkpoint %s and signature %s\", hex.EncodeToString(checkpoint), signature))": ".rejected err",
			"return sdkerrors.Wrap(types.ErrInvalid, fmt.Sprintf(\"Did not find validator for eth address %s from signature %s with checkpoint %s and TurnstoneID %s\", ethAddress.GetAddress().Hex(), signature, hex.EncodeToString(checkpoint), turnstoneID))": ".rejected 7",
			"return sdkerrors.Wrap(err, \"Could not get consensus key address for validator\")": ".rejected err",
			"return fmt.Errorf(\"checkBadSignatureEvidenceInternal jail: %w\", err)": ".rejected err",
			"return nil": "if didJail then .jailed else .alreadyJailed"}},
	{key: "x/paloma.VerifyAuthorisedSignatureDecorator.AnteHandle", lean: "anteHandle", ret: "AnteOutcome",
		prelude: "/-- a message as the ownership decorator reads it: does it carry Paloma metadata, who is named as creator, who are the declared signers -/\nstructure AnteMsg where\n  hasMeta : Bool\n  creator : Nat\n  signers : List Nat\nderiving DecidableEq, Repr\n\n/-- the decorator's verdict: hand the transaction on, or refuse it (1 nesting / unpacking, 2 allowance look-up failed, 3 no signature by the\n    creator or by an account the creator granted an allowance) -/\ninductive AnteOutcome where\n  | pass | rejected (code : Nat)\nderiving DecidableEq, Repr",
		params: []trParam{{"simulate", "Bool"}, {"scopeErr", "Bool"}, {"msgs", "List AnteMsg"}, {"allowances", "Nat → Option (List (Option Nat))"}},
		init:      []string{"let mut err : Nat := 0"},
		elemTypes: map[string]string{"msgs": "AnteMsg", "grants.GetAllowances()": "Option Nat"},
		atoms: map[string]string{"err != nil": "err != 0", "v.String() == creator": "v == creator", "grants.GetAllowances()": "grantsList",
			"v == nil": "v.isNone", "len(grantees)": "(grantees.length : Int)"},
		stmts: map[string][]string{
			"msgs, err := ownershipScope(tx.GetMsgs(), 0)":                       {"err := if scopeErr then 1 else 0"},
			"m, ok := msg.(libmeta.MsgWithMetadata[vtypes.MsgMetadata])":        {"let ok := msg.hasMeta"},
			"creator := m.GetMetadata().GetCreator()":                           {"let creator := msg.creator"},
			"signers := libmeta.GetSigners(m)":                                  {"let signers := msg.signers"},
			"grants, err := d.fk.AllowancesByGranter(ctx, &feegrant.QueryAllowancesByGranterRequest{ Granter: creator, })": {
				"err := if (allowances creator).isNone then 2 else 0", "let grantsList := (allowances creator).getD []"},
			"grantsLkUp := map[string]feegrant.Grant{}": {"let mut grantsLkUp : List Nat := []"},
			"grantsLkUp[v.GetGrantee()] = *v":           {"grantsLkUp := grantsLkUp ++ [v.getD 0]"},
			"grantees := make([]string, 0, len(signers))": {"let mut grantees : List Nat := []"},
			"if v, found := grantsLkUp[signer.String()]; found { logger(ctx).Debug(\"found granted signature\", \"signature\", v.Grantee) grantees = append(grantees, v.Grantee) }": {
				"if grantsLkUp.contains signer then", "  grantees := grantees ++ [signer]"}},
		returns: map[string]string{"return next(ctx, tx, simulate)": ".pass", "return ctx, err": ".rejected err",
			"return ctx, fmt.Errorf(\"failed to verify message signature authorisation: %w\", err)": ".rejected err",
			"return ctx, fmt.Errorf(\"no signature from granted address found for message %s\", proto.MessageName(msg))": ".rejected 3"}},
	{key: "x/valset/keeper.Keeper.JailInactiveValidators", lean: "jailInactiveValidators", ret: "SweepOutcome",
		prelude: "/-- an unjailed validator as the inactivity sweep reads it -/\nstructure SweepVal where\n  id : Nat\n  active : Bool      -- bonded or unbonding\n  addrErr : Bool     -- operator address does not parse\n  aliveErr : Nat     -- 0 none, 1 not in the keep-alive store, other: a store failure\n  alive : Bool\n  inGrace : Bool\n  jailedErr : Bool\n  jailed : Bool\nderiving DecidableEq, Repr\n\n/-- how the sweep ended: it ran through (`swept`) or returned an error half way (`aborted`); in both cases the validators handed to `Jail`\n    so far, in order -/\ninductive SweepOutcome where\n  | swept (jailedNow : List Nat) | aborted (code : Nat) (jailedNow : List Nat)\nderiving DecidableEq, Repr",
		params:    []trParam{{"vals", "List SweepVal"}},
		init:      []string{"let mut err : Nat := 0", "let mut jailedNow : List Nat := []", "let mut collected : List Nat := []"},
		elemTypes: map[string]string{"k.GetUnjailedValidators(ctx)": "SweepVal"},
		atoms: map[string]string{"k.GetUnjailedValidators(ctx)": "vals", "err != nil": "err != 0", "err == nil": "err == 0",
			"errors.Is(err, ErrValidatorNotInKeepAlive)": "err == 1", "k.isValidatorInGracePeriod(ctx, valAddr)": "val.inGrace",
			"val.GetStatus() == stakingtypes.Bonded || val.GetStatus() == stakingtypes.Unbonding": "val.active"},
		skip: []string{"var g whoops.Group"},
		stmts: map[string][]string{
			"valAddr, err := keeperutil.ValAddressFromBech32(k.AddressCodec, val.GetOperator())": {"err := if val.addrErr then 9 else 0"},
			"alive, err := k.IsValidatorAlive(ctx, valAddr)":                                      {"err := val.aliveErr", "let alive := val.alive"},
			"g.Add(err)":                                  {"collected := collected ++ [err]"},
			"jailed, err := k.IsJailed(ctx, valAddr)":     {"err := if val.jailedErr then 8 else 0", "let jailed := val.jailed"},
			"g.Add( k.Jail(ctx, valAddr, types.JailReasonPigeonInactive), )": {"jailedNow := jailedNow ++ [val.id]"}},
		returns: map[string]string{"return err": ".aborted err jailedNow", "return g.Return()": ".swept jailedNow"}},
	{key: "x/consensus.AppModule.EndBlock", lean: "consensusEndBlock", ret: "EndBlockOutcome",
		prelude: "/-- how an end blocker ended: it came back with `nil` (`returned`) or with an error that fails the block (`failed`); in both cases the phases it ran, in order -/\ninductive EndBlockOutcome where\n  | returned (phases : List String) | failed (phases : List String)\nderiving DecidableEq, Repr",
		params: []trParam{{"height", "Int"}, {"estimateFails", "Bool"}, {"attestFails", "Bool"}, {"pruneFails", "Bool"}},
		init:   []string{"let mut err : Nat := 0", "let mut phases : List String := []"},
		atoms:  map[string]string{"err != nil": "err != 0", "ctx.BlockHeight()": "height"},
		skip:   []string{"ctx := sdk.UnwrapSDKContext(ct)", "am.keeper.Logger(ctx).Info(\"abci-validator-size\", abci.ValidatorUpdates{}.Len())"},
		stmts: map[string][]string{
			"err := am.keeper.CheckAndProcessEstimatedMessages(ctx)": {"phases := phases ++ [\"estimates\"]", "err := if estimateFails then 1 else 0"},
			"err := am.keeper.CheckAndProcessAttestedMessages(ctx)":  {"phases := phases ++ [\"attestations\"]", "err := if attestFails then 1 else 0"},
			"err := am.keeper.PruneOldMessages(ctx, 300)":            {"phases := phases ++ [\"prune older than 300\"]", "err := if pruneFails then 1 else 0"}},
		returns: map[string]string{"return nil": ".returned phases"}},
	{key: "x/valset.AppModule.EndBlock", lean: "valsetEndBlock", ret: "EndBlockOutcome",
		params: []trParam{{"height", "Int"}, {"buildFails", "Bool"}, {"graceFails", "Bool"}, {"sweepFails", "Bool"}},
		init:   []string{"let mut err : Nat := 0", "let mut phases : List String := []"},
		atoms:  map[string]string{"err != nil": "err != 0", "sdkCtx.BlockHeight()": "height"},
		skip:   []string{"sdkCtx := sdk.UnwrapSDKContext(ctx)"},
		stmts: map[string][]string{
			"_, err := am.keeper.TriggerSnapshotBuild(sdkCtx)": {"phases := phases ++ [\"snapshot build\"]", "err := if buildFails then 1 else 0"},
			"err := am.keeper.UpdateGracePeriod(sdkCtx)":       {"phases := phases ++ [\"grace periods\"]", "err := if graceFails then 1 else 0"},
			"err := am.keeper.JailInactiveValidators(sdkCtx)":  {"phases := phases ++ [\"inactivity sweep\"]", "err := if sweepFails then 1 else 0"}},
		returns: map[string]string{"return nil": ".returned phases", "return err": ".failed phases"}},
	{key: "x/skyway.EndBlocker", lean: "skywayEndBlocker", ret: "EndBlockOutcome", foldLoops: true, atEnd: ".returned phases",
		// one flag stands for EVERY `err != nil` test: with it set, every phase fails — and every later phase must still run
		params:    []trParam{{"height", "Int"}, {"chains", "List Nat"}, {"everythingFails", "Bool"}},
		init:      []string{"let mut phases : List String := []"},
		elemTypes: map[string]string{"chains": "Nat"},
		must:      []string{"defer func() { if r := recover(); r != nil { logger.WithFields(\"original-error\", r).Warn(\"Recovered panic.\") } }()"},
		atoms:     map[string]string{"err != nil": "everythingFails", "sdkCtx.BlockHeight()": "height", "chains": "chains"},
		skip: []string{"sdkCtx := sdk.UnwrapSDKContext(ctx)", "logger := liblog.FromKeeper(ctx, k).WithComponent(\"skyway-endblocker\")",
			"defer func() { if r := recover(); r != nil { logger.WithFields(\"original-error\", r).Warn(\"Recovered panic.\") } }()",
			"chains := k.EVMKeeper.GetActiveChainNames(ctx)"},
		stmts: map[string][]string{
			"err := createBatch(ctx, k)":                      {"phases := phases ++ [\"batches\"]"},
			"err = attestationTally(ctx, k, v)":               {"phases := phases ++ [s!\"tally {v}\"]"},
			"err = pruneAttestations(ctx, k, v)":              {"phases := phases ++ [s!\"prune attestations {v}\"]"},
			"err = k.UpdateValidatorNoncesToLatest(ctx, v)":   {"phases := phases ++ [s!\"validator nonces {v}\"]"},
			"err = processGasEstimates(ctx, k, cc)":           {"phases := phases ++ [\"gas estimates\"]"},
			"err = cleanupTimedOutBatches(ctx, k)":            {"phases := phases ++ [\"timed-out batches\"]"}}},
	{key: "x/evm.AppModule.EndBlock", lean: "evmEndBlock", ret: "EndBlockOutcome",
		params: []trParam{{"height", "Int"}, {"everythingFails", "Bool"}},
		init:   []string{"let mut phases : List String := []"},
		atoms:  map[string]string{"err != nil": "everythingFails", "sdkCtx.BlockHeight()": "height"},
		skip:   []string{"sdkCtx := sdk.UnwrapSDKContext(ctx)"},
		stmts: map[string][]string{
			"am.keeper.TryDeployingLastCompassContractToAllChains(sdkCtx)": {"phases := phases ++ [\"compass deployments\"]"},
			"am.keeper.AddJustInTimeValsetUpdates(sdkCtx)":                 {"phases := phases ++ [\"just-in-time valset updates\"]"},
			"err := am.scheduleExternalBalances(sdkCtx)":                   {"phases := phases ++ [\"external balances\"]"},
			"err := am.scheduleReferenceBlocks(sdkCtx)":                    {"phases := phases ++ [\"reference blocks\"]"},
			"err := am.keeper.PurgeStaleUserSmartContracts(ctx)":           {"phases := phases ++ [\"stale user contracts\"]"}},
		returns: map[string]string{"return nil": ".returned phases"}},
	{key: "x/skyway.AppModule.EndBlock", lean: "skywayModuleEndBlock", ret: "EndBlockOutcome",
		params: []trParam{},
		init:   []string{"let mut phases : List String := []"},
		skip: []string{"sdkCtx := sdk.UnwrapSDKContext(ctx)",
			"defer func() { if r := recover(); r != nil { am.keeper.Logger(ctx).Error(fmt.Sprintf(\"panic in EndBlock: %v\", r)) } }()"},
		must:    []string{"defer func() { if r := recover(); r != nil { am.keeper.Logger(ctx).Error(fmt.Sprintf(\"panic in EndBlock: %v\", r)) } }()"},
		stmts:   map[string][]string{"EndBlocker(sdkCtx, am.keeper, am.consensusChecker)": {"phases := phases ++ [\"bridge end blocker, under the module's own recover\"]"}},
		returns: map[string]string{"return nil": ".returned phases"}},
	{key: "x/paloma.AppModule.EndBlock", lean: "palomaEndBlock", ret: "EndBlockOutcome",
		params: []trParam{{"height", "Int"}, {"everythingFails", "Bool"}},
		init:   []string{"let mut phases : List String := []"},
		atoms:  map[string]string{"err != nil": "everythingFails", "sdkCtx.BlockHeight()": "height"},
		skip:   []string{"sdkCtx := sdk.UnwrapSDKContext(ctx)"},
		stmts:  map[string][]string{"err := am.keeper.JailValidatorsWithMissingExternalChainInfos(sdkCtx)": {"phases := phases ++ [\"jail validators without chain accounts\"]"}},
		returns: map[string]string{"return nil": ".returned phases"}},
	{key: "x/metrix.AppModule.EndBlock", lean: "metrixEndBlock", ret: "EndBlockOutcome",
		params: []trParam{{"height", "Int"}},
		init:   []string{"let mut phases : List String := []"},
		atoms:  map[string]string{"sdkCtx.BlockHeight()": "height"},
		skip:   []string{"sdkCtx := sdk.UnwrapSDKContext(ctx)"},
		stmts: map[string][]string{"am.keeper.PurgeRelayMetrics(ctx)": {"phases := phases ++ [\"purge relay metrics\"]"},
			"am.keeper.UpdateRelayMetrics(ctx)": {"phases := phases ++ [\"update relay metrics\"]"},
			"am.keeper.UpdateUptime(ctx)":       {"phases := phases ++ [\"update uptime\"]"}},
		returns: map[string]string{"return nil": ".returned phases"}},
	{key: "x/metrix/keeper.calculateUptime", lean: "calculateUptimeGuard", ret: "Bool",
		params: []trParam{{"window", "Int"}, {"missed", "Int"}},
		// only the guard is arithmetic; the division goes through big.Float (modelled in C14's score arithmetic)
		atoms: map[string]string{"math.LegacyNewDec(0)": "false", "palomath.BigIntDiv(diff, w)": "true"},
		skip:  []string{"w := big.NewInt(window)", "m := big.NewInt(missed)", "diff := big.NewInt(0).Sub(w, m)"}},
}

type trCtx struct {
	seen    map[string]bool // skipped statements met
	foldVar string // inside a loop emitted as a fold: the accumulator (a `continue` returns it)
	w    *world
	fi   *funcInfo
	conf trConf
	err  string
	// locals of struct type, flattened to one variable per translatable field
	structLocals map[string][]string
	// loops that leave early (break / return that is not the search idiom) become structurally recursive helper
	// definitions over the list; while a loop body is being translated `loop` describes it
	helpers []string
	loop    *trLoop
	nLoops  int
	varType map[string]string // Lean types of the mutable variables seen so far
}

type trLoop struct {
	name  string   // helper definition
	args  string   // the enclosing function's parameters, to pass along
	muts  []string // mutable variables the body assigns
	rest  string   // name of the tail of the list
}

func (l *trLoop) again() string { return "return (" + l.name + " " + l.args + " " + strings.Join(l.muts, " ") + " " + l.rest + ")" }
func (l *trLoop) fell() string  { return "return .ok (" + strings.Join(l.muts, ", ") + ")" }

// does the statement list contain a break, a continue or a return (at any depth, not inside a nested loop)?
func leavesEarly(stmts []ast.Stmt) bool {
	found := false
	for _, st := range stmts {
		ast.Inspect(st, func(n ast.Node) bool {
			switch n.(type) {
			case *ast.BranchStmt, *ast.ReturnStmt:
				found = true
			case *ast.RangeStmt, *ast.ForStmt, *ast.FuncLit:
				return false
			}
			return !found
		})
	}
	return found
}

// variables assigned (not defined) in the statements, in order of first assignment
func assignedVars(stmts []ast.Stmt, conf trConf) []string {
	var all []string
	seen := map[string]bool{}
	declared := map[string]bool{} // declared inside the statements themselves: not state of the enclosing loop
	add := func(n string) {
		if !seen[n] {
			seen[n] = true
			all = append(all, n)
		}
	}
	for _, st := range stmts {
		ast.Inspect(st, func(n ast.Node) bool {
			if repl, ok := conf.stmts[src(n)]; ok {
				for _, l := range repl {
					t := strings.TrimSpace(l)
					if strings.HasPrefix(t, "let ") {
						f := strings.Fields(t)
						if len(f) > 2 && f[1] == "mut" {
							declared[f[2]] = true
						} else if len(f) > 1 {
							declared[f[1]] = true
						}
						continue
					}
					if i := strings.Index(t, " := "); i > 0 {
						add(strings.TrimSpace(t[:i]))
					}
				}
				return false
			}
			if as, ok := n.(*ast.AssignStmt); ok {
				for _, l := range as.Lhs {
					if id, ok := l.(*ast.Ident); ok && as.Tok != token.DEFINE {
						add(id.Name)
					}
				}
			}
			return true
		})
	}
	var out []string
	for _, n := range all {
		if !declared[n] {
			out = append(out, n)
		}
	}
	return out
}

// only `continue` leaves the body early (no break, no return)?
func onlyContinues(stmts []ast.Stmt) bool {
	ok := true
	for _, st := range stmts {
		ast.Inspect(st, func(n ast.Node) bool {
			switch x := n.(type) {
			case *ast.ReturnStmt:
				ok = false
			case *ast.BranchStmt:
				if x.Tok != token.CONTINUE {
					ok = false
				}
			case *ast.RangeStmt, *ast.ForStmt, *ast.FuncLit:
				return false
			}
			return ok
		})
	}
	return ok
}

func (c *trCtx) fail(format string, a ...interface{}) string {
	if c.err == "" {
		c.err = fmt.Sprintf(format, a...)
	}
	return "sorryUntranslatable"
}

func (c *trCtx) leanType(t types.Type) string {
	if _, ok := t.(*types.TypeParam); ok && c.conf.typeParam != "" {
		return c.conf.typeParam
	}
	s := t.String()
	switch {
	case s == "uint64":
		return "UInt64"
	case s == "int" || s == "int64" || s == "time.Duration" || strings.HasSuffix(s, "cosmossdk.io/math.Int"):
		return "Int"
	case s == "bool":
		return "Bool"
	case s == "[]byte" || s == "[]uint8":
		return "List UInt8"
	}
	if n, ok := t.Underlying().(*types.Basic); ok {
		switch n.Kind() {
		case types.Int, types.Int64, types.Int32:
			return "Int"
		case types.Uint64:
			return "UInt64"
		case types.Bool:
			return "Bool"
		}
	}
	return ""
}

func (c *trCtx) isSigned(e ast.Expr) bool {
	tv, ok := c.fi.pkg.TypesInfo.Types[e]
	if !ok {
		return true
	}
	return c.leanType(tv.Type) != "UInt64"
}

// constant-valued expression: its evaluated value
func (c *trCtx) constVal(e ast.Expr) (string, bool) {
	tv, ok := c.fi.pkg.TypesInfo.Types[e]
	if !ok || tv.Value == nil {
		return "", false
	}
	switch tv.Value.Kind() {
	case constant.Int:
		return tv.Value.ExactString(), true
	case constant.Float:
		if iv := constant.ToInt(tv.Value); iv.Kind() == constant.Int {
			return iv.ExactString(), true
		}
	case constant.Bool:
		return strings.ToLower(tv.Value.String()), true
	}
	return "", false
}

func (c *trCtx) expr(e ast.Expr) string {
	text := src(e)
	if a, ok := c.conf.atoms[text]; ok {
		return "(" + a + ")"
	}
	if v, ok := c.constVal(e); ok {
		if strings.HasPrefix(v, "-") {
			return "(" + v + ")"
		}
		return v
	}
	switch x := e.(type) {
	case *ast.ParenExpr:
		return "(" + c.expr(x.X) + ")"
	case *ast.Ident:
		obj := c.fi.pkg.TypesInfo.Uses[x]
		switch o := obj.(type) {
		case *types.Var:
			if o.Parent() == o.Pkg().Scope() {
				// package-level variable: a slice of constants becomes the evaluated list
				if vi, ok := c.w.varInit[o]; ok {
					if cl, ok := vi.expr.(*ast.CompositeLit); ok {
						var elts []string
						for _, el := range cl.Elts {
							tv, ok := vi.pkg.TypesInfo.Types[el]
							if !ok || tv.Value == nil || tv.Value.Kind() != constant.Int {
								return c.fail("package variable %s has a non-constant element %s", x.Name, src(el))
							}
							elts = append(elts, tv.Value.ExactString())
						}
						return "([" + strings.Join(elts, ", ") + "] : List Int)"
					}
				}
				return c.fail("package variable %s is not a list of constants", x.Name)
			}
			return x.Name
		case *types.Nil:
			return c.fail("nil outside an atom: %s", text)
		}
		if x.Name == "true" || x.Name == "false" {
			return x.Name
		}
		return c.fail("identifier %s", x.Name)
	case *ast.BasicLit:
		if x.Kind == token.INT {
			return strings.ReplaceAll(x.Value, "_", "")
		}
		return c.fail("literal %s", x.Value)
	case *ast.UnaryExpr:
		switch x.Op {
		case token.NOT:
			return "(!" + c.expr(x.X) + ")"
		case token.SUB:
			return "(-" + c.expr(x.X) + ")"
		}
		return c.fail("unary %s", x.Op)
	case *ast.BinaryExpr:
		l, r := c.expr(x.X), c.expr(x.Y)
		switch x.Op {
		case token.ADD, token.SUB, token.MUL:
			return "(" + l + " " + x.Op.String() + " " + r + ")"
		case token.QUO:
			if c.isSigned(x.X) {
				return "(Int.tdiv " + l + " " + r + ")"
			}
			return "(" + l + " / " + r + ")"
		case token.REM:
			if c.isSigned(x.X) {
				return "(Int.tmod " + l + " " + r + ")"
			}
			return "(" + l + " % " + r + ")"
		case token.LSS, token.LEQ, token.GTR, token.GEQ:
			op := map[token.Token]string{token.LSS: "<", token.LEQ: "≤", token.GTR: ">", token.GEQ: "≥"}[x.Op]
			return "(decide (" + l + " " + op + " " + r + "))"
		case token.EQL:
			return "(" + l + " == " + r + ")"
		case token.NEQ:
			return "(" + l + " != " + r + ")"
		case token.LAND:
			return "(" + l + " && " + r + ")"
		case token.LOR:
			return "(" + l + " || " + r + ")"
		}
		return c.fail("binary %s", x.Op)
	case *ast.SelectorExpr:
		// pkg.Var where the variable is initialised with `math.NewInt(<constant>)`: its value
		if v, ok := c.fi.pkg.TypesInfo.Uses[x.Sel].(*types.Var); ok && v.Pkg() != nil && v.Parent() == v.Pkg().Scope() {
			if vi, ok := c.w.varInit[v]; ok {
				if ce, ok := vi.expr.(*ast.CallExpr); ok && len(ce.Args) == 1 && (src(ce.Fun) == "math.NewInt" || src(ce.Fun) == "sdkmath.NewInt") {
					if tv, ok := vi.pkg.TypesInfo.Types[ce.Args[0]]; ok && tv.Value != nil && tv.Value.Kind() == constant.Int {
						return "(" + tv.Value.ExactString() + " : Int)"
					}
				}
			}
			return c.fail("package variable %s", text)
		}
		if id, ok := x.X.(*ast.Ident); ok {
			if fields, ok := c.structLocals[id.Name]; ok {
				for _, f := range fields {
					if f == x.Sel.Name {
						return id.Name + "_" + f
					}
				}
			}
		}
		return c.fail("selector %s", text)
	case *ast.IndexExpr:
		// s[i] on a list of Int: total access with the element type's zero, as the Go code never indexes out of range
		// on the paths translated here (the index is `len(s)-1` of a non-empty constant list)
		return "((" + c.expr(x.X) + ").getD (Int.toNat " + c.expr(x.Index) + ") 0)"
	case *ast.CallExpr:
		fun := src(x.Fun)
		// conversions
		if tv, ok := c.fi.pkg.TypesInfo.Types[x.Fun]; ok && tv.IsType() && len(x.Args) == 1 {
			from, to := "", c.leanType(tv.Type)
			if atv, ok := c.fi.pkg.TypesInfo.Types[x.Args[0]]; ok {
				from = c.leanType(atv.Type)
			}
			a := c.expr(x.Args[0])
			switch {
			case from == to && to != "":
				return a
			case from == "UInt64" && to == "Int":
				// int64(uint64): two's complement reinterpretation
				return "(Int64.toInt (UInt64.toInt64 " + a + "))"
			case from == "Int" && to == "UInt64":
				return "(UInt64.ofInt " + a + ")"
			}
			return c.fail("conversion %s", text)
		}
		switch fun {
		case "len":
			return "((" + c.expr(x.Args[0]) + ").length : Int)"
		case "make":
			// make([]byte, n): n zero bytes
			if len(x.Args) == 2 {
				if tv, ok := c.fi.pkg.TypesInfo.Types[x.Args[0]]; ok && c.leanType(tv.Type) == "List UInt8" {
					return "(List.replicate (Int.toNat " + c.expr(x.Args[1]) + ") (0 : UInt8))"
				}
			}
		case "append":
			// append(a, b...): concatenation (the aliasing of Go's append is not modelled: the result is only returned)
			if len(x.Args) == 2 && x.Ellipsis.IsValid() {
				return "(" + c.expr(x.Args[0]) + " ++ " + c.expr(x.Args[1]) + ")"
			}
		case "max":
			if len(x.Args) == 2 {
				return "(max " + c.expr(x.Args[0]) + " " + c.expr(x.Args[1]) + ")"
			}
		case "min":
			if len(x.Args) == 2 {
				return "(min " + c.expr(x.Args[0]) + " " + c.expr(x.Args[1]) + ")"
			}
		case "sdkmath.NewInt", "math.NewInt":
			return c.expr(x.Args[0])
		case "sdkmath.ZeroInt", "math.ZeroInt":
			return "(0 : Int)"
		}
		// arithmetic methods of sdkmath.Int
		if sel, ok := x.Fun.(*ast.SelectorExpr); ok {
			if tv, ok := c.fi.pkg.TypesInfo.Types[sel.X]; ok && strings.HasSuffix(tv.Type.String(), "cosmossdk.io/math.Int") {
				recv := c.expr(sel.X)
				arg := ""
				if len(x.Args) == 1 {
					arg = c.expr(x.Args[0])
				}
				switch sel.Sel.Name {
				case "Add":
					return "(" + recv + " + " + arg + ")"
				case "Sub":
					return "(" + recv + " - " + arg + ")"
				case "Mul":
					return "(" + recv + " * " + arg + ")"
				case "Quo":
					return "(Int.tdiv " + recv + " " + arg + ")"
				case "GT":
					return "(decide (" + recv + " > " + arg + "))"
				case "GTE":
					return "(decide (" + recv + " ≥ " + arg + "))"
				case "LT":
					return "(decide (" + recv + " < " + arg + "))"
				case "LTE":
					return "(decide (" + recv + " ≤ " + arg + "))"
				case "Equal":
					return "(" + recv + " == " + arg + ")"
				case "IsZero":
					return "(" + recv + " == 0)"
				}
			}
		}
		return c.fail("call %s", text)
	}
	return c.fail("expression %s", text)
}

func (c *trCtx) noteType(name, lt string) {
	if c.varType == nil {
		c.varType = map[string]string{}
	}
	c.varType[name] = lt
}

func (c *trCtx) zero(t types.Type) string {
	switch c.leanType(t) {
	case "UInt64", "Int":
		return "0"
	case "Bool":
		return "false"
	}
	c.fail("zero value of %s", t.String())
	return "0"
}

func (c *trCtx) block(stmts []ast.Stmt, ind string, out *[]string) {
	emit := func(s string) { *out = append(*out, ind+s) }
	for _, st := range stmts {
		text := src(st)
		skipped := false
		for _, s := range c.conf.skip {
			// a declaration is printed with its doc comment in front
			if s == text || (strings.HasPrefix(text, "//") && strings.HasSuffix(text, " "+s)) {
				skipped = true
				if c.seen == nil {
					c.seen = map[string]bool{}
				}
				c.seen[s] = true
			}
		}
		if skipped {
			continue
		}
		if repl, ok := c.conf.stmts[text]; ok {
			for _, l := range repl {
				emit(l)
			}
			continue
		}
		switch s := st.(type) {
		case *ast.BranchStmt:
			switch s.Tok {
			case token.BREAK:
				if c.loop != nil {
					emit(c.loop.fell())
				} else {
					emit("break")
				}
			case token.CONTINUE:
				if c.foldVar != "" {
					emit("return " + c.foldVar)
				} else if c.loop != nil {
					emit(c.loop.again())
				} else {
					emit("continue")
				}
			default:
				c.fail("branch statement %s", text)
			}
		case *ast.DeclStmt:
			gd, ok := s.Decl.(*ast.GenDecl)
			if !ok || gd.Tok != token.VAR {
				c.fail("declaration %s", text)
				continue
			}
			for _, sp := range gd.Specs {
				vs := sp.(*ast.ValueSpec)
				for i, n := range vs.Names {
					obj := c.fi.pkg.TypesInfo.Defs[n]
					lt := c.leanType(obj.Type())
					if st, ok := obj.Type().Underlying().(*types.Struct); ok && lt == "" && i >= len(vs.Values) {
						// `var v T` for a struct T: one mutable variable per field of a translatable type
						var fields []string
						for k := 0; k < st.NumFields(); k++ {
							if ft := c.leanType(st.Field(k).Type()); ft != "" {
								fields = append(fields, st.Field(k).Name())
								emit(fmt.Sprintf("let mut %s_%s : %s := %s", n.Name, st.Field(k).Name(), ft, c.zero(st.Field(k).Type())))
							}
						}
						if c.structLocals == nil {
							c.structLocals = map[string][]string{}
						}
						c.structLocals[n.Name] = fields
						continue
					}
					if lt == "" {
						c.fail("variable %s of type %s", n.Name, obj.Type())
						continue
					}
					val := c.zero(obj.Type())
					if i < len(vs.Values) {
						val = c.expr(vs.Values[i])
					}
					emit(fmt.Sprintf("let mut %s : %s := %s", n.Name, lt, val))
					c.noteType(n.Name, lt)
				}
			}
		case *ast.AssignStmt:
			if len(s.Lhs) != 1 || len(s.Rhs) != 1 {
				c.fail("assignment %s", text)
				continue
			}
			id, ok := s.Lhs[0].(*ast.Ident)
			if !ok {
				c.fail("assignment target %s", src(s.Lhs[0]))
				continue
			}
			if fields, isStruct := c.structLocals[id.Name]; isStruct {
				cl, ok := s.Rhs[0].(*ast.CompositeLit)
				if !ok || s.Tok != token.ASSIGN {
					c.fail("struct assignment %s", text)
					continue
				}
				set := map[string]bool{}
				for _, el := range cl.Elts {
					kv, ok := el.(*ast.KeyValueExpr)
					if !ok {
						c.fail("positional struct literal %s", text)
						continue
					}
					known := false
					for _, f := range fields {
						if f == src(kv.Key) {
							known = true
						}
					}
					if !known {
						c.fail("field %s of %s", src(kv.Key), id.Name)
						continue
					}
					set[src(kv.Key)] = true
					emit(fmt.Sprintf("%s_%s := %s", id.Name, src(kv.Key), c.expr(kv.Value)))
				}
				for _, f := range fields {
					if !set[f] {
						emit(fmt.Sprintf("%s_%s := 0", id.Name, f))
					}
				}
				continue
			}
			// `x := func() bool { for _, v := range L { if cond { return true } }; return false }()`: some element satisfies cond
			if ce, ok := s.Rhs[0].(*ast.CallExpr); ok && s.Tok == token.DEFINE && len(ce.Args) == 0 {
				if fl, ok := ce.Fun.(*ast.FuncLit); ok && len(fl.Body.List) == 2 {
					rs, ok1 := fl.Body.List[0].(*ast.RangeStmt)
					ret, ok2 := fl.Body.List[1].(*ast.ReturnStmt)
					if ok1 && ok2 && len(ret.Results) == 1 && src(ret.Results[0]) == "false" && len(rs.Body.List) == 1 && rs.Value != nil {
						if is, ok := rs.Body.List[0].(*ast.IfStmt); ok && is.Init == nil && is.Else == nil && len(is.Body.List) == 1 {
							if r2, ok := is.Body.List[0].(*ast.ReturnStmt); ok && len(r2.Results) == 1 && src(r2.Results[0]) == "true" {
								emit(fmt.Sprintf("let mut %s : Bool := (%s).any (fun %s => %s)", id.Name, c.expr(rs.X), src(rs.Value), c.expr(is.Cond)))
								c.noteType(id.Name, "Bool")
								continue
							}
						}
					}
				}
			}
			// `x := sdk.NewCoin(denom, amount)`: the coin's amount
			if ce, ok := s.Rhs[0].(*ast.CallExpr); ok && s.Tok == token.DEFINE && src(ce.Fun) == "sdk.NewCoin" && len(ce.Args) == 2 {
				emit(fmt.Sprintf("let mut %s_Amount : Int := %s", id.Name, c.expr(ce.Args[1])))
				c.noteType(id.Name+"_Amount", "Int")
				if c.structLocals == nil {
					c.structLocals = map[string][]string{}
				}
				c.structLocals[id.Name] = []string{"Amount"}
				continue
			}
			// `x := T{Field: e, …}` for a struct T: one mutable variable per field whose type is translatable
			if cl, ok := s.Rhs[0].(*ast.CompositeLit); ok && s.Tok == token.DEFINE {
				if tv, ok := c.fi.pkg.TypesInfo.Types[cl]; ok {
					if _, isStruct := tv.Type.Underlying().(*types.Struct); isStruct {
						var fields []string
						for _, el := range cl.Elts {
							kv, ok := el.(*ast.KeyValueExpr)
							if !ok {
								c.fail("positional struct literal %s", text)
								continue
							}
							vt, ok := c.fi.pkg.TypesInfo.Types[kv.Value]
							if !ok {
								continue
							}
							if lt := c.leanType(vt.Type); lt != "" {
								fields = append(fields, src(kv.Key))
								emit(fmt.Sprintf("let mut %s_%s : %s := %s", id.Name, src(kv.Key), lt, c.expr(kv.Value)))
								c.noteType(id.Name+"_"+src(kv.Key), lt)
							}
						}
						if c.structLocals == nil {
							c.structLocals = map[string][]string{}
						}
						c.structLocals[id.Name] = fields
						continue
					}
				}
			}
			r := c.expr(s.Rhs[0])
			switch s.Tok {
			case token.DEFINE:
				if tv, ok := c.fi.pkg.TypesInfo.Types[s.Rhs[0]]; ok {
					if lt := c.leanType(tv.Type); lt != "" {
						c.noteType(id.Name, lt)
						emit(fmt.Sprintf("let mut %s : %s := %s", id.Name, lt, r))
						continue
					}
				}
				emit(fmt.Sprintf("let mut %s := %s", id.Name, r))
			case token.ASSIGN:
				emit(fmt.Sprintf("%s := %s", id.Name, r))
			case token.ADD_ASSIGN:
				emit(fmt.Sprintf("%s := %s + %s", id.Name, id.Name, r))
			case token.SUB_ASSIGN:
				emit(fmt.Sprintf("%s := %s - %s", id.Name, id.Name, r))
			case token.MUL_ASSIGN:
				emit(fmt.Sprintf("%s := %s * %s", id.Name, id.Name, r))
			default:
				c.fail("assignment operator %s", s.Tok)
			}
		case *ast.IfStmt:
			if s.Init != nil {
				// `if err := CALL; cond { … }`: the initialiser must be a configured effectful statement; its stand-in runs first
				// (the variable it defines is scoped to the `if` in Go; the stand-in assigns the function-wide one, which no
				// translated function reads afterwards without assigning it again)
				repl, ok := c.conf.stmts[src(s.Init)]
				if !ok {
					c.fail("if with init: %s", src(s.Init))
					continue
				}
				for _, l := range repl {
					emit(l)
				}
			}
			emit("if " + c.expr(s.Cond) + " then")
			nBefore := len(*out)
			c.block(s.Body.List, ind+"  ", out)
			if len(*out) == nBefore {
				emit("  pure ()") // nothing but logging inside
			}
			if s.Else != nil {
				emit("else")
				switch el := s.Else.(type) {
				case *ast.BlockStmt:
					c.block(el.List, ind+"  ", out)
				case *ast.IfStmt:
					c.block([]ast.Stmt{el}, ind+"  ", out)
				}
			}
		case *ast.ReturnStmt:
			if c.conf.returns != nil {
				t, ok := c.conf.returns[text]
				if !ok {
					c.fail("return statement without a configured meaning: %s", text)
					continue
				}
				if c.loop != nil {
					emit("return .error (" + t + ")")
				} else {
					emit("return " + t)
				}
				continue
			}
			if len(s.Results) != 1 {
				c.fail("return with %d results", len(s.Results))
				continue
			}
			if c.loop != nil {
				emit("return .error (" + c.expr(s.Results[0]) + ")")
			} else {
				emit("return " + c.expr(s.Results[0]))
			}
		case *ast.RangeStmt:
			if s.Key != nil && src(s.Key) != "_" {
				// `for i := range L` (index only, no early exit): `i` runs over 0 .. len L - 1 as a natural number and may only
				// occur inside atoms / stand-ins
				if s.Value == nil && !leavesEarly(s.Body.List) {
					// emitted as a left fold over the indices, with the one variable the body assigns as the accumulator
					muts := assignedVars(s.Body.List, c.conf)
					if len(muts) != 1 {
						c.fail("index loop assigning %d variables", len(muts))
						continue
					}
					m := muts[0]
					emit(fmt.Sprintf("%s := (List.range (%s).length).foldl (fun %s__ %s => Id.run do", m, c.expr(s.X), m, src(s.Key)))
					emit(fmt.Sprintf("    let mut %s := %s__", m, m))
					c.block(s.Body.List, ind+"    ", out)
					emit(fmt.Sprintf("    return %s) %s", m, m))
					continue
				}
				c.fail("range with an index variable: %s", src(s.Key))
				continue
			}
			v := "_"
			if s.Value != nil {
				v = src(s.Value)
			}
			// a loop that never returns or breaks (it may `continue`) and assigns at most one variable declared outside it:
			// a left fold with that variable as the accumulator; none assigned (logging only): nothing
			// (used inside another loop's helper, and for bodies with a `continue`; a plain top-level loop stays a `for`)
			if onlyContinues(s.Body.List) && (c.loop != nil || leavesEarly(s.Body.List) || c.conf.foldLoops) {
				muts := assignedVars(s.Body.List, c.conf)
				if len(muts) == 0 {
					continue
				}
				if len(muts) == 1 {
					m := muts[0]
					bind := v
					if et, ok := c.conf.elemTypes[src(s.X)]; ok {
						bind = "(" + v + " : " + et + ")"
					}
					emit(fmt.Sprintf("%s := (%s).foldl (fun %s__ %s => Id.run do", m, c.expr(s.X), m, bind))
					emit(fmt.Sprintf("    let mut %s := %s__", m, m))
					savedLoop, savedFold := c.loop, c.foldVar
					c.loop, c.foldVar = nil, m
					c.block(s.Body.List, ind+"    ", out)
					c.loop, c.foldVar = savedLoop, savedFold
					emit(fmt.Sprintf("    return %s) %s", m, m))
					continue
				}
			}
			// search idiom `for _, v := range L { if cond { return E } }`: the first element satisfying cond decides
			if len(s.Body.List) == 1 {
				if is, ok := s.Body.List[0].(*ast.IfStmt); ok && is.Init == nil && is.Else == nil && len(is.Body.List) == 1 {
					if _, ok := is.Body.List[0].(*ast.ReturnStmt); ok {
						emit(fmt.Sprintf("match (%s).find? (fun %s => %s) with", c.expr(s.X), v, c.expr(is.Cond)))
						emit(fmt.Sprintf("| some %s =>", v))
						c.block(is.Body.List, ind+"  ", out)
						emit("| none => pure ()")
						continue
					}
				}
			}
			if leavesEarly(s.Body.List) {
				if c.loop != nil {
					c.fail("nested loop with early exit")
					continue
				}
				c.nLoops++
				var pnames, pdecls []string
				for _, p := range c.conf.params {
					pnames = append(pnames, p.name)
					pdecls = append(pdecls, fmt.Sprintf("(%s : %s)", p.name, p.typ))
				}
				// everything declared before the loop that the body reads or assigns travels along: assigned ones as
				// the loop state, the others as extra parameters
				muts := assignedVars(s.Body.List, c.conf)
				isMut := map[string]bool{}
				var mdecls, mtypes []string
				for _, m := range muts {
					t, ok := c.varType[m]
					if !ok {
						c.fail("type of loop variable %s unknown", m)
					}
					isMut[m] = true
					mdecls = append(mdecls, fmt.Sprintf("(%s : %s)", m, t))
					mtypes = append(mtypes, t)
				}
				var extra []string
				for name := range c.varType {
					if !isMut[name] && strings.Contains(" "+src(s.Body)+" ", name) {
						extra = append(extra, name)
					}
				}
				sort.Strings(extra)
				for _, e := range extra {
					pnames = append(pnames, e)
					pdecls = append(pdecls, fmt.Sprintf("(%s : %s)", e, c.varType[e]))
				}
				lp := &trLoop{name: fmt.Sprintf("%s_loop%d", c.conf.lean, c.nLoops), args: strings.Join(pnames, " "), muts: muts, rest: "rest__"}
				elemT := "Nat"
				if et, ok := c.conf.elemTypes[src(s.X)]; ok {
					elemT = et
				} else if et, ok := c.conf.elemTypes[v]; ok {
					elemT = et
				} else if tv, ok := c.fi.pkg.TypesInfo.Types[s.X]; ok {
					if sl, ok := tv.Type.Underlying().(*types.Slice); ok {
						if lt := c.leanType(sl.Elem()); lt != "" {
							elemT = lt
						}
					}
				}
				var body []string
				for _, m := range muts {
					body = append(body, fmt.Sprintf("    let mut %s := %s", m, m))
				}
				saved := c.loop
				c.loop = lp
				c.block(s.Body.List, "    ", &body)
				c.loop = saved
				body = append(body, "    "+lp.again())
				stateT := strings.Join(mtypes, " × ")
				if len(mtypes) == 0 {
					stateT = "Unit"
				}
				h := fmt.Sprintf("/-- loop %d of `%s` as a recursion over the list: `.error r` = the function returned `r` from inside the loop,\n    `.ok state` = the loop ended (ran out, or `break`) with these values of the variables it assigns -/\n", c.nLoops, c.conf.key)
				h += fmt.Sprintf("def %s %s %s : List %s → Except %s (%s)\n  | [] => .ok (%s)\n  | %s :: rest__ => Id.run do\n%s\n",
					lp.name, strings.Join(pdecls, " "), strings.Join(mdecls, " "), elemT, c.conf.ret, stateT, strings.Join(muts, ", "), v, strings.Join(body, "\n"))
				c.helpers = append(c.helpers, h)
				emit(fmt.Sprintf("match %s %s %s (%s) with", lp.name, lp.args, strings.Join(muts, " "), c.expr(s.X)))
				emit("| .error r__ => return r__")
				emit(fmt.Sprintf("| .ok (%s) =>", strings.Join(prime(muts), ", ")))
				for _, m := range muts {
					emit(fmt.Sprintf("  %s := %s'", m, m))
				}
				if len(muts) == 0 {
					emit("  pure ()")
				}
				continue
			}
			emit(fmt.Sprintf("for %s in %s do", v, c.expr(s.X)))
			c.block(s.Body.List, ind+"  ", out)
		case *ast.SwitchStmt:
			if s.Init != nil {
				c.fail("switch shape: %s", text)
				continue
			}
			// `switch { case c1: …; case c2: …; default: … }`: an if / else-if chain (Go's switch has no fall-through by default)
			tag := ""
			if s.Tag != nil {
				tag = c.expr(s.Tag)
			}
			first := true
			var deflt []ast.Stmt
			for _, cc := range s.Body.List {
				cl := cc.(*ast.CaseClause)
				if cl.List == nil {
					deflt = cl.Body
					continue
				}
				var conds []string
				for _, e := range cl.List {
					if s.Tag == nil {
						conds = append(conds, c.expr(e))
					} else {
						conds = append(conds, "("+tag+" == "+c.expr(e)+")")
					}
				}
				kw := "else if "
				if first {
					kw = "if "
					first = false
				}
				emit(kw + strings.Join(conds, " || ") + " then")
				if len(cl.Body) == 0 {
					emit("  pure ()")
				}
				c.block(cl.Body, ind+"  ", out)
			}
			if deflt != nil {
				if first {
					c.block(deflt, ind, out)
				} else {
					emit("else")
					c.block(deflt, ind+"  ", out)
				}
			}
		case *ast.ExprStmt:
			// logging and event emission change no state and decide nothing: left out
			if isLogOrEvent(text) {
				continue
			}
			// copy(dst[a:], src): Go copies min(len(dst)-a, len(src)) elements
			if ce, ok := s.X.(*ast.CallExpr); ok && src(ce.Fun) == "copy" && len(ce.Args) == 2 {
				if sl, ok := ce.Args[0].(*ast.SliceExpr); ok && sl.High == nil && sl.Low != nil {
					if id, ok := sl.X.(*ast.Ident); ok {
						a, from := "(Int.toNat "+c.expr(sl.Low)+")", c.expr(ce.Args[1])
						emit(fmt.Sprintf("%s := %s.take %s ++ %s.take (%s.length - %s) ++ %s.drop (%s + min %s.length (%s.length - %s))",
							id.Name, id.Name, a, from, id.Name, a, id.Name, a, from, id.Name, a))
						continue
					}
				}
			}
			c.fail("statement %s", text)
		default:
			c.fail("statement %s", text)
		}
	}
}

// statements that only log or emit an event
var logCallRe = regexp.MustCompile(`^([A-Za-z_][A-Za-z0-9_]*\.)*Logger\([A-Za-z0-9_]*\)\.`)

func isLogOrEvent(text string) bool {
	if logCallRe.MatchString(text) {
		return true
	}
	for _, p := range []string{"k.Logger(ctx).", "logger.", "logger(ctx).", "liblog.FromSDKLogger(", "keeperutil.EmitEvent(", "sdkCtx.EventManager().EmitEvent"} {
		if strings.HasPrefix(text, p) {
			return true
		}
	}
	return false
}

func prime(xs []string) []string {
	out := make([]string, len(xs))
	for i, x := range xs {
		out[i] = x + "'"
	}
	return out
}

func genTranslated(w *world) {
	var b strings.Builder
	b.WriteString("set_option linter.unusedVariables false\n\nnamespace Paloma.Gen.Translated\n\n")
	var status []string
	for _, conf := range trConfs {
		fi := w.byKey[conf.key]
		if fi == nil {
			status = append(status, fmt.Sprintf("  (%s, %s)", leanStr(conf.key), leanStr("function not found")))
			continue
		}
		c := &trCtx{w: w, fi: fi, conf: conf}
		var lines []string
		for _, l := range conf.init {
			lines = append(lines, "  "+l)
			// `let mut x : T := v`
			if f := strings.Fields(l); len(f) >= 6 && f[0] == "let" && f[1] == "mut" && f[3] == ":" {
				k := 4
				for k < len(f) && f[k] != ":=" {
					k++
				}
				t := strings.Join(f[4:k], " ")
				if k > 5 {
					t = "(" + t + ")"
				}
				c.noteType(f[2], t)
			}
		}
		c.block(fi.decl.Body.List, "  ", &lines)
		if conf.atEnd != "" {
			lines = append(lines, "  return "+conf.atEnd)
		}
		for _, m := range conf.must {
			if !c.seen[m] {
				c.fail("required statement missing: %s", m)
			}
		}
		if c.err != "" {
			status = append(status, fmt.Sprintf("  (%s, %s)", leanStr(conf.key), leanStr("untranslatable: "+c.err)))
			fmt.Fprintf(&b, "-- %s: UNTRANSLATABLE (%s); no definition emitted\n\n", conf.key, c.err)
			continue
		}
		status = append(status, fmt.Sprintf("  (%s, %s)", leanStr(conf.key), leanStr("ok")))
		var ps []string
		for _, p := range conf.params {
			ps = append(ps, fmt.Sprintf("(%s : %s)", p.name, p.typ))
		}
		if conf.prelude != "" {
			b.WriteString(conf.prelude + "\n\n")
		}
		for _, h := range c.helpers {
			b.WriteString(h + "\n")
		}
		fmt.Fprintf(&b, "/-- translated from `%s` (%s) -/\n", conf.key, posOf(fi.decl.Pos()))
		fmt.Fprintf(&b, "def %s %s : %s := Id.run do\n%s\n\n", conf.lean, strings.Join(ps, " "), conf.ret, strings.Join(lines, "\n"))
	}
	b.WriteString("/-- translation status per configured function -/\ndef status : List (String × String) := [\n" + strings.Join(status, ",\n") + "\n]\n\n")
	b.WriteString("end Paloma.Gen.Translated\n")
	emit("Translated.lean", b.String())
}
