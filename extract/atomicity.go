package main

import (
	"fmt"
	"go/ast"
	"sort"
	"strings"
)

// genAtomicity: for every function of the bridge / consensus / evm keepers that opens a cached
// context — is the commit conditional on success, and is the OUTER context still used after the
// cached one exists (a write through it would escape the rollback)?  Plus who touches the
// past-checkpoint archive (C13).
func genAtomicity() {
	type row struct {
		fn          string
		conditional bool
		outerUses   []string
		cacheLoop   string // range expression of the innermost loop around the CacheContext call ("" = not in a loop)
		commitLoop  string // … around the commit call
		guarded     bool   // the commit follows, in its block, an `if … err != nil { … continue / return }`
		deferred    bool // the commit sits in a deferred closure (so it also runs while a panic unwinds)
		panicGuard  bool // that closure tests recover() before the commit and re-panics
	}
	var rows []row
	archiveUsers := map[string]bool{}
	archiveSetters := map[string]bool{}
	for _, dir := range []string{"x/skyway/keeper", "x/skyway", "x/consensus/keeper", "x/evm/keeper", "x/paloma/keeper"} {
		for name, fd := range funcDecls(parseDir(dir)) {
			if fd.Body == nil {
				continue
			}
			key := dir + "." + name
			body := src(fd.Body)
			if strings.Contains(body, "GetPastEthSignatureCheckpointKey(") {
				archiveUsers[key] = true
			}
			if strings.Contains(body, "SetPastEthSignatureCheckpoint(") {
				archiveSetters[key] = true
			}
			// find `<cached>, <commit> := <expr>.CacheContext()`
			var cachedVar, commitVar, outerVar string
			var after ast.Node
			ast.Inspect(fd.Body, func(n ast.Node) bool {
				as, ok := n.(*ast.AssignStmt)
				if !ok || len(as.Lhs) != 2 || len(as.Rhs) != 1 || cachedVar != "" {
					return true
				}
				ce, ok := as.Rhs[0].(*ast.CallExpr)
				if !ok || !strings.HasSuffix(src(ce.Fun), ".CacheContext") {
					return true
				}
				cachedVar, commitVar = src(as.Lhs[0]), src(as.Lhs[1])
				// outer context = the identifier inside UnwrapSDKContext(<id>) or the receiver of .CacheContext
				rx := src(ce.Fun)
				rx = strings.TrimSuffix(rx, ".CacheContext")
				if i := strings.Index(rx, "UnwrapSDKContext("); i >= 0 {
					rx = strings.TrimSuffix(rx[i+len("UnwrapSDKContext("):], ")")
				}
				outerVar = rx
				after = as
				return true
			})
			if cachedVar == "" {
				continue
			}
			r := row{fn: key}
			// conditional commit: commit() appears only inside an if/else or a deferred closure testing err
			ast.Inspect(fd.Body, func(n ast.Node) bool {
				switch s := n.(type) {
				case *ast.IfStmt:
					if strings.Contains(src(s), commitVar+"()") {
						r.conditional = true
					}
				}
				return true
			})
			// loops around the CacheContext call and around the commit; error guard in front of the commit
			var walkLoops func(n ast.Node, loop string)
			walkLoops = func(n ast.Node, loop string) {
				ast.Inspect(n, func(x ast.Node) bool {
					switch st := x.(type) {
					case *ast.RangeStmt:
						walkLoops(st.Body, src(st.X))
						return false
					case *ast.ForStmt:
						walkLoops(st.Body, "for")
						return false
					case *ast.FuncLit:
						return false
					case *ast.AssignStmt:
						if x == after {
							r.cacheLoop = loop
						}
					case *ast.BlockStmt:
						for i, b := range st.List {
							es, ok := b.(*ast.ExprStmt)
							if !ok || src(es.X) != commitVar+"()" {
								continue
							}
							r.commitLoop = loop
							for _, prev := range st.List[:i] {
								if is, ok := prev.(*ast.IfStmt); ok && strings.Contains(src(is.Cond), "err != nil") && len(is.Body.List) > 0 {
									switch last := is.Body.List[len(is.Body.List)-1].(type) {
									case *ast.BranchStmt:
										if last.Tok.String() == "continue" {
											r.guarded = true
										}
									case *ast.ReturnStmt:
										r.guarded = true
									}
								}
							}
						}
					}
					return true
				})
			}
			walkLoops(fd.Body, "")
			// commit inside `defer func() { … }()`: does the closure look at recover() BEFORE it commits?
			for _, st := range fd.Body.List {
				ds, ok := st.(*ast.DeferStmt)
				if !ok {
					continue
				}
				fl, ok := ds.Call.Fun.(*ast.FuncLit)
				if !ok || !strings.Contains(src(fl.Body), commitVar+"()") {
					continue
				}
				r.deferred = true
				for _, inner := range fl.Body.List {
					text := src(inner)
					if strings.Contains(text, commitVar+"()") {
						break // the commit comes first: no guard
					}
					if is, ok := inner.(*ast.IfStmt); ok && is.Init != nil && strings.Contains(src(is.Init), "recover()") &&
						strings.Contains(src(is.Cond), "!= nil") && strings.Contains(src(is.Body), "panic(") {
						r.panicGuard = true
						break
					}
				}
			}
			// unconditional top-level `commit()` statement?
			for _, st := range fd.Body.List {
				if es, ok := st.(*ast.ExprStmt); ok && src(es.X) == commitVar+"()" {
					// reached only if no earlier return: treat "last statement before return nil" as conditional-by-position
					r.conditional = r.conditional || true
				}
				if ds, ok := st.(*ast.DeferStmt); ok && src(ds.Call.Fun) == commitVar {
					r.conditional = false // deferred unconditional commit
				}
			}
			// uses of the outer context identifier as a call argument after the cached context exists
			if outerVar != cachedVar && isIdent(outerVar) {
				ast.Inspect(fd.Body, func(n ast.Node) bool {
					ce, ok := n.(*ast.CallExpr)
					if !ok || ce.Pos() <= after.End() {
						return true
					}
					for _, a := range ce.Args {
						if id, ok := a.(*ast.Ident); ok && id.Name == outerVar {
							r.outerUses = append(r.outerUses, src(ce.Fun))
						}
					}
					return true
				})
			}
			rows = append(rows, r)
		}
	}
	sort.Slice(rows, func(i, j int) bool { return rows[i].fn < rows[j].fn })
	var b strings.Builder
	b.WriteString("namespace Paloma.Gen.Atomicity\n\n")
	b.WriteString("structure Cached where\n  fn : String\n  conditionalCommit : Bool\n  outerContextUses : List String\n  deferredCommit : Bool\n  panicGuard : Bool\n  cacheLoop : String\n  commitLoop : String\n  commitAfterErrorGuard : Bool\nderiving Repr\n\n")
	b.WriteString("def cachedFunctions : List Cached := [\n")
	for i, r := range rows {
		fmt.Fprintf(&b, "  { fn := %s, conditionalCommit := %v, outerContextUses := %s, deferredCommit := %v, panicGuard := %v, cacheLoop := %s, commitLoop := %s, commitAfterErrorGuard := %v }", leanStr(r.fn), r.conditional, leanStrList(r.outerUses), r.deferred, r.panicGuard, leanStr(r.cacheLoop), leanStr(r.commitLoop), r.guarded)
		if i < len(rows)-1 {
			b.WriteString(",")
		}
		b.WriteString("\n")
	}
	b.WriteString("]\n\n")
	keys := func(m map[string]bool) []string {
		var l []string
		for k := range m {
			l = append(l, k)
		}
		sort.Strings(l)
		return l
	}
	b.WriteString("/-- functions that touch the store key of the past-checkpoint archive -/\n")
	b.WriteString("def archiveKeyUsers : List String := " + leanStrList(keys(archiveUsers)) + "\n\n")
	b.WriteString("/-- functions that archive a checkpoint -/\n")
	b.WriteString("def archiveSetters : List String := " + leanStrList(keys(archiveSetters)) + "\n\n")
	b.WriteString("end Paloma.Gen.Atomicity\n")
	emit("Atomicity.lean", b.String())
}

func isIdent(s string) bool {
	if s == "" {
		return false
	}
	for _, c := range s {
		if !(c == '_' || (c >= 'a' && c <= 'z') || (c >= 'A' && c <= 'Z') || (c >= '0' && c <= '9')) {
			return false
		}
	}
	return true
}
