package main

import (
	"fmt"
	"go/ast"
	"go/token"
	"math"
	"strconv"
	"strings"
)

// genMempool: the facts of app/mempool/priority_nonce.go, x/paloma/ante.go and app/app.go that the
// C19 model hard-codes (class table of NewDefaultTxPriority, the MinValue sentinel, the CheckTx
// priority TxFeeSkipper hands out, and how app.go wires both). Anything not recognised is emitted
// as "opaque" / an ("opaque", 0) table row, so the `decide`d equalities in Props/C19.lean fail.
func genMempool() {
	var b strings.Builder
	b.WriteString("namespace Paloma.Gen.Mempool\n\n")
	emitStr := func(name, v string) { fmt.Fprintf(&b, "def %s : String := %s\n", name, leanStr(v)) }
	emitInt := func(name string, v string) { fmt.Fprintf(&b, "def %s : Int := %s\n", name, v) }
	emitNat := func(name string, v int) { fmt.Fprintf(&b, "def %s : Nat := %d\n", name, v) }

	// ---- NewDefaultTxPriority ----
	guard, classified, deflt, minValue := "opaque", "opaque", "opaque", "0"
	var rows []string
	returns := 0
	pf := parseFile("app/mempool/priority_nonce.go")
	fns := funcDecls([]*ast.File{pf})
	if fd := fns["NewDefaultTxPriority"]; fd != nil && fd.Body != nil {
		ast.Inspect(fd.Body, func(n ast.Node) bool {
			kv, ok := n.(*ast.KeyValueExpr)
			if !ok {
				return true
			}
			switch src(kv.Key) {
			case "MinValue":
				minValue = intExpr(kv.Value)
			case "GetTxPriority":
				fl, ok := kv.Value.(*ast.FuncLit)
				if !ok {
					return true
				}
				ast.Inspect(fl.Body, func(m ast.Node) bool {
					if _, ok := m.(*ast.ReturnStmt); ok {
						returns++
					}
					return true
				})
				for _, st := range fl.Body.List {
					switch s := st.(type) {
					case *ast.IfStmt:
						guard = src(s.Cond)
						for _, in := range s.Body.List {
							switch t := in.(type) {
							case *ast.AssignStmt:
								if len(t.Lhs) == 1 && len(t.Rhs) == 1 {
									classified = src(t.Lhs[0]) + " := " + src(t.Rhs[0])
								}
							case *ast.SwitchStmt:
								if t.Tag != nil || t.Init != nil {
									rows = append(rows, `("opaque", 0)`)
									continue
								}
								for _, c := range t.Body.List {
									rows = append(rows, caseRow(c.(*ast.CaseClause)))
								}
							default:
								rows = append(rows, `("opaque", 0)`)
							}
						}
					case *ast.ReturnStmt:
						if len(s.Results) == 1 {
							deflt = src(s.Results[0])
						}
					}
				}
			}
			return true
		})
	}
	fmt.Fprintf(&b, "/-- the `case strings.HasPrefix(msgTypeStr, p): return v` clauses of `GetTxPriority`, in source order -/\n")
	fmt.Fprintf(&b, "def txPriorityCases : List (String × Int) := [%s]\n", strings.Join(rows, ", "))
	emitStr("txPriorityGuard", guard)
	emitStr("txPriorityClassifiedBy", classified)
	emitStr("txPriorityDefault", deflt)
	emitNat("txPriorityReturnCount", returns)
	emitInt("txPriorityMinValue", minValue)

	// ---- DefaultPriorityNonceMempoolConfig / DefaultPriorityMempool ----
	var cfgKeys []string
	if fd := fns["DefaultPriorityNonceMempoolConfig"]; fd != nil && fd.Body != nil {
		ast.Inspect(fd.Body, func(n ast.Node) bool {
			cl, ok := n.(*ast.CompositeLit)
			if !ok {
				return true
			}
			for _, e := range cl.Elts {
				if kv, ok := e.(*ast.KeyValueExpr); ok {
					cfgKeys = append(cfgKeys, src(kv.Key)+" = "+src(kv.Value))
				} else {
					cfgKeys = append(cfgKeys, "opaque")
				}
			}
			return false
		})
	}
	fmt.Fprintf(&b, "/-- the fields `DefaultPriorityNonceMempoolConfig` sets (no `TxReplacement`, no `MaxTx`) -/\n")
	fmt.Fprintf(&b, "def mempoolConfigFields : List String := %s\n", leanStrList(cfgKeys))
	ctor := "opaque"
	if fd := fns["DefaultPriorityMempool"]; fd != nil && fd.Body != nil && len(fd.Body.List) == 1 {
		if rs, ok := fd.Body.List[0].(*ast.ReturnStmt); ok && len(rs.Results) == 1 {
			ctor = src(rs.Results[0])
		}
	}
	emitStr("defaultPriorityMempool", ctor)

	// ---- TxFeeSkipper ----
	skip, skipReturns := "0", 0
	af := parseFile("x/paloma/ante.go")
	if fd := funcDecls([]*ast.File{af})["TxFeeSkipper"]; fd != nil && fd.Body != nil {
		ast.Inspect(fd.Body, func(n ast.Node) bool {
			if rs, ok := n.(*ast.ReturnStmt); ok {
				skipReturns++
				if len(rs.Results) == 3 {
					skip = intExpr(rs.Results[1])
				}
			}
			return true
		})
	}
	fmt.Fprintf(&b, "/-- second result of the only `return` of `TxFeeSkipper` (the CheckTx priority) -/\n")
	emitInt("txFeeSkipperPriority", skip)
	emitNat("txFeeSkipperReturnCount", skipReturns)

	// ---- app/app.go wiring ----
	checker, mpVar, mpCtor, setMempool, propHandler := "opaque", "", "opaque", "opaque", "opaque"
	appf := parseFile("app/app.go")
	ast.Inspect(appf, func(n ast.Node) bool {
		switch x := n.(type) {
		case *ast.KeyValueExpr:
			if src(x.Key) == "TxFeeChecker" {
				checker = src(x.Value)
			}
		case *ast.CallExpr:
			f := src(x.Fun)
			if strings.HasSuffix(f, ".SetMempool") && len(x.Args) == 1 {
				setMempool = src(x.Args[0])
				mpVar = setMempool
			}
			if strings.HasSuffix(f, "NewDefaultProposalHandler") && len(x.Args) >= 1 {
				propHandler = src(x.Args[0])
			}
		}
		return true
	})
	ast.Inspect(appf, func(n ast.Node) bool {
		as, ok := n.(*ast.AssignStmt)
		if ok && len(as.Lhs) == 1 && len(as.Rhs) == 1 && mpVar != "" && src(as.Lhs[0]) == mpVar {
			mpCtor = src(as.Rhs[0])
		}
		return true
	})
	emitStr("appTxFeeChecker", checker)
	emitStr("appMempoolCtor", mpCtor)
	emitStr("appSetMempoolArg", setMempool)
	emitStr("appProposalHandlerMempool", propHandler)

	b.WriteString("\nend Paloma.Gen.Mempool\n")
	emit("Mempool.lean", b.String())
}

// caseRow: `case strings.HasPrefix(<x>, "<lit>"): return <int expr>` ↦ ("<lit>", value)
func caseRow(c *ast.CaseClause) string {
	if len(c.List) != 1 || len(c.Body) != 1 {
		return `("opaque", 0)`
	}
	ce, ok := c.List[0].(*ast.CallExpr)
	if !ok || src(ce.Fun) != "strings.HasPrefix" || len(ce.Args) != 2 {
		return `("opaque", 0)`
	}
	lit, ok := ce.Args[1].(*ast.BasicLit)
	if !ok || lit.Kind != token.STRING {
		return `("opaque", 0)`
	}
	pre, err := strconv.Unquote(lit.Value)
	if err != nil {
		return `("opaque", 0)`
	}
	rs, ok := c.Body[0].(*ast.ReturnStmt)
	if !ok || len(rs.Results) != 1 {
		return `("opaque", 0)`
	}
	v := intExpr(rs.Results[0])
	if v == "opaque" {
		return `("opaque", 0)`
	}
	return fmt.Sprintf("(%s, %s)", leanStr(pre), v)
}

// intExpr: an int literal, math.MaxInt64, math.MinInt64, or one of them ± an int literal
func intExpr(e ast.Expr) string {
	switch x := e.(type) {
	case *ast.BasicLit:
		if x.Kind == token.INT {
			return strings.ReplaceAll(x.Value, "_", "")
		}
	case *ast.SelectorExpr:
		switch src(x) {
		case "math.MaxInt64":
			return strconv.FormatInt(math.MaxInt64, 10)
		case "math.MinInt64":
			return "(" + strconv.FormatInt(math.MinInt64, 10) + ")"
		}
	case *ast.UnaryExpr:
		if x.Op == token.SUB {
			if v := intExpr(x.X); v != "opaque" {
				return "(-" + v + ")"
			}
		}
	case *ast.ParenExpr:
		return intExpr(x.X)
	case *ast.BinaryExpr:
		l, r := intExpr(x.X), intExpr(x.Y)
		if l != "opaque" && r != "opaque" && (x.Op == token.SUB || x.Op == token.ADD) {
			return "(" + l + " " + x.Op.String() + " " + r + ")"
		}
	}
	return "opaque"
}
