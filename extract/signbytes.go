package main

import (
	"fmt"
	"go/ast"
	"go/token"
	"sort"
	"strconv"
	"strings"
)

// genSignBytes: for every function that produces bytes validators sign (the
// `keccak256` methods of the turnstone actions, skyway's `GetCheckpoint`) and
// every `VerifyAgainstTX` (the call data a delivery is compared with):
//   - each `abi.Arguments{…}` literal as the list of canonical ABI type strings
//     (tuples spelled out from their `abi.ArgumentMarshaling` components),
//   - each `abi.NewMethod("name", …)` with the arguments variable it is built from,
//   - each `Pack(…)` call with the source text of its arguments (for
//     `contractABI.Pack("m", args...)` the elements of the `args := []any{…}` literal),
//   - every other statement of the body that can influence those arguments
//     (assignments, definitions, declarations with a value, `copy`, `if`/`for` heads),
//     in source order, with logging / error plumbing left out,
//   - the hashing call that ends the function.
//
// Nothing is interpreted here: Props/C05 and Props/C07 compare these tables with the
// hand-written description the model was transcribed from (`decide`), render the model's
// own type lists to the same strings, and re-derive every 4-byte selector from the
// generated signature with the Lean Keccak (`decide +kernel`).
type sbFunc struct {
	file, key, name string
}

func genSignBytes() {
	evm := parseDir("x/evm/types")
	sky := parseDir("x/skyway/types")
	efns := funcDecls(evm)
	sfns := funcDecls(sky)

	var b strings.Builder
	b.WriteString("namespace Paloma.Gen.SignBytes\n\n")
	b.WriteString("structure ArgList where\n  var : String\n  types : List String\nderiving Repr, DecidableEq\n\n")
	b.WriteString("structure Method where\n  name : String\n  rawName : String\n  kind : String\n  args : String\nderiving Repr, DecidableEq\n\n")
	b.WriteString("structure PackCall where\n  recv : String\n  method : String\n  args : List String\nderiving Repr, DecidableEq\n\n")
	b.WriteString("structure Fn where\n  name : String\n  params : List String\n  argLists : List ArgList\n  methods : List Method\n  packs : List PackCall\n  flow : List String\n  hashes : List String\nderiving Repr, DecidableEq\n\n")

	type ent struct {
		lean string
		fd   *ast.FuncDecl
	}
	var ents []ent
	// signing side: every method named keccak256 in x/evm/types, plus the wrappers
	var keys []string
	for k := range efns {
		if strings.HasSuffix(k, ".keccak256") || strings.HasSuffix(k, ".Keccak256WithSignedMessage") ||
			strings.HasSuffix(k, ".VerifyAgainstTX") || k == "feesOrDefault" || k == "BuildCompassConsensus" ||
			k == "TransformValsetToCompassValset" || k == "uint64ToByte" {
			keys = append(keys, k)
		}
	}
	sort.Strings(keys)
	for _, k := range keys {
		ents = append(ents, ent{"evm." + k, efns[k]})
	}
	keys = nil
	for k := range sfns {
		if strings.HasSuffix(k, ".GetCheckpoint") {
			keys = append(keys, k)
		}
	}
	sort.Strings(keys)
	for _, k := range keys {
		ents = append(ents, ent{"skyway." + k, sfns[k]})
	}

	b.WriteString("def fns : List Fn := [\n")
	for i, e := range ents {
		fn := sbDescribe(e.fd)
		fmt.Fprintf(&b, "  { name := %s,\n    params := %s,\n    argLists := [%s],\n    methods := [%s],\n    packs := [%s],\n    flow := %s,\n    hashes := %s }",
			leanStr(e.lean), leanStrList(fn.params), strings.Join(fn.argLists, ", "), strings.Join(fn.methods, ", "),
			strings.Join(fn.packs, ", "), leanStrListNL(fn.flow), leanStrList(fn.hashes))
		if i+1 < len(ents) {
			b.WriteString(",")
		}
		b.WriteString("\n")
	}
	b.WriteString("]\n\n")

	// named constants the functions mention
	b.WriteString("def consts : List (String × String) := [\n")
	var cl []string
	for _, files := range [][]*ast.File{evm, sky} {
		for _, f := range files {
			for _, d := range f.Decls {
				gd, ok := d.(*ast.GenDecl)
				if !ok || gd.Tok != token.CONST {
					continue
				}
				for _, sp := range gd.Specs {
					vs := sp.(*ast.ValueSpec)
					for j, n := range vs.Names {
						if j < len(vs.Values) && strings.Contains(n.Name, "GasEstimate") {
							cl = append(cl, fmt.Sprintf("  (%s, %s)", leanStr(f.Name.Name+"."+n.Name), leanStr(src(vs.Values[j]))))
						}
					}
				}
			}
		}
	}
	sort.Strings(cl)
	b.WriteString(strings.Join(cl, ",\n"))
	b.WriteString("\n]\n\nend Paloma.Gen.SignBytes\n")
	emit("SignBytes.lean", b.String())
}

func leanStrListNL(xs []string) string {
	if len(xs) == 0 {
		return "[]"
	}
	q := make([]string, len(xs))
	for i, x := range xs {
		q[i] = "      " + leanStr(x)
	}
	return "[\n" + strings.Join(q, ",\n") + "]"
}

type sbDesc struct {
	params, argLists, methods, packs, flow, hashes []string
}

// abiTypeString: canonical type of `{Type: whoops.Must(abi.NewType("t", "", comps))}`
func abiTypeString(e ast.Expr) string {
	var nt *ast.CallExpr
	ast.Inspect(e, func(n ast.Node) bool {
		if ce, ok := n.(*ast.CallExpr); ok && src(ce.Fun) == "abi.NewType" && nt == nil {
			nt = ce
			return false
		}
		return true
	})
	if nt == nil || len(nt.Args) != 3 {
		return "opaque:" + src(e)
	}
	lit, ok := nt.Args[0].(*ast.BasicLit)
	if !ok {
		return "opaque:" + src(e)
	}
	t, _ := strconv.Unquote(lit.Value)
	if !strings.HasPrefix(t, "tuple") {
		if src(nt.Args[2]) != "nil" {
			return "opaque:" + src(e)
		}
		return t
	}
	cl, ok := nt.Args[2].(*ast.CompositeLit)
	if !ok {
		return "opaque:" + src(e)
	}
	var comps []string
	for _, el := range cl.Elts {
		c, ok := el.(*ast.CompositeLit)
		if !ok {
			return "opaque:" + src(e)
		}
		ty := ""
		for _, kv := range c.Elts {
			k, ok := kv.(*ast.KeyValueExpr)
			if !ok {
				return "opaque:" + src(e)
			}
			switch src(k.Key) {
			case "Type":
				l, ok := k.Value.(*ast.BasicLit)
				if !ok {
					return "opaque:" + src(e)
				}
				ty, _ = strconv.Unquote(l.Value)
			case "Name":
			default:
				return "opaque:" + src(e) // Components / InternalType: nested tuples are not used today
			}
		}
		if ty == "" || strings.HasPrefix(ty, "tuple") {
			return "opaque:" + src(e)
		}
		comps = append(comps, ty)
	}
	return "(" + strings.Join(comps, ",") + ")" + strings.TrimPrefix(t, "tuple")
}

var sbNoise = []string{"logger", "liblog.", "err", "errors.", "sdkerrors.", "fmt."}

func sbIsNoise(s string) bool {
	for _, p := range sbNoise {
		if strings.HasPrefix(s, p) {
			return true
		}
	}
	return false
}

func sbDescribe(fd *ast.FuncDecl) sbDesc {
	var d sbDesc
	if fd.Type.Params != nil {
		for _, p := range fd.Type.Params.List {
			for _, n := range p.Names {
				d.params = append(d.params, n.Name+" "+src(p.Type))
			}
			if len(p.Names) == 0 {
				d.params = append(d.params, "_ "+src(p.Type))
			}
		}
	}
	if fd.Body == nil {
		return d
	}
	anyLits := map[string]*ast.CompositeLit{} // args := []any{…}
	var walk func(stmts []ast.Stmt, prefix string)
	addFlow := func(prefix, s string) { d.flow = append(d.flow, prefix+s) }
	handleExprForCalls := func(n ast.Node) {
		ast.Inspect(n, func(x ast.Node) bool {
			ce, ok := x.(*ast.CallExpr)
			if !ok {
				return true
			}
			fun := src(ce.Fun)
			switch {
			case fun == "abi.NewMethod":
				if len(ce.Args) >= 7 {
					name, raw := src(ce.Args[0]), src(ce.Args[1])
					if l, ok := ce.Args[0].(*ast.BasicLit); ok {
						name, _ = strconv.Unquote(l.Value)
					}
					if l, ok := ce.Args[1].(*ast.BasicLit); ok {
						raw, _ = strconv.Unquote(l.Value)
					}
					d.methods = append(d.methods, fmt.Sprintf("{ name := %s, rawName := %s, kind := %s, args := %s }",
						leanStr(name), leanStr(raw), leanStr(src(ce.Args[2])), leanStr(src(ce.Args[6]))))
				} else {
					d.methods = append(d.methods, fmt.Sprintf("{ name := %s, rawName := \"\", kind := \"\", args := \"\" }", leanStr("opaque:"+src(ce))))
				}
			case strings.HasSuffix(fun, ".Pack"):
				recv := strings.TrimSuffix(fun, ".Pack")
				method := ""
				args := ce.Args
				if recv == "contractABI" && len(args) >= 1 {
					method = src(args[0])
					if l, ok := args[0].(*ast.BasicLit); ok {
						method, _ = strconv.Unquote(l.Value)
					}
					args = args[1:]
				}
				var as []string
				for _, a := range args {
					if ce.Ellipsis != token.NoPos {
						if id, ok := a.(*ast.Ident); ok {
							if cl, ok := anyLits[id.Name]; ok {
								for _, el := range cl.Elts {
									as = append(as, src(el))
								}
								continue
							}
						}
						as = append(as, "opaque-spread:"+src(a))
						continue
					}
					as = append(as, src(a))
				}
				d.packs = append(d.packs, fmt.Sprintf("{ recv := %s, method := %s, args := %s }", leanStr(recv), leanStr(method), leanStrListNL(as)))
			case fun == "crypto.Keccak256":
				d.hashes = append(d.hashes, src(ce))
			}
			return true
		})
	}
	walk = func(stmts []ast.Stmt, prefix string) {
		for _, st := range stmts {
			switch s := st.(type) {
			case *ast.AssignStmt:
				// abi.Arguments literal?
				if len(s.Lhs) == 1 && len(s.Rhs) == 1 {
					if cl, ok := s.Rhs[0].(*ast.CompositeLit); ok {
						switch src(cl.Type) {
						case "abi.Arguments":
							var ts []string
							for _, el := range cl.Elts {
								ts = append(ts, abiTypeString(el))
							}
							d.argLists = append(d.argLists, fmt.Sprintf("{ var := %s, types := %s }", leanStr(src(s.Lhs[0])), leanStrList(ts)))
							continue
						case "[]any", "[]interface{}":
							anyLits[src(s.Lhs[0])] = cl
							continue
						}
					}
				}
				text := src(s)
				handleExprForCalls(s)
				lhs0 := src(s.Lhs[0])
				// `x, err := f()`: keep; `err = …` / logger: drop
				if sbIsNoise(lhs0) && len(s.Lhs) == 1 {
					continue
				}
				isPackOrMethodOrHash := false
				for _, r := range s.Rhs {
					rs := src(r)
					if strings.Contains(rs, ".Pack(") || strings.HasPrefix(rs, "abi.NewMethod(") {
						isPackOrMethodOrHash = true
					}
				}
				if isPackOrMethodOrHash {
					// recorded structurally above; keep only the binding name so that the order is visible
					addFlow(prefix, lhs0+" := <"+map[bool]string{true: "pack", false: "method"}[strings.Contains(text, ".Pack(")]+">")
					continue
				}
				addFlow(prefix, text)
			case *ast.DeclStmt:
				addFlow(prefix, src(s))
			case *ast.ExprStmt:
				text := src(s)
				if sbIsNoise(text) {
					continue
				}
				handleExprForCalls(s)
				addFlow(prefix, text)
			case *ast.IfStmt:
				cond := src(s.Cond)
				if s.Init != nil {
					handleExprForCalls(s.Init)
					cond = src(s.Init) + "; " + cond
				}
				// pure error plumbing: `if err != nil { … return … }`
				if strings.HasPrefix(src(s.Cond), "err != nil") {
					continue
				}
				addFlow(prefix, "if "+cond+" {")
				walk(s.Body.List, prefix+"  ")
				if s.Else != nil {
					addFlow(prefix, "} else {")
					switch el := s.Else.(type) {
					case *ast.BlockStmt:
						walk(el.List, prefix+"  ")
					default:
						walk([]ast.Stmt{el.(ast.Stmt)}, prefix+"  ")
					}
				}
				addFlow(prefix, "}")
			case *ast.ForStmt:
				head := "for "
				if s.Init != nil {
					head += src(s.Init)
				}
				head += "; "
				if s.Cond != nil {
					head += src(s.Cond)
				}
				head += "; "
				if s.Post != nil {
					head += src(s.Post)
				}
				addFlow(prefix, head+" {")
				walk(s.Body.List, prefix+"  ")
				addFlow(prefix, "}")
			case *ast.RangeStmt:
				k, v := "_", "_"
				if s.Key != nil {
					k = src(s.Key)
				}
				if s.Value != nil {
					v = src(s.Value)
				}
				addFlow(prefix, "for "+k+", "+v+" := range "+src(s.X)+" {")
				walk(s.Body.List, prefix+"  ")
				addFlow(prefix, "}")
			case *ast.ReturnStmt:
				handleExprForCalls(s)
				addFlow(prefix, src(s))
			case *ast.SwitchStmt, *ast.TypeSwitchStmt, *ast.SelectStmt, *ast.GoStmt, *ast.DeferStmt, *ast.LabeledStmt, *ast.BranchStmt, *ast.BlockStmt, *ast.IncDecStmt, *ast.SendStmt:
				handleExprForCalls(s)
				addFlow(prefix, "opaque:"+src(s))
			default:
				addFlow(prefix, "opaque:"+src(s))
			}
		}
	}
	walk(fd.Body.List, "")
	return d
}
