#!/bin/sh
# MANIFEST.setup_cmd: build the framework from files on disk only (offline).
set -e
cd "$(dirname "$0")"
export GOFLAGS=-mod=mod GOPROXY=off GOSUMDB=off GOTOOLCHAIN=local
mkdir -p bin work evidence replays
(cd extract && go build -o ../bin/extract .)
rm -f lean/PalomaModel/Gen/*.lean
./bin/extract -repo /repo -out lean/PalomaModel/Gen
MODS=$(python3 -c "
import sys; sys.path.insert(0, '.')
from props import PROPS
print(' '.join(sorted({m for c in PROPS.values() for m in c['lean_modules']})))")
(cd lean && lake build PalomaModel driver PalomaModel.Props.Abi $MODS)
(cd harness && cp /repo/go.sum . 2>/dev/null || true; go test -c -vet=off -tags verif -ldflags '-X github.com/cosmos/cosmos-sdk/version.Version=v2.4.0' -o ../bin/harness.test .)
# second harness binary for the wall-clock twins of C08 (Go's faketime runtime): built here so that the check finds it in the build cache
(cd harness && go test -c -vet=off -tags verif,faketime -ldflags '-X github.com/cosmos/cosmos-sdk/version.Version=v2.4.0' -o ../bin/harness_faketime.test .)
echo setup-ok
