#!/usr/bin/env python3
"""C12 sensitivity check WITHOUT touching /repo: writes mutated copies of two valset keeper files and
`go build -overlay` JSON files into OUT (default /tmp/c12mut).  Use:

  python3 tools/c12_overlay_mutations.py /tmp/c12mut
  cd harness && go test -c -tags verif -overlay /tmp/c12mut/A_legacy_codec.json \
      -ldflags '-X github.com/cosmos/cosmos-sdk/version.Version=v2.4.0' -o /tmp/c12mut/A.test .
  VERIF_OUT=/tmp/c12mut/outA VERIF_N=300 /tmp/c12mut/A.test -test.run 'TestC12$'
  # then: stats.json must show monitor hits and driver < ops.txt must differ from impl.txt

Every mutation below was detected by both the model diff and a monitor (see Props/C12.md).
"""
import json
import os
import sys

REPO = os.environ.get("REPO", "/repo")
out = sys.argv[1] if len(sys.argv) > 1 else "/tmp/c12mut"
os.makedirs(out, exist_ok=True)
KA = "x/valset/keeper/keep_alive.go"
KP = "x/valset/keeper/keeper.go"
src = {KA: open(os.path.join(REPO, KA)).read(), KP: open(os.path.join(REPO, KP)).read()}

MUTS = {
    # regression to the pinned tree: raw addresses joined by ","
    "A_legacy_codec": (KA, [
        ('\tencoded := make([]string, len(vals))\n\tfor i, v := range vals {\n\t\tencoded[i] = hex.EncodeToString(v)\n\t}\n'
         '\treturn []byte(cUnjailedSnapshotHexPrefix + strings.Join(encoded, ","))',
         '\treturn bytes.Join(vals, []byte(","))'),
        ('cUnjailedSnapshotHexPrefix); ok {', 'cUnjailedSnapshotHexPrefix); ok && false {'),
    ]),
    "B_alive_le": (KA, [("return sdkCtx.BlockHeight() < data.AliveUntilBlockHeight, nil",
                         "return sdkCtx.BlockHeight() <= data.AliveUntilBlockHeight, nil")]),
    "C_invalid_version_accepted": (KA, [("if semver.Compare(pigeonVersion, req.MinVersion) < 0 {",
                                         "if semver.IsValid(pigeonVersion) && semver.Compare(pigeonVersion, req.MinVersion) < 0 {")]),
    "D_sentence_le": (KP, [("\t\tif d < sentence {\n\t\t\treturn sentence", "\t\tif d <= sentence {\n\t\t\treturn sentence")]),
    "E_last_validator": (KP, [("\tif count == 1 {", "\tif count == 0 {")]),
    "F_grace_lt": (KA, [("<= cJailingGracePeriodBlockHeight", "< cJailingGracePeriodBlockHeight")]),
    "G_schedule_unchecked": (KP, [("\tif semver.Compare(req.Requirements.MinVersion, pigeonReq.MinVersion) < 0 {", "\tif false {")]),
    "H_quarter_ge": (KP, [("float64(totalConsensusPower) > cJailingNetworkShareProtection",
                           "float64(totalConsensusPower) >= cJailingNetworkShareProtection")]),
    "I_skip_unbonding": (KA, [("if !(val.GetStatus() == stakingtypes.Bonded || val.GetStatus() == stakingtypes.Unbonding) {",
                               "if !(val.GetStatus() == stakingtypes.Bonded) {")]),
    "J_threshold": (KP, [("d+time.Duration(d/20)", "d+time.Duration(d/10)")]),
}

for name, (path, reps) in MUTS.items():
    text = src[path]
    for old, new in reps:
        if old not in text:
            sys.exit(f"{name}: pattern not found in {path} (source changed?)")
        text = text.replace(old, new)
    mutated = os.path.join(out, f"{name}_{os.path.basename(path)}")
    open(mutated, "w").write(text)
    json.dump({"Replace": {os.path.join(REPO, path): mutated}}, open(os.path.join(out, f"{name}.json"), "w"))
    print(os.path.join(out, f"{name}.json"))
