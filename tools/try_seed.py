#!/usr/bin/env python3
"""tools/try_seed.py <seed-name> <PROPERTY> [tier]: apply a kept seeded change in an isolated worktree and run the
quick check of ANOTHER property against it (to see which checks besides the seed's own notice the change)."""
import sys, os, subprocess
sys.path.insert(0, os.path.dirname(os.path.abspath(__file__)))
import run_seeded as rs
name, pid = sys.argv[1], sys.argv[2]
tier = sys.argv[3] if len(sys.argv) > 3 else "quick"
repo, verif = rs.prepare_sandbox()
try:
    rs.sh("git checkout -- . && git clean -fdq", cwd=repo)
    rc, out = rs.sh(f"git apply {os.path.join(rs.SEEDED, name, 'patch.diff')}", cwd=repo)
    print("applied", rc == 0, out[-300:])
    p = subprocess.run(f"./check {pid} --tier {tier}", cwd=verif, shell=True, env=dict(rs.ENV, VERIF_REPO=repo),
                       stdout=subprocess.PIPE, stderr=subprocess.STDOUT, text=True, timeout=3000)
    print("\n".join(l.replace(verif, "/verif") for l in p.stdout.splitlines() if l.startswith(("OK", "VIOLATION", "KNOWN"))))
    for l in p.stdout.splitlines():
        if l.startswith("VIOLATION") and "replay=" in l:
            f = l.split("replay=")[1].split()[0]
            if os.path.exists(f):
                print(open(f).read()[:1500])
                break
finally:
    rs.sh(f"git -C /repo worktree remove --force {repo}")
