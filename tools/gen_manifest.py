#!/usr/bin/env python3
"""Regenerate MANIFEST.json from props.py (claimed checks) and properties.jsonl."""
import json, os, sys, subprocess
ROOT = os.path.dirname(os.path.dirname(os.path.abspath(__file__)))
sys.path.insert(0, ROOT)
from props import PROPS, NOT_APPLICABLE, LEVEL_TEXT

props = [json.loads(l) for l in open(os.path.join(ROOT, "properties.jsonl"))]
hooks = subprocess.run(["git", "-C", "/repo", "log", "--format=%H", "--grep=^verif:"], capture_output=True, text=True).stdout.split()
m = {
    "version": 1,
    "setup_cmd": "./setup.sh",
    "hooks": {
        "guard": "verif",
        "enable": "go build tag `verif`: the harness module (harness/go.mod: replace github.com/palomachain/paloma/v2 => /repo) is built with `go test -c -tags verif`",
        "baseline_off_cmd": "cd /repo && go test -mod=mod -json -vet=off -count=1 -timeout 25m ./...",
        "source_commits": hooks,
        "add_only": True,
    },
    "engines": [{
        "name": "lean-proof+correspondence", "path": "check", "serves_properties": sorted(PROPS),
        "kind_free_text": "Lean 4 theorems over executable models (lean/PalomaModel), tied to /repo on every run by a Go correspondence harness "
                          "(harness/, line protocol to the compiled Lean driver lean/DriverMain.lean), implementation-side monitors, facts regenerated from the typed source (extract/ -> Gen/*.lean: tables consumed by decide / rfl obligations) "
                          "and pure cores TRANSLATED from Go to Lean on every run (extract/translate.go -> Gen/Translated.lean, proved equal to the model functions)",
    }],
    "checks": [],
    "not_applicable": [],
    "notes": "See DESIGN.md. Every check regenerates facts from /repo, rebuilds the proofs and audits their axioms, rebuilds the Go harness against /repo's "
             "working tree with -tags verif, diffs model vs implementation on PRNG-derived inputs and evaluates property monitors on the implementation.",
}
for p in props:
    pid = p["id"]
    if pid in PROPS:
        c = PROPS[pid]
        m["checks"].append({
            "property_id": pid,
            "quick_cmd": f"./check {pid} --tier quick",
            "thorough_cmd": f"./check {pid} --tier thorough",
            "evidence_file": f"evidence/{pid}.json",
            "replay_cmd_template": f"./check {pid} --replay {{path}}",
            "engine": "lean-proof+correspondence",
            "level_claimed": {"category": "proof", "text": c.get("level_text", LEVEL_TEXT), "design_ref": c.get("design_ref", "DESIGN.md")},
            "level_note": c.get("level_note", "Trusted: Lean 4.33 kernel with axioms propext/Classical.choice/Quot.sound only (audited per theorem each run); "
                                "the Go correspondence harness + Lean driver + check script; " + "; ".join(c.get("trusted_base", []))),
            "technique": c.get("technique", "Lean 4 machine-checked proof over an executable model + model/implementation correspondence check"),
        })
    else:
        m["not_applicable"].append({"property_id": pid, "reason": NOT_APPLICABLE.get(pid, "check under construction in this session (not yet claimed)")})
json.dump(m, open(os.path.join(ROOT, "MANIFEST.json"), "w"), indent=1)
print("claimed:", sorted(PROPS), "not claimed:", [x["property_id"] for x in m["not_applicable"]])
