#!/usr/bin/env python3
"""
tools/run_seeded.py import <ID> <outdir>   : confirm sub-agent seeded changes (demo fails with / passes without, builds) in a
                                             scratch worktree and store them as /verif/seeded/<name>/
tools/run_seeded.py check [name ...]       : apply each kept change to /repo, run the property's quick check, undo, record
                                             whether it was caught (updates seeded/<name>/meta.json and seeded/RESULTS.md)
"""
import sys, os, json, subprocess, shutil, glob, time
ROOT = os.path.dirname(os.path.dirname(os.path.abspath(__file__)))
SEEDED = os.path.join(ROOT, "seeded")
ENV = dict(os.environ, GOFLAGS="-mod=mod", GOPROXY="off", GOSUMDB="off", GOTOOLCHAIN="local")


def sh(cmd, cwd=None, timeout=3000):
    p = subprocess.run(cmd, cwd=cwd, shell=True, env=ENV, stdout=subprocess.PIPE, stderr=subprocess.STDOUT, text=True, timeout=timeout)
    return p.returncode, p.stdout


def do_import(pid, outdir, tag=""):
    wt = f"/tmp/seedcheck-{pid}"
    sh(f"git -C /repo worktree remove --force {wt}")
    rc, out = sh(f"git -C /repo worktree add -q --detach {wt} HEAD")
    if rc != 0:
        print(out); return
    try:
        for i in (1, 2, 3):
            patch = os.path.join(outdir, f"m{i}.patch")
            if not os.path.exists(patch):
                continue
            meta = json.load(open(os.path.join(outdir, f"m{i}_meta.json")))
            demo_src = os.path.join(outdir, f"m{i}_demo_test.go")
            demo_rel = meta["demo"]["path"]
            run = meta["demo"]["run"]
            name = f"{pid}-{tag}m{i}"
            res = {"name": name}
            # unchanged tree: demo must pass
            os.makedirs(os.path.dirname(os.path.join(wt, demo_rel)), exist_ok=True)
            shutil.copy(demo_src, os.path.join(wt, demo_rel))
            rc0, out0 = sh(run, cwd=wt)
            # with the change: builds, demo fails
            rca, outa = sh(f"git apply {patch}", cwd=wt)
            rcb, outb = sh("go build ./...", cwd=wt)
            rc1, out1 = sh(run, cwd=wt)
            sh("git checkout -- . && git clean -fdq", cwd=wt)
            res.update(unchanged_demo_passes=(rc0 == 0), applies=(rca == 0), builds=(rcb == 0), changed_demo_fails=(rc1 != 0))
            ok = rc0 == 0 and rca == 0 and rcb == 0 and rc1 != 0
            print(name, res, "KEEP" if ok else "DROP")
            if not ok:
                print(out0[-600:], outa[-300:], outb[-300:], out1[-600:])
                continue
            d = os.path.join(SEEDED, name)
            os.makedirs(d, exist_ok=True)
            shutil.copy(patch, os.path.join(d, "patch.diff"))
            shutil.copy(demo_src, os.path.join(d, "demo_test.go"))
            meta.update(confirmed=res, confirmed_cmds=[f"(scratch worktree) {run} -> pass", f"git apply patch.diff && go build ./... && {run} -> FAIL"])
            json.dump(meta, open(os.path.join(d, "meta.json"), "w"), indent=1)
    finally:
        sh(f"git -C /repo worktree remove --force {wt}")


SANDBOX = os.environ.get("SEED_SANDBOX", "/tmp/seedeval")


def prepare_sandbox():
    """an isolated copy of /verif working against its own worktree of /repo, so that evaluating seeded
    changes never touches /repo (other checks and agents build against it)"""
    os.makedirs(SANDBOX, exist_ok=True)
    repo = os.path.join(SANDBOX, "repo")
    sh(f"git -C /repo worktree remove --force {repo}")
    rc, out = sh(f"git -C /repo worktree add -q --detach {repo} HEAD")
    if rc != 0:
        raise SystemExit(out)
    verif = os.path.join(SANDBOX, "verif")
    sh(f"rsync -a --delete --exclude .git --exclude work --exclude replays --exclude evidence {ROOT}/ {verif}/")
    sh(f"sed -i 's#=> /repo#=> {repo}#' {verif}/harness/go.mod")
    return repo, verif


def do_check(names):
    if not names:
        names = sorted(os.path.basename(p) for p in glob.glob(os.path.join(SEEDED, "*-m*")))
    repo, verif = prepare_sandbox()
    env = dict(ENV, VERIF_REPO=repo)
    rows = []
    try:
        for name in names:
            d = os.path.join(SEEDED, name)
            meta = json.load(open(os.path.join(d, "meta.json")))
            pid = meta["property"]
            sh("git checkout -- . && git clean -fdq", cwd=repo)
            rca, outa = sh(f"git apply {os.path.join(d, 'patch.diff')}", cwd=repo)
            t0 = time.time()
            p = subprocess.run(f"./check {pid} --tier quick", cwd=verif, shell=True, env=env, stdout=subprocess.PIPE, stderr=subprocess.STDOUT, text=True, timeout=3000)
            outc = p.stdout
            sh("git checkout -- . && git clean -fdq", cwd=repo)
            lines = [l for l in outc.splitlines() if l.startswith("VIOLATION") or l.startswith("OK ")]
            caught = any(l.startswith("VIOLATION") for l in lines)
            concrete = any(l.startswith("VIOLATION") and "no-failing-input-found" not in l for l in lines)
            meta["check_result"] = {"applied": rca == 0, "caught": caught, "with_concrete_input": concrete,
                                    "lines": [l.replace(verif, "/verif") for l in lines[:4]], "wall_s": round(time.time() - t0, 1),
                                    "ran": f"git apply seeded/{name}/patch.diff (in an isolated worktree of /repo) && ./check {pid} --tier quick"}
            json.dump(meta, open(os.path.join(d, "meta.json"), "w"), indent=1)
            rows.append((name, pid, meta.get("summary", "")[:110], caught, concrete))
            print(name, "CAUGHT" if caught else "MISSED", lines[:2])
    finally:
        sh(f"git -C /repo worktree remove --force {repo}")
    write_results()


def write_results():
    """RESULTS.md is regenerated from the check_result recorded in every seeded/<name>/meta.json"""
    rows = []
    for d in sorted(glob.glob(os.path.join(SEEDED, "*-*m*"))):
        mp = os.path.join(d, "meta.json")
        if not os.path.exists(mp):
            continue
        m = json.load(open(mp))
        cr = m.get("check_result")
        if not cr:
            continue
        rows.append((os.path.basename(d), m["property"], (m.get("summary", "").replace("|", "/")[:170] + " — NEEDS: " + str(m.get("needs", "")).replace("|", "/")[:170]), cr["caught"], cr.get("with_concrete_input"),
                     "; ".join(sorted(set(l.split("replays/")[-1].split(".json")[0].rsplit("-", 1)[0] for l in cr.get("lines", []) if l.startswith("VIOLATION"))))))
    caught = sum(1 for r in rows if r[3])
    conc = sum(1 for r in rows if r[4])
    with open(os.path.join(SEEDED, "RESULTS.md"), "w") as f:
        f.write("# Seeded changes: what the quick checks report\n\n")
        f.write("Each row is a change produced by an independent sub-agent that saw only the property text and a scratch worktree of the repository "
                "(round 1: `<ID>-m<i>`, round 2: `<ID>-r2m<i>`). It compiles, passes the repository's own tests, and its demonstration test "
                "(`seeded/<name>/demo_test.go`) fails with the change and passes without. Result of `git apply seeded/<name>/patch.diff` in an isolated "
                "worktree followed by `./check <ID> --tier quick` (tools/run_seeded.py check).\n\n")
        f.write(f"**{caught} of {len(rows)} caught; {conc} with a concrete failing input, {caught - conc} by a broken obligation/correspondence only.**\n\n")
        f.write("| change | property | what was changed and what it needs to manifest | result | how | reported as |\n|---|---|---|---|---|---|\n")
        for r in rows:
            f.write(f"| {r[0]} | {r[1]} | {r[2]} | {'caught' if r[3] else 'MISSED'} | {'concrete input' if r[4] else ('obligation/correspondence only' if r[3] else '-')} | {r[5]} |\n")


if __name__ == "__main__":
    if sys.argv[1] == "import":
        do_import(sys.argv[2], sys.argv[3], sys.argv[4] if len(sys.argv) > 4 else "")
    elif sys.argv[1] == "check":
        do_check(sys.argv[2:])
    elif sys.argv[1] == "results":
        write_results()
