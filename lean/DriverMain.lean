import Driver.C04
import Driver.Bridge
import Driver.Abi
import Driver.C19
import Driver.C02
import Driver.C11
import Driver.C16
import Driver.C18
import Driver.C08
import Driver.C09
import Driver.C09G
import Driver.C15W
import Driver.C10
import Driver.C05
import Driver.C07
import Driver.Queue
import Driver.C03
import Driver.C12
import Driver.C17

/-- global driver state: one slot per stateful model -/
structure St where
  bridge : Driver.Bridge.DSt := {}
  c19 : Driver.C19.State := Driver.C19.init
  c02 : Driver.C02.State := Driver.C02.init
  c16 : Driver.C16.State := Driver.C16.init
  c18 : Driver.C18.DSt := Driver.C18.init
  c10 : Driver.C10.State := Driver.C10.init
  c05 : Driver.C05.State := Driver.C05.init
  c07 : Driver.C07.State := Driver.C07.init
  c12 : Driver.C12.State := Driver.C12.init
  c17 : Driver.C17.State := Driver.C17.init
  c06 : Driver.Queue.DState := Driver.Queue.init
  c14 : Driver.Queue.DState := Driver.Queue.init

def stepLine (st : St) (line : String) : St × String :=
  match (line.trimAscii.toString.splitOn " ").filter (· ≠ "") with
  | "C04" :: rest => (st, Driver.C04.step rest)
  | "C19" :: rest => let (s', o) := Driver.C19.step st.c19 rest; ({ st with c19 := s' }, o)
  | "C02" :: rest => let (s', o) := Driver.C02.step st.c02 rest; ({ st with c02 := s' }, o)
  | "C10" :: rest => let (s', o) := Driver.C10.step st.c10 rest; ({ st with c10 := s' }, o)
  | "C17" :: rest => let (s', o) := Driver.C17.step st.c17 rest; ({ st with c17 := s' }, o)
  | "C12" :: rest => let (s', o) := Driver.C12.step st.c12 rest; ({ st with c12 := s' }, o)
  | "C03" :: rest => (st, Driver.C03.step rest)
  | "C06" :: rest => let (s', o) := Driver.Queue.step st.c06 rest; ({ st with c06 := s' }, o)
  | "C14" :: rest => let (s', o) := Driver.Queue.step st.c14 rest; ({ st with c14 := s' }, o)
  | "C13B" :: rest => (st, Driver.Queue.stepPrune rest)
  | "C07" :: rest => let (s', o) := Driver.C07.step st.c07 rest; ({ st with c07 := s' }, o)
  | "C05" :: rest => let (s', o) := Driver.C05.step st.c05 rest; ({ st with c05 := s' }, o)
  | "C09" :: rest => (st, Driver.C09.step rest)
  | "C09G" :: rest => (st, Driver.C09G.step rest)
  | "C09S" :: rest => (st, Driver.C09G.stepSky rest)
  | "C01A" :: rest => (st, Driver.C09G.stepOutside rest)
  | "C15W" :: rest => (st, Driver.C15W.stepWalk rest)
  | "C08" :: rest => (st, Driver.C08.step rest)
  | "C18" :: rest => let (s', o) := Driver.C18.step st.c18 rest; ({ st with c18 := s' }, o)
  | "C16" :: rest => let (s', o) := Driver.C16.step st.c16 rest; ({ st with c16 := s' }, o)
  | "C11K" :: rest => (st, Driver.C11.stepKeeper rest)
  | "C11" :: rest => (st, Driver.C11.step rest)
  | "ABI" :: rest => (st, Driver.Abi.step rest)
  | "BR" :: rest => let (b, o) := Driver.Bridge.step st.bridge rest; ({ st with bridge := b }, o)
  | _ => (st, "bad-op")

partial def loop (h : IO.FS.Stream) (out : IO.FS.Stream) (st : St) : IO Unit := do
  let line ← h.getLine
  if line.isEmpty then return ()
  let (st', o) := stepLine st line
  out.putStrLn o
  loop h out st'

def main : IO Unit := do
  let out ← IO.getStdout
  loop (← IO.getStdin) out {}
