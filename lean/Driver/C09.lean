import Driver.Util
import PalomaModel.Props.C09
namespace Driver.C09
open Paloma.NoPanic

def parseCache? (s : String) : Option (Option Nat) :=
  if s == "-" then some none else (Driver.parseNat? s).map some

def showCache : Option Nat → String
  | none => "-"
  | some c => toString c

def parseRec? (s : String) : Option (Option DeployStatus) :=
  if s == "none" then some none
  else if s == "inflight" then some (some .inFlight)
  else if s == "waiting" then some (some .waitingForTransfer)
  else if s == "failed" then some (some .failed)
  else none

/-- does `VerifyAgainstTX` of this kind of message read the valset? -/
def parseKind? (s : String) : Option Bool :=
  if s == "slc" || s == "uv" || s == "usc" || s == "ch" then some true
  else if s == "up" then some false
  else none

/-- `block <height> <txs>`: the model's prediction for every block is "ok": begin/end-block processing is total
    (Props/C09.lean); the harness reports "aborted" when FinalizeBlock errs or panics.
    `endblock metrix <height> <nonce cache|-> <ids of validator 1> <ids of validator 2> …`: the relay-history part of the
    metrix end blocker (`Metrix.endBlock`) → `returned <ids> <ids> …` | `aborted`.
    `relay <height> <assigned> <handled> <id> <nonce cache|-> <ids>`: `OnConsensusMessageAttested` → `<cache> <ids>`.
    `attestch <none|inflight|waiting|failed>`: a compass handover is attested while its deployment record is in that state
    → `activated` | `skipped` (the block goes on either way; `aborted` is never predicted).
    `attestref <slc|uv|usc|ch|up> <valset id of the public access data|-> <ids of the existing snapshots> <valset id the
    reported transaction was built with (0 = the empty valset)|->`: the integrity check of the attestation
    (`Dangling.attestIntegrity`) → `verified` | `notverified` | `aborted` (a panic; never predicted, see
    `attest_integrity_never_panics`). -/
def step (args : List String) : String :=
  match args with
  | ["block", _, _] => "ok"
  | "endblock" :: "metrix" :: h :: c :: hs =>
    match Driver.parseNat? h, parseCache? c, hs.mapM Driver.parseNatList? with
    | some height, some cache, some hist =>
      match Metrix.endBlock height cache hist with
      | some out => " ".intercalate ("returned" :: out.map Driver.showNatList)
      | none => "aborted"
    | _, _, _ => "bad-op"
  | ["relay", h, a, d, i, c, xs] =>
    match Driver.parseNat? h, Driver.parseInt? a, Driver.parseInt? d, Driver.parseNat? i, parseCache? c, Driver.parseNatList? xs with
    | some height, some assigned, some handled, some id, some cache, some ids =>
      let r := Metrix.record height assigned handled id cache ids
      s!"{showCache r.1} {Driver.showNatList r.2}"
    | _, _, _, _, _, _ => "bad-op"
  | ["attestch", r] =>
    match parseRec? r with
    | some rec => if (activate rec).isSome then "activated" else "skipped"
    | none => "bad-op"
  | ["attestref", k, p, sn, b] =>
    match parseKind? k, parseCache? p, Driver.parseNatList? sn, parseCache? b with
    | some usesValset, some pad, some snaps, some builtFor =>
      match Dangling.attestIntegrity usesValset pad snaps builtFor with
      | .verified => "verified"
      | .notVerified => "notverified"
      | .panic => "aborted"
    | _, _, _, _ => "bad-op"
  | _ => "bad-op"
end Driver.C09
