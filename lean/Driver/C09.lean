import Driver.Util
namespace Driver.C09
/-- the model's prediction for every block is "ok": begin/end-block processing is total
    (Props/C09.lean); the harness reports "aborted" when FinalizeBlock errs or panics. -/
def step (args : List String) : String :=
  match args with
  | ["block", _, _] => "ok"
  | _ => "bad-op"
end Driver.C09
