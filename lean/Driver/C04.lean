import PalomaModel.Model.Libcons
import Driver.Util
namespace Driver.C04
open Paloma.Libcons

/-- ops:
  `evidence <total> <vals a:s,…> <evs a:h,…> <hint>` → `notachieved` | `winner h` | `winners h,…`
  `gas <total> <vals> <ests a:v,…>`           → `notachieved` | `zero` | `elected v`
  `median <vals v,…>`                          → `<m>`
  `addev <evs a:h,…> <a:h>`                    → `<evs>`
  `setelected <cur> <new>`                     → `refused` | `set v`
  `addest <ests a:v,…> <a:v>`                  → `refused` | `<ests>` -/
def step (args : List String) : String :=
  match args with
  | ["evidence", t, vs, es, hint] =>
    -- `hint` is the winner the implementation returned (`-` if none): Go picks the first
    -- quorum group in map order, so any member of the model's winner list is acceptable.
    match parseNat? t, parsePairList? vs, parsePairList? es with
    | some t, some vs, some es =>
      match verifyEvidence ⟨vs, t⟩ es with
      | .notAchieved => "notachieved"
      | .winnerIn ws =>
        match parseNat? hint with
        | some w => if ws.contains w then s!"winner {w}" else "winners " ++ showNatList (sortNat ws)
        | none => "winners " ++ showNatList (sortNat ws)
    | _, _, _ => "bad-op"
  | ["gas", t, vs, es] =>
    match parseNat? t, parsePairList? vs, parsePairList? es with
    | some t, some vs, some es =>
      match verifyGasEstimates ⟨vs, t⟩ es with
      | .notAchieved => "notachieved"
      | .zero => "zero"
      | .elected v => s!"elected {v}"
    | _, _, _ => "bad-op"
  | ["median", vs] =>
    match parseNatList? vs with
    | some vs => toString (median vs)
    | none => "bad-op"
  | ["addev", es, e] =>
    match parsePairList? es, parsePair? e with
    | some es, some e => showPairList (addEvidence es e)
    | _, _ => "bad-op"
  | ["setelected", c, n] =>
    match parseNat? c, parseNat? n with
    | some c, some n => match setElected c n with
      | none => "refused"
      | some v => s!"set {v}"
    | _, _ => "bad-op"
  | ["addest", es, e] =>
    match parsePairList? es, parsePair? e with
    | some es, some e => match addGasEstimate es e with
      | none => "refused"
      | some es' => showPairList es'
    | _, _ => "bad-op"
  | _ => "bad-op"

end Driver.C04
