import PalomaModel.Model.Libcons
import Driver.Util
namespace Driver.C04
open Paloma.Libcons

/-- ops:
  `evidence <total> <vals a:s,…> <evs a:h,…> <hint>` → `notachieved` | `winner h` | `winners h,…`
  `gas <total> <vals> <ests a:v,…>`           → `notachieved` | `zero` | `elected v`
  `median <vals v,…>`                          → `<m>`
  `addev <evs a:h,…> <a:h>`                    → `<evs>`
  `setelected <cur> <new>`                     → `refused` | `set v`
  `addest <ests a:v,…> <a:v>`                  → `refused` | `<ests>`
  `enc <proof>`                                → `x<hex>`: the bytes `BytesToHash` produces (proof tokens: `parseProof?`)
  `evp <total> <vals> <evs a=proof;…> <hint>`  → as `evidence`, on proof content (`Enc.verifyProofs`); a winner is the
     1-based position of the first entry of its group
  `hist <op> <op> …`                           → `<res> <res> … | <final state>` (see `showRes`, `showHist`): a whole history of the
     C04 history model from its initial state; op tokens (fields separated by `/`):
     `s/<total>/<vals>` snapshot, `p/<0|1>` put, `v/<id>/<a>/<h>` evidence, `g/<id>/<a>/<v>` gas estimate
     (`v` must fit `uint64`), `e/<id>/<0|1>` elect (fee step ok?), `a/<id>/<hint>/<hard hashes>/<soft hashes>` attest (hashes on which the attester fails),
     `x/<id>` prune -/
def parseHistOp? (tok : String) : Option Hist.Op :=
  match tok.splitOn "/" with
  | ["s", t, vs] => do pure (.snap ⟨← parsePairList? vs, ← parseNat? t⟩)
  | ["p", "0"] => some (.put false)
  | ["p", "1"] => some (.put true)
  | ["v", i, a, h] => do pure (.ev (← parseNat? i) (← parseNat? a) (← parseNat? h))
  | ["g", i, a, v] => do
    let v ← parseNat? v
    if v < U64 then pure (.est (← parseNat? i) (← parseNat? a) v) else none
  | ["e", i, "0"] => do pure (.elect (← parseNat? i) false)
  | ["e", i, "1"] => do pure (.elect (← parseNat? i) true)
  | ["a", i, h, hard, soft] => do
    pure (.attest (← parseNat? i) ((parseNat? h).getD 0) (← parseNatList? hard) (← parseNatList? soft))
  | ["x", i] => do pure (.prune (← parseNat? i))
  | _ => none

/-! evidence with proof content (`enc`, `evp`): every string field travels as `x<hex of its bytes>` -/

def hexVal? (c : Char) : Option Nat :=
  if '0' ≤ c ∧ c ≤ '9' then some (c.toNat - 48)
  else if 'a' ≤ c ∧ c ≤ 'f' then some (c.toNat - 87) else none

def unhex? : List Char → Option Enc.Bytes
  | [] => some []
  | [_] => none
  | a :: b :: r => do
    let hi ← hexVal? a
    let lo ← hexVal? b
    let rest ← unhex? r
    pure (Fin.ofNat 256 (hi * 16 + lo) :: rest)

def parseBytes? (s : String) : Option Enc.Bytes :=
  match s.toList with
  | 'x' :: r => unhex? r
  | _ => none

def hexDigit (n : Nat) : Char := if n < 10 then Char.ofNat (48 + n) else Char.ofNat (87 + n)

def showBytes (b : Enc.Bytes) : String :=
  String.ofList ('x' :: b.flatMap (fun c => [hexDigit (c.val / 16), hexDigit (c.val % 16)]))

/-- `e/<msg>` error proof, `b/<height>/<bal,bal,…|->` balances, `r/<height>/<hash>` reference block -/
def parseProof? (tok : String) : Option Enc.Proof :=
  match tok.splitOn "/" with
  | ["e", m] => do pure (.err (← parseBytes? m))
  | ["b", h, bs] => do pure (.balances (← parseNat? h) (← (splitList bs).mapM parseBytes?))
  | ["r", h, x] => do pure (.refBlock (← parseNat? h) (← parseBytes? x))
  | _ => none

/-- `<addr>=<proof>;…` or `-` -/
def parseProofEvs? (s : String) : Option (List (Nat × Enc.Proof)) :=
  if s == "-" then some [] else
  (s.splitOn ";").mapM fun e =>
    match e.splitOn "=" with
    | [a, p] => do pure (← parseNat? a, ← parseProof? p)
    | _ => none

/-- what the harness can observe of a result: the new id, accepted / refused, a new elected value, a
    declaration (with the winning proof); every branch that leaves the state untouched prints `-` -/
def showRes : Hist.Res → String
  | .ok => "ok"
  | .rejected => "rejected"
  | .newId n => s!"id:{n}"
  | .elected v => s!"elected:{v}"
  | .declared h false => s!"declared:{h}"
  | .declared h true => s!"declaredsoft:{h}"
  | .absent | .skipped | .notAchieved | .zero | .refused | .feeFailed | .noEvidence | .hardFail _ => "-"

def showItem (it : Hist.Item) : String :=
  s!"{it.id}/{if it.req then 1 else 0}/{it.elected}/{showPairList it.ests}/{showPairList it.evs}"

def showHist (s : Hist.St) : String :=
  let q := if s.queue.isEmpty then "-" else ";".intercalate (s.queue.map showItem)
  let d := if s.declared.isEmpty then "-" else
    ",".intercalate (s.declared.map fun x => s!"{x.1}:{x.2.1}:{if x.2.2 then 1 else 0}")
  s!"next={s.nextId} q={q} declared={d}"

def step (args : List String) : String :=
  match args with
  | ["evidence", t, vs, es, hint] =>
    -- `hint` is the winner the implementation returned (`-` if none): Go picks the first
    -- quorum group in map order, so any member of the model's winner list is acceptable.
    match parseNat? t, parsePairList? vs, parsePairList? es with
    | some t, some vs, some es =>
      match verifyEvidence ⟨vs, t⟩ es with
      | .notAchieved => "notachieved"
      | .winnerIn ws =>
        match parseNat? hint with
        | some w => if ws.contains w then s!"winner {w}" else "winners " ++ showNatList (sortNat ws)
        | none => "winners " ++ showNatList (sortNat ws)
    | _, _, _ => "bad-op"
  | ["enc", p] =>
    -- the bytes `BytesToHash` derives from the proof
    match parseProof? p with
    | some p => showBytes p.bytes
    | none => "bad-op"
  | ["evp", t, vs, es, hint] =>
    -- `VerifyEvidence` on proof content; a winner is named by the (1-based) position of the first
    -- entry of its group, which is the representative Go returns
    match parseNat? t, parsePairList? vs, parseProofEvs? es with
    | some t, some vs, some es =>
      match Enc.verifyProofs ⟨vs, t⟩ es with
      | .notAchieved => "notachieved"
      | .winnerIn ws =>
        match parseNat? hint with
        | some w => if ws.contains w then s!"winner {w}" else "winners " ++ showNatList (sortNat ws)
        | none => "winners " ++ showNatList (sortNat ws)
    | _, _, _ => "bad-op"
  | ["gas", t, vs, es] =>
    match parseNat? t, parsePairList? vs, parsePairList? es with
    | some t, some vs, some es =>
      match verifyGasEstimates ⟨vs, t⟩ es with
      | .notAchieved => "notachieved"
      | .zero => "zero"
      | .elected v => s!"elected {v}"
    | _, _, _ => "bad-op"
  | ["median", vs] =>
    match parseNatList? vs with
    | some vs => toString (median vs)
    | none => "bad-op"
  | ["addev", es, e] =>
    match parsePairList? es, parsePair? e with
    | some es, some e => showPairList (addEvidence es e)
    | _, _ => "bad-op"
  | ["setelected", c, n] =>
    match parseNat? c, parseNat? n with
    | some c, some n => match setElected c n with
      | none => "refused"
      | some v => s!"set {v}"
    | _, _ => "bad-op"
  | ["addest", es, e] =>
    match parsePairList? es, parsePair? e with
    | some es, some e => match addGasEstimate es e with
      | none => "refused"
      | some es' => showPairList es'
    | _, _ => "bad-op"
  | "hist" :: toks =>
    match toks.mapM parseHistOp? with
    | some ops =>
      " ".intercalate ((Hist.trace ops).map showRes) ++ " | " ++ showHist (Hist.run ops)
    | none => "bad-op"
  | _ => "bad-op"

end Driver.C04
