import PalomaModel.Model.Attest
import Driver.Util
import Driver.C05
namespace Driver.C07
open Paloma.Abi Paloma.SignBytes Paloma.Attest

/-! Line protocol of C07 (attestation of delivered EVM messages).  Tokens as in Driver/C05.

  reset
  chain <deployments cid:i|cid:w,…> <activeContract> <liveOn snapshot ids, one per listing> <snapshots>
        <currentSnapshot> <userDeployments> <handoverOk 0|1> <userActive>  → ok
  msg <valsetValidators> <valsetPowers> <valsetId> <sigs x<ext>:v:r:s,…> <contractId|->
      <kind> <turnstone> <relayer> <id> <estimate> <fields…>               → ok
        (fields as in `C05 sb`, except `up`: <bytecode> <constructorInput> [<upOk 0|1>] — upOk (default
         1): the message's own ABI parses and its constructor input, when present, unpacks; inserts or
         replaces the stored message with that id)
  compass <parses 0|1> <update_valset 0|1> <submit_logic_call 0|1> <deploy_contract 0|1>
          <compass_update_batch 0|1>                                        → ok
        (the ABI of the LATEST compass, `GetLastCompassContract`: does it parse; per delivery method:
         1 = declared with the parameter list of the repository's compass, 0 = absent or declared with
         a parameter list `Pack` refuses the arguments for.  Kept across `chain`, reset by `reset`.)
  rm <id>                                                                  → ok
  attestev <id> <shares addr:share,…> <totalShares> <evidence>…   (store order; one token each)
        evidence: <addr>;tx;<hash>;<status>;<data>;<deployLog 0|1>;<receiptVariant>[;<txEncoding>[;<sender|->]]
                    (status = the FIRST FIELD of the serialized receipt: `1` = the byte 0x01 (success code),
                     `0` = the empty string (failure code), `fx<hex>` = these bytes — 32 of them: the
                     post-transaction state root of a receipt that carries NO status code —, `-` = the
                     proof has no serialized receipt.  The model decodes it (`receiptStatusOf`);
                     txEncoding: 0 = canonical serialization (default), n = EIP-4844 network form with
                     sidecar n; same <hash> = same remote transaction whatever the encoding;
                     sender: the account recovered from the transaction's signature as a number, `-`
                     (default) = the transaction carries no valid signature.  The model's router does
                     not read it — `attest_ignores_the_sender` — so a sender-dependent verdict of the
                     implementation shows as a differing line)
                | <addr>;err;<n> | <addr>;other;<n>
      → as `attest`, with proc=<0|1 per distinct tx hash in order of first appearance>
  gov addother | rmother | rmself | addself                                → ok
        (governance over the SET of supported chains, `Model/Attest.lean` `Gov`: `AddSupportForNewChain` /
         `RemoveSupportForChain` of ANOTHER chain reference id, or of this chain itself.  `rmself` deletes
         the chain's queued messages; none of the four touches the used-transaction set, which belongs
         to the evm module and not to a chain)
  used <hash,…>                                                            → <0|1,…>
        (is each of these transactions in the used-transaction set — `isTxProcessed`)
  attest <id> none | err | other | tx <hash> <status|-> <data> <deployLog 0|1>
      → <class> q=<ids> proc=<0|1|-> fx=<effects> active=<n> deps=<…> live=<snapshot ids listing the
        chain, sorted, with multiplicity> uact=<active user deployments, sorted>
        class: nil | txfailed | notverified | err | unknown
-/

def parseSig? (s : String) : Option SignData :=
  match s.splitOn ":" with
  | [e, v, r, x] => do
    pure { ext := ← Driver.C05.parseBytes? e, v := ← parseNat? v, r := ← parseNat? r, s := ← parseNat? x }
  | _ => none

def parseSigs? (s : String) : Option (List SignData) := (splitList s).mapM parseSig?

def parseDep? (s : String) : Option (Nat × DepStatus) :=
  match s.splitOn ":" with
  | [c, "i"] => do pure (← parseNat? c, .inFlight)
  | [c, "w"] => do pure (← parseNat? c, .waiting)
  | _ => none

def parseBool? (s : String) : Option Bool :=
  if s == "1" then some true else if s == "0" then some false else none

/-- the Go-level message to the ABI-level action -/
def toAction? (m : GoMsg) (cid : Option Nat) : Option Action :=
  match m.action with
  | .updateValset vs => some (.uv (uvFields m vs) vs.valsetId)
  | .submitLogicCall c p fe s d =>
    match padSender s with
    | some snd => some (.slc (slcFields m c p fe snd d))
    | none => none
  | .uploadUserSmartContract dep bc fe s d =>
    match padSender s, cid with
    | some snd, some cid => some (.usc (uscFields m dep bc fe snd d) cid)
    | _, _ => none
  | .compassHandover cs d =>
    match cid with
    | some cid => some (.ch (chFields m cs d) cid)
    | none => none
  | .uploadSmartContract _ => none

def parseCid? (s : String) : Option (Option Nat) :=
  if s == "-" then some none else (parseNat? s).map some

def parseQMsg? (args : List String) : Option QMsg :=
  match args with
  | cvals :: cpows :: cvid :: sigs :: cid :: "up" :: _ts :: _rel :: id :: _est :: bc :: ctor :: okTok => do
    let vs : GoValset := { validators := ← Driver.C05.parseBytesList? cvals, powers := ← parseNatList? cpows,
                           valsetId := ← parseNat? cvid }
    let cid ← parseCid? cid
    let cid ← cid
    let ok ← (match okTok with
      | [] => some true
      | [t] => parseBool? t
      | _ => none)
    pure { id := ← parseNat? id, action := .up (← Driver.C05.parseBytes? bc) (← Driver.C05.parseBytes? ctor) cid,
           valset := vs, sigs := ← parseSigs? sigs, upOk := ok }
  | cvals :: cpows :: cvid :: sigs :: cid :: rest => do
    let vs : GoValset := { validators := ← Driver.C05.parseBytesList? cvals, powers := ← parseNatList? cpows,
                           valsetId := ← parseNat? cvid }
    let cid ← parseCid? cid
    let gm ← Driver.C05.parseMsg? rest
    let a ← toAction? gm cid
    pure { id := gm.id, action := a, valset := vs, sigs := ← parseSigs? sigs }
  | _ => none

structure State where
  s : St := {}

def init : State := {}

def showEffect (e : Effect) : String :=
  match e with
  | .snapshotLive _ v => s!"snap:{v}"
  | .deploymentRecorded _ c => s!"dep:{c}"
  | .activated _ c => s!"active:{c}"
  | .handoverScheduled _ c => s!"handover:{c}"
  | .userActive _ c => s!"user:{c}"

def sortStr (l : List String) : List String :=
  l.foldl (fun acc x =>
    let (lo, hi) := acc.partition (· ≤ x)
    lo ++ [x] ++ hi) []

def showList (l : List String) : String := if l.isEmpty then "-" else ",".intercalate l

def showDeps (c : Chain) : String :=
  showList (sortStr (c.deployments.map fun d =>
    s!"{d.1}:" ++ (match d.2 with | .inFlight => "i" | .waiting => "w")))

def resClass (r : Res) : String :=
  match r with
  | .noop | .errorHandled | .ok => "nil"
  | .unknownMsg => "unknown"
  | .txFailed => "txfailed"
  | .notVerified => "notverified"
  | .alreadyProcessed | .receiptErr | .postErr | .encodeErr => "err"

/-- the status token of a transaction proof: what the serialized receipt's FIRST FIELD is.
    `-` no serialized receipt; `1` the byte 0x01; `0` the empty string; `fx<hex>` these raw bytes (a
    32-byte state root of a receipt without status code, or anything else).  Status and post-state are
    decoded from the field by the model (`TxProof.ofReceiptField` / `receiptStatusOf`), never supplied. -/
def parseReceiptField? (st : String) : Option (Option Bytes) :=
  if st == "-" then some none
  else if st == "1" then some (some [1])
  else if st == "0" then some (some [])
  else match st.toList with
    | 'f' :: r => (Driver.C05.parseBytes? (String.ofList r)).map some
    | _ => none

def mkProof? (h st data log var enc snd : String) : Option TxProof := do
  let snd ← (if snd == "-" then some none else (parseNat? snd).map some)
  pure (TxProof.ofReceiptField (← parseNat? h) (← Driver.C05.parseBytes? data) (← parseReceiptField? st)
          (← parseBool? log) (← parseNat? var) (← parseNat? enc) snd)

def parseWinner? (args : List String) : Option Winner :=
  match args with
  | ["none"] => some .none
  | ["err"] => some .errorProof
  | ["other"] => some .other
  | ["tx", h, st, data, log] => do pure (.tx (← mkProof? h st data log "0" "0" "-"))
  | _ => none

def parseEvidence? (s : String) : Option EvidenceV :=
  match s.splitOn ";" with
  | [a, "tx", h, st, data, log, var] => do pure (← parseNat? a, .tx (← mkProof? h st data log var "0" "-"))
  | [a, "tx", h, st, data, log, var, enc] => do pure (← parseNat? a, .tx (← mkProof? h st data log var enc "-"))
  | [a, "tx", h, st, data, log, var, enc, snd] => do pure (← parseNat? a, .tx (← mkProof? h st data log var enc snd))
  | [a, "err", n] => do pure (← parseNat? a, .errorProof (← parseNat? n))
  | [a, "other", n] => do pure (← parseNat? a, .other (← parseNat? n))
  | _ => none

/-- distinct transaction hashes of the evidence, in order of first appearance -/
def txHashes (evs : List EvidenceV) : List Nat :=
  evs.foldl (fun acc e => match e.2 with
    | .tx p => if acc.contains p.hash then acc else acc ++ [p.hash]
    | _ => acc) []

def showOutcome (old s' : St) (r : Res) (proc : String) : String :=
  -- `deploymentRecorded` is visible in `deps=` (or superseded by `active:`), not printed
  let isRec := fun (e : Effect) => match e with | .deploymentRecorded _ _ => true | _ => false
  let fx := ((s'.effects.take (s'.effects.length - old.effects.length)).filter (fun e => !isRec e)).map showEffect
  s!"{resClass r} q={showNatList (sortNat (s'.queue.map (·.id)))} proc={proc} " ++
    s!"fx={showList (sortStr fx)} active={s'.chain.activeContract} deps={showDeps s'.chain} " ++
    s!"live={showNatList (sortNat s'.chain.liveOn)} uact={showNatList (sortNat s'.chain.userActive)}"

def step (d : State) (args : List String) : State × String :=
  match args with
  | ["reset"] => (init, "ok")
  | ["chain", deps, act, live, snaps, cur, ud, ho, ua] =>
    match (splitList deps).mapM parseDep?, parseNat? act, parseNatList? live, parseNatList? snaps, parseNat? cur,
          parseNatList? ud, parseBool? ho, parseNatList? ua with
    | some deps, some act, some live, some snaps, some cur, some ud, some ho, some ua =>
      let c : Chain := { deployments := deps, activeContract := act, liveOn := live, snapshots := snaps,
                         currentSnapshot := cur, userDeployments := ud, userActive := ua, handoverOk := ho,
                         abi := d.s.chain.abi }
      ({ d with s := { d.s with chain := c } }, "ok")
    | _, _, _, _, _, _, _, _ => (d, "bad-op")
  | ["compass", ps, uv, slc, usc, ch] =>
    match parseBool? ps, parseBool? uv, parseBool? slc, parseBool? usc, parseBool? ch with
    | some ps, some uv, some slc, some usc, some ch =>
      let a : CompassAbi := { parses := ps, uv := uv, slc := slc, usc := usc, ch := ch }
      ({ d with s := { d.s with chain := { d.s.chain with abi := a } } }, "ok")
    | _, _, _, _, _ => (d, "bad-op")
  | "msg" :: rest =>
    match parseQMsg? rest with
    | some m =>
      let q := if hasId d.s.queue m.id then d.s.queue.map (fun x => if x.id == m.id then m else x)
               else d.s.queue ++ [m]
      ({ d with s := { d.s with queue := q, nextId := max d.s.nextId m.id } }, "ok")
    | none => (d, "bad-op")
  | ["rm", id] =>
    match parseNat? id with
    | some id => ({ d with s := Paloma.Attest.step d.s (.remove id) }, "ok")
    | none => (d, "bad-op")
  | ["gov", g] =>
    match (match g with
      | "addother" => some Gov.addOther
      | "rmother" => some Gov.removeOther
      | "rmself" => some Gov.removeThis
      | "addself" => some Gov.addThis
      | _ => none) with
    | some g => ({ d with s := Paloma.Attest.stepE d.s (.gov g) }, "ok")
    | none => (d, "bad-op")
  | ["used", hs] =>
    match parseNatList? hs with
    | some hs => (d, showList (hs.map fun h => if d.s.processed.contains h then "1" else "0"))
    | none => (d, "bad-op")
  | "attestev" :: id :: shares :: total :: evs =>
    match parseNat? id, parsePairList? shares, parseNat? total, evs.mapM parseEvidence? with
    | some id, some shares, some total, some evs =>
      let (s', r) := attestEv d.s id { vals := shares, total := total } evs
      let hs := txHashes evs
      let proc := if hs.isEmpty then "-" else
        ",".intercalate (hs.map fun h => if s'.processed.contains h then "1" else "0")
      ({ d with s := s' }, showOutcome d.s s' r proc)
    | _, _, _, _ => (d, "bad-op")
  | "attest" :: id :: w =>
    match parseNat? id, parseWinner? w with
    | some id, some w =>
      let (s', r) := attest d.s id w
      let proc := match w with
        | .tx p => if s'.processed.contains p.hash then "1" else "0"
        | _ => "-"
      let out := showOutcome d.s s' r proc
      ({ d with s := s' }, out)
    | _, _ => (d, "bad-op")
  | _ => (d, "bad-op")

end Driver.C07
