import PalomaModel.Model.ClaimHash
import PalomaModel.Model.Sha256
import PalomaModel.Gen.Claims
import Driver.Util
namespace Driver.C11
open Paloma.ClaimHash Paloma.Gen.Claims

def hexVal (c : Char) : Option Nat :=
  if '0' ≤ c && c ≤ '9' then some (c.toNat - 48)
  else if 'a' ≤ c && c ≤ 'f' then some (c.toNat - 87)
  else if 'A' ≤ c && c ≤ 'F' then some (c.toNat - 55)
  else none

def parseHex? (s : String) : Option (List Nat) :=
  let rec go : List Char → Option (List Nat)
    | [] => some []
    | [_] => none
    | a :: b :: rest => do
      let x ← hexVal a
      let y ← hexVal b
      let r ← go rest
      pure ((16 * x + y) :: r)
  go s.toList

/-- a field value as the harness writes it: `n<dec>` uint64, `i<dec>` / `i-<dec>` / `inil` Int, `x<hex>` string -/
def parseField? (verb : String) (v : String) : Option Field :=
  match v.toList with
  | 'n' :: rest => if verb == "%d" then (String.ofList rest).toNat?.map Field.num else none
  | 'i' :: rest =>
    if verb != "%s" then none
    else if String.ofList rest == "nil" then some .nilAmt else (String.ofList rest).toInt?.map Field.amt
  | 'x' :: rest => if verb == "%x" then (parseHex? (String.ofList rest)).map Field.str else none
  | _ => none

def argField (a : String) : String := if a == "Amount.String()" then "Amount" else a

/-- `hash <ClaimType> Field=value,…` → hex of sha256 of the pre-image built from the GENERATED
    format (verbs/args of the claim type's `ClaimHash` in the current source). -/
def step (args : List String) : String :=
  match args with
  | ["hash", ty, kvs] =>
    match claims.find? (fun c => c.name == ty) with
    | none => "unknown-claim-type"
    | some c =>
      if c.format == "opaque" || c.verbs.length != c.args.length || c.seps.any (fun s => s != "" && s != "/") then "unsupported-format"
      else
        let kv := (splitList kvs).filterMap fun s => match s.splitOn "=" with
          | [k, v] => some (k, v)
          | _ => none
        let fields := (c.args.zip c.verbs).mapM fun (a, verb) =>
          match kv.find? (fun p => p.1 == argField a) with
          | some (_, v) => parseField? verb v
          | none => none
        match fields with
        | none => "bad-op"
        | some fs =>
          -- the field list must be an instance of the claim type's shape (the kinds of the generated verbs):
          -- the shape `Props/C11.lean` (`Claim.wellTyped`, `same_key_same_claim`) speaks about
          match shapeOfVerbs c.verbs with
          | none => "unsupported-format"
          | some ks =>
            if !hasShape ks fs then "bad-op" else
            let pre := preimage fs
            Paloma.Sha256.toHex (Paloma.Sha256.sha256 (pre.map UInt8.ofNat))
  | _ => "bad-op"

/-- keeper-level consistency ops: the model's prediction is that every attestation key is the hash of
    its own stored claim and votes are pooled only for identical claims (Props/C11.lean). -/
def stepKeeper (args : List String) : String :=
  match args with
  | ["nonce", _, _] => "consistent"
  | _ => "bad-op"

end Driver.C11
