import PalomaModel.Model.ClaimHash
import PalomaModel.Model.Sha256
import PalomaModel.Gen.Claims
import Driver.Util
namespace Driver.C11
open Paloma.ClaimHash Paloma.Gen.Claims

def hexVal (c : Char) : Option Nat :=
  if '0' ≤ c && c ≤ '9' then some (c.toNat - 48)
  else if 'a' ≤ c && c ≤ 'f' then some (c.toNat - 87)
  else if 'A' ≤ c && c ≤ 'F' then some (c.toNat - 55)
  else none

def parseHex? (s : String) : Option (List Nat) :=
  let rec go : List Char → Option (List Nat)
    | [] => some []
    | [_] => none
    | a :: b :: rest => do
      let x ← hexVal a
      let y ← hexVal b
      let r ← go rest
      pure ((16 * x + y) :: r)
  go s.toList

/-- a field value as the harness writes it: `n<dec>` uint64, `i<dec>` / `i-<dec>` / `inil` Int, `x<hex>` string -/
def parseField? (verb : String) (v : String) : Option Field :=
  match v.toList with
  | 'n' :: rest => if verb == "%d" then (String.ofList rest).toNat?.map Field.num else none
  | 'i' :: rest =>
    if verb != "%s" then none
    else if String.ofList rest == "nil" then some .nilAmt else (String.ofList rest).toInt?.map Field.amt
  | 'x' :: rest => if verb == "%x" then (parseHex? (String.ofList rest)).map Field.str else none
  | _ => none

def argField (a : String) : String := if a == "Amount.String()" then "Amount" else a

/-- the hashed fields of a claim written as `Field=value,…`, read against the GENERATED format (verbs/args of the
claim type's `ClaimHash` in the current source); `Except.error` carries the driver's answer -/
def claimFields (ty kvs : String) : Except String (List Field) :=
  match claims.find? (fun c => c.name == ty) with
  | none => .error "unknown-claim-type"
  | some c =>
    if c.format == "opaque" || c.verbs.length != c.args.length || c.seps.any (fun s => s != "" && s != "/") then .error "unsupported-format"
    else
      let kv := (splitList kvs).filterMap fun s => match s.splitOn "=" with
        | [k, v] => some (k, v)
        | _ => none
      let fields := (c.args.zip c.verbs).mapM fun (a, verb) =>
        match kv.find? (fun p => p.1 == argField a) with
        | some (_, v) => parseField? verb v
        | none => none
      match fields with
      | none => .error "bad-op"
      | some fs =>
        -- the field list must be an instance of the claim type's shape (the kinds of the generated verbs):
        -- the shape `Props/C11.lean` (`Claim.wellTyped`, `same_key_same_claim`) speaks about
        match shapeOfVerbs c.verbs with
        | none => .error "unsupported-format"
        | some ks => if !hasShape ks fs then .error "bad-op" else .ok fs

def sha (pre : List Nat) : List Nat := (Paloma.Sha256.sha256 (pre.map UInt8.ofNat)).map (·.toNat)

def hexOfBytes (l : List Nat) : String := Paloma.Sha256.toHex (l.map UInt8.ofNat)

/-- `hash <ClaimType> Field=value,…` → hex of sha256 of the pre-image built from the GENERATED
    format (verbs/args of the claim type's `ClaimHash` in the current source). -/
def step (args : List String) : String :=
  match args with
  | ["hash", ty, kvs] =>
    match claimFields ty kvs with
    | .error e => e
    | .ok fs => Paloma.Sha256.toHex (Paloma.Sha256.sha256 ((preimage fs).map UInt8.ofNat))
  | _ => "bad-op"

/-- one submission of a history: `<validator>|<ClaimType>|x<chain id, hex>|Field=value,…` -/
def parseVote? (s : String) : Option KVote :=
  match s.splitOn "|" with
  | [v, ty, ch, kvs] =>
    match v.toNat?, ch.toList, claimFields ty kvs with
    | some val, 'x' :: rest, .ok fs => (parseHex? (String.ofList rest)).map fun chain => ⟨val, chain, ty, fs⟩
    | _, _, _ => none
  | _ => none

def showRes : KRes → String
  | .rejected => "rej"
  | .ok true n => s!"new:{n}"
  | .ok false n => s!"join:{n}"

/-- keeper-level ops.
* `nonce …`: the prediction is that every attestation key is the hash of its own stored claim and votes are
  pooled only for identical claims (Props/C11.lean).
* `key x<chain> n<nonce> x<hash>`: the key of the attestation in the module's flat store (`flatKey`), hex.
* `hist <vote> <vote> …`: a whole history of claim submissions run through the model of `Attest` from the empty
  store, with SHA-256 as the hash; one result per submission: `rej`, `new:1` (a new attestation whose body is the
  submitted claim), `join:<n>` (pooled into the existing attestation, which now has n votes). -/
def stepKeeper (args : List String) : String :=
  match args with
  | ["nonce", _, _] => "consistent"
  | ["key", ch, n, h] =>
    match ch.toList, n.toList, h.toList with
    | 'x' :: c, 'n' :: nn, 'x' :: hh =>
      match parseHex? (String.ofList c), (String.ofList nn).toNat?, parseHex? (String.ofList hh) with
      | some chain, some nonce, some hash =>
        if nonce ≥ 18446744073709551616 then "bad-op" else hexOfBytes (flatKey chain nonce hash)
      | _, _, _ => "bad-op"
    | _, _, _ => "bad-op"
  | "hist" :: votes =>
    match votes.mapM parseVote? with
    | none => "bad-op"
    | some vs => ",".intercalate ((runVotes sha KState.init vs).2.map showRes)
  | _ => "bad-op"

end Driver.C11
