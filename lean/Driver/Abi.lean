import PalomaModel.Model.Abi
import Driver.Util
namespace Driver.Abi
open Paloma.Abi

/-! Textual syntax (no whitespace).

Types:   `u` uint256 · `a` address · `h` bytes32 · `y` bytes · `[T]` slice of `T` ·
         `(T,…,T)` tuple · `()` empty tuple
Values:  `w<decimal>` word (uint256, address, bytes32 as big-endian number) ·
         `x<hex>` bytes (`x` alone = empty) · `(v,…,v)` array or tuple · `()` empty -/

mutual
def parseTy : Nat → List Char → Option (Ty × List Char)
  | 0, _ => none
  | _ + 1, 'u' :: r => some (.uint256, r)
  | _ + 1, 'a' :: r => some (.address, r)
  | _ + 1, 'h' :: r => some (.bytes32, r)
  | _ + 1, 'y' :: r => some (.bytes, r)
  | f + 1, '[' :: r =>
    match parseTy f r with
    | some (t, ']' :: r') => some (.array t, r')
    | _ => none
  | _ + 1, '(' :: ')' :: r => some (.tuple [], r)
  | f + 1, '(' :: r =>
    match parseTys f r with
    | some (ts, r') => some (.tuple ts, r')
    | none => none
  | _, _ => none
/-- `T (',' T)* ')'` -/
def parseTys : Nat → List Char → Option (List Ty × List Char)
  | 0, _ => none
  | f + 1, cs =>
    match parseTy f cs with
    | some (t, ',' :: r) =>
      match parseTys f r with
      | some (ts, r') => some (t :: ts, r')
      | none => none
    | some (t, ')' :: r) => some ([t], r)
    | _ => none
end

def hexVal (c : Char) : Option Nat :=
  if '0' ≤ c ∧ c ≤ '9' then some (c.toNat - 48)
  else if 'a' ≤ c ∧ c ≤ 'f' then some (c.toNat - 87)
  else none

/-- leading pairs of hex digits -/
def parseHex : List Char → List UInt8 → List UInt8 × List Char
  | c :: d :: r, acc =>
    match hexVal c, hexVal d with
    | some hi, some lo => parseHex r (UInt8.ofNat (hi * 16 + lo) :: acc)
    | _, _ => (acc.reverse, c :: d :: r)
  | r, acc => (acc.reverse, r)

def parseDec : List Char → Nat → Nat × List Char
  | c :: r, acc => if c.isDigit then parseDec r (acc * 10 + (c.toNat - 48)) else (acc, c :: r)
  | [], acc => (acc, [])

mutual
def parseV : Nat → List Char → Option (V × List Char)
  | 0, _ => none
  | _ + 1, 'w' :: c :: r =>
    if c.isDigit then
      let (n, r') := parseDec (c :: r) 0
      some (.word n, r')
    else none
  | _ + 1, 'x' :: r =>
    let (b, r') := parseHex r []
    some (.bytes b, r')
  | _ + 1, '(' :: ')' :: r => some (.seq [], r)
  | f + 1, '(' :: r =>
    match parseVs f r with
    | some (vs, r') => some (.seq vs, r')
    | none => none
  | _, _ => none
def parseVs : Nat → List Char → Option (List V × List Char)
  | 0, _ => none
  | f + 1, cs =>
    match parseV f cs with
    | some (v, ',' :: r) =>
      match parseVs f r with
      | some (vs, r') => some (v :: vs, r')
      | none => none
    | some (v, ')' :: r) => some ([v], r)
    | _ => none
end

def parseTy? (s : String) : Option Ty :=
  let cs := s.toList
  match parseTy (cs.length + 1) cs with
  | some (t, []) => some t
  | _ => none

def parseV? (s : String) : Option V :=
  let cs := s.toList
  match parseV (cs.length + 1) cs with
  | some (v, []) => some v
  | _ => none

/-- ops:
  `enc <type> <value>` → hex of `encode type value` (for `Arguments.Pack` the type is the
                          tuple of the argument types and the value the tuple of the
                          arguments, i.e. `encodeArgs`); `ill-typed` if `hasType` fails
  `dyn <type>`          → `dynamic <headSize>` | `static <headSize>` -/
def step (args : List String) : String :=
  match args with
  | ["enc", t, v] =>
    match parseTy? t, parseV? v with
    | some t, some v => if hasType t v then toHex (encode t v) else "ill-typed"
    | _, _ => "bad-op"
  | ["dyn", t] =>
    match parseTy? t with
    | some t => (if isDynamic t then "dynamic " else "static ") ++ toString (headSize t)
    | none => "bad-op"
  | _ => "bad-op"

end Driver.Abi
