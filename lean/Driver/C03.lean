import Driver.Util
import PalomaModel.Model.Auth

/-!
Driver for C03 (stateless).  One op per line:

  tx <type> <scenario> <txSigners> <metaSigners> <creator> <authorityField|-> <grants> <victim> <redirected|-> <h> <chg>

* `type`         "<module>.<RPC>"
* `scenario`     label; `gov*` = delivered through the message router as an executed governance
                 proposal (no ante chain), anything else = a signed transaction
* `txSigners`    principals that signed the transaction (comma separated ids)
* `metaSigners`  `metadata.signers`
* `creator`      `metadata.creator`
* `authorityField` value of the message's `Authority` field, `-` if it has none
* `grants`       fee grants in force, `granter:grantee` pairs
* `victim`       the principal whose attributed state was watched
* `redirected`   names of the identity fields that were pointed at the victim
* `h`            `ok` / `rej`: what the implementation answered (echoed where the model has no
                 opinion); `pre`: the message fails its stateless ValidateBasic (or cannot be
                 encoded), which baseapp checks before the ante chain runs
* `chg`          0: state attributed to the victim unchanged; 1: only new records mentioning it
                 appeared; 2: something of the victim's was altered or removed

A transaction with several messages (always a signed transaction):

  mtx <scenario> <txSigners> <grants> <victim> <h> <chg> <msg> <msg> [<msg> …]

with `<msg>` = `<type>;<metaSigners>;<creator>;<authorityField|->`.  The decorator's check is applied
to every message on its own (`anteOkTx`); the transaction is atomic.

Answer: `ante=<pass|rej> res=<ok|rej> verdict=<fine|violation>`; governance authority = 99.

Directed multi-step histories; the driver is stateless between lines, so ONE line carries a whole
history which the model replays from the empty state:

  dnh <namesake> <foreign> <step> <step> …
      with <step> = <kind>;<route>;<signer>;<creator>;<grant 0|1>;<arg>;<denom 1|2>

two token-factory denoms: 1 named after `namesake`, 2 named after `foreign`; `denom` = the denom the
step's message names (its `denom` field); `kind` = create | chadmin | mint | burn | setmeta | bind
(mint / burn / bind: admin-gated writes); `route` = t (signed transaction) | w (wasm binding: the
contract is signer and creator); `grant` = the creator has granted the signer a fee allowance;
`arg`: chadmin: the new admin (0 = renounce); setmeta: the denom spelled in `metadata.base` (0 = "",
1 | 2, 9 = a string that is neither; by transaction `base` IS the denom); create: `-`, or through
the binding `m<base>` = `create_denom` carrying metadata with that base; otherwise `-`.
`reimport;-;0;0;0;-;0` = the chain is exported and started again from the export (token factory).
Answer per step, comma separated: `<ok|rej>:<admin of 1>/<meta of 1>:<admin of 2>/<meta of 2>` after
the step (admin 0 = none; meta `-` no record, `d` the default bank record, `c` a custom one)
(`dDeliver` / `dAccepted` / `dReimport`).

  cbh <validator:key,…> <step> <step> …   with <step> = <signer>;<creator>;<grant>;<orchestrator>;<ethSigner>;<sigKey>;<target b|n>;<item b|o|w>;<form 0|27>

confirmation attempts on one fresh batch: `validator:key` = the key each validator registered (0 =
none / unbonded); `ethSigner` / `sigKey` = key ids (the key named / the key that made the signature,
0 = nobody's); `target` n = a batch that does not exist; `item` = what was signed (b = exactly the
batch's checkpoint, o = another batch's, w = same batch under another compass id); `form` = v byte
offset of the signature (both accepted).  Answer: `<ok|rej>,…|<orchestrator>/<key>,…` = result per
attempt and the final confirmation set (`cDeliver` / `cAccepted`).

  lnh <feegranter> <account,…|-> <step> <step> …   with <step> = <kind>;<signer>;<creator>;<grant 0|1>;<arg>

light-node licences and client records; step number i (from 1) is the block time of step i;
`account,…` = the principals that have an account from the start.  `kind` = sale (attested sale for
`arg`: licence + allowance of the feegranter; signer = creator = 0) | lgrant (the feegranter grants
`arg` an allowance: a legacy node; signer = creator = feegranter) | lic (MsgAddLightNodeClientLicense
for `arg`) | reg | auth | legacy (MsgSetLegacyLightNodeClients) — the last four are transactions
signed by `signer` in `creator`'s name, `grant` = the creator has granted the signer an allowance
(`arg` = 0 where unused); `reimport;0;0;0;0` = the chain is exported and started again from the
export (paloma module; `lReimport`).  Answer: `<ok|rej>,…|<principal>:<activated>/<lastAuth>/<licence 0|1>,…`
= result per step and, for every light-node principal named in the line (ids from 31, ascending;
lower ids are accounts that exist before the history), its client record (`-` = none) and whether
a licence is pending (`lDeliver` / `lAccepted` / `lStep`).

  xdh <route w|t> <actor> <grants> <dispatch> <dispatch> …
      with <dispatch> = <outer>/<h>/<victim>/<chg>/<leaf>+<leaf>+…  and <leaf> = <type>;<creator>;<extra>

a sequence of contract dispatches through ONE router value (route `w`: `actor` is the contract) or of
transactions signed by `actor` (route `t`), each carrying ONE top-level message: `outer` = 0: the single
leaf itself; `outer` = k > 0: an `authz.MsgExec` (grantee = actor) holding ALL the leaves in the given order,
wrapped k-1 more times; every leaf is a paloma message with `metadata.creator` = `creator`, declared signer =
actor, itself wrapped in `extra` more `MsgExec` layers.  `h` / `chg` / `victim` as for `tx` (what the
implementation answered; change of the watched principal's state).  Answer per dispatch, comma separated:
`gate=<pass|rej>:res=<ok|rej>:<fine|violation>` (`wasmDispatchTopBounded` / `anteOkTopBounded`; the gate of a
dispatch never depends on the dispatches before it: `wasmRouterRun`).
-/
namespace Driver.C03
open Paloma.Auth

def authority : Nat := 99

def grantsFn (l : List (Nat × Nat)) : Nat → Nat → Bool := fun g e => l.contains (g, e)

structure PMsg where
  typ : String
  metaSigners : List Nat
  creator : Nat
  authf : Option Nat

def parseMsg? (tok : String) : Option PMsg :=
  match tok.splitOn ";" with
  | [typ, ms, cr, af] => do
    let metaSigners ← parseNatList? ms
    let creator ← parseNat? cr
    let authf ← if af == "-" then some none else (parseNat? af).map some
    pure { typ, metaSigners, creator, authf }
  | _ => none

/-- the model's gate of the governance handlers (`Paloma.Auth.authorityOkOf`), authority = 99 -/
def authorityOkOf (typ : String) (creator : Nat) (authf : Option Nat) : Bool :=
  Paloma.Auth.authorityOkOf authority typ creator authf

/-- a parsed message as a message of the model (identity fields other than `Authority` are not
    part of the op line: the verdict gets the redirected ones by name) -/
def toMsg (p : PMsg) : Msg :=
  { typ := p.typ, signers := p.metaSigners, creator := p.creator,
    field := fun f => if f == "Authority" then p.authf else none }

def stepMulti (sc txs gs vi h chg : String) (toks : List String) : String :=
  let _ := sc
  match parseNatList? txs, parsePairList? gs, parseNat? vi, toks.mapM parseMsg? with
  | some txSigners, some grantList, some victim, some pmsgs =>
    if pmsgs.isEmpty || (h != "ok" && h != "rej" && h != "pre") || (chg != "0" && chg != "1" && chg != "2") then "bad-op" else
    let grants := grantsFn grantList
    let msgs : List Msg := pmsgs.map toMsg
    -- the model's transaction-level checks: `sigCheckTx` over `declared`, then `anteOkTx`
    let ante := h != "pre" && sigCheckTx txSigners (msgs.map declared) && anteOkTx msgs grants
    let handlersMayAccept := pmsgs.all fun p =>
      match ruleOf p.typ with
      | none => false
      | some .authorityOnly => authorityOkOf p.typ p.creator p.authf
      | some _ => true
    let res := ante && handlersMayAccept && h == "ok"
    let may := pmsgs.any fun p =>
      mayTouch authority p.typ p.metaSigners p.creator grants victim [] (chg == "2")
      || (ruleOf p.typ == some .authorityOnly && authorityOkOf p.typ p.creator p.authf)
    let verdict :=
      if chg == "0" then "fine"
      else if !res then "violation"
      else if may then "fine" else "violation"
    s!"ante={if ante then "pass" else "rej"} res={if res then "ok" else "rej"} verdict={verdict}"
  | _, _, _, _ => "bad-op"


/-! ### `dnh`: two denoms, handed around -/

structure DStepTok where
  /-- `none`: a chain export / import -/
  act : Option DAct
  signer : Nat
  creator : Nat
  grant : Bool
  denom : Nat

def parseDStep? (tok : String) : Option DStepTok :=
  match tok.splitOn ";" with
  | [kind, route, sg, cr, g, na, dn] => do
    let signer ← parseNat? sg
    let creator ← parseNat? cr
    let grant ← if g == "0" then some false else if g == "1" then some true else none
    let denom ← parseNat? dn
    if kind == "reimport" then
      if route == "-" && na == "-" && denom == 0 && signer == 0 && creator == 0 && !grant then
        pure { act := none, signer, creator, grant, denom }
      else none
    else
    if denom == 1 || denom == 2 then pure () else none
    let baseOf : String → Option (Option Nat) := fun b =>
      (parseNat? b).bind fun n => if n == 0 then some none else if n == 1 || n == 2 || n == 9 then some (some n) else none
    let act ← match kind with
      | "create" =>
        if na == "-" then some DAct.create
        -- only the wasm binding `create_denom` can carry metadata
        else if route == "w" && na.startsWith "m" then (baseOf (na.drop 1).toString).map DAct.createMeta
        else none
      | "chadmin" => (parseNat? na).map fun n => DAct.changeAdmin (if n == 0 then none else some n)
      | "mint" | "burn" | "bind" => if na == "-" then some DAct.write else none
      | "setmeta" =>
        -- `MsgSetDenomMetadata` has one denom field only: `metadata.base`
        if route == "t" then (if parseNat? na == some denom then some (DAct.setMeta (some denom)) else none)
        else (baseOf na).map DAct.setMeta
      | _ => none
    -- through the wasm bindings the contract is signer and creator, and holds no grant
    if route == "w" then (if signer == creator && !grant then pure () else none)
    else if route == "t" then pure () else none
    pure { act := some act, signer, creator, grant, denom }
  | _ => none

def showDenom (s : DState) (d : Nat) : String :=
  let adm := match s.den d with
    | some (some a) => a
    | _ => 0
  let m := if s.dmeta d > 0 then "c" else if (s.den d).isSome then "d" else "-"
  s!"{adm}/{m}"

def stepDenomHistory (namesake foreign : String) (toks : List String) : String :=
  match parseNat? namesake, parseNat? foreign, toks.mapM parseDStep? with
  | some c, some f, some steps =>
    if steps.isEmpty then "bad-op" else
    -- denom 1 is named after `c`, denom 2 after `f`; 9 stands for a string that is neither
    let namer : Nat → Addr := fun d => if d == 2 then f else if d == 1 then c else 0
    let (_, outs) := steps.foldl (fun (acc : DState × List String) st =>
      match st.act with
      | none =>
        let s' := dStep namer acc.1 .reimport
        (s', acc.2 ++ [s!"ok:{showDenom s' 1}:{showDenom s' 2}"])
      | some act =>
        let s : DState := { acc.1 with grants := fun g e => st.grant && g == st.creator && e == st.signer }
        let m : DMsg := { signers := [st.signer], creator := st.creator, denom := st.denom, act := act }
        let ok := dAccepted namer s m
        let s' := dDeliver namer s m
        (s', acc.2 ++ [s!"{if ok then "ok" else "rej"}:{showDenom s' 1}:{showDenom s' 2}"])) (dInit, [])
    ",".intercalate outs
  | _, _, _ => "bad-op"

/-! ### `cbh`: confirmation attempts on one batch -/

def parseCStep? (tok : String) : Option (CAttempt × Bool) :=
  match tok.splitOn ";" with
  | [sg, cr, g, o, e, k, tgt, item, form] => do
    let signer ← parseNat? sg
    let creator ← parseNat? cr
    let grant ← if g == "0" then some false else if g == "1" then some true else none
    let orch ← parseNat? o
    let ethSigner ← parseNat? e
    let sigKey ← parseNat? k
    let batchExists ← if tgt == "b" then some true else if tgt == "n" then some false else none
    let sigItem ← if item == "b" then some 1 else if item == "o" then some 2 else if item == "w" then some 3 else none
    if form == "0" || form == "27" then pure () else none
    pure ({ signers := [signer], creator, batchExists, batch := 1, orch, ethSigner, sigKey, sigItem }, grant)
  | _ => none

/-- insertion sort of (orchestrator, key) pairs -/
def sortPairs (l : List (Nat × Nat)) : List (Nat × Nat) :=
  l.foldl (fun acc x =>
    let lo := acc.filter (fun y => y.1 < x.1 || (y.1 == x.1 && y.2 ≤ x.2))
    let hi := acc.filter (fun y => !(y.1 < x.1 || (y.1 == x.1 && y.2 ≤ x.2)))
    lo ++ [x] ++ hi) []

def stepConfirmHistory (keys : String) (toks : List String) : String :=
  match parsePairList? keys, toks.mapM parseCStep? with
  | some keyList, some steps =>
    if steps.isEmpty then "bad-op" else
    -- the address string each validator registered: the canonical spelling `4 * key` of its key
    let keys : Addr → Option Nat := fun v =>
      match keyList.find? (·.1 == v) with
      | some p => if p.2 == 0 then none else some (4 * p.2)
      | none => none
    let (fin, outs) := steps.foldl (fun (acc : CState × List String) st =>
      let a := st.1
      let s : CState := { acc.1 with grants := fun g e => st.2 && g == a.creator && a.signers.contains e }
      let ok := cAccepted s a
      (cDeliver s a, acc.2 ++ [if ok then "ok" else "rej"])) ({ confirms := [], grants := fun _ _ => false, keys := keys }, [])
    let set := sortPairs (fin.confirms.map fun c => (c.orch, c.key))
    let setS := if set.isEmpty then "-" else ",".intercalate (set.map fun p => s!"{p.1}/{p.2}")
    ",".intercalate outs ++ "|" ++ setS
  | _, _ => "bad-op"


/-! ### `lnh`: light-node licences and client records -/

structure LStepTok where
  kind : String
  signer : Nat
  creator : Nat
  grant : Bool
  arg : Nat

def parseLStep? (tok : String) : Option LStepTok :=
  match tok.splitOn ";" with
  | [kind, sg, cr, g, a] => do
    let signer ← parseNat? sg
    let creator ← parseNat? cr
    let grant ← if g == "0" then some false else if g == "1" then some true else none
    let arg ← parseNat? a
    if ["sale", "lgrant", "lic", "reg", "auth", "legacy"].contains kind then pure ()
    else if kind == "reimport" && signer == 0 && creator == 0 && !grant && arg == 0 then pure () else none
    pure { kind, signer, creator, grant, arg }
  | _ => none

/-- insertion sort, duplicates removed -/
def sortNats (l : List Nat) : List Nat :=
  l.foldl (fun acc x =>
    if acc.contains x then acc else acc.filter (· < x) ++ [x] ++ acc.filter (fun y => !(y < x))) []

def stepLightHistory (fg accs : String) (toks : List String) : String :=
  match parseNat? fg, parseNatList? accs, toks.mapM parseLStep? with
  | some F, some accounts, some steps =>
    if steps.isEmpty then "bad-op" else
    let (fin, outs, _) := steps.foldl (fun (acc : LState × List String × Nat) st =>
      let now := acc.2.2
      let s0 := acc.1
      if st.kind == "sale" then
        let s' := lStep F s0 (.sale st.arg)
        (s', acc.2.1 ++ [if s'.licence st.arg && !s0.licence st.arg then "ok" else "rej"], now + 1)
      else if st.kind == "lgrant" then
        (lStep F s0 (.grant F st.arg), acc.2.1 ++ ["ok"], now + 1)
      else if st.kind == "reimport" then
        (lReimport s0, acc.2.1 ++ ["ok"], now + 1)
      else
        let act : LAct := if st.kind == "lic" then .addLicence st.arg else if st.kind == "reg" then .register
          else if st.kind == "auth" then .auth else .setLegacy
        let m : LMsg := { signers := [st.signer], creator := st.creator, act }
        -- the step's own grant is in force for this step only (granted before, revoked after)
        let s : LState := if st.grant then lStep F s0 (.grant st.creator st.signer) else s0
        let ok := lAccepted F now s m
        let s' := lDeliver F now s m
        let s'' : LState := if st.grant then lStep F s' (.revoke st.creator st.signer) else s'
        (s'', acc.2.1 ++ [if ok then "ok" else "rej"], now + 1)) (lInit accounts, [], 1)
    let ids := sortNats (steps.foldl (fun l st => l ++ [st.signer, st.creator, st.arg]) [] |>.filter (· > 30))
    let recs := ids.map fun p =>
      let r := match fin.client p with
        | some r => s!"{r.activatedAt}/{r.lastAuthAt}"
        | none => "-"
      s!"{p}:{r}/{if fin.licence p then 1 else 0}"
    ",".intercalate outs ++ "|" ++ ",".intercalate recs
  | _, _, _ => "bad-op"

/-! ### `xdh`: dispatches / transactions carrying `MsgExec` with several messages, one router value -/

structure XLeaf where
  typ : String
  creator : Nat
  extra : Nat

def parseXLeaf? (tok : String) : Option XLeaf :=
  match tok.splitOn ";" with
  | [typ, cr, j] => do
    let creator ← parseNat? cr
    let extra ← parseNat? j
    pure { typ, creator, extra }
  | _ => none

structure XDisp where
  outer : Nat
  h : String
  victim : Nat
  chg : Nat
  leaves : List XLeaf

def parseXDisp? (tok : String) : Option XDisp :=
  match tok.splitOn "/" with
  | [o, h, v, c, ls] => do
    let outer ← parseNat? o
    let victim ← parseNat? v
    let chg ← parseNat? c
    let leaves ← (ls.splitOn "+").mapM parseXLeaf?
    if (h != "ok" && h != "rej" && h != "pre") || chg > 2 || leaves.isEmpty then none
    else if outer == 0 && leaves.length != 1 then none
    else pure { outer, h, victim, chg, leaves }
  | _ => none

/-- the dispatched message as a `Top` of the model: every leaf declares the actor as its signer -/
def xTop (actor : Nat) (d : XDisp) : Top :=
  let items := d.leaves.map fun l =>
    wrapN actor (toMsg { typ := l.typ, metaSigners := [actor], creator := l.creator, authf := none }) l.extra
  match d.outer, items with
  | 0, [t] => t
  | 0, _ => .exec actor items
  | k + 1, _ => wrapTop actor (.exec actor items) k

def stepDispatchHistory (route act gs : String) (toks : List String) : String :=
  match parseNat? act, parsePairList? gs, toks.mapM parseXDisp? with
  | some actor, some grantList, some ds =>
    if ds.isEmpty || (route != "w" && route != "t") then "bad-op" else
    let grants := grantsFn grantList
    let outs := ds.map fun d =>
      let top := xTop actor d
      let known := d.leaves.all fun l => (ruleOf l.typ).isSome
      let gate := d.h != "pre" && known &&
        (if route == "w" then wasmDispatchTopBounded actor top else anteOkTopBounded [top] grants)
      let res := gate && d.h == "ok"
      -- the victim's state may change only by a message in its name that the victim authorised
      let may := d.leaves.any fun l => l.creator == d.victim &&
        (d.victim == actor || (route == "t" && grants d.victim actor))
      let verdict := if d.chg == 0 then "fine" else if !res then "violation" else if may then "fine" else "violation"
      s!"gate={if gate then "pass" else "rej"}:res={if res then "ok" else "rej"}:{verdict}"
    ",".intercalate outs
  | _, _, _ => "bad-op"

def step (args : List String) : String :=
  match args with
  | "xdh" :: route :: act :: gs :: toks => stepDispatchHistory route act gs toks
  | "lnh" :: fg :: accs :: toks => stepLightHistory fg accs toks
  | "dnh" :: namesake :: foreign :: toks => stepDenomHistory namesake foreign toks
  | "cbh" :: keys :: toks => stepConfirmHistory keys toks
  | "mtx" :: sc :: txs :: gs :: vi :: h :: chg :: toks => stepMulti sc txs gs vi h chg toks
  | ["tx", typ, sc, txs, ms, cr, af, gs, vi, red, h, chg] =>
    match parseNatList? txs, parseNatList? ms, parseNat? cr, parsePairList? gs, parseNat? vi with
    | some txSigners, some metaSigners, some creator, some grantList, some victim =>
      let authf : Option (Option Nat) := if af == "-" then some none else (parseNat? af).map some
      match authf with
      | none => "bad-op"
      | some authf =>
        if (h != "ok" && h != "rej" && h != "pre") || (chg != "0" && chg != "1" && chg != "2") then "bad-op" else
        let grants := grantsFn grantList
        let m : Msg := toMsg { typ, metaSigners, creator, authf }
        let viaGov := sc.startsWith "gov"
        -- `<scenario>@<k>`: the message is wrapped in k `MsgExec` layers (transaction or contract dispatch)
        let depth := match sc.splitOn "@" with
          | [_, d] => (parseNat? d).getD 0
          | _ => 0
        let ante := viaGov || (h != "pre" && sigCheck typ txSigners metaSigners authf && decide (depth ≤ maxNesting) && anteOk m grants)
        let authorityOk := authorityOkOf typ creator authf
        let res :=
          if !ante then false
          else match ruleOf typ with
            | none => false
            | some .authorityOnly => authorityOk && h == "ok"
            | some _ => h == "ok"
        let redirected := splitList red
        let may := mayTouch authority typ metaSigners creator grants victim redirected (chg == "2")
          || (ruleOf typ == some .authorityOnly && authorityOk)
        let verdict :=
          if chg == "0" then "fine"
          else if !res then "violation"
          else if may then "fine" else "violation"
        s!"ante={if ante then "pass" else "rej"} res={if res then "ok" else "rej"} verdict={verdict}"
    | _, _, _, _, _ => "bad-op"
  | _ => "bad-op"

end Driver.C03
