import Driver.Util
import PalomaModel.Model.Auth

/-!
Driver for C03 (stateless).  One op per line:

  tx <type> <scenario> <txSigners> <metaSigners> <creator> <authorityField|-> <grants> <victim> <redirected|-> <h> <chg>

* `type`         "<module>.<RPC>"
* `scenario`     label; `gov*` = delivered through the message router as an executed governance
                 proposal (no ante chain), anything else = a signed transaction
* `txSigners`    principals that signed the transaction (comma separated ids)
* `metaSigners`  `metadata.signers`
* `creator`      `metadata.creator`
* `authorityField` value of the message's `Authority` field, `-` if it has none
* `grants`       fee grants in force, `granter:grantee` pairs
* `victim`       the principal whose attributed state was watched
* `redirected`   names of the identity fields that were pointed at the victim
* `h`            `ok` / `rej`: what the implementation answered (echoed where the model has no
                 opinion); `pre`: the message fails its stateless ValidateBasic (or cannot be
                 encoded), which baseapp checks before the ante chain runs
* `chg`          0: state attributed to the victim unchanged; 1: only new records mentioning it
                 appeared; 2: something of the victim's was altered or removed

A transaction with several messages (always a signed transaction):

  mtx <scenario> <txSigners> <grants> <victim> <h> <chg> <msg> <msg> [<msg> …]

with `<msg>` = `<type>;<metaSigners>;<creator>;<authorityField|->`.  The decorator's check is applied
to every message on its own (`anteOkTx`); the transaction is atomic.

Answer: `ante=<pass|rej> res=<ok|rej> verdict=<fine|violation>`; governance authority = 99.
-/
namespace Driver.C03
open Paloma.Auth

def authority : Nat := 99

/-- authority-only handlers that compare only the `Authority` field (not the metadata creator) -/
def authorityIgnoresCreator : List String := ["paloma.UpdateParams", "skyway.UpdateParams"]

def grantsFn (l : List (Nat × Nat)) : Nat → Nat → Bool := fun g e => l.contains (g, e)

structure PMsg where
  typ : String
  metaSigners : List Nat
  creator : Nat
  authf : Option Nat

def parseMsg? (tok : String) : Option PMsg :=
  match tok.splitOn ";" with
  | [typ, ms, cr, af] => do
    let metaSigners ← parseNatList? ms
    let creator ← parseNat? cr
    let authf ← if af == "-" then some none else (parseNat? af).map some
    pure { typ, metaSigners, creator, authf }
  | _ => none

def authorityOkOf (typ : String) (creator : Nat) (authf : Option Nat) : Bool :=
  (authf == none || authf == some authority)
  && (authorityIgnoresCreator.contains typ || creator == authority)

def stepMulti (sc txs gs vi h chg : String) (toks : List String) : String :=
  let _ := sc
  match parseNatList? txs, parsePairList? gs, parseNat? vi, toks.mapM parseMsg? with
  | some txSigners, some grantList, some victim, some pmsgs =>
    if pmsgs.isEmpty || (h != "ok" && h != "rej" && h != "pre") || (chg != "0" && chg != "1" && chg != "2") then "bad-op" else
    let grants := grantsFn grantList
    let msgs : List Msg := pmsgs.map fun p =>
      { typ := p.typ, signers := p.metaSigners, creator := p.creator, idField := fun _ => victim }
    let declared := pmsgs.map fun p => declaredSigners p.typ p.metaSigners p.authf
    let ante := h != "pre" && sigCheckTx txSigners declared && anteOkTx msgs grants
    let handlersMayAccept := pmsgs.all fun p =>
      match ruleOf p.typ with
      | none => false
      | some .authorityOnly => authorityOkOf p.typ p.creator p.authf
      | some _ => true
    let res := ante && handlersMayAccept && h == "ok"
    let may := pmsgs.any fun p =>
      mayTouch authority p.typ p.metaSigners p.creator grants victim [] (chg == "2")
      || (ruleOf p.typ == some .authorityOnly && authorityOkOf p.typ p.creator p.authf)
    let verdict :=
      if chg == "0" then "fine"
      else if !res then "violation"
      else if may then "fine" else "violation"
    s!"ante={if ante then "pass" else "rej"} res={if res then "ok" else "rej"} verdict={verdict}"
  | _, _, _, _ => "bad-op"

def step (args : List String) : String :=
  match args with
  | "mtx" :: sc :: txs :: gs :: vi :: h :: chg :: toks => stepMulti sc txs gs vi h chg toks
  | ["tx", typ, sc, txs, ms, cr, af, gs, vi, red, h, chg] =>
    match parseNatList? txs, parseNatList? ms, parseNat? cr, parsePairList? gs, parseNat? vi with
    | some txSigners, some metaSigners, some creator, some grantList, some victim =>
      let authf : Option (Option Nat) := if af == "-" then some none else (parseNat? af).map some
      match authf with
      | none => "bad-op"
      | some authf =>
        if (h != "ok" && h != "rej" && h != "pre") || (chg != "0" && chg != "1" && chg != "2") then "bad-op" else
        let grants := grantsFn grantList
        let m : Msg := { typ := typ, signers := metaSigners, creator := creator, idField := fun _ => victim }
        let viaGov := sc.startsWith "gov"
        let ante := viaGov || (h != "pre" && sigCheck typ txSigners metaSigners authf && anteOk m grants)
        let authorityOk :=
          (authf == none || authf == some authority)
          && (authorityIgnoresCreator.contains typ || creator == authority)
        let res :=
          if !ante then false
          else match ruleOf typ with
            | none => false
            | some .authorityOnly => authorityOk && h == "ok"
            | some _ => h == "ok"
        let redirected := splitList red
        let may := mayTouch authority typ metaSigners creator grants victim redirected (chg == "2")
          || (ruleOf typ == some .authorityOnly && authorityOk)
        let verdict :=
          if chg == "0" then "fine"
          else if !res then "violation"
          else if may then "fine" else "violation"
        s!"ante={if ante then "pass" else "rej"} res={if res then "ok" else "rej"} verdict={verdict}"
    | _, _, _, _, _ => "bad-op"
  | _ => "bad-op"

end Driver.C03
