import PalomaModel.Model.Mempool
import Driver.Util
namespace Driver.C19
open Paloma.Mempool

/-- driver state: the model pool -/
structure State where
  pool : Pool

def init : State := ⟨Pool.empty⟩

def showTxs (l : List Tx) : String :=
  if l.isEmpty then "-" else ",".intercalate (l.map fun t => s!"{t.sender}:{t.nonce}:{t.id}")

/-- ops:
  `reset`                                         → `ok`
  `prio <ctxprio> <url,…|->`                      → `<priority>`            (`GetTxPriority`)
  `insert <sender> <nonce> <ctxprio> <id> <url,…|->` → `ok <count>`
  `remove <sender> <nonce>`                       → `ok <count>` | `notfound <count>`
  `select`                                        → `sel <sender:nonce:id,…|->` | `panic <…>`
  `count`                                         → `<count>` -/
def step (st : State) (args : List String) : State × String :=
  match args with
  | ["reset"] => (init, "ok")
  | ["prio", c, urls] =>
    match parseInt? c with
    | some c => (st, toString (txPriority (splitList urls) c))
    | none => (st, "bad-op")
  | ["insert", s, n, c, id, urls] =>
    match parseNat? n, parseInt? c, parseNat? id with
    | some n, some c, some id =>
      let p := txPriority (splitList urls) c
      let mp := st.pool.insert s n p id
      (⟨mp⟩, s!"ok {mp.count}")
    | _, _, _ => (st, "bad-op")
  | ["remove", s, n] =>
    match parseNat? n with
    | some n =>
      let r := st.pool.remove s n
      (⟨r.1⟩, (if r.2 then "ok " else "notfound ") ++ toString r.1.count)
    | none => (st, "bad-op")
  | ["select"] =>
    let r := st.pool.select
    (⟨r.1⟩, (if r.2.2 then "panic " else "sel ") ++ showTxs r.2.1)
  | ["count"] => (st, toString st.pool.count)
  | _ => (st, "bad-op")

end Driver.C19
