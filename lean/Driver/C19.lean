import PalomaModel.Model.Mempool
import Driver.Util
namespace Driver.C19
open Paloma.Mempool

/-- driver state: the model pool and the iterator in use, if any (`iopen` / `inext`) -/
structure State where
  pool : Pool
  it   : Option LiveIter := none

def init : State := ⟨Pool.empty, none⟩

def showYield : Yield → String
  | .none => "it none"
  | .nil => "it nil"
  | .panic => "it panic"
  | .tx t => s!"it {t.sender}:{t.nonce}:{t.id}"

def showTxs (l : List Tx) : String :=
  if l.isEmpty then "-" else ",".intercalate (l.map fun t => s!"{t.sender}:{t.nonce}:{t.id}")

/-- ops:
  `reset`                                         → `ok`
  `prio <ctxprio> <url,…|->`                      → `<priority>`            (`GetTxPriority`)
  `insert <sender> <nonce> <ctxprio> <id> <url,…|->` → `ok <count>`
  `remove <sender> <nonce>`                       → `ok <count>` | `notfound <count>`
  `select`                                        → `sel <sender:nonce:id,…|->` | `panic <…>`
  `seln <k>`                                      → `part <sender:nonce:id,…|-> <end|more|panic>`
                                                    (`Select`, then at most `k` × `Tx()`/`Next()`)
  `ctxprio`                                       → `<priority>`            (`TxFeeSkipper`)
  `count`                                         → `<count>`
  `iopen`                                         → `it <sender:nonce:id>` | `it nil` | `it panic`
                                                    (`Select`; the iterator stays in use)
  `inext`                                         → the same after one `Next()` of the iterator in use
                                                    (`it none` if there is none); every other op
                                                    may come between two of these -/
def step (st : State) (args : List String) : State × String :=
  match args with
  | ["reset"] => (init, "ok")
  | ["prio", c, urls] =>
    match parseInt? c with
    | some c => (st, toString (txPriority (splitList urls) c))
    | none => (st, "bad-op")
  | ["ctxprio"] => (st, toString appCtxPriority)
  | ["insert", s, n, c, id, urls] =>
    match parseNat? n, parseInt? c, parseNat? id with
    | some n, some c, some id =>
      let r := (LState.mk st.pool st.it).step (.pool (TxOp.insert s n (splitList urls) c id).toOp)
      (⟨r.1.pool, r.1.it⟩, s!"ok {r.1.pool.count}")
    | _, _, _ => (st, "bad-op")
  | ["remove", s, n] =>
    match parseNat? n with
    | some n =>
      let r := st.pool.remove s n
      (⟨r.1, st.it.map (fun it => it.onRemove st.pool s n)⟩,
        (if r.2 then "ok " else "notfound ") ++ toString r.1.count)
    | none => (st, "bad-op")
  | ["select"] =>
    let r := st.pool.select
    (⟨r.1, st.it.map (fun it => it.onSelect st.pool)⟩, (if r.2.2 then "panic " else "sel ") ++ showTxs r.2.1)
  | ["seln", k] =>
    match parseNat? k with
    | some k =>
      let r := st.pool.selectN k
      let status := if r.2.2.isPanic then "panic" else if r.2.2.isDone then "end" else "more"
      (⟨r.1, st.it.map (fun it => it.onSelect st.pool)⟩, s!"part {showTxs r.2.1} {status}")
    | none => (st, "bad-op")
  | ["count"] => (st, toString st.pool.count)
  | ["iopen"] =>
    let r := (LState.mk st.pool st.it).step .iopen
    (⟨r.1.pool, r.1.it⟩, showYield r.2)
  | ["inext"] =>
    let r := (LState.mk st.pool st.it).step .inext
    (⟨r.1.pool, r.1.it⟩, showYield r.2)
  | _ => (st, "bad-op")

end Driver.C19
