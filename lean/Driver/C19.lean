import PalomaModel.Model.Mempool
import Driver.Util
namespace Driver.C19
open Paloma.Mempool

/-- driver state: the model pool -/
structure State where
  pool : Pool

def init : State := ⟨Pool.empty⟩

def showTxs (l : List Tx) : String :=
  if l.isEmpty then "-" else ",".intercalate (l.map fun t => s!"{t.sender}:{t.nonce}:{t.id}")

/-- ops:
  `reset`                                         → `ok`
  `prio <ctxprio> <url,…|->`                      → `<priority>`            (`GetTxPriority`)
  `insert <sender> <nonce> <ctxprio> <id> <url,…|->` → `ok <count>`
  `remove <sender> <nonce>`                       → `ok <count>` | `notfound <count>`
  `select`                                        → `sel <sender:nonce:id,…|->` | `panic <…>`
  `seln <k>`                                      → `part <sender:nonce:id,…|-> <end|more|panic>`
                                                    (`Select`, then at most `k` × `Tx()`/`Next()`)
  `ctxprio`                                       → `<priority>`            (`TxFeeSkipper`)
  `count`                                         → `<count>` -/
def step (st : State) (args : List String) : State × String :=
  match args with
  | ["reset"] => (init, "ok")
  | ["prio", c, urls] =>
    match parseInt? c with
    | some c => (st, toString (txPriority (splitList urls) c))
    | none => (st, "bad-op")
  | ["ctxprio"] => (st, toString appCtxPriority)
  | ["insert", s, n, c, id, urls] =>
    match parseNat? n, parseInt? c, parseNat? id with
    | some n, some c, some id =>
      let mp := st.pool.step (TxOp.insert s n (splitList urls) c id).toOp
      (⟨mp⟩, s!"ok {mp.count}")
    | _, _, _ => (st, "bad-op")
  | ["remove", s, n] =>
    match parseNat? n with
    | some n =>
      let r := st.pool.remove s n
      (⟨r.1⟩, (if r.2 then "ok " else "notfound ") ++ toString r.1.count)
    | none => (st, "bad-op")
  | ["select"] =>
    let r := st.pool.select
    (⟨r.1⟩, (if r.2.2 then "panic " else "sel ") ++ showTxs r.2.1)
  | ["seln", k] =>
    match parseNat? k with
    | some k =>
      let r := st.pool.selectN k
      let status := if r.2.2.isPanic then "panic" else if r.2.2.isDone then "end" else "more"
      (⟨r.1⟩, s!"part {showTxs r.2.1} {status}")
    | none => (st, "bad-op")
  | ["count"] => (st, toString st.pool.count)
  | _ => (st, "bad-op")

end Driver.C19
