import Driver.Util
namespace Driver.C08
/-- the model's prediction for twin execution is trivially "equal": the state transition is a
    function of the block history only (Props/C08.lean). -/
def step (args : List String) : String :=
  match args with
  | ["block", _, _] => "equal"
  | _ => "bad-op"
end Driver.C08
