import PalomaModel.Model.Queue
import PalomaModel.Props.C13
import Driver.Util
/-!
Line-protocol driver for the consensus-queue model (prefixes `C06` and `C14` share `step`, each with
its own state) and for the prune-time jailing function of C13 part B (prefix `C13B`).

`C13B prune <delivered> <total> <vals> <submissions a:h,…>` → jailed validators, sorted.  The last
argument is the HISTORY of accepted evidence submissions (oldest first, a validator may occur several
times); the evidence the message holds is `evidenceAfter` of it.

ops (every op prints exactly one line):
  `reset <lastId>`                                   → `ok`
  `snap none` | `snap <total> <id:share:accts,…>`    → `ok`      accts = `chain.addr.raw.mev+…` or `-`
  `metrics <id:uptime:success:exec:feature,…>`       → `ok`      (scaled by 10^18)
  `fees <id:mult,…>`                                 → `ok`
  `weights <fee:uptime:success:exec:feature>`        → `ok`
  `params <community> <security>`                    → `ok`
  `reg <val> <accts>`                                → `ok` | `collision`
  `put <kind> <content> <sender> <assignee> <remote> <reqEst>` → `<id> <item>`
  `enq <kind> <content> <sender> <mev> <ts>`         → `fail` | `<id> <item>`
  `pick <mev> <ts>`                                  → `fail` | `<assignee> <remote>`
  `putn <n> <kind> <content> <sender> <assignee> <remote> <reqEst>` → `<firstId> <lastId> <queue length>`   (n × `put`, contents content, content+1, …)
  `sign <id> <val> <addr> <by> <ref> [<wire>]`       → `ok|notfound|nokey|dupkey|dupval|badsig <item>`
  `est <id> <val> <value>`                           → `ok|rejected <item>`
  `endblock`                                         → `panic` | `<item> <item> …` | `-`
  `pub <id>` `err <id>` `evid <id> <val> <h>` `rm <id>` → `ok|notfound <item>`
  `relay <val>`                                      → `<id,…>`
  `bput <nonce> <content> <remote>`                  → `<batch>`
  `bconf <nonce> <val> <addr> <by> <ref> [<wire>]`   → `ok|notfound|noaddr|mismatch|badsig|dup|dupkey <batch>`
  `bgas <nonce> <g>`                                 → `ok|refused <batch>`
  `bconfc <creator> <nonce> <val> <addr> <by> <ref> <wire>` → as `bconf`; the transaction that delivers the confirmation is
                                                       created by account `<creator>` (any account), not by the orchestrator `<val>`
  `bstore <nonce>`                                   → `<val/creator+…>` | `-`   records of the keyed confirmation store under the batch
  `blocks <n>`                                       → `panic` | `<item> <item> …` | `-`   n blocks pass without a submission (`idleBlocks`)
  `fee <m> <c> <s> <g>`                              → `<r> <c> <s>` | `panic`
  `relayf <val>`                                     → `<id>/<elected>/<r>.<c>.<s>,…` | `-`   what each message offered to `<val>` carries
                                                       (`offeredCarrying`: elected gas estimate, fees or `-`)
  `cput <chain> <kind> <content> <sender> <assignee> <remote> <reqEst>` → `<id> <item>`   `PutMessageInQueue` on the turnstone queue of
                                                       chain `<chain>` (0 = the queue of `put`; 1, 2 = sibling chains of the same chain type);
                                                       ids come from the one counter all queues share
  `cq <chain>`                                       → `<item> <item> …` | `-`   the whole queue of the chain
  `signreq <val> <chain/id/addr/by/ref/wire,…>`      → `ok|notfound|nokey|dupkey|dupval|badsig <item> <item> …`   ONE `MsgAddMessagesSignatures` of
                                                       validator `<val>` with one entry per list element (`signRequest`: the answer of the first failing
                                                       entry, nothing stored unless all entries pass); one `<item>` per entry, after the request.
                                                       Entry refs: as for `sign`, and `x<id>` = the current bytes of message `<id>` (of any chain)
  `reassign <ts> <id:mev,…>`                         → `ok|fail <item> <item> …`   `Keeper.ReassignOrphanedMessages` at block time `<ts>`; the list
                                                       names the messages older than the block age, each with the MEV demand of its job (`reassign`)
  `attest <ts> <id:mev:retry,…>`                     → `<item> <item> …` | `-`   `CheckAndProcessAttestedMessages` at block time `<ts>` over a queue whose
                                                       evidence is error proofs on logic calls; per job: MEV demanded, retries left (`attest`)
  `q <op …>`                                         → first word of the op's answer
`ref` says which bytes were signed: `c` the item's current ones, `o<k>` the k-th distinct byte string
the item ever had (0-based, in order of first appearance), `g` unrelated bytes.
`wire` is the byte form of the submitted signature: `c` (default) r‖s‖v with v∈{0,1}, `h` the twin
(r, n−s, v xor 1), `w` v spelled 27/28, `r` v+2, `s` 64 bytes, `l` 66 bytes.
`relay` answers `offeredPage` (the offered list cut to `defaultResponseMessageCount`).
`put` / `putn` store `senderOf kind sender` (only SubmitLogicCall / UploadUserSmartContract have a sender);
`bput` with a nonce that is not above every earlier nonce of the case creates nothing (the real nonces come
from an auto-increment counter) and prints the batch already stored under it.
-/
namespace Driver.Queue
open Paloma.Queue

structure DState where
  s : State := {}
  hist : List (Nat × List SignBytes) := []
  bhist : List (Nat × List BBytes) := []
  /-- skyway's keyed confirmation store (key = nonce + orchestrator), next to `Batch.confirms` -/
  cstore : ConfStore := []
  /-- turnstone queues of the sibling chains (chain ≠ 0) of the chain type; the queue of chain 0 is `s.queue` -/
  sib : List (Nat × List Item) := []

def init : DState := {}

def parseBool? (s : String) : Option Bool :=
  if s == "1" then some true else if s == "0" then some false else none

def parseKind? (s : String) : Option Kind :=
  match s with
  | "v" => some .valset
  | "s" => some .slc
  | "u" => some .uusc
  | "o" => some .other
  | _ => none

def parseWire? (s : String) : Option Wire :=
  match s with
  | "c" => some .canonical
  | "h" => some .highS
  | "w" => some .v27
  | "r" => some .recid23
  | "s" => some .short
  | "l" => some .long
  | _ => none

def showKind : Kind → String
  | .valset => "v"
  | .slc => "s"
  | .uusc => "u"
  | .other => "o"

def parseAccount? (s : String) : Option Account :=
  match s.splitOn "." with
  | [c, a, r, m] => do pure { chain := ← parseNat? c, addr := ← parseNat? a, raw := ← parseNat? r, mev := ← parseBool? m }
  | _ => none

def parseAccounts? (s : String) : Option (List Account) :=
  if s == "-" || s == "" then some [] else (s.splitOn "+").mapM parseAccount?

def parseSnapVal? (s : String) : Option SnapVal :=
  match s.splitOn ":" with
  | [i, sh, a] => do pure { id := ← parseNat? i, share := ← parseNat? sh, accounts := ← parseAccounts? a }
  | _ => none

def parseMetrics? (s : String) : Option (Nat × Metrics) :=
  match s.splitOn ":" with
  | [i, u, sr, e, f] => do
    pure (← parseNat? i, { uptime := ← parseInt? u, successRate := ← parseInt? sr, execTime := ← parseInt? e, featureSet := ← parseInt? f })
  | _ => none

def parseFee? (s : String) : Option (Nat × Int) :=
  match s.splitOn ":" with
  | [i, m] => do pure (← parseNat? i, ← parseInt? m)
  | _ => none

def parseWeights? (s : String) : Option Weights :=
  match s.splitOn ":" with
  | [f, u, sr, e, fs] => do
    pure { fee := ← parseInt? f, uptime := ← parseInt? u, successRate := ← parseInt? sr, execTime := ← parseInt? e, featureSet := ← parseInt? fs }
  | _ => none

def parseFlag2? (s : String) : Option (Nat × Bool × Bool) :=
  match s.splitOn ":" with
  | [i, m] => do pure (← parseNat? i, ← parseBool? m, false)
  | _ => none

def parseFlag3? (s : String) : Option (Nat × Bool × Bool) :=
  match s.splitOn ":" with
  | [i, m, r] => do pure (← parseNat? i, ← parseBool? m, ← parseBool? r)
  | _ => none

def join (sep : String) (l : List String) : String := if l.isEmpty then "-" else sep.intercalate l

def showItem (it : Item) : String :=
  let fees := match it.fees with
    | none => "-"
    | some f => s!"{f.1}/{f.2.1}/{f.2.2}"
  let sigs := join "+" (it.sigs.map fun g => s!"{g.val}/{g.addr}/{g.key}")
  let ests := join "+" (it.estimates.map fun e => s!"{e.1}/{e.2}")
  let evs := join "+" (it.evidence.map fun e => s!"{e.1}/{e.2}")
  let b := fun (x : Bool) => if x then "1" else "0"
  s!"{it.id}:{showKind it.kind}:{it.sender}:{it.assignee}:{it.remote}:{b it.reqEst}:{it.elected}:{fees}:{sigs}:{ests}:{evs}:{b it.pub}{b it.err}"

def showItemOf (s : State) (id : Nat) : String :=
  match getItem s.queue id with
  | none => "-"
  | some it => showItem it

/-- confirms are shown sorted by validator (the store iterates them by orchestrator address) -/
def showBatch (b : Batch) : String :=
  let cs := b.confirms.foldl (fun acc x =>
    let (lo, hi) := acc.partition (fun y => y.val ≤ x.val)
    lo ++ [x] ++ hi) []
  s!"{b.nonce}:{b.remote}:{b.gas}:" ++ join "+" (cs.map fun c => s!"{c.val}/{c.addr}")

def showBatchOf (s : State) (n : Nat) : String :=
  match getBatch s.batches n with
  | none => "-"
  | some b => showBatch b

def histOf {α} (h : List (Nat × List α)) (id : Nat) : List α := (assoc? h id).getD []

/-- append the current bytes of every item / batch to its history if not seen before -/
def track (d : DState) : DState :=
  let hist := d.s.queue.foldl (fun h it =>
    let cur := histOf h it.id
    if cur.contains (bytesOf it) then h else upsert h it.id (cur ++ [bytesOf it])) d.hist
  let bhist := d.s.batches.foldl (fun h b =>
    let cur := histOf h b.nonce
    if cur.contains (bbytes b) then h else upsert h b.nonce (cur ++ [bbytes b])) d.bhist
  { d with hist := hist, bhist := bhist }

def garbage : SignBytes := { kind := .other, content := 0, id := 1000000007, gas := 1, fr := 1, fc := 1, fs := 1, remote := 0 }
def bgarbage : BBytes := { nonce := 1000000007, content := 0, remote := 0, gas := 1 }

def resolveRef (d : DState) (id : Nat) (ref : String) : Option SignBytes :=
  if ref == "c" then
    match getItem d.s.queue id with
    | none => some garbage
    | some it => some (bytesOf it)
  else if ref == "g" then some garbage
  else if ref.startsWith "o" then
    match parseNat? (ref.drop 1).toString with
    | none => none
    | some k => some ((histOf d.hist id).getD k garbage)
  else none

def resolveBRef (d : DState) (n : Nat) (ref : String) : Option BBytes :=
  if ref == "c" then
    match getBatch d.s.batches n with
    | none => some bgarbage
    | some b => some (bbytes b)
  else if ref == "g" then some bgarbage
  else if ref.startsWith "o" then
    match parseNat? (ref.drop 1).toString with
    | none => none
    | some k => some ((histOf d.bhist n).getD k bgarbage)
  else none

def showSignRes : SignRes → String
  | .ok => "ok"
  | .notFound => "notfound"
  | .noKey => "nokey"
  | .dupKey => "dupkey"
  | .dupVal => "dupval"
  | .badSig => "badsig"

def showConfRes : ConfRes → String
  | .ok => "ok"
  | .notFound => "notfound"
  | .noAddr => "noaddr"
  | .mismatch => "mismatch"
  | .badSig => "badsig"
  | .dup => "dup"
  | .dupKey => "dupkey"

def withEnv (d : DState) (f : Env → Env) : DState × String :=
  ({ d with s := { d.s with env := f d.s.env } }, "ok")

def stepSign (d : DState) (id v a b ref w : String) : DState × String :=
  match parseNat? id, parseNat? v, parseNat? a, parseNat? b, parseWire? w with
  | some id, some v, some a, some b, some w =>
    match resolveRef d id ref with
    | none => (d, "bad-op")
    | some f =>
      let res := sign d.s id v a b f w
      ({ d with s := res.1 }, s!"{showSignRes res.2} {showItemOf res.1 id}")
  | _, _, _, _, _ => (d, "bad-op")

/-- `cr` = creator of the delivering transaction; `none`: the orchestrator itself -/
def stepConfirm (d : DState) (cr : Option String) (n v a b ref w : String) : DState × String :=
  match parseNat? n, parseNat? v, parseNat? a, parseNat? b, parseWire? w with
  | some n, some v, some a, some b, some w =>
    match resolveBRef d n ref, (match cr with | none => some v | some c => parseNat? c) with
    | some f, some cr =>
      let res := confirm d.s n v a b f w
      let st := if res.2 == .ok then setBatchConfirm d.cstore n ⟨v, cr, a⟩ else d.cstore
      ({ d with s := res.1, cstore := st }, s!"{showConfRes res.2} {showBatchOf res.1 n}")
    | _, _ => (d, "bad-op")
  | _, _, _, _, _ => (d, "bad-op")

/-- records found under a batch in the keyed store, sorted by orchestrator -/
def showStore (st : ConfStore) (n : Nat) : String :=
  let cs := (confirmsOf st n).foldl (fun acc x =>
    let (lo, hi) := acc.partition (fun y => y.val ≤ x.val)
    lo ++ [x] ++ hi) []
  join "+" (cs.map fun c => s!"{c.val}/{c.creator}")

/-- `n` consecutive `put`s with contents `content`, `content + 1`, … -/
def putN : Nat → State → Kind → Nat → Nat → Nat → Nat → Bool → State
  | 0, s, _, _, _, _, _, _ => s
  | n + 1, s, k, c, sd, a, r, q => putN n (put s k c sd a r q).1 k (c + 1) sd a r q

def stepRaw (d : DState) (args : List String) : DState × String :=
  match args with
  | ["reset", n] =>
    match parseNat? n with
    | some n => ({ s := { nextId := n } }, "ok")
    | none => (d, "bad-op")
  | ["snap", "none"] => withEnv d fun e => { e with snapshot := none }
  | ["snap", t, vs] =>
    match parseNat? t, (Driver.splitList vs).mapM parseSnapVal? with
    | some t, some vs => withEnv d fun e => { e with snapshot := some { vals := vs, total := t } }
    | _, _ => (d, "bad-op")
  | ["metrics", ms] =>
    match (Driver.splitList ms).mapM parseMetrics? with
    | some ms => withEnv d fun e => { e with metrics := ms }
    | none => (d, "bad-op")
  | ["fees", fs] =>
    match (Driver.splitList fs).mapM parseFee? with
    | some fs => withEnv d fun e => { e with fees := fs }
    | none => (d, "bad-op")
  | ["weights", w] =>
    match parseWeights? w with
    | some w => withEnv d fun e => { e with weights := w }
    | none => (d, "bad-op")
  | ["params", c, s] =>
    match parseInt? c, parseInt? s with
    | some c, some s => withEnv d fun e => { e with community := c, security := s }
    | _, _ => (d, "bad-op")
  | ["reg", v, a] =>
    match parseNat? v, parseAccounts? a with
    | some v, some a =>
      let r := register d.s v a
      ({ d with s := r.1 }, if r.2 then "ok" else "collision")
    | _, _ => (d, "bad-op")
  | ["put", k, c, sd, a, r, q] =>
    match parseKind? k, parseNat? c, parseNat? sd, parseNat? a, parseNat? r, parseBool? q with
    | some k, some c, some sd, some a, some r, some q =>
      let res := put d.s k c sd a r q
      ({ d with s := res.1 }, s!"{res.2} {showItemOf res.1 res.2}")
    | _, _, _, _, _, _ => (d, "bad-op")
  | ["enq", k, c, sd, m, t] =>
    match parseKind? k, parseNat? c, parseNat? sd, parseBool? m, parseNat? t with
    | some k, some c, some sd, some m, some t =>
      let res := enqueue d.s k c sd m t
      match res.2 with
      | none => (d, "fail")
      | some x => ({ d with s := res.1 }, s!"{x.1} {showItemOf res.1 x.1}")
    | _, _, _, _, _ => (d, "bad-op")
  | ["pick", m, t] =>
    match parseBool? m, parseNat? t with
    | some m, some t =>
      match pick d.s.env m t with
      | none => (d, "fail")
      | some x => (d, s!"{x.1} {x.2}")
    | _, _ => (d, "bad-op")
  | ["sign", id, v, a, b, ref] => stepSign d id v a b ref "c"
  | ["sign", id, v, a, b, ref, w] => stepSign d id v a b ref w
  | ["putn", n, k, c, sd, a, r, q] =>
    match parseNat? n, parseKind? k, parseNat? c, parseNat? sd, parseNat? a, parseNat? r, parseBool? q with
    | some n, some k, some c, some sd, some a, some r, some q =>
      let s' := putN n d.s k c sd a r q
      ({ d with s := s' }, s!"{d.s.nextId + 1} {s'.nextId} {s'.queue.length}")
    | _, _, _, _, _, _, _ => (d, "bad-op")
  | ["est", id, v, x] =>
    match parseNat? id, parseNat? v, parseNat? x with
    | some id, some v, some x =>
      let res := addEstimate d.s id v x
      ({ d with s := res.1 }, (if res.2 then "ok " else "rejected ") ++ showItemOf res.1 id)
    | _, _, _ => (d, "bad-op")
  | ["endblock"] =>
    let res := endBlock d.s
    if res.2 then (d, "panic")
    else ({ d with s := res.1 }, join " " (res.1.queue.map showItem))
  | ["pub", id] =>
    match parseNat? id with
    | some id =>
      let res := setPublic d.s id
      ({ d with s := res.1 }, (if res.2 then "ok " else "notfound ") ++ showItemOf res.1 id)
    | none => (d, "bad-op")
  | ["err", id] =>
    match parseNat? id with
    | some id =>
      let res := setError d.s id
      ({ d with s := res.1 }, (if res.2 then "ok " else "notfound ") ++ showItemOf res.1 id)
    | none => (d, "bad-op")
  | ["evid", id, v, h] =>
    match parseNat? id, parseNat? v, parseNat? h with
    | some id, some v, some h =>
      let res := addEv d.s id v h
      ({ d with s := res.1 }, (if res.2 then "ok " else "notfound ") ++ showItemOf res.1 id)
    | _, _, _ => (d, "bad-op")
  | ["rm", id] =>
    match parseNat? id with
    | some id =>
      let res := remove d.s id
      ({ d with s := res.1 }, (if res.2 then "ok " else "notfound ") ++ showItemOf res.1 id)
    | none => (d, "bad-op")
  | ["relay", v] =>
    match parseNat? v with
    | some v => (d, Driver.showNatList (offeredPage d.s.queue v))
    | none => (d, "bad-op")
  | ["bput", n, c, r] =>
    match parseNat? n, parseNat? c, parseNat? r with
    | some n, some c, some r =>
      let s' := putBatch d.s n c r
      ({ d with s := s' }, showBatchOf s' n)
    | _, _, _ => (d, "bad-op")
  | ["bconf", n, v, a, b, ref] => stepConfirm d none n v a b ref "c"
  | ["bconf", n, v, a, b, ref, w] => stepConfirm d none n v a b ref w
  | ["bconfc", cr, n, v, a, b, ref, w] => stepConfirm d (some cr) n v a b ref w
  | ["bgas", n, g] =>
    match parseNat? n, parseNat? g with
    | some n, some g =>
      let res := updateBatchGas d.s n g
      let st := if res.2 then deleteBatchConfirms d.cstore n else d.cstore
      ({ d with s := res.1, cstore := st }, (if res.2 then "ok " else "refused ") ++ showBatchOf res.1 n)
    | _, _ => (d, "bad-op")
  | ["bstore", n] =>
    match parseNat? n with
    | some n => (d, showStore d.cstore n)
    | none => (d, "bad-op")
  | ["blocks", n] =>
    match parseNat? n with
    | some n =>
      if n > 0 && (endBlock d.s).2 then (d, "panic")
      else
        let s' := idleBlocks d.s n
        ({ d with s := s' }, join " " (s'.queue.map showItem))
    | none => (d, "bad-op")
  | ["reassign", t, fl] =>
    match parseNat? t, (Driver.splitList fl).mapM parseFlag2? with
    | some t, some fl =>
      let res := reassign d.s t fl
      ({ d with s := res.1 }, (if res.2 then "ok " else "fail ") ++ join " " (res.1.queue.map showItem))
    | _, _ => (d, "bad-op")
  | ["attest", t, fl] =>
    match parseNat? t, (Driver.splitList fl).mapM parseFlag3? with
    | some t, some fl =>
      let s' := attest d.s t fl
      ({ d with s := s' }, join " " (s'.queue.map showItem))
    | _, _ => (d, "bad-op")
  | ["relayf", v] =>
    match parseNat? v with
    | some v =>
      (d, join "," ((offeredCarrying d.s.queue v).map fun e =>
        let fees := match e.2.2 with
          | none => "-"
          | some f => s!"{f.1}.{f.2.1}.{f.2.2}"
        s!"{e.1}/{e.2.1}/{fees}"))
    | none => (d, "bad-op")
  | ["fee", m, c, s, g] =>
    match parseInt? m, parseInt? c, parseInt? s, parseNat? g with
    | some m, some c, some s, some g =>
      match calcFees m c s g with
      | none => (d, "panic")
      | some f => (d, s!"{f.1} {f.2.1} {f.2.2}")
    | _, _, _, _ => (d, "bad-op")
  | _ => (d, "bad-op")

/-- the queues of all chains as the model's `MultiQ` -/
def multiOf (d : DState) : MultiQ := { regs := d.s.regs, queues := fun c => assoc? ((0, d.s.queue) :: d.sib) c }

/-- read the queues back: chain 0 and every sibling chain that has (or, `touched`, just got) a queue -/
def ofMulti (d : DState) (w : MultiQ) (touched : List Nat := []) : DState :=
  let chains := (d.sib.map (·.1) ++ touched.filter (fun c => c != 0 && !(d.sib.any (·.1 == c)))).eraseDups
  { d with s := { d.s with queue := (queueOf w 0).getD d.s.queue },
           sib := chains.filterMap (fun c => (queueOf w c).map (fun q => (c, q))) }

def findAnywhere (d : DState) (id : Nat) : Option Item :=
  match getItem d.s.queue id with
  | some it => some it
  | none => (d.sib.filterMap (fun p => getItem p.2 id)).head?

def resolveRefOn (d : DState) (chain id : Nat) (ref : String) : Option SignBytes :=
  if ref.startsWith "x" then
    match parseNat? (ref.drop 1).toString with
    | none => none
    | some k => some ((findAnywhere d k).map bytesOf |>.getD garbage)
  else if chain == 0 then resolveRef d id ref
  else if ref == "c" then some (((queueOf (multiOf d) chain).bind (getItem · id)).map bytesOf |>.getD garbage)
  else if ref == "g" then some garbage
  else if ref.startsWith "o" then
    match parseNat? (ref.drop 1).toString with
    | none => none
    | some k => some ((histOf d.hist id).getD k garbage)
  else none

def parseEntry? (d : DState) (s : String) : Option SigEntry :=
  match s.splitOn "/" with
  | [c, id, a, b, ref, w] => do
    let c ← parseNat? c
    let id ← parseNat? id
    pure { chain := c, id := id, addr := ← parseNat? a, by_ := ← parseNat? b, for_ := ← resolveRefOn d c id ref, wire := ← parseWire? w }
  | _ => none

def showItemOn (d : DState) (chain id : Nat) : String :=
  match (queueOf (multiOf d) chain).bind (getItem · id) with
  | none => "-"
  | some it => showItem it

/-- the ops of the several-chains part; `none` = not one of them -/
def stepMulti (d : DState) (args : List String) : Option (DState × String) :=
  match args with
  | ["cput", ch, k, c, sd, a, r, q] =>
    match parseNat? ch, parseKind? k, parseNat? c, parseNat? sd, parseNat? a, parseNat? r, parseBool? q with
    | some ch, some k, some c, some sd, some a, some r, some q =>
      let w' := putOn (multiOf d) ch (d.s.nextId + 1) k c sd a r q
      let d' := ofMulti { d with s := { d.s with nextId := d.s.nextId + 1 } } w' [ch]
      some (d', s!"{d.s.nextId + 1} {showItemOn d' ch (d.s.nextId + 1)}")
    | _, _, _, _, _, _, _ => some (d, "bad-op")
  | ["cq", ch] =>
    match parseNat? ch with
    | some ch => some (d, join " " (((queueOf (multiOf d) ch).getD []).map showItem))
    | none => some (d, "bad-op")
  | ["signreq", v, es] =>
    match parseNat? v, (Driver.splitList es).mapM (parseEntry? d) with
    | some v, some es =>
      let res := signRequest (multiOf d) v es
      let d' := ofMulti d res.1
      some (d', " ".intercalate (showSignRes res.2 :: es.map (fun e => showItemOn d' e.chain e.id)))
    | _, _ => some (d, "bad-op")
  | _ => none

/-- `q <op …>` runs the op and prints only the first word of its answer (used when the harness can
    observe the item only after a later step). -/
def step (d : DState) (args : List String) : DState × String :=
  match args with
  | "q" :: rest =>
    let r := stepRaw d rest
    (track r.1, (r.2.splitOn " ").headD "")
  | _ =>
    match stepMulti d args with
    | some r => (track r.1, r.2)
    | none =>
      let r := stepRaw d args
      (track r.1, r.2)

/-- one event of a message life (`C13B prune hist <event> <event> …`, fields separated by `/`), as ops of
    the world machine of Props/C13:
    `put/<kind>/<reqEst>` (ids are handed out 1, 2, … in the order of the puts), `snap/<total>/<a:s,…>` (a new current
    snapshot), `ev/<id>/<val>/<h>` (accepted `MsgAddEvidence`), `pub/<id>`, `err/<id>` (`MsgSetPublicAccessData` /
    `MsgSetErrorData`), `est/<id>/<val>/<value>` (`MsgAddMessageGasEstimates`), `eb` (`CheckAndProcessEstimatedMessages`;
    the relayer-fee environment is not transmitted, so WHICH estimate is elected is not compared here — C06 does that),
    `rm/<id>` (`DeleteJob`), `prune/<id>` (`PruneJob`), and `sig/<id>/<val>` (an accepted `MsgAddMessagesSignatures`: it
    rewrites only `SignData`; no world op).  The answer is `pruneLog`: the victims of every prune, in order. -/
def parseLifeEvent? (s : String) : Option (List Paloma.C13.WOp) :=
  match s.splitOn "/" with
  | ["put", k, r] => do pure [.queue (.put (← parseKind? k) 1 1 1 4 (← parseBool? r))]
  | ["snap", t, vs] => do
    let vs ← parsePairList? vs
    pure [.queue (.setEnv { snapshot := some { vals := vs.map (fun p => ⟨p.1, p.2, []⟩), total := ← parseNat? t } })]
  | ["ev", i, v, h] => do pure [.queue (.addEvidence (← parseNat? i) (← parseNat? v) (← parseNat? h))]
  | ["pub", i] => do pure [.queue (.setPublic (← parseNat? i))]
  | ["err", i] => do pure [.queue (.setError (← parseNat? i))]
  | ["est", i, v, x] => do pure [.queue (.addEstimate (← parseNat? i) (← parseNat? v) (← parseNat? x))]
  | ["eb"] => some [.queue .endBlock]
  | ["rm", i] => do pure [.queue (.remove (← parseNat? i))]
  | ["prune", i] => do pure [.prune (← parseNat? i)]
  | ["sig", i, v] => do
    let _ ← parseNat? i
    let _ ← parseNat? v
    pure []
  | _ => none

/-- `C13B prune hist <event> …` → `pruneLog` of the message life (see `parseLifeEvent?`).
    `C13B prune <delivered 0|1> <total> <vals a:s,…> <submissions a:h,…>` → sorted list of validators jailed by
    `PruneJob`: nobody for a message without delivery/error report (`punishValidatorForMissingRelay`)
    and nobody when the evidence does reach consensus (`jailValidatorsWhichMissedAttestation` bails
    out); otherwise `pruneJail` over the evidence suppliers. -/
def stepPrune (args : List String) : String :=
  match args with
  | "prune" :: "hist" :: evs =>
    match evs.mapM parseLifeEvent? with
    | some ops => " ".intercalate ((Paloma.C13.pruneLog Paloma.C13.World.init ops.flatten).map (fun l => showNatList (sortNat l)))
    | none => "bad-op"
  | ["prune", dl, t, vs, es] =>
    match parseBool? dl, parseNat? t, parsePairList? vs, parsePairList? es with
    | some dl, some t, some vs, some es =>
      if !dl then "-"
      else
        match Paloma.Libcons.verifyEvidence ⟨vs, t⟩ (Paloma.Libcons.evidenceAfter es) with
        | .winnerIn _ => "-"
        | .notAchieved => showNatList (sortNat (Paloma.Libcons.pruneJail ⟨vs, t⟩ ((Paloma.Libcons.evidenceAfter es).map (·.1))))
    | _, _, _, _ => "bad-op"
  | _ => "bad-op"

end Driver.Queue
