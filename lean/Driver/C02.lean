import PalomaModel.Model.Oracle
import Driver.Util
namespace Driver.C02
open Paloma.Oracle

/-- the harness fixture activates its chain with compass id "compass-1" before the first op
(`ActivateChainReferenceID` → the skyway keeper's `EVMActivatedChain` subscriber) -/
def fixtureInit : St := activate St.init 1

structure State where
  s : Sky := { o := fixtureInit }
  /-- claim registry: attestation key hash ↦ identity of the claim (all fields) that holds it -/
  reg : List (Nat × Nat) := []

def init : State := {}

def sortAtts (l : List Att) : List Att :=
  l.foldl (fun acc x =>
    let (lo, hi) := acc.partition (fun y => y.nonce < x.nonce || (y.nonce == x.nonce && y.hash < x.hash))
    lo ++ [x] ++ hi) []

def sortBatches (l : List Batch) : List Batch :=
  l.foldl (fun acc x =>
    let (lo, hi) := acc.partition (fun y => y.id < x.id)
    lo ++ [x] ++ hi) []

def showState (d : State) : String :=
  let s := d.s.o
  let nonces := ",".intercalate ((List.range 5).map fun i => toString (lastNonceOf s (i + 1)))
  let as := sortAtts s.atts
  let aS := if as.isEmpty then "-" else ";".intercalate (as.map fun a =>
    s!"{a.nonce}:{a.hash}:" ++ ".".intercalate (a.votes.map toString) ++ s!":{if a.observed then 1 else 0}")
  let bs := sortBatches d.s.b.batches
  let bS := if bs.isEmpty then "-" else ",".intercalate (bs.map fun b => s!"{b.id}:{b.amount}:{b.timeout}")
  s!"last={s.lastObserved} eth={s.lastEth} nonces={nonces} atts={aS} supply={d.s.supply} dep={s.compassId} open={bS} pool={d.s.b.pool}"

/-- `endblock <powers> <total> [<nonce>:<hash>,… | -] <block time>`: the third field lists the attestations
    whose observation event cannot be emitted in this block (collaborator fault). `<powers>` is the whole
    `LastValidatorPower` table (bonded validators that never vote included) and `<total>` the stored
    `LastTotalPower`; the model derives the total from the table (`totalOf`), a line whose total differs is
    outside the model (`bad-op`). `<block time>` (unix seconds) decides which batches expire. -/
def endblock (d : State) (kind ps total faults now : String) : State × String :=
  if kind != "endblock" && kind != "endblock50" then (d, "bad-op") else
  match parsePairList? ps, parseNat? total, parsePairList? faults, parseNat? now with
  | some ps, some total, some fl, some now =>
    if total != totalOf ps then (d, "bad-op") else
    let d' : State := { d with s := endBlock d.s (powerOf ps) (totalOf ps) (faultOf fl) now (kind == "endblock50") }
    (d', showState d')
  | _, _, _, _ => (d, "bad-op")

/-- the fixture's active set: five bonded validators, accounts 1..5 -/
def bondedSet : List Nat := [1, 2, 3, 4, 5]

def resWord (r : Res) : String := if r == .ok then "ok " else "rejected "

/-- the property's view of a submission: a key already held by a DIFFERENT claim must not be shared -/
def clash : String := "distinct-claims-share-key"

def step (d : State) (args : List String) : State × String :=
  match args with
  | ["reset"] => (init, "ok")
  -- a deposit claim message:
  -- `vote <creator account> <orchestrator account> <nonce> <hash> <remote height> <applicable> <amount> <compass id of the claim> <claim identity>`
  -- (validator k has account k; any other number is an account that is no validator)
  | ["vote", c, v, n, h, eth, appl, amt, cp, cid] =>
    match parseNat? c, parseNat? v, parseNat? n, parseNat? h, parseNat? eth, parseNat? appl, parseNat? amt, parseNat? cp, parseNat? cid with
    | some c, some v, some n, some h, some eth, some appl, some amt, some cp, some cid =>
      match register d.reg h cid with
      | none => (d, clash)
      | some reg =>
        let r := voteMsg bondedSet d.s.o c v n h eth (appl != 0) amt cp
        let d' : State := { s := { d.s with o := r.1 }, reg := reg }
        (d', resWord r.2 ++ showState d')
    | _, _, _, _, _, _, _, _, _ => (d, "bad-op")
  -- a light-node-sale claim message (mints nothing):
  -- `votel <creator account> <orchestrator account> <nonce> <hash> <remote height> <applicable> <compass id> <claim identity>`
  | ["votel", c, v, n, h, eth, appl, cp, cid] =>
    match parseNat? c, parseNat? v, parseNat? n, parseNat? h, parseNat? eth, parseNat? appl, parseNat? cp, parseNat? cid with
    | some c, some v, some n, some h, some eth, some appl, some cp, some cid =>
      match register d.reg h cid with
      | none => (d, clash)
      | some reg =>
        let r := voteMsg bondedSet d.s.o c v n h eth (appl != 0) 0 cp
        let d' : State := { s := { d.s with o := r.1 }, reg := reg }
        (d', resWord r.2 ++ showState d')
    | _, _, _, _, _, _, _, _ => (d, "bad-op")
  -- executed-batch claim message:
  -- `votex <creator account> <orchestrator account> <nonce> <hash> <remote height> <batch nonce> <compass id> <claim identity>`
  | ["votex", c, v, n, h, eth, id, cp, cid] =>
    match parseNat? c, parseNat? v, parseNat? n, parseNat? h, parseNat? eth, parseNat? id, parseNat? cp, parseNat? cid with
    | some c, some v, some n, some h, some eth, some id, some cp, some cid =>
      match register d.reg h cid with
      | none => (d, clash)
      | some reg =>
        let r := voteExecMsg bondedSet d.s c v n h eth id cp
        let d' : State := { s := r.1, reg := reg }
        (d', resWord r.2 ++ showState d')
    | _, _, _, _, _, _, _, _ => (d, "bad-op")
  | ["send", amt] =>
    match parseNat? amt with
    | some amt => let d' : State := { d with s := { d.s with b := send d.s.b amt } }; (d', showState d')
    | none => (d, "bad-op")
  | ["build", now] =>
    match parseNat? now with
    | some now => let d' : State := { d with s := { d.s with b := build d.s.b now } }; (d', showState d')
    | none => (d, "bad-op")
  | [kind, ps, total, faults, now] => endblock d kind ps total faults now
  | ["override", n] =>
    match parseNat? n with
    | some n => let d' : State := { d with s := { d.s with o := override d.s.o n } }; (d', showState d')
    | none => (d, "bad-op")
  -- chain activation / bridge re-deployment with compass id "compass-<c>"
  | ["activate", c] =>
    match parseNat? c with
    | some c => let d' : State := { d with s := { d.s with o := activate d.s.o c } }; (d', showState d')
    | none => (d, "bad-op")
  | _ => (d, "bad-op")

end Driver.C02
