import PalomaModel.Model.Oracle
import Driver.Util
namespace Driver.C02
open Paloma.Oracle

/-- the harness fixture activates its chain with compass id "compass-1" before the first op
(`ActivateChainReferenceID` → the skyway keeper's `EVMActivatedChain` subscriber) -/
def fixtureInit : St := activate St.init 1

structure State where
  s : St := fixtureInit

def init : State := {}

def sortAtts (l : List Att) : List Att :=
  l.foldl (fun acc x =>
    let (lo, hi) := acc.partition (fun y => y.nonce < x.nonce || (y.nonce == x.nonce && y.hash < x.hash))
    lo ++ [x] ++ hi) []

def showState (d : State) : String :=
  let s := d.s
  let nonces := ",".intercalate ((List.range 5).map fun i => toString (lastNonceOf s (i + 1)))
  let as := sortAtts s.atts
  let aS := if as.isEmpty then "-" else ";".intercalate (as.map fun a =>
    s!"{a.nonce}:{a.hash}:" ++ ".".intercalate (a.votes.map toString) ++ s!":{if a.observed then 1 else 0}")
  s!"last={s.lastObserved} eth={s.lastEth} nonces={nonces} atts={aS} minted={s.minted} dep={s.compassId}"

/-- `endblock <powers> <total> [<nonce>:<hash>,… | -]`: the last field lists the attestations whose
    observation event cannot be emitted in this block (collaborator fault). `<powers>` is the whole
    `LastValidatorPower` table (bonded validators that never vote included) and `<total>` the stored
    `LastTotalPower`; the model derives the total from the table (`totalOf`), a line whose total differs is
    outside the model (`bad-op`). -/
def endblock (d : State) (kind ps total faults : String) : State × String :=
  if kind != "endblock" && kind != "endblock50" then (d, "bad-op") else
  match parsePairList? ps, parseNat? total, parsePairList? faults with
  | some ps, some total, some fl =>
    if total != totalOf ps then (d, "bad-op") else
    let s1 := tally d.s (powerOf ps) (totalOf ps) (faultOf fl)
    let s2 := if kind == "endblock50" then catchUp s1 else s1
    let d' : State := { d with s := s2 }
    (d', showState d')
  | _, _, _ => (d, "bad-op")

def step (d : State) (args : List String) : State × String :=
  match args with
  | ["reset"] => (init, "ok")
  -- `vote <validator> <nonce> <hash> <remote height> <applicable> <amount> <compass id of the claim>`
  | ["vote", v, n, h, eth, appl, amt, cp] =>
    match parseNat? v, parseNat? n, parseNat? h, parseNat? eth, parseNat? appl, parseNat? amt, parseNat? cp with
    | some v, some n, some h, some eth, some appl, some amt, some cp =>
      let (s', r) := vote d.s v n h eth (appl != 0) amt cp
      let d' := { d with s := s' }
      ((d'), (if r == .ok then "ok " else "rejected ") ++ showState d')
    | _, _, _, _, _, _, _ => (d, "bad-op")
  | [kind, ps, total] => endblock d kind ps total "-"
  | [kind, ps, total, faults] => endblock d kind ps total faults
  | ["override", n] =>
    match parseNat? n with
    | some n => let d' := { d with s := override d.s n }; (d', showState d')
    | none => (d, "bad-op")
  -- chain activation / bridge re-deployment with compass id "compass-<c>"
  | ["activate", c] =>
    match parseNat? c with
    | some c => let d' := { d with s := activate d.s c }; (d', showState d')
    | none => (d, "bad-op")
  | _ => (d, "bad-op")

end Driver.C02
