import PalomaModel.Model.Scheduler
import Driver.Util
namespace Driver.C17
open Paloma.Scheduler

/-! Line protocol of the scheduler model (all byte strings lower-case hex, `-` = empty).

  `reset <snap> <name:active:relay:mev:onchain,…>`   environment of a fresh case (`onchain` = id or `-`)
  `create <mode> <owner> <id> <chainType|-> <chain|-> <def> <payload> <mod> <mev>`
        def     = `bad` | `<address bytes>:<abi bytes>`      payload = `bad` | `h<bytes>`
  `exec <mode> <entry> <sender|nil> <contract|nil> <id> <supplied>`
        entry   = `msg` | `keeper` | `wasm` | `legacy`       supplied = `nil` | `empty` | `bad` | `h<bytes>`
  `relay <mode> <chain> <0|1>` · `bump <mode> <chain> <0|1>` · `publish <mode> <chain>` · `endblock`
        mode    = `b` the message is delivered in a block of its own and observed after the end blocker
                | `g` the message alone
        → `<ok|rejected> <#jobs> <queue delta> <queue delta inside the message before commit/rollback | *>`
  `jobs`    → every stored job, ordered by id
  `queues`  → every chain's queue -/

structure State where
  s : Paloma.Scheduler.State := { jobs := [], order := [], chain := ⟨fun _ => none⟩, snap := 0 }

def init : State := {}

def hexDigit (n : Nat) : Char := if n < 10 then Char.ofNat (48 + n) else Char.ofNat (87 + n)

def toHex (b : Bytes) : String :=
  if b.isEmpty then "-"
  else String.ofList (b.foldr (fun x acc => hexDigit (x.toNat / 16) :: hexDigit (x.toNat % 16) :: acc) [])

def hexVal (c : Char) : Option Nat :=
  if '0' ≤ c ∧ c ≤ '9' then some (c.toNat - 48)
  else if 'a' ≤ c ∧ c ≤ 'f' then some (c.toNat - 87)
  else none

def parseHexGo : List Char → Option Bytes
  | [] => some []
  | [_] => none
  | c :: d :: r =>
    match hexVal c, hexVal d, parseHexGo r with
    | some hi, some lo, some rest => some (UInt8.ofNat (hi * 16 + lo) :: rest)
    | _, _, _ => none

def parseBytes? (s : String) : Option Bytes := if s == "-" then some [] else parseHexGo s.toList

def parseOptBytes? (s : String) : Option (Option Bytes) :=
  if s == "nil" then some none else (parseBytes? s).map some

def parseBool? (s : String) : Option Bool :=
  if s == "1" then some true else if s == "0" then some false else none

def parseStr (s : String) : String := if s == "-" then "" else s

def showOpt (b : Option Bytes) : String :=
  match b with
  | none => "-"
  | some x => toHex x

def showBool (b : Bool) : String := if b then "1" else "0"

def showMsg : QMsg → String
  | .valset id => s!"v{id}"
  | .call c => s!"c/{toHex c.contract}/{toHex c.abi}/{toHex c.payload}/{showOpt c.sender}/{showOpt c.contractAddr}/{showBool c.mev}"

/-- greedy queue difference: messages only disappear from inside and appear at the end -/
def diffQ : List QMsg → List QMsg → List String
  | [], rest => rest.map fun m => "+" ++ showMsg m
  | m :: ms, [] => ("-" ++ showMsg m) :: diffQ ms []
  | m :: ms, m' :: ms' =>
    if m == m' then diffQ ms ms' else ("-" ++ showMsg m) :: diffQ ms (m' :: ms')

def queueOf (s : Paloma.Scheduler.State) (n : String) : List QMsg :=
  match s.chain n with
  | none => []
  | some c => c.queue

def delta (a b : Paloma.Scheduler.State) : String :=
  let parts := a.order.filterMap fun n =>
    let d := diffQ (queueOf a n) (queueOf b n)
    if d.isEmpty then none else some (n ++ ":" ++ ";".intercalate d)
  if parts.isEmpty then "-" else ",".intercalate parts

def bytesLt : Bytes → Bytes → Bool
  | [], [] => false
  | [], _ :: _ => true
  | _ :: _, [] => false
  | x :: xs, y :: ys => x < y || (x == y && bytesLt xs ys)

def insertJob (j : Job) : List Job → List Job
  | [] => [j]
  | x :: xs => if bytesLt j.id x.id then j :: x :: xs else x :: insertJob j xs

def showJob (j : Job) : String :=
  s!"{toHex j.id}/{toHex j.owner}/{j.chain}/{toHex j.contract}/{toHex j.abi}/{toHex j.payload}/{showBool j.modifiable}/{showBool j.mev}"

def showJobs (s : Paloma.Scheduler.State) : String :=
  let l := s.jobs.foldl (fun acc j => insertJob j acc) []
  if l.isEmpty then "-" else ",".intercalate (l.map showJob)

def showQueues (s : Paloma.Scheduler.State) : String :=
  if s.order.isEmpty then "-" else
  ",".intercalate (s.order.map fun n =>
    let q := queueOf s n
    n ++ ":" ++ (if q.isEmpty then "-" else ";".intercalate (q.map showMsg)))

def parseChain? (spec : String) : Option (String × Chain) :=
  match spec.splitOn ":" with
  | [n, a, r, m, oc] =>
    match parseBool? a, parseBool? r, parseBool? m with
    | some a, some r, some m =>
      if oc == "-" then some (n, { active := a, relay := r, mev := m, onChain := none, queue := [] })
      else match parseNat? oc with
        | some k => some (n, { active := a, relay := r, mev := m, onChain := some k, queue := [] })
        | none => none
    | _, _, _ => none
  | _ => none

def parseDef? (s : String) : Option (Option (Bytes × Bytes)) :=
  if s == "bad" then some none else
  match s.splitOn ":" with
  | [a, b] =>
    match parseBytes? a, parseBytes? b with
    | some a, some b => some (some (a, b))
    | _, _ => none
  | _ => none

def parsePayload? (s : String) : Option (Option Bytes) :=
  if s == "bad" then some none
  else if s.startsWith "h" then (parseBytes? (s.drop 1).toString).map some
  else none

def parseSupplied? (s : String) : Option Supplied :=
  if s == "nil" then some .absent
  else if s == "empty" then some .empty
  else if s == "bad" then some .bad
  else if s.startsWith "h" then (parseBytes? (s.drop 1).toString).map Supplied.bytes
  else none

def showRes : Res → String
  | .rejected => "rejected"
  | _ => "ok"

/-- `blk`: the message is the only one of a block, the observation is taken after the end blocker -/
def report (s : Paloma.Scheduler.State) (op : Op) (blk : Bool) (raw : String) : State × String :=
  let r := txStep s op
  let s' := if blk then endBlock r.1 else r.1
  (⟨s'⟩, s!"{showRes r.2} {s'.jobs.length} {delta s s'} {raw}")

def parseMode? (s : String) : Option Bool :=
  if s == "b" then some true else if s == "g" then some false else none

def step (st : State) (args : List String) : State × String :=
  let s := st.s
  match args with
  | ["reset", snap, chains] =>
    match parseNat? snap, (splitList chains).mapM parseChain? with
    | some snap, some cs =>
      (⟨{ jobs := [], order := cs.map (·.1), snap := snap,
          chain := ⟨fun n => (cs.find? (fun c => c.1 == n)).map (·.2)⟩ }⟩, "ok")
    | _, _ => (st, "bad-op")
  | ["create", mode, owner, id, ct, ch, d, p, m, mev] =>
    match parseMode? mode, parseBytes? owner, parseBytes? id, parseDef? d, parsePayload? p, parseBool? m, parseBool? mev with
    | some blk, some owner, some id, some d, some p, some m, some mev =>
      report s (.create { owner := owner, id := id, chainType := parseStr ct, chain := parseStr ch,
                          defn := d, payload := p, modifiable := m, mev := mev }) blk "*"
    | _, _, _, _, _, _, _ => (st, "bad-op")
  | ["exec", mode, entry, snd, con, id, sup] =>
    match parseMode? mode, parseOptBytes? snd, parseOptBytes? con, parseBytes? id, parseSupplied? sup with
    | some blk, some snd, some con, some id, some sup =>
      let caller : Caller := { sender := snd, contract := con }
      if entry == "msg" then report s (.exec id sup caller) blk "*"
      else if entry == "keeper" then
        report s (.exec id sup caller) blk (delta s (execRaw s id sup caller).1)
      else if entry == "wasm" || entry == "legacy" then
        match snd, sup with
        | some addr, .bytes b =>
          if snd != con then (st, "bad-op")
          else if entry == "wasm" then
            report s (.execWasm addr id b) blk
              (if id.length == 0 || b.length == 0 then "-" else delta s (execRaw s id (.bytes b) (Caller.wasm addr)).1)
          else
            report s (.execLegacy addr id b) blk
              (if id.length == 0 then "-" else delta s (execRaw s id (.bytes b) (Caller.wasm addr)).1)
        | _, _ => (st, "bad-op")
      else (st, "bad-op")
    | _, _, _, _, _ => (st, "bad-op")
  | ["relay", mode, ch, on] =>
    match parseMode? mode, parseBool? on with
    | some blk, some on => report s (.relay ch on) blk "*"
    | _, _ => (st, "bad-op")
  | ["bump", mode, ch, mev] =>
    match parseMode? mode, parseBool? mev with
    | some blk, some mev => report s (.bump ch mev) blk "*"
    | _, _ => (st, "bad-op")
  | ["publish", mode, ch] =>
    match parseMode? mode with
    | some blk => report s (.publish ch) blk "*"
    | none => (st, "bad-op")
  | ["endblock"] =>
    let s' := endBlock s
    (⟨s'⟩, s!"ok {s'.jobs.length} {delta s s'} *")
  | ["jobs"] => (st, showJobs s)
  | ["queues"] => (st, showQueues s)
  | _ => (st, "bad-op")

end Driver.C17
