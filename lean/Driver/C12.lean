import PalomaModel.Model.KeepAlive
import Driver.Util
namespace Driver.C12
open Paloma.KeepAlive

structure State where
  s : St := St.init

def init : State := {}

def hexVal (c : Char) : Option Nat :=
  if '0' ≤ c && c ≤ '9' then some (c.toNat - 48)
  else if 'a' ≤ c && c ≤ 'f' then some (c.toNat - 87)
  else none

def parseHexChars : List Char → Option (List UInt8)
  | [] => some []
  | [_] => none
  | a :: b :: rest => do
    let x ← hexVal a
    let y ← hexVal b
    let r ← parseHexChars rest
    pure (UInt8.ofNat (16 * x + y) :: r)

/-- byte strings are written `x<hex>` (`x` alone is the empty string) -/
def parseBytes? (s : String) : Option (List UInt8) :=
  match s.toList with
  | 'x' :: rest => parseHexChars rest
  | _ => none

/-- `-` = absent -/
def parseOptBytes? (s : String) : Option (Option (List UInt8)) :=
  if s == "-" then some none else (parseBytes? s).map some

def hexChar (n : Nat) : Char := Char.ofNat (if n < 10 then 48 + n else 87 + n)

def showBytes (b : List UInt8) : String :=
  "x" ++ String.ofList (b.flatMap fun c => [hexChar (c.toNat / 16), hexChar (c.toNat % 16)])

/-- printable ASCII without space: written verbatim after `t:`, anything else as hex -/
def showBlob (b : List UInt8) : String :=
  if b.all (fun c => 33 ≤ c.toNat && c.toNat ≤ 126) then "t:" ++ String.ofList (b.map fun c => Char.ofNat c.toNat)
  else showBytes b

def parseStatus? : String → Option Status
  | "b" => some .bonded
  | "u" => some .unbonding
  | "n" => some .unbonded
  | _ => none

def showStatus : Status → String
  | .bonded => "b"
  | .unbonding => "u"
  | .unbonded => "n"

def showOptInt : Option Int → String
  | some x => toString x
  | none => "-"

def showRes : Res → String
  | .ok => "ok"
  | .rejected => "rejected"

def showVal (s : St) (v : Val) : String :=
  let lg := s.jailLog.get v.addr
  s!"{showBytes (v.addr.take 2)}:{showStatus v.status}:{if v.jailed then 1 else 0}:{v.power}:" ++
  s!"{showOptInt (s.alive.get v.addr)}:{showOptInt (s.grace.get v.addr)}:" ++
  s!"{showOptInt (lg.map (·.duration))}:{showOptInt (lg.map (·.jailedAt))}:{showOptInt (s.jailedUntil.get v.addr)}"

def showReq (s : St) : String :=
  let sch := match s.scheduled with
    | some (v, t) => s!"{showBytes v}@{t}"
    | none => "-"
  s!"min={showBytes s.minVersion} sched={sch}"

def showState (s : St) : String :=
  let vs := if s.vals.isEmpty then "-" else ";".intercalate (s.vals.map (showVal s))
  s!"vals={vs} {showReq s}"

def showPrev (s : St) : String :=
  match s.prev with
  | some b => showBlob b
  | none => "none"

/-- insertion sort of byte strings (length, then bytes) and removal of duplicates, for set output -/
def sortAddrs (l : List Addr) : List Addr :=
  l.foldl (fun acc x =>
    if acc.contains x then acc else
    let (lo, hi) := acc.partition (fun y => addrLt y x)
    lo ++ [x] ++ hi) []

def showAddrs (l : List Addr) : String :=
  if l.isEmpty then "-" else ",".intercalate (l.map showBytes)

def parseAddrs? (s : String) : Option (List Addr) := (splitList s).mapM parseBytes?

def withRes (p : St × Res) : State × String := ({ s := p.1 }, showRes p.2 ++ " " ++ showState p.1)

def step (d : State) (args : List String) : State × String :=
  match args with
  | ["reset"] => (init, "ok")
  | ["addval", a, st, j, p] =>
    match parseBytes? a, parseStatus? st, parseNat? j, parseNat? p with
    | some a, some st, some j, some p =>
      withRes (addVal d.s { addr := a, status := st, jailed := j != 0, power := p })
    | _, _, _, _ => (d, "bad-op")
  | ["status", a, st] =>
    match parseBytes? a, parseStatus? st with
    | some a, some st => let p := setStatus d.s a st; ({ s := p.1 }, showRes p.2)
    | _, _ => (d, "bad-op")
  | ["power", a, p] =>
    match parseBytes? a, parseNat? p with
    | some a, some p => let q := setPower d.s a p; ({ s := q.1 }, showRes q.2)
    | _, _ => (d, "bad-op")
  | ["extjail", a] =>
    match parseBytes? a with
    | some a => withRes (extJail d.s a)
    | none => (d, "bad-op")
  | ["extunjail", a] =>
    match parseBytes? a with
    | some a => withRes (extUnjail d.s a)
    | none => (d, "bad-op")
  | ["unjail", t, a] =>
    match parseInt? t, parseBytes? a with
    | some t, some a => let p := unjail d.s t a; ({ s := p.1 }, showRes p.2)
    | _, _ => (d, "bad-op")
  | ["jail", t, a] =>
    match parseInt? t, parseBytes? a with
    | some t, some a => withRes (jail d.s t a)
    | _, _ => (d, "bad-op")
  | ["keepalive", h, a, v] =>
    match parseInt? h, parseBytes? a, parseBytes? v with
    | some h, some a, some v => let p := keepAlive d.s h a v; ({ s := p.1 }, showRes p.2)
    | _, _, _ => (d, "bad-op")
  | ["setalive", a, u] =>
    -- test hook: a keep-alive record written directly into the store
    match parseBytes? a, parseInt? u with
    | some a, some u => withRes ({ d.s with alive := d.s.alive.set a u }, .ok)
    | _, _ => (d, "bad-op")
  | ["setlog", a, dur, jat] =>
    -- test hook: a jail record written directly into the store
    match parseBytes? a, parseInt? dur, parseInt? jat with
    | some a, some dur, some jat =>
      withRes ({ d.s with jailLog := d.s.jailLog.set a { duration := dur, jailedAt := jat } }, .ok)
    | _, _, _ => (d, "bad-op")
  | ["setprev", b] =>
    -- test hook: a snapshot blob written directly into the store (a pre-upgrade store)
    match parseBytes? b with
    | some b => let s' := { d.s with prev := some b }; ({ s := s' }, "ok prev=" ++ showPrev s')
    | none => (d, "bad-op")
  | ["setmin", v] =>
    match parseBytes? v with
    | some v => withRes (setMinVersion d.s v)
    | none => (d, "bad-op")
  | ["schedule", v, t] =>
    match parseBytes? v, parseNat? t with
    | some v, some t => withRes (scheduleMinVersion d.s v t)
    | _, _ => (d, "bad-op")
  | ["proposal", h, v, t] =>
    match parseInt? h, parseBytes? v, parseNat? t with
    | some h, some v, some t => withRes (proposal d.s h v t)
    | _, _, _ => (d, "bad-op")
  | ["proposalq", h, v, t] =>
    -- the same handler run by the gov end blocker: only the result is observable
    match parseInt? h, parseBytes? v, parseNat? t with
    | some h, some v, some t => let p := proposal d.s h v t; ({ s := p.1 }, showRes p.2)
    | _, _, _ => (d, "bad-op")
  | ["genesis", v, sv, t] =>
    -- `InitGenesis`: current requirement, then scheduled requirement (`-` = absent); panic = rejected
    match parseOptBytes? v, parseOptBytes? sv, parseNat? t with
    | some v, some sv, some t => withRes (initGenesis d.s v (sv.map fun x => (x, t)))
    | _, _, _ => (d, "bad-op")
  | ["minhist", a, b] =>
    -- the clause itself on two minimum-version strings observed in this order: may `b` follow `a`
    -- (`a ≤ b`), and is `b` a version at all (an invalid minimum switches the gate off)
    match parseBytes? a, parseBytes? b with
    | some a, some b =>
      (d, (if vlt b a then "decreased" else "kept") ++ (if vvalid b then " valid" else " invalid"))
    | _, _ => (d, "bad-op")
  | ["beginblock", h] =>
    match parseInt? h with
    | some h => ({ s := beginBlock d.s h }, "ok")
    | none => (d, "bad-op")
  | ["endblock", h, t] =>
    match parseInt? h, parseInt? t with
    | some h, some t =>
      let s' := endBlock d.s h t
      ({ s := s' }, showState s' ++ " prev=" ++ showPrev s')
    | _, _ => (d, "bad-op")
  -- pure operations
  | ["vcmp", a, b] =>
    match parseBytes? a, parseBytes? b with
    | some a, some b => (d, toString (vcmp a b) ++ (if vvalid a then " v" else " i") ++ (if vvalid b then "v" else "i"))
    | _, _ => (d, "bad-op")
  | ["encode", l] =>
    match parseAddrs? l with
    | some l => (d, showBlob (encodeSet l))
    | none => (d, "bad-op")
  | ["decode", b] =>
    match parseBytes? b with
    | some b => (d, showAddrs (sortAddrs (decodeSet b)))
    | none => (d, "bad-op")
  | ["members", b, l] =>
    -- which of the probe addresses are in the decoded set (1/0 per probe)
    match parseBytes? b, parseAddrs? l with
    | some b, some l =>
      (d, String.ofList (l.map fun a => if (decodeSet b).contains a then '1' else '0'))
    | _, _ => (d, "bad-op")
  | ["sentence", dur] =>
    match parseInt? dur with
    | some dur => (d, s!"{deriveSentence dur} {deriveSentenceLoop dur} {resetThreshold dur}")
    | none => (d, "bad-op")
  | _ => (d, "bad-op")

end Driver.C12
