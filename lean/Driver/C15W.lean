import Driver.Util
import PalomaModel.Model.Bridge
namespace Driver.C15W
open Paloma.Bridge

/-- `C15W walk <periodBlocks> <limit> <a1> <h0> <dh> <a2>`: a limit of `limit` per `periodBlocks` blocks on a token
    nobody has used; sender 1 (not exempt) sends `a1` at height `h0` and `a2` at `h0 + dh`.  The answers are the model's
    `limitStep`, the function the C15 window theorems are about. -/
def stepWalk (args : List String) : String :=
  match args with
  | ["walk", p, l, a1, h0, dh, a2] =>
    match p.toNat?, l.toNat?, a1.toNat?, h0.toNat?, dh.toNat?, a2.toNat? with
    | some p, some l, some a1, some h0, some dh, some a2 =>
      let cfg : Option LimitCfg := some { period := p, limit := l, exempt := [] }
      let say (o : Option (Option Usage)) : String := if o.isSome then "ok" else "rejected"
      let r1 := limitStep cfg none 1 a1 h0
      let u1 : Option Usage := match r1 with
        | some u => u
        | none => none
      let r2 := limitStep cfg u1 1 a2 (h0 + dh)
      say r1 ++ " " ++ say r2
    | _, _, _, _, _, _ => "bad-op"
  | _ => "bad-op"

end Driver.C15W
