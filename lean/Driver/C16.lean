import PalomaModel.Model.TokenFactory
import Driver.Util
namespace Driver.C16
open Paloma.TokenFactory

/-- driver state: model state + the denominations / addresses whose ledger rows are printed -/
structure State where
  st : St
  /-- printed with supply, admin, metadata and all balances -/
  watch : List Denom
  /-- printed with metadata and the user balances only (ugrain: its supply inflates every block) -/
  light : List Denom

def init : State := ⟨St.genesis (fun _ _ => 0) (fun _ => 0) (fun _ => none) 0 noGrants, [], []⟩

/-- addresses whose balances are printed: four users, two key-less addresses, the tokenfactory
module account and the distribution module account -/
def users : List Addr := [0, 1, 2, 3, 4, 5]
def holders : List Addr := users ++ [moduleAcc, poolAcc]

/-! ### string encoding: `~` is the empty string, `%XX` a raw byte, `@n` (as a whole `/`-part) the
bech32 text of address `n` -/

def hexVal? (c : Char) : Option Nat :=
  if c.isDigit then some (c.toNat - '0'.toNat)
  else if 'a' ≤ c ∧ c ≤ 'f' then some (c.toNat - 'a'.toNat + 10)
  else if 'A' ≤ c ∧ c ≤ 'F' then some (c.toNat - 'A'.toNat + 10)
  else none

def decodeChars : List Char → Option (List Char)
  | [] => some []
  | '%' :: a :: b :: rest => do
    let x ← hexVal? a
    let y ← hexVal? b
    let r ← decodeChars rest
    pure (Char.ofNat (x * 16 + y) :: r)
  | '%' :: _ => none
  | c :: rest => do
    let r ← decodeChars rest
    pure (c :: r)

def parsePart? (s : String) : Option Part :=
  match s.toList with
  | '@' :: ds =>
    if ds.isEmpty then none else
    match (String.ofList ds).toNat? with
    | some n => some (.addr n)
    | none => none
  | cs => (decodeChars cs).map fun l => .txt (String.ofList l)

def parseDenom? (s : String) : Option Denom :=
  if s == "~" then some [.txt ""] else (s.splitOn "/").mapM parsePart?

def parseDenomList? (s : String) (sep : String) : Option (List Denom) :=
  if s == "-" then some [] else (s.splitOn sep).mapM parseDenom?

/-- `@n` address, `~` empty string, `!` not an address -/
def parseAddrArg? (s : String) : Option AddrArg :=
  if s == "~" then some .empty
  else if s == "!" then some .bad
  else match parsePart? s with
    | some (.addr a) => some (.addr a)
    | _ => none

def parseBool? (s : String) : Option Bool :=
  if s == "1" then some true else if s == "0" then some false else none

def parseBase? (s : String) : Option (Option Denom) :=
  if s == "-" then some none else (parseDenom? s).map some

/-- metadata attached to `wcreate`: `-` or `<-|base>,<body>,<0|1>,<tag>` -/
def parseMd? (s : String) : Option (Option WMeta) :=
  if s == "-" then some none else
  match s.splitOn "," with
  | [b, y, a, t] => do pure (some ⟨← parseBase? b, ← parseDenom? y, ← parseBool? a, ← parseNat? t⟩)
  | _ => none

/-! ### output -/

def showRej : Rej → String
  | .denomExists => "tf2"
  | .unauth => "tf3"
  | .invDenom => "tf4"
  | .subTooLong => "tf8"
  | .noDenom => "tf10"
  | .coins => "sdk10"
  | .funds => "sdk5"
  | .pubkey => "sdk8"
  | .blocked => "sdk4"
  | .other => "err"

def showRes : Res → String
  | .ok => "ok"
  | .panic => "panic"
  | .rej r => "rej:" ++ showRej r

def showOptNat : Option Nat → String
  | none => "-"
  | some n => toString n

def showBals (st : St) (d : Denom) (l : List Addr) : String :=
  ",".intercalate (l.map fun a => toString (st.bal a d))

def showState (s : State) : String :=
  let full := s.watch.map fun d =>
    s!"{s.st.supply d}|{showOptNat (s.st.admin d)}|{showOptNat (s.st.dmeta d)}|{showBals s.st d holders}"
  let light := s.light.map fun d => s!"{showOptNat (s.st.dmeta d)}|{showBals s.st d users}"
  " ".intercalate (full ++ light)

def out (s : State) (r : St × Res) : State × String :=
  let s' := { s with st := r.1 }
  (s', showRes r.2 ++ " " ++ showState s')

/-! ### `any`: a contract's protobuf dispatch.  Prefix notation, tokens separated by `;`, fields by `,`:
  `x,<grantee>,<n>` followed by its `n` messages (an `authz.MsgExec`)
  `c,<signer>,<creator>,<subdenom>`           `m|b,<signer>,<creator>,<denom>,<amount>`
  `a,<signer>,<creator>,<denom>,<newadmin>`   `s,<signer>,<creator>,<denom>,<mdok>,<tag>` -/

def parseTf? : List String → Option TfMsg
  | ["c", sg, c, sub] => do pure (.create (← parseNat? sg) (← parseNat? c) (← parseDenom? sub))
  | ["m", sg, c, d, amt] => do pure (.mint (← parseNat? sg) (← parseNat? c) (← parseDenom? d) (← parseInt? amt))
  | ["b", sg, c, d, amt] => do pure (.burn (← parseNat? sg) (← parseNat? c) (← parseDenom? d) (← parseInt? amt))
  | ["a", sg, c, d, new] => do pure (.chadmin (← parseNat? sg) (← parseNat? c) (← parseDenom? d) (← parseAddrArg? new))
  | ["s", sg, c, d, ok, tag] => do
    pure (.setmeta (← parseNat? sg) (← parseNat? c) (← parseDenom? d) (← parseBool? ok) (← parseNat? tag))
  | _ => none

mutual
def parseItem? : Nat → List String → Option (PMsg × List String)
  | 0, _ => none
  | _, [] => none
  | fuel + 1, tok :: rest =>
    match tok.splitOn "," with
    | ["x", g, n] => do
      let g ← parseNat? g
      let n ← parseNat? n
      let r ← parseMany? fuel n rest
      pure (.exec g r.1, r.2)
    | fs => (parseTf? fs).map fun m => (.tf m, rest)
def parseMany? : Nat → Nat → List String → Option (PMsgs × List String)
  | 0, _, _ => none
  | _ + 1, 0, rest => some (.nil, rest)
  | fuel + 1, n + 1, rest => do
    let r1 ← parseItem? fuel rest
    let r2 ← parseMany? fuel n r1.2
    pure (.cons r1.1 r2.1, r2.2)
end

def parseAny? (s : String) : Option PMsg :=
  let toks := s.splitOn ";"
  match parseItem? (2 * toks.length + 2) toks with
  | some (m, []) => some m
  | _ => none

/-- a dispatch is answered `ok` / `rej` (which of the layers refused it is not compared) -/
def outAny (s : State) (r : St × Res) : State × String :=
  let s' := { s with st := r.1 }
  (s', (if r.2 = .ok then "ok" else "rej") ++ " " ++ showState s')

/-! ### `reset` arguments -/

def splitSemi (s : String) : List String :=
  if s == "-" || s == "" then [] else s.splitOn ";"

/-- `addr=denom=amount;…` -/
def parseBals? (s : String) : Option (List (Addr × Denom × Nat)) :=
  (splitSemi s).mapM fun x => match x.splitOn "=" with
    | [a, d, n] => do pure (← parseNat? a, ← parseDenom? d, ← parseNat? n)
    | _ => none

def parseOptNat? (s : String) : Option (Option Nat) :=
  if s == "-" then some none else (parseNat? s).map some

/-- `denom=supply=meta=admin;…` (`meta` = `-` or a tag, `admin` = `-` or an address index) -/
def parseNatives? (s : String) : Option (List (Denom × Nat × Option Nat × Option Nat)) :=
  (splitSemi s).mapM fun x => match x.splitOn "=" with
    | [d, n, m, a] => do pure (← parseDenom? d, ← parseNat? n, ← parseOptNat? m, ← parseOptNat? a)
    | _ => none

def parseGrants? (s : String) : Option (List (Addr × Addr)) := parsePairList? s

def mkGenesis (fee : Nat) (bals : List (Addr × Denom × Nat)) (grants : List (Addr × Addr))
    (nat : List (Denom × Nat × Option Nat × Option Nat)) : St :=
  let bal := bals.foldl (fun f x => updB f x.1 x.2.1 x.2.2) (fun _ _ => 0)
  let sup := nat.foldl (fun f x => updD f x.1 x.2.1) (fun _ => 0)
  let md := nat.foldl (fun f x => updD f x.1 x.2.2.1) (fun _ => (none : Option Nat))
  let ad := nat.foldl (fun f x => updD f x.1 x.2.2.2) (fun _ => (none : Option Nat))
  let g := grants.foldl (fun f x => updG f x.1 x.2 true) (fun _ _ => false)
  { St.genesis bal sup md fee g with admin := ad }

/-- ops (every answer is `<result> <ledger rows>`; denominations/addresses in the encoding above):
  `reset <fee> <addr=denom=amount;…|-> <granter:grantee,…|-> <denom=supply=meta=admin;…|-> <watch;…|-> <light;…|->`
  `setfee <n>`
  `create <mode> <signer> <creator> <subdenom>`
  `mint|burn <mode> <signer> <creator> <denom> <amount>`
  `chadmin <mode> <signer> <creator> <denom> <newadmin>`
  `setmeta <mode> <signer> <creator> <denom> <mdok> <tag>`
  `wcreate <contract> <subdenom> <-|<-|base>,<body>,<mdok>,<tag>>`
  `wmint <contract> <denom> <amount> <to>`        `wburn <contract> <denom> <amount> <from>`
  `wchadmin <contract> <denom> <newadmin>`         `wsetmeta <contract> <denom> <-|base> <body> <mdok> <tag>`
  (`base` = `metadata.base`, `body` = `metadata.display` = `metadata.denom_units[0].denom`)
  `send <from> <to> <denom> <amount>`              `grant|revoke <granter> <grantee>`
  `any <contract> <message tree>`  (the contract dispatches a protobuf message — `CosmosMsg::Any` — see `parseAny?`) -/
def step (s : State) (args : List String) : State × String :=
  match args with
  | ["reset", fee, bals, grants, nat, watch, light] =>
    match parseNat? fee, parseBals? bals, parseGrants? grants, parseNatives? nat,
          parseDenomList? watch ";", parseDenomList? light ";" with
    | some fee, some bals, some grants, some nat, some watch, some light =>
      let s' : State := ⟨mkGenesis fee bals grants nat, watch, light⟩
      (s', "ok " ++ showState s')
    | _, _, _, _, _, _ => (s, "bad-op")
  | ["setfee", n] =>
    match parseNat? n with
    | some n => out s (Paloma.TokenFactory.step s.st (.setfee n))
    | none => (s, "bad-op")
  | ["create", mode, sg, c, sub] =>
    match parseNat? mode, parseNat? sg, parseNat? c, parseDenom? sub with
    | some mode, some sg, some c, some sub => out s (Paloma.TokenFactory.step s.st (.create mode sg c sub))
    | _, _, _, _ => (s, "bad-op")
  | ["mint", mode, sg, c, d, amt] =>
    match parseNat? mode, parseNat? sg, parseNat? c, parseDenom? d, parseInt? amt with
    | some mode, some sg, some c, some d, some amt => out s (Paloma.TokenFactory.step s.st (.mint mode sg c d amt))
    | _, _, _, _, _ => (s, "bad-op")
  | ["burn", mode, sg, c, d, amt] =>
    match parseNat? mode, parseNat? sg, parseNat? c, parseDenom? d, parseInt? amt with
    | some mode, some sg, some c, some d, some amt => out s (Paloma.TokenFactory.step s.st (.burn mode sg c d amt))
    | _, _, _, _, _ => (s, "bad-op")
  | ["chadmin", mode, sg, c, d, new] =>
    match parseNat? mode, parseNat? sg, parseNat? c, parseDenom? d, parseAddrArg? new with
    | some mode, some sg, some c, some d, some new => out s (Paloma.TokenFactory.step s.st (.chadmin mode sg c d new))
    | _, _, _, _, _ => (s, "bad-op")
  | ["setmeta", mode, sg, c, d, ok, tag] =>
    match parseNat? mode, parseNat? sg, parseNat? c, parseDenom? d, parseBool? ok, parseNat? tag with
    | some mode, some sg, some c, some d, some ok, some tag =>
      out s (Paloma.TokenFactory.step s.st (.setmeta mode sg c d ok tag))
    | _, _, _, _, _, _ => (s, "bad-op")
  | ["wcreate", a, sub, md] =>
    match parseNat? a, parseDenom? sub, parseMd? md with
    | some a, some sub, some md => out s (Paloma.TokenFactory.step s.st (.wcreate a sub md))
    | _, _, _ => (s, "bad-op")
  | ["wmint", a, d, amt, to] =>
    match parseNat? a, parseDenom? d, parseInt? amt, parseAddrArg? to with
    | some a, some d, some amt, some to => out s (Paloma.TokenFactory.step s.st (.wmint a d amt to))
    | _, _, _, _ => (s, "bad-op")
  | ["wburn", a, d, amt, frm] =>
    match parseNat? a, parseDenom? d, parseInt? amt, parseAddrArg? frm with
    | some a, some d, some amt, some frm => out s (Paloma.TokenFactory.step s.st (.wburn a d amt frm))
    | _, _, _, _ => (s, "bad-op")
  | ["wchadmin", a, d, new] =>
    match parseNat? a, parseDenom? d, parseAddrArg? new with
    | some a, some d, some new => out s (Paloma.TokenFactory.step s.st (.wchadmin a d new))
    | _, _, _ => (s, "bad-op")
  | ["wsetmeta", a, d, base, body, ok, tag] =>
    match parseNat? a, parseDenom? d, parseBase? base, parseDenom? body, parseBool? ok, parseNat? tag with
    | some a, some d, some base, some body, some ok, some tag =>
      out s (Paloma.TokenFactory.step s.st (.wsetmeta a d base body ok tag))
    | _, _, _, _, _, _ => (s, "bad-op")
  | ["send", a, b, d, amt] =>
    match parseNat? a, parseNat? b, parseDenom? d, parseInt? amt with
    | some a, some b, some d, some amt => out s (Paloma.TokenFactory.step s.st (.send a b d amt))
    | _, _, _, _ => (s, "bad-op")
  | ["any", a, tree] =>
    match parseNat? a, parseAny? tree with
    | some a, some m => outAny s (anyStep s.st a m)
    | _, _ => (s, "bad-op")
  | ["reimport"] =>
    -- genesis export, wipe, import of the token factory: nothing the property speaks about may change
    out s (Paloma.TokenFactory.reimport s.st, .ok)
  | ["grant", c, g] =>
    match parseNat? c, parseNat? g with
    | some c, some g => out s (Paloma.TokenFactory.step s.st (.grant c g))
    | _, _ => (s, "bad-op")
  | ["revoke", c, g] =>
    match parseNat? c, parseNat? g with
    | some c, some g => out s (Paloma.TokenFactory.step s.st (.revoke c g))
    | _, _ => (s, "bad-op")
  | _ => (s, "bad-op")

end Driver.C16
