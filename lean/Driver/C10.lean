import PalomaModel.Model.Valset
import Driver.Util
/-
Line protocol of C10 (model `Model/Valset.lean`).
  traits   `_` | t+t+…            acct   ctype.chain.addr.traits        accts  `-` | acct,acct,…
  val      id/share/accts          vals   `-` | val;val;…
  sval     id/(b|u|n)/(0|1)/tokens svals  `-` | sval;sval;…
Pure ops (stateless):  tx <chain> <vals>      en <powers>
Stateful ops:          reset | stake <svals> | reg <v> <accts> | sup <c> | act <c> | rem <c>
                       build <now> <picks> | onchain <id> <c> | jit <c> <pick 0|1> | valset <id> <c>
                       jitbus <c> <pick 0|1>   (SkywayBatchBuilt event: same update, error dropped)
                       jiteb <c> <pick 0|1>    (end blocker with a fee-paying message queued for <c>)
                       brief <0|1>             (compact state lines for LONG histories: `n=<stored> lo=<lowest stored id>`
                                                instead of every stored snapshot; a pure display switch)
                       snap <id>               (`FindSnapshotByID`: the stored record or `none`)
                       live <c>                (`GetLatestSnapshotOnChain`: the id or `none`)
`build` answers `built <id> …`, `none …` (not worthy) or `panic …` (Go's `QuoInt(TotalShares)` divides
by zero: `buildPanics`; the harness reports a panicking op the same way, with the state unchanged).
-/
namespace Driver.C10
open Paloma.Valset

structure State where
  s : St := St.init
  brief : Bool := false

def init : State := {}

def listOr (empty sep : String) (l : List String) : String :=
  if l.isEmpty then empty else sep.intercalate l

def parseSep? {α} (empty sep : String) (f : String → Option α) (s : String) : Option (List α) :=
  if s == empty || s == "" then some [] else (s.splitOn sep).mapM f

def parseAcct? (s : String) : Option Acct :=
  match s.splitOn "." with
  | [t, c, a, tr] => do
    pure { ctype := ← parseNat? t, chain := ← parseNat? c, addr := ← parseNat? a,
           traits := ← parseSep? "_" "+" parseNat? tr }
  | _ => none

def parseAccts? (s : String) : Option (List Acct) := parseSep? "-" "," parseAcct? s

def parseVal? (s : String) : Option Val :=
  match s.splitOn "/" with
  | [i, sh, a] => do pure { id := ← parseNat? i, share := ← parseNat? sh, accts := ← parseAccts? a }
  | _ => none

def parseStatus? : String → Option Status
  | "b" => some .bonded
  | "u" => some .unbonding
  | "n" => some .unbonded
  | _ => none

def parseSVal? (s : String) : Option SVal :=
  match s.splitOn "/" with
  | [i, st, j, t] => do
    let j ← parseNat? j
    pure { id := ← parseNat? i, status := ← parseStatus? st, jailed := j != 0, tokens := ← parseNat? t }
  | _ => none

def showAcct (a : Acct) : String :=
  s!"{a.ctype}.{a.chain}.{a.addr}." ++ listOr "_" "+" (a.traits.map toString)

def showVal (v : Val) : String := s!"{v.id}/{v.share}/" ++ listOr "-" "," (v.accts.map showAcct)

def showSnapshot (sn : Snapshot) : String :=
  s!"{sn.id}|{sn.total}|{sn.createdAt}|" ++ listOr "_" "+" (sn.chains.map toString) ++ "|" ++
    listOr "-" ";" (sn.vals.map showVal)

def showValset (v : Valset) : String :=
  s!"{v.id}|" ++ listOr "-" "," (v.members.map fun m => s!"{m.1}:{m.2}")

def insQ (x : Nat × Valset) : List (Nat × Valset) → List (Nat × Valset)
  | [] => [x]
  | y :: ys => if x.1 < y.1 then x :: y :: ys else y :: insQ x ys

def showState (d : State) : String :=
  let s := d.s
  let cur := match current s with
    | some c => toString c.id
    | none => "-"
  let q := (visibleQueue s).foldr insQ []
  let snaps :=
    if d.brief then s!"n={s.snaps.length} lo={(s.snaps.head?.map (·.id)).getD 0}"
    else "snaps=" ++ listOr "-" "#" (s.snaps.map showSnapshot)
  s!"last={s.lastId} cur={cur} " ++ snaps ++
    " q=" ++ listOr "-" "#" (q.map fun p => s!"{p.1}={showValset p.2}")

def showRes : Res → String
  | .ok => "ok"
  | .rejected => "rejected"

def showPure (v : Valset) : String :=
  s!"sum={powerSum v} enough={if enough v then 1 else 0} vs={showValset v}"

def withRes (d : State) (r : St × Res) : State × String :=
  let d' : State := { d with s := r.1 }
  (d', showRes r.2 ++ " " ++ showState d')

def step (d : State) (args : List String) : State × String :=
  match args with
  | ["reset"] => (init, "ok")
  | ["brief", b] =>
    match parseNat? b with
    | some b => ({ d with brief := b != 0 }, "ok")
    | none => (d, "bad-op")
  | ["snap", i] =>
    match parseNat? i with
    | some i =>
      match findSnapshot d.s i with
      | some sn => (d, showSnapshot sn)
      | none => (d, "none")
    | none => (d, "bad-op")
  | ["live", c] =>
    match parseNat? c with
    | some c =>
      match latestOnChain d.s c with
      | some sn => (d, toString sn.id)
      | none => (d, "none")
    | none => (d, "bad-op")
  | ["tx", c, vs] =>
    match parseNat? c, parseSep? "-" ";" parseVal? vs with
    | some c, some vs =>
      (d, showPure (transform { id := 7, vals := vs, total := sumShares vs, createdAt := 0, chains := [] } c))
    | _, _ => (d, "bad-op")
  | ["en", ps] =>
    match parseNatList? ps with
    | some ps => (d, showPure { id := 7, members := ps.map fun p => (0, p) })
    | none => (d, "bad-op")
  | ["stake", l] =>
    match parseSep? "-" ";" parseSVal? l with
    | some l => let d' : State := { d with s := Paloma.Valset.step d.s (.setStaking l) }; (d', "ok")
    | none => (d, "bad-op")
  | ["reg", v, a] =>
    match parseNat? v, parseAccts? a with
    | some v, some a => withRes d (register d.s v a)
    | _, _ => (d, "bad-op")
  | ["sup", c] =>
    match parseNat? c with
    | some c => withRes d (support d.s c)
    | none => (d, "bad-op")
  | ["act", c] =>
    match parseNat? c with
    | some c => withRes d (activate d.s c)
    | none => (d, "bad-op")
  | ["rem", c] =>
    match parseNat? c with
    | some c => withRes d (remove d.s c)
    | none => (d, "bad-op")
  | ["build", now, picks] =>
    match parseNat? now, parseNatList? picks with
    | some now, some picks =>
      let r := build d.s now picks
      let d' : State := { d with s := r.1 }
      let o := match r.2 with
        | some sn => s!"built {sn.id}"
        | none => if buildPanics d.s now then "panic" else "none"
      (d', o ++ " " ++ showState d')
    | _, _ => (d, "bad-op")
  | ["onchain", i, c] =>
    match parseNat? i, parseNat? c with
    | some i, some c => withRes d (setOnChain d.s i c)
    | _, _ => (d, "bad-op")
  | ["jit", c, p] =>
    match parseNat? c, parseNat? p with
    | some c, some p => withRes d (jit d.s c (p != 0))
    | _, _ => (d, "bad-op")
  | ["jitbus", c, p] =>
    match parseNat? c, parseNat? p with
    | some c, some p => withRes d (jitBus d.s c (p != 0), .ok)
    | _, _ => (d, "bad-op")
  | ["jiteb", c, p] =>
    match parseNat? c, parseNat? p with
    | some c, some p => withRes d (jitEndBlock d.s c (p != 0))
    | _, _ => (d, "bad-op")
  | ["valset", i, c] =>
    match parseNat? i, parseNat? c with
    | some i, some c =>
      match (if i == 0 then current d.s else findSnapshot d.s i) with
      | some sn => (d, s!"sum={powerSum (transform sn c)} vs={showValset (transform sn c)}")
      | none => (d, "rejected")
    | _, _ => (d, "bad-op")
  | _ => (d, "bad-op")

end Driver.C10
