import PalomaModel.Model.SignBytes
import Driver.Util
import Driver.Abi
namespace Driver.C05
open Paloma.Abi Paloma.SignBytes

/-! Line protocol of C05 (signing bytes and queue ids).

Tokens: byte strings `x<hex>` (`x` alone = empty; Go strings travel as their UTF-8 bytes),
lists comma separated with `-` for the empty list, fees `n` (nil) or `r:c:s`, deadlines signed.

  sb uv    <turnstone> <relayer> <id> <estimate> <validators> <powers> <valsetId>
  sb slc   <turnstone> <relayer> <id> <estimate> <contract> <payload> <fees> <sender> <deadline>
  sb up    <turnstone> <relayer> <id> <estimate> <bytecode>
  sb usc   <turnstone> <relayer> <id> <estimate> <deployer> <bytecode> <fees> <sender> <deadline>
  sb ch    <turnstone> <relayer> <id> <estimate> <calls addr:payload,…> <deadline>
      → 64 hex digits of `Message.Keccak256WithSignedMessage` | `panic`
  sb batch <turnstone> <token> <dests> <txTokens> <amounts> <nonce> <timeout> <relayerBytes> <estimate>
      → 64 hex digits of `OutgoingTxBatch.GetCheckpoint` | `error`
  reset | put <queue> <replaceId> | del <queue> <id>
      → `ok <id>` | `notfound` | `zeroid`
  putm <queue> <replaceId> <base> <kind> <turnstone> <relayer> <fields…>     (fields as for `sb`, without id / estimate)
      → `ok <id> <64 hex digits>` | `notfound` | `zeroid`
      `Queue.Put` of that message (joint model `jqStep`): the digest is `GetBytesToSign` of the message AS STORED,
      i.e. hashed with the id the put returned (+ `base`, the offset between the chain's counter and the
      case-relative ids of the protocol) and the estimate kept by the wrapper.
  (`put` / `del` run the same joint model; `put` stores a placeholder message.)
  hasest <requireGasEstimation 0|1> <estimate>
      → `true` | `false` of `filters.HasGasEstimate` (is the message offered to relayers)
  bdep reset                                            → ok
  bdep chain <c> <activeId> <uid> <record>              → ok        (observed state of chain c)
  bdep activate <c> <scId> <uid>                        → `chain <activeId> <uid> <record>` | `nochain`
  bdep build <c> <token> <dests> <txTokens> <amounts> <nonce> <timeout> <relayerBytes>
      → `ok <64 hex digits>` (BytesToSign as issued) | `nochain` | `dup` | `rejected`
  bdep elect <token> <nonce> <estimate>
      → `ok <64 hex digits>` (BytesToSign as RE-issued) | `notfound` | `already` | `nochain` | `rejected`
  bdep reimport                                         → ok        (skyway genesis round trip)
  bdep rec <c>                                          → `rec <record>`
  bdep uv <c> <relayer> <id> <estimate> <validators> <powers> <valsetId>
      → 64 hex digits | `nochain`: `GetBytesToSign` of an UpdateValset message the evm keeper queued for chain c
        (`depMsgBytes`: the line carries no deployment id, the model takes the one of its chain info)
      model `depStep`: the deployment id inside the bytes is the one of the MODEL's chain info
-/

def parseBytes? (s : String) : Option Bytes :=
  match s.toList with
  | 'x' :: r =>
    match Driver.Abi.parseHex r [] with
    | (b, []) => some b
    | _ => none
  | _ => none

def parseBytesList? (s : String) : Option (List Bytes) := (splitList s).mapM parseBytes?

def parseIntList? (s : String) : Option (List Int) := (splitList s).mapM parseInt?

def parseFees? (s : String) : Option (Option Fees) :=
  if s == "n" then some none else
  match s.splitOn ":" with
  | [a, b, c] => do
    let a ← parseNat? a
    let b ← parseNat? b
    let c ← parseNat? c
    pure (some { relayer := a, community := b, security := c })
  | _ => none

def parseCall? (s : String) : Option (Bytes × Bytes) :=
  match s.splitOn ":" with
  | [a, b] => do pure (← parseBytes? a, ← parseBytes? b)
  | _ => none

def parseCalls? (s : String) : Option (List (Bytes × Bytes)) := (splitList s).mapM parseCall?

def showDigest (d : Nat) : String := toHex (word d)

def showSign (r : SignResult) : String :=
  match r with
  | .hash d => showDigest d
  | .panic => "panic"

def parseHead? (ts rel id est : String) : Option (Bytes × Bytes × Nat × Nat) := do
  pure (← parseBytes? ts, ← parseBytes? rel, ← parseNat? id, ← parseNat? est)

def mk (h : Bytes × Bytes × Nat × Nat) (a : GoAction) : GoMsg :=
  { turnstoneId := h.1, relayer := h.2.1, id := h.2.2.1, estimate := h.2.2.2, action := a }

def parseAction? (kind : String) (rest : List String) : Option GoAction :=
  match kind, rest with
  | "uv", [vals, pows, vid] => do
    pure (.updateValset { validators := ← parseBytesList? vals, powers := ← parseNatList? pows,
                          valsetId := ← parseNat? vid })
  | "slc", [c, p, fe, s, d] => do
    pure (.submitLogicCall (← parseBytes? c) (← parseBytes? p) (← parseFees? fe) (← parseBytes? s) (← parseInt? d))
  | "up", [bc] => do pure (.uploadSmartContract (← parseBytes? bc))
  | "usc", [dep, bc, fe, s, d] => do
    pure (.uploadUserSmartContract (← parseBytes? dep) (← parseBytes? bc) (← parseFees? fe) (← parseBytes? s)
      (← parseInt? d))
  | "ch", [cs, d] => do pure (.compassHandover (← parseCalls? cs) (← parseInt? d))
  | _, _ => none

/-- `kind ts rel id est fields…` → the Go-level message -/
def parseMsg? (args : List String) : Option GoMsg :=
  match args with
  | kind :: ts :: rel :: id :: est :: rest => do
    let h ← parseHead? ts rel id est
    let a ← parseAction? kind rest
    pure (mk h a)
  | _ => none

def parseBatch? (args : List String) : Option (Bytes × GoBatch) :=
  match args with
  | [ts, tok, dests, txt, amts, nonce, timeout, rel, est] => do
    pure (← parseBytes? ts,
      { token := ← parseBytes? tok, dests := ← parseBytesList? dests, tokenOfTx := ← parseBytesList? txt,
        amounts := ← parseIntList? amts, nonce := ← parseNat? nonce, timeout := ← parseNat? timeout,
        relayer := ← parseBytes? rel, estimate := ← parseNat? est })
  | _ => none

structure State where
  j : JqSt := {}
  dep : DepSt := {}

def init : State := {}

def showIdRes (r : IdRes) : String :=
  match r with
  | .ok id => s!"ok {id}"
  | .notFound => "notfound"
  | .zeroId => "zeroid"

def showX (b : Bytes) : String := "x" ++ toHex b

def showDep (o : DepOut) : String :=
  match o with
  | .ok => "ok"
  | .chain a u r => s!"chain {a} {showX u} {showX r}"
  | .bytes d => "ok " ++ showDigest d
  | .record r => "rec " ++ showX r
  | .noChain => "nochain"
  | .notFound => "notfound"
  | .already => "already"
  | .dup => "dup"
  | .rejected => "rejected"

def parseDep? (args : List String) : Option DepOp :=
  match args with
  | ["chain", c, a, uid, r] => do
    pure (.setChain (← parseNat? c) (← parseNat? a) (← parseBytes? uid) (← parseBytes? r))
  | ["activate", c, sc, uid] => do pure (.activate (← parseNat? c) (← parseNat? sc) (← parseBytes? uid))
  | ["build", c, tok, dests, txt, amts, nonce, timeout, rel] => do
    let b ← parseBatch? ["x", tok, dests, txt, amts, nonce, timeout, rel, "0"]
    pure (.build (← parseNat? c) b.2)
  | ["elect", tok, nonce, est] => do pure (.elect (← parseBytes? tok) (← parseNat? nonce) (← parseNat? est))
  | ["reimport"] => some .reimport
  | ["rec", c] => do pure (.getRec (← parseNat? c))
  | _ => none

def step (st : State) (args : List String) : State × String :=
  match args with
  | ["reset"] => (init, "ok")
  | ["bdep", "reset"] => ({ st with dep := {} }, "ok")
  | "bdep" :: "uv" :: c :: rel :: id :: est :: rest =>
    match parseNat? c, parseMsg? ("uv" :: "x" :: rel :: id :: est :: rest) with
    | some c, some m =>
      match depMsgBytes keccakNat st.dep c m with
      | some r => (st, showSign r)
      | none => (st, "nochain")
    | _, _ => (st, "bad-op")
  | "bdep" :: rest =>
    match parseDep? rest with
    | some op =>
      let r := depStep keccakNat st.dep op
      ({ st with dep := r.1 }, showDep r.2)
    | none => (st, "bad-op")
  | ["put", q, r] =>
    match parseNat? q, parseNat? r with
    | some q, some r =>
      let (s', res) := jqStep st.j (.put q default r)
      ({ st with j := s' }, showIdRes res)
    | _, _ => (st, "bad-op")
  | ["del", q, id] =>
    match parseNat? q, parseNat? id with
    | some q, some id =>
      let (s', res) := jqStep st.j (.remove q id)
      ({ st with j := s' }, showIdRes res)
    | _, _ => (st, "bad-op")
  | "putm" :: q :: r :: base :: kind :: ts :: rel :: rest =>
    match parseNat? q, parseNat? r, parseNat? base, parseMsg? (kind :: ts :: rel :: "0" :: "0" :: rest) with
    | some q, some r, some base, some m =>
      let (s', res) := jqStep st.j (.put q m r)
      match res with
      | .ok id =>
        match jqGet s' q id with
        | some stored => ({ st with j := s' }, s!"ok {id} " ++ showSign (goSignBytes keccakNat { stored with id := stored.id + base }))
        | none => ({ st with j := s' }, s!"ok {id} missing")
      | _ => ({ st with j := s' }, showIdRes res)
    | _, _, _, _ => (st, "bad-op")
  | ["hasest", req, est] =>
    match parseNat? req, parseNat? est with
    | some req, some est =>
      if req ≤ 1 then (st, toString (hasGasEstimate (req == 1) est)) else (st, "bad-op")
    | _, _ => (st, "bad-op")
  | "sb" :: "batch" :: rest =>
    match parseBatch? rest with
    | some (ts, b) =>
      match goBatchCheckpoint keccakNat ts b with
      | some d => (st, showDigest d)
      | none => (st, "error")
    | none => (st, "bad-op")
  | "sb" :: rest =>
    match parseMsg? rest with
    | some m => (st, showSign (goSignBytes keccakNat m))
    | none => (st, "bad-op")
  | _ => (st, "bad-op")

end Driver.C05
