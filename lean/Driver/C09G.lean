import Driver.Util
import PalomaModel.Model.VersionGate
namespace Driver.C09G
open Paloma.VersionGate

def hexVal (c : Char) : Option Nat :=
  if '0' ≤ c && c ≤ '9' then some (c.toNat - 48)
  else if 'a' ≤ c && c ≤ 'f' then some (c.toNat - 87)
  else none

/-- `x<hex>` (possibly empty) -/
def parseBytes? (s : String) : Option (List UInt8) :=
  let rec go : List Char → Option (List UInt8)
    | [] => some []
    | [_] => none
    | a :: b :: rest => do
      let x ← hexVal a
      let y ← hexVal b
      let r ← go rest
      pure (UInt8.ofNat (16 * x + y) :: r)
  match s.toList with
  | 'x' :: rest => go rest
  | _ => none

/-- `gate x<app version> x<completed upgrade name> <height>` → `halt` | `run` -/
def step (args : List String) : String :=
  match args with
  | ["gate", a, g, h] =>
    match parseBytes? a, parseBytes? g, Driver.parseNat? h with
    | some app, some gov, some height => if halts app gov height then "halt" else "run"
    | _, _, _ => "bad-op"
  | _ => "bad-op"

/-- `C09S endblock <height>`: the bridge module's `EndBlock` installs a `recover` of its own (regenerated fact: `Gen/Panics`,
    the block path stops at functions that recover), so in the model it comes back whatever a collaborator does -/
def stepSky (args : List String) : String :=
  match args with
  | "endblock" :: _ => "returned"
  | _ => "bad-op"

/-- `C01A outside <kind>`: nothing an ordinary account can do with the bank credits the bridge's module account (the
    application lists it among the blocked addresses), so with nothing pending the escrow stays as it is -/
def stepOutside (args : List String) : String :=
  match args with
  | "outside" :: _ => "escrow-unchanged"
  | _ => "bad-op"

end Driver.C09G
