import PalomaModel.Model.LightNode
import Driver.Util
/-! Line protocol for the light-node licence model (C18).  See harness/c18_test.go. -/
namespace Driver.C18
open Paloma.LightNode

structure DSt where
  s : State := State.init
  now : Nat := 0
  nAddr : Nat := 9
  nDenom : Nat := 2
  /-- chain reference ids the harness observes the sale-contract store for -/
  nChain : Nat := 3

def init : DSt := {}

def sortBy {α} (lt : α → α → Bool) (l : List α) : List α :=
  l.foldl (fun acc x =>
    let (lo, hi) := acc.partition (fun y => lt y x)
    lo ++ [x] ++ hi) []

def joinOr (sep : String) (l : List String) : String := if l.isEmpty then "-" else sep.intercalate l

def showAcct : Acct → String
  | .none => "n"
  | .base => "b"
  | .vesting o d st en => s!"v:{o}:{d}:{st}:{en}"

def showOptNat : Option Nat → String
  | none => "-"
  | some n => toString n

def showAddrStr (k : AddrStr) : String := if k.upper then s!"{k.addr}u" else toString k.addr

def ltAddrStr (a b : AddrStr) : Bool := a.addr < b.addr || (a.addr == b.addr && !a.upper && b.upper)

def showState (d : DSt) : String :=
  let s := d.s
  let addrs := List.range d.nAddr
  let dens := List.range d.nDenom
  let esc := ",".intercalate (dens.map fun x => toString (s.escrow x))
  let lic := joinOr ";" ((sortBy (fun a b : AddrStr × Lic => ltAddrStr a.1 b.1) s.lics).map fun p =>
    s!"{showAddrStr p.1}:{p.2.amount}:{p.2.denom}:{p.2.months}")
  let acc := ",".intercalate (addrs.map fun a => showAcct (s.acct a))
  let bal := ",".intercalate (addrs.map fun a => ":".intercalate (dens.map fun x => toString (s.bal a x)))
  let lk := ",".intercalate (addrs.map fun a => ":".intercalate (dens.map fun x => toString (locked s a x d.now)))
  let cl := joinOr "," ((sortBy ltAddrStr s.clients).map showAddrStr)
  let gr := joinOr "," ((sortBy (fun a b : Addr × Addr => a.1 < b.1 || (a.1 == b.1 && a.2 < b.2)) s.grants).map
    fun p => s!"{p.1}>{p.2}")
  let fu := match s.funders with
    | none => "none"
    | some l => if l.isEmpty then "none" else showNatList l   -- an empty list is stored as zero bytes = not found
  -- sale-contract store: `chain:string` for every chain with a record (string 0 = the empty string)
  let ct := joinOr ";" ((List.range d.nChain).filterMap fun ch => (s.contracts ch).map fun c => s!"{ch}:{c}")
  s!"esc={esc} lic={lic} acc={acc} bal={bal} lk={lk} cl={cl} gr={gr} cfg={showOptNat s.feegranter}/{fu}/{ct} n={s.nacc}"

def showRes : Res → String
  | .ok => "ok"
  | .rejected => "rejected"

/-- `x` = no address (string that does not parse / blocked module address) -/
def parseOptAddr? (t : String) : Option (Option Nat) :=
  if t == "x" then some none else (parseNat? t).map some

/-- `4` = canonical spelling of address 4, `4u` = its upper-case bech32 spelling -/
def parseAddrStr? (t : String) : Option AddrStr :=
  if t.endsWith "u" then (parseNat? (t.dropEnd 1).toString).map fun a => ⟨a, true⟩
  else (parseNat? t).map fun a => ⟨a, false⟩

def parseOptAddrStr? (t : String) : Option (Option AddrStr) :=
  if t == "x" then some none else (parseAddrStr? t).map some


def parseOptNat? (t : String) : Option (Option Nat) :=
  if t == "-" then some none else (parseNat? t).map some

/-- `0:1;2:0` = records (chain 0, string 1), (chain 2, the empty string), in proposal order; `-` = none -/
def parsePair? (t : String) : Option (Nat × Nat) :=
  match t.splitOn ":" with
  | [a, b] =>
    match parseNat? a, parseNat? b with
    | some a, some b => some (a, b)
    | _, _ => none
  | _ => none

def parsePairs? (t : String) : Option (List (Nat × Nat)) :=
  if t == "-" then some [] else (t.splitOn ";").mapM parsePair?

def apply (d : DSt) (t : Nat) (op : Op) : DSt × String :=
  let r := step d.s op
  let d' := { d with s := r.1, now := t }
  (d', showRes r.2 ++ " " ++ showState d')

/-- one message of a `tx` line: the fields of the single-message op line without the time, joined by `/`
(`create/sg/cr/cl/amt/dn/months`, `activate/sg/cr`, `auth/sg/cr`, `legacy/sg/cr`, `send/from/to/dn/amt`,
`grant/granter/grantee`).  Leading `x/` fields say that the harness wrapped the message that many times in an
`authz.MsgExec` whose grantee is the message's declared signer: checked and executed like the bare message
(see Model/LightNode.lean), so the model drops the marker. -/
def parseMsg? (t : Nat) (tok : String) : Option Op :=
  match (tok.splitOn "/").dropWhile (· == "x") with
  | ["create", sg, cr, cl, amt, dn, m] =>
    match parseNat? sg, parseNat? cr, parseOptAddrStr? cl, parseInt? amt, parseNat? dn, parseNat? m with
    | some sg, some cr, some cl, some amt, some dn, some m => some (.create sg cr cl amt dn m t)
    | _, _, _, _, _, _ => none
  | ["activate", sg, cr] =>
    match parseNat? sg, parseAddrStr? cr with
    | some sg, some cr => some (.activate sg cr t)
    | _, _ => none
  | ["auth", sg, cr] =>
    match parseNat? sg, parseAddrStr? cr with
    | some sg, some cr => some (.auth sg cr)
    | _, _ => none
  | ["legacy", sg, cr] =>
    match parseNat? sg, parseNat? cr with
    | some sg, some cr => some (.legacy sg cr)
    | _, _ => none
  | ["send", a, b, dn, amt] =>
    match parseNat? a, parseOptAddr? b, parseNat? dn, parseInt? amt with
    | some a, some b, some dn, some amt => some (.send a b dn amt t)
    | _, _, _, _ => none
  | ["grant", g, e] =>
    match parseNat? g, parseNat? e with
    | some g, some e => some (.grant g e)
    | _, _ => none
  | _ => none

def step (d : DSt) (args : List String) : DSt × String :=
  match args with
  | ["reset"] => ({}, "ok")
  | "tx" :: t :: ms =>
    -- ONE transaction carrying the messages `ms` (possibly none), delivered at block time `t`
    match parseNat? t with
    | some t =>
      match ms.mapM (parseMsg? t) with
      | some msgs =>
        let r := tx d.s msgs
        let d' := { d with s := r.1, now := t }
        (d', showRes r.2 ++ " " ++ showState d')
      | none => (d, "bad-op")
    | none => (d, "bad-op")
  | "wasm" :: t :: c :: depth :: g :: ms =>
    -- contract `c` dispatches ONE CosmosMsg::Any at block time `t`: `depth` nested authz.MsgExec wrappers (grantee `g`)
    -- around the messages `ms`; depth 0 = the single message bare
    match parseNat? t, parseNat? c, parseNat? depth, parseNat? g with
    | some t, some c, some depth, some g =>
      match ms.mapM (parseMsg? t) with
      | some msgs =>
        let r := wasm d.s c depth g msgs
        let d' := { d with s := r.1, now := t }
        (d', showRes r.2 ++ " " ++ showState d')
      | none => (d, "bad-op")
    | _, _, _, _ => (d, "bad-op")
  | ["fund", a, dn, amt] =>
    match parseNat? a, parseNat? dn, parseNat? amt with
    | some a, some dn, some amt => apply d d.now (.fund a dn amt)
    | _, _, _ => (d, "bad-op")
  | ["create", t, sg, cr, cl, amt, dn, m] =>
    match parseNat? t, parseNat? sg, parseNat? cr, parseOptAddrStr? cl, parseInt? amt, parseNat? dn, parseNat? m with
    | some t, some sg, some cr, some cl, some amt, some dn, some m => apply d t (.create sg cr cl amt dn m t)
    | _, _, _, _, _, _, _ => (d, "bad-op")
  | ["sale", t, ch, cl, g, c] =>
    match parseNat? t, parseNat? ch, parseOptAddrStr? cl, parseInt? g, parseNat? c with
    | some t, some ch, some cl, some g, some c => apply d t (.sale ch cl g c t)
    | _, _, _, _, _ => (d, "bad-op")
  | ["activate", t, sg, cr] =>
    -- the end of the vesting period is computed by the MODEL (`addMonths t licence.months`) and shows up in
    -- the account column `v:orig:denom:start:end`, where it is compared with the stored `EndTime`
    match parseNat? t, parseNat? sg, parseAddrStr? cr with
    | some t, some sg, some cr => apply d t (.activate sg cr t)
    | _, _, _ => (d, "bad-op")
  | ["auth", t, sg, cr] =>
    match parseNat? t, parseNat? sg, parseAddrStr? cr with
    | some t, some sg, some cr => apply d t (.auth sg cr)
    | _, _, _ => (d, "bad-op")
  | ["legacy", t, sg, cr] =>
    match parseNat? t, parseNat? sg, parseNat? cr with
    | some t, some sg, some cr => apply d t (.legacy sg cr)
    | _, _, _ => (d, "bad-op")
  | ["send", t, a, b, dn, amt] =>
    match parseNat? t, parseNat? a, parseOptAddr? b, parseNat? dn, parseInt? amt with
    | some t, some a, some b, some dn, some amt => apply d t (.send a b dn amt t)
    | _, _, _, _, _ => (d, "bad-op")
  | ["grant", t, g, e] =>
    match parseNat? t, parseNat? g, parseNat? e with
    | some t, some g, some e => apply d t (.grant g e)
    | _, _, _ => (d, "bad-op")
  | ["gift", t, a, dn, amt] =>
    match parseNat? t, parseNat? a, parseNat? dn, parseNat? amt with
    | some t, some a, some dn, some amt => apply d t (.gift a dn amt t)
    | _, _, _, _ => (d, "bad-op")
  | ["reimport", t] =>
    -- the module is exported and started again from the export: every record of the model is part of the genesis
    -- format (licences, clients, fee granter, funders, sale contracts), bank and auth are other modules — nothing changes
    match parseNat? t with
    | some t => let d' := { d with now := t }; (d', "ok " ++ showState d')
    | none => (d, "bad-op")
  | ["setfg", t, a] =>
    match parseNat? t, parseNat? a with
    | some t, some a => apply d t (.setFeegranter a)
    | _, _ => (d, "bad-op")
  | ["setfunders", t, l] =>
    match parseNat? t, parseNatList? l with
    | some t, some l => apply d t (.setFunders l)
    | _, _ => (d, "bad-op")
  | ["setcontracts", t, l] =>
    match parseNat? t, parsePairs? l with
    | some t, some l => apply d t (.setContracts l)
    | _, _ => (d, "bad-op")
  | ["probe", a, t] =>
    match parseNat? a, parseNat? t with
    | some a, some t =>
      match d.s.acct a with
      | .vesting o _ st en => (d, toString (lockedAt o st en t))
      | _ => (d, "-")
    | _, _ => (d, "bad-op")
  | _ => (d, "bad-op")

end Driver.C18
