import PalomaModel.Model.Bridge
import Driver.Util
namespace Driver.Bridge
open Paloma.Bridge

/-- the skyway keeper fixture registers remote key `i` for validator `i` (five validators) -/
def fixtureKeys : List (Nat × Nat) := [(1, 1), (2, 2), (3, 3), (4, 4), (5, 5)]

def initSt : St := { St.init with keys := fixtureKeys }

structure DSt where
  s : St := initSt
  nTok : Nat := 2
  nUsers : Nat := 3
  /-- contract registry of the directed re-binding histories (`regreset` / `bind` / `sentunder` / `paidin` lines) -/
  reg : Registry := Registry.init
  nDen : Nat := 0
  nCon : Nat := 0
  /-- deployment layer (C13): current deployment id, stored signing bytes of the open batches, id-aware archive -/
  dep : Dep := {}

def showTx (t : Tx) : String := s!"{t.id}:{t.sender}:{t.token}:{t.amount}:{t.tax}"

def sortBy {α} (lt : α → α → Bool) (l : List α) : List α :=
  l.foldl (fun acc x =>
    let (lo, hi) := acc.partition (fun y => lt y x)
    lo ++ [x] ++ hi) []

def showState (d : DSt) : String :=
  let s := d.s
  let pool := sortBy (fun a b : Tx => a.id < b.id) s.pool
  let poolS := if pool.isEmpty then "-" else ";".intercalate (pool.map showTx)
  let bs := sortBy (fun a b : Batch => a.token < b.token || (a.token == b.token && a.nonce < b.nonce)) s.batches
  let bS := if bs.isEmpty then "-" else ";".intercalate (bs.map fun b =>
    s!"{b.token}:{b.nonce}:{b.estimate}:{b.timeout}:" ++ ".".intercalate (b.txs.map fun t => toString t.id))
  let toks := (List.range d.nTok).map (· + 1)
  let esc := ",".intercalate (toks.map fun t => toString (s.escrow t))
  let sup := ",".intercalate (toks.map fun t => toString (s.supply t))
  let holders := (List.range d.nUsers).map (· + 1) ++ [communityPool]
  let bal := ",".intercalate (holders.flatMap fun u => toks.map fun t => toString (s.bal u t))
  let usage := ",".intercalate (toks.map fun t => match s.usage t with
    | none => "-"
    | some u => s!"{u.start}:{u.total}")
  s!"pool={poolS} batches={bS} esc={esc} sup={sup} bal={bal} last={s.lastObserved} usage={usage}"

def showOptNat : Option Nat → String
  | none => "none"
  | some n => toString n

/-- both tables of the registry over the denoms / contracts the harness uses: `erc=d:c,… den=c:d,…` -/
def showReg (d : DSt) : String :=
  let row (n : Nat) (f : Nat → Option Nat) : List String :=
    ((List.range n).map (· + 1)).filterMap fun k => (f k).map fun v => s!"{k}:{v}"
  let j (l : List String) : String := if l.isEmpty then "-" else ",".intercalate l
  s!"erc={j (row d.nDen d.reg.erc)} den={j (row d.nCon d.reg.den)}"

def showRes : Res → String
  | .ok => "ok"
  | .noop => "noop"
  | .rejected => "rejected"

/-- `k:n` = the n-th call of class k fails (`0:0` = no fault); several points are joined by `+` -/
def parseFault? (s : String) : Option Fault := do
  let pts ← (s.splitOn "+").mapM fun x => match x.splitOn ":" with
    | [a, b] => do pure (← parseNat? a, ← parseNat? b)
    | _ => none
  pure { points := pts.filter (fun p => p.1 != 0) }

def parseUsers? (s : String) : Option (List Nat) := parseNatList? s

def parseTriples? (s : String) : Option (List (Nat × Nat × Nat)) :=
  (splitList s).mapM fun x => match x.splitOn ":" with
    | [a, b, c] => do pure (← parseNat? a, ← parseNat? b, ← parseNat? c)
    | _ => none

def stepCore (d : DSt) (args : List String) : DSt × String :=
  match args with
  | ["reset", n] =>
    match parseNat? n with
    | some n => ({ s := initSt, nTok := n, nUsers := 3 }, "ok")
    | none => (d, "bad-op")
  | ["reimport"] =>
    -- genesis export / wipe / import of the bridge module, as it behaves (window usage records are not exported)
    let d' := { d with s := Paloma.Bridge.reimport d.s }
    (d', showState d')
  | ["fund", u, t, a] =>
    match parseNat? u, parseNat? t, parseNat? a with
    | some u, some t, some a => let d' := { d with s := fund d.s u t a }; (d', showState d')
    | _, _, _ => (d, "bad-op")
  | ["settax", t, n, dn, ex] =>
    match parseNat? t, parseNat? n, parseNat? dn, parseUsers? ex with
    | some t, some n, some dn, some ex =>
      let d' := { d with s := setTax d.s t (some { num := n, den := dn, exempt := ex }) }
      (d', showState d')
    | _, _, _, _ => (d, "bad-op")
  | ["setlimit", t, p, l, ex] =>
    match parseNat? t, parseNat? p, parseNat? l, parseUsers? ex with
    | some t, some p, some l, some ex =>
      let d' := { d with s := setLimit d.s t (some { period := p, limit := l, exempt := ex }) }
      (d', showState d')
    | _, _, _, _ => (d, "bad-op")
  | ["send", f, u, t, a, h] =>
    match parseFault? f, parseNat? u, parseNat? t, parseNat? a, parseNat? h with
    | some f, some u, some t, some a, some h =>
      let (s', _, r) := send d.s f u t a h
      let d' := { d with s := s' }
      (d', showRes r ++ " " ++ showState d')
    | _, _, _, _, _ => (d, "bad-op")
  | ["cancel", f, u, id] =>
    match parseFault? f, parseNat? u, parseNat? id with
    | some f, some u, some id =>
      let (s', _, r) := cancel d.s f u id
      let d' := { d with s := s' }
      (d', showRes r ++ " " ++ showState d')
    | _, _, _ => (d, "bad-op")
  | ["build", f, t, time] =>
    match parseFault? f, parseNat? t, parseNat? time with
    | some f, some t, some time =>
      let (s', _, r) := buildOne d.s f t time
      let d' := { d with s := s' }
      (d', showRes r ++ " " ++ showState d')
    | _, _, _ => (d, "bad-op")
  | ["claim", n, "exec", t, nonce, h] =>
    match parseNat? n, parseNat? t, parseNat? nonce, parseNat? h with
    | some n, some t, some nonce, some h =>
      let d' := { d with s := addClaim d.s n (.executed t nonce h) }; (d', showState d')
    | _, _, _, _ => (d, "bad-op")
  | ["claim", n, "dep", t, a, recv, known] =>
    match parseNat? n, parseNat? t, parseNat? a, parseNat? recv, parseNat? known with
    | some n, some t, some a, some recv, some known =>
      let r := if recv == 0 then none else some recv
      let d' := { d with s := addClaim d.s n (.deposit t a r (known != 0)) }; (d', showState d')
    | _, _, _, _, _ => (d, "bad-op")
  | ["evidence", t, n, e, variant, key] =>     -- `key` = id of the remote key that signed (0 = a key nobody registered)
    match parseNat? t, parseNat? n, parseNat? e, parseNat? variant, parseNat? key with
    | some t, some n, some e, some variant, some key =>
      let (s', r) := evidence d.s (t, n, e, variant) key
      let d' := { d with s := s' }
      let js := sortNat s'.jailed
      (d', showRes r ++ " jailed=" ++ showNatList js)
    | _, _, _, _, _ => (d, "bad-op")
  | ["regkey", v, key] =>
    match parseNat? v, parseNat? key with
    | some v, some key =>
      let (s', r) := registerKey d.s v key
      ({ d with s := s' }, showRes r)
    | _, _ => (d, "bad-op")
  | ["regreset", nd, nc] =>
    match parseNat? nd, parseNat? nc with
    | some nd, some nc => ({ d with reg := Registry.init, nDen := nd, nCon := nc }, "ok")
    | _, _ => (d, "bad-op")
  | ["bind", path, adm, dn, c] =>     -- path: gov | admin (MsgSetERC20ToTokenDenom) | wasm (set_erc20_to_denom binding)
    match parseNat? adm, parseNat? dn, parseNat? c with
    | some adm, some dn, some c =>
      if path == "gov" then
        let (r', res) := d.reg.bindGov dn c
        let d' := { d with reg := r' }
        (d', showRes res ++ " " ++ showReg d')
      else if path == "admin" || path == "wasm" then
        let (r', res) := d.reg.bindAdmin (adm != 0) dn c
        let d' := { d with reg := r' }
        (d', showRes res ++ " " ++ showReg d')
      else (d, "bad-op")
    | _, _, _ => (d, "bad-op")
  | ["sentunder", dn] =>      -- the contract an accepted send of denom `dn` is recorded under
    match parseNat? dn with
    | some dn => (d, showOptNat (d.reg.recordedUnder dn))
    | none => (d, "bad-op")
  | ["paidin", c] =>          -- the denom a transfer / batch recorded under contract `c` is refunded / burned in
    match parseNat? c with
    | some c => (d, showOptNat (d.reg.paidIn c))
    | none => (d, "bad-op")
  | ["estimate", _, _, _] => (d, showState d)   -- recorded by the harness; applied via `endblock … ests`
  | ["endblock", f, h, now, toks, ests] =>
    match parseFault? f, parseNat? h, parseNat? now, parseNatList? toks, parseTriples? ests with
    | some f, some h, some now, some toks, some ests =>
      let (s', _, _) := endBlock d.s f h now toks ests
      let d' := { d with s := s' }
      (d', showState d')
    | _, _, _, _, _ => (d, "bad-op")
  | _ => (d, "bad-op")

def showStored (p : Batch × Nat) : String := s!"{p.1.token}:{p.1.nonce}:{p.1.estimate}:{p.2}"

/-- the lines of the deployment layer (harness/c13_published_test.go); every other line goes to `stepCore`, after which
    the stored signing bytes are brought up to date (`Dep.sync`) -/
def step (d : DSt) (args : List String) : DSt × String :=
  match args with
  | ["upgrade", n] =>            -- compass upgrade: ActivateChainReferenceID with a new smart-contract unique id
    match parseNat? n with
    | some n => ({ d with dep := { d.dep with cur := n } }, "ok")
    | none => (d, "bad-op")
  | ["published"] =>             -- BatchRequestByNonce for every open batch: token:nonce:estimate:id of the bytes
    let l := sortBy (fun a b : Batch × Nat => a.1.token < b.1.token || (a.1.token == b.1.token && a.1.nonce < b.1.nonce)) d.dep.stored
    (d, if l.isEmpty then "-" else ";".intercalate (l.map showStored))
  | ["pending", v] =>            -- LastPendingBatchRequestByAddr for validator v
    match parseNat? v with
    | some v => (d, match d.dep.pendingFor d.s.batches v with | none => "-" | some p => showStored p)
    | none => (d, "bad-op")
  | ["confirm", v, t, n] =>      -- v signs what BatchRequestByNonce publishes and sends MsgConfirmBatch
    match parseNat? v, parseNat? t, parseNat? n with
    | some v, some t, some n =>
      let (dep', r) := d.dep.confirm d.s.batches v t n
      ({ d with dep := dep' }, showRes r)
    | _, _, _ => (d, "bad-op")
  | ["pubevidence", t, n, e, tag, key] =>   -- a signature by `key` over published bytes (id `tag`), replayed as evidence
    match parseNat? t, parseNat? n, parseNat? e, parseNat? tag, parseNat? key with
    | some t, some n, some e, some tag, some key =>
      let (s', r) := evidenceD d.s d.dep (t, n, e, 0) (tag, (t, n, e, 0)) key
      ({ d with s := s' }, showRes r ++ " jailed=" ++ showNatList (sortNat s'.jailed))
    | _, _, _, _, _ => (d, "bad-op")
  | "reset" :: _ =>
    let (d', out) := stepCore d args
    ({ d' with dep := {} }, out)
  | ["reimport"] =>              -- the archive is not part of the genesis state (known finding C13-archive-not-exported)
    let (d', out) := stepCore d args
    ({ d' with dep := { d'.dep with arch := [] } }, out)
  | _ =>
    let (d', out) := stepCore d args
    ({ d' with dep := d'.dep.sync d'.s.batches }, out)

end Driver.Bridge
