/- Line-protocol parsing helpers (core only). -/
namespace Driver

def parseNat? (s : String) : Option Nat := s.toNat?

def parseInt? (s : String) : Option Int := s.toInt?

/-- `-` is the empty list, otherwise comma separated -/
def splitList (s : String) : List String :=
  if s == "-" || s == "" then [] else s.splitOn ","

def parseNatList? (s : String) : Option (List Nat) :=
  (splitList s).mapM parseNat?

/-- `a:b` pairs, comma separated -/
def parsePair? (s : String) : Option (Nat × Nat) :=
  match s.splitOn ":" with
  | [a, b] => do pure (← parseNat? a, ← parseNat? b)
  | _ => none

def parsePairList? (s : String) : Option (List (Nat × Nat)) :=
  (splitList s).mapM parsePair?

def showNatList (l : List Nat) : String :=
  if l.isEmpty then "-" else ",".intercalate (l.map toString)

def showPairList (l : List (Nat × Nat)) : String :=
  if l.isEmpty then "-" else ",".intercalate (l.map fun p => s!"{p.1}:{p.2}")

/-- insertion sort on naturals for canonical output -/
def sortNat (l : List Nat) : List Nat :=
  l.foldl (fun acc x =>
    let (lo, hi) := acc.partition (· ≤ x)
    lo ++ [x] ++ hi) []

end Driver
