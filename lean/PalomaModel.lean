import PalomaModel.Model.Libcons
import PalomaModel.Model.Bridge
import PalomaModel.Model.Abi
import PalomaModel.Model.Mempool
