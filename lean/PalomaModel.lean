import PalomaModel.Model.Libcons
