/- Helper lemmas for the bridge model (C01, C13, C15): list arithmetic, exact case analyses of every
   atomic step, the op language `Op` / `run`, and the lifting of step-wise relations through the
   end-block composite.  Not property theorems. -/
import PalomaModel.Model.Bridge

namespace Paloma.Bridge
open List

/-- amount+tax owed to transfers of token `tok` in a list -/
def owedTok (tok : Nat) (l : List Tx) : Nat := ((l.filter (fun t => t.token == tok)).map Tx.owed).sum

def batched (s : St) : List Tx := s.batches.flatMap (·.txs)
def pending (s : St) : List Tx := s.pool ++ batched s

theorem owedTok_nil (tok : Nat) : owedTok tok [] = 0 := rfl

theorem owedTok_cons (tok : Nat) (t : Tx) (l : List Tx) :
    owedTok tok (t :: l) = (if t.token = tok then t.owed else 0) + owedTok tok l := by
  unfold owedTok
  by_cases h : t.token = tok <;> simp [List.filter_cons, h]

theorem owedTok_append (tok : Nat) (l₁ l₂ : List Tx) :
    owedTok tok (l₁ ++ l₂) = owedTok tok l₁ + owedTok tok l₂ := by
  unfold owedTok; simp [List.filter_append, List.map_append, List.sum_append]

theorem owedTok_perm (tok : Nat) {l₁ l₂ : List Tx} (h : l₁.Perm l₂) : owedTok tok l₁ = owedTok tok l₂ := by
  unfold owedTok
  exact ((h.filter _).map _).sum_nat

theorem insertDesc_perm (t : Tx) (l : List Tx) : (insertDesc t l).Perm (t :: l) := by
  induction l with
  | nil => simp [insertDesc]
  | cons x xs ih =>
    simp only [insertDesc]
    split
    · exact Perm.refl _
    · exact (Perm.cons x ih).trans (Perm.swap t x xs)

theorem sortDesc_perm (l : List Tx) : (sortDesc l).Perm l := by
  induction l with
  | nil => simp [sortDesc]
  | cons t ts ih => exact (insertDesc_perm t _).trans (Perm.cons t ih)

theorem mem_sortDesc {t : Tx} {l : List Tx} : t ∈ sortDesc l ↔ t ∈ l := (sortDesc_perm l).mem_iff

/-- splitting the pool for a batch build is a permutation of the pool -/
theorem build_split_perm (pool : List Tx) (tok : Nat) :
    ((sortDesc (pool.filter (fun t => t.token == tok))).take OutgoingTxBatchSize ++
      (pool.filter (fun t => !(t.token == tok)) ++
        (sortDesc (pool.filter (fun t => t.token == tok))).drop OutgoingTxBatchSize)).Perm pool := by
  have h1 : ((sortDesc (pool.filter (fun t => t.token == tok))).take OutgoingTxBatchSize ++
      (pool.filter (fun t => !(t.token == tok)) ++
        (sortDesc (pool.filter (fun t => t.token == tok))).drop OutgoingTxBatchSize)).Perm
      (((sortDesc (pool.filter (fun t => t.token == tok))).take OutgoingTxBatchSize ++
        (sortDesc (pool.filter (fun t => t.token == tok))).drop OutgoingTxBatchSize) ++
        pool.filter (fun t => !(t.token == tok))) := by
    rw [List.append_assoc]
    exact Perm.append_left _ perm_append_comm
  refine h1.trans ?_
  rw [List.take_append_drop]
  exact (Perm.append_right _ (sortDesc_perm _)).trans (filter_append_perm _ pool)

theorem findBatch_some {l : List Batch} {tok nonce : Nat} {b : Batch} (h : findBatch l tok nonce = some b) :
    b ∈ l ∧ b.token = tok ∧ b.nonce = nonce := by
  unfold findBatch at h
  have hm := List.mem_of_find?_eq_some h
  have hp := List.find?_some h
  simp only [Bool.and_eq_true, beq_iff_eq] at hp
  exact ⟨hm, hp.1, hp.2⟩

def bkey (b : Batch) : Nat × Nat := (b.token, b.nonce)

/-- with distinct `(token, nonce)` keys, removing a batch removes exactly that batch's transfers -/
theorem batched_remove_perm (bs : List Batch) (b : Batch) (hb : b ∈ bs)
    (hk : (bs.map bkey).Nodup) :
    (bs.flatMap (·.txs)).Perm (b.txs ++ (removeBatch bs b.token b.nonce).flatMap (·.txs)) := by
  induction bs with
  | nil => cases hb
  | cons x xs ih =>
    have hk' := List.nodup_cons.mp (by simpa only [List.map_cons] using hk)
    unfold removeBatch at *
    simp only [List.flatMap_cons, List.filter_cons]
    rcases List.mem_cons.mp hb with rfl | hmem
    · -- the head is the batch; no other batch has its key
      have hrest : xs.filter (fun y => !(y.token == b.token && y.nonce == b.nonce)) = xs := by
        apply List.filter_eq_self.mpr
        intro y hy
        by_cases hyk : y.token = b.token ∧ y.nonce = b.nonce
        · exfalso; apply hk'.1
          exact List.mem_map.mpr ⟨y, hy, by simp [bkey, hyk.1, hyk.2]⟩
        · simp only [Bool.not_eq_true', Bool.and_eq_false_iff, beq_eq_false_iff_ne, ne_eq]
          by_cases h1 : y.token = b.token
          · right; exact fun h2 => hyk ⟨h1, h2⟩
          · left; exact h1
      simp only [beq_self_eq_true, Bool.and_self, Bool.not_true, Bool.false_eq_true, if_false]
      rw [hrest]
    · have hne : ¬ (x.token = b.token ∧ x.nonce = b.nonce) := by
        intro hx; apply hk'.1
        exact List.mem_map.mpr ⟨b, hmem, by simp [bkey, hx.1, hx.2]⟩
      have hcond : (!(x.token == b.token && x.nonce == b.nonce)) = true := by
        simp only [Bool.not_eq_true', Bool.and_eq_false_iff, beq_eq_false_iff_ne, ne_eq]
        by_cases h1 : x.token = b.token
        · right; exact fun h2 => hne ⟨h1, h2⟩
        · left; exact h1
      simp only [hcond, if_true, List.flatMap_cons]
      have := ih hmem hk'.2
      refine (Perm.append_left x.txs this).trans ?_
      rw [← List.append_assoc, ← List.append_assoc]
      exact Perm.append_right _ perm_append_comm

theorem removeBatch_sublist (bs : List Batch) (tok nonce : Nat) : (removeBatch bs tok nonce).Sublist bs :=
  List.filter_sublist

theorem owedTok_of_token (tok : Nat) (l : List Tx) (h : ∀ t ∈ l, t.token = tok) :
    owedTok tok l = (l.map Tx.owed).sum := by
  unfold owedTok
  rw [List.filter_eq_self.mpr]
  intro t ht; simp [h t ht]

theorem owedTok_of_other (tok tok' : Nat) (l : List Tx) (h : ∀ t ∈ l, t.token = tok') (hne : tok' ≠ tok) :
    owedTok tok l = 0 := by
  unfold owedTok
  rw [List.filter_eq_nil_iff.mpr]
  · rfl
  · intro t ht; simp [h t ht, hne]

theorem findTx_some {l : List Tx} {id : Nat} {t : Tx} (h : findTx l id = some t) : t ∈ l ∧ t.id = id := by
  unfold findTx at h
  exact ⟨List.mem_of_find?_eq_some h, by simpa using List.find?_some h⟩

/-- with distinct ids, filtering out an id removes exactly that transfer -/
theorem filter_id_perm (l : List Tx) (t : Tx) (ht : t ∈ l) (hnd : (l.map (·.id)).Nodup) :
    l.Perm (t :: l.filter (fun x => x.id != t.id)) := by
  induction l with
  | nil => cases ht
  | cons x xs ih =>
    have hnd' := List.nodup_cons.mp (by simpa only [List.map_cons] using hnd)
    simp only [List.filter_cons]
    rcases List.mem_cons.mp ht with rfl | hmem
    · have : xs.filter (fun y => y.id != t.id) = xs := by
        apply List.filter_eq_self.mpr
        intro y hy
        have : y.id ≠ t.id := fun e => hnd'.1 (List.mem_map.mpr ⟨y, hy, e⟩)
        simp [this]
      simp [this]
    · have hne : x.id ≠ t.id := fun e => hnd'.1 (List.mem_map.mpr ⟨t, hmem, e.symm⟩)
      simp only [bne_iff_ne, ne_eq, hne, not_false_eq_true, if_true]
      exact (Perm.cons x (ih hmem hnd'.2)).trans (Perm.swap t x _)

/-! ### exact case analysis of the atomic steps: "not ok and nothing changed" or "ok and the effect" -/

theorem send_cases (s : St) (f : Fault) (u tok amt h : Nat) :
    ((send s f u tok amt h).2.2 = .rejected ∧ (send s f u tok amt h).1 = s) ∨
    ((send s f u tok amt h).2.2 = .ok ∧ ∃ usage', limitStep (s.limit tok) (s.usage tok) u amt h = some usage' ∧
      taxOverflows (s.tax tok) u amt = false ∧ amt + taxOf (s.tax tok) u amt < maxInt ∧ amt ≠ 0 ∧
      amt + taxOf (s.tax tok) u amt ≤ s.bal u tok ∧ (send s f u tok amt h).1 = sendOk s u tok amt usage') := by
  unfold send
  split
  · exact Or.inl ⟨rfl, rfl⟩
  · rename_i usage' hl
    split
    · exact Or.inl ⟨rfl, rfl⟩
    · rename_i hov
      split
      · exact Or.inl ⟨rfl, rfl⟩
      · rename_i hmax
        split
        · exact Or.inl ⟨rfl, rfl⟩
        · split
          · exact Or.inl ⟨rfl, rfl⟩
          · rename_i hz
            split
            · exact Or.inl ⟨rfl, rfl⟩
            · rename_i hbal
              split
              · exact Or.inl ⟨rfl, rfl⟩
              · exact Or.inr ⟨rfl, usage', hl, by simpa using hov, by omega, hz, by omega, rfl⟩

theorem cancel_cases (s : St) (f : Fault) (u id : Nat) :
    ((cancel s f u id).2.2 = .rejected ∧ (cancel s f u id).1 = s) ∨
    ((cancel s f u id).2.2 = .ok ∧ ∃ t, findTx s.pool id = some t ∧ t.sender = u ∧
      (cancel s f u id).1 = cancelOk s t) := by
  unfold cancel
  split
  · exact Or.inl ⟨rfl, rfl⟩
  · split
    · exact Or.inl ⟨rfl, rfl⟩
    · rename_i t hfind
      split
      · exact Or.inl ⟨rfl, rfl⟩
      · rename_i hs
        split
        · exact Or.inl ⟨rfl, rfl⟩
        · split
          · exact Or.inl ⟨rfl, rfl⟩
          · exact Or.inr ⟨rfl, t, hfind, by simpa using hs, rfl⟩

theorem buildOne_cases (s : St) (f : Fault) (tok time : Nat) :
    ((buildOne s f tok time).2.2 ≠ .ok ∧ (buildOne s f tok time).1 = s) ∨
    ((buildOne s f tok time).2.2 = .ok ∧ (selectedFor s tok).isEmpty = false ∧
      (buildOne s f tok time).1 = buildOk s tok time) := by
  unfold buildOne
  split
  · exact Or.inl ⟨by simp, rfl⟩
  · rename_i hsel
    split
    · exact Or.inl ⟨by simp, rfl⟩
    · split
      · exact Or.inl ⟨by simp, rfl⟩
      · split
        · exact Or.inl ⟨by simp, rfl⟩
        · exact Or.inr ⟨rfl, by simpa using hsel, rfl⟩

theorem cancelBatch_cases (s : St) (f : Fault) (tok nonce : Nat) :
    ((cancelBatch s f tok nonce).2.2 = .rejected ∧ (cancelBatch s f tok nonce).1 = s) ∨
    ((cancelBatch s f tok nonce).2.2 = .ok ∧ ∃ b, findBatch s.batches tok nonce = some b ∧
      (cancelBatch s f tok nonce).1 = cancelBatchOk s b) := by
  unfold cancelBatch
  split
  · exact Or.inl ⟨rfl, rfl⟩
  · rename_i b hfind
    split
    · exact Or.inl ⟨rfl, rfl⟩
    · exact Or.inr ⟨rfl, b, hfind, rfl⟩

theorem execBatch_cases (s : St) (f : Fault) (tok nonce eh : Nat) :
    ((execBatch s f tok nonce eh).2.2 = .rejected ∧ (execBatch s f tok nonce eh).1 = s) ∨
    ((execBatch s f tok nonce eh).2.2 = .ok ∧ ∃ b, findBatch s.batches tok nonce = some b ∧ eh < b.timeout ∧
      (b.txs.map Tx.owed).sum ≤ s.escrow b.token ∧ (b.txs.map Tx.owed).sum ≤ s.supply b.token ∧
      (execBatch s f tok nonce eh).1 = execOk s b) := by
  unfold execBatch
  split
  · exact Or.inl ⟨rfl, rfl⟩
  · rename_i b hfind
    split
    · exact Or.inl ⟨rfl, rfl⟩
    · rename_i hto
      split
      · exact Or.inl ⟨rfl, rfl⟩
      · split
        · exact Or.inl ⟨rfl, rfl⟩
        · rename_i hguard
          simp only [Bool.or_eq_true, decide_eq_true_eq, not_or, Nat.not_lt] at hguard
          exact Or.inr ⟨rfl, b, hfind, by omega, hguard.1, hguard.2, rfl⟩

theorem depositToPool_cases (s : St) (f : Fault) (tok amt : Nat) :
    ((depositToPool s f tok amt).2.2 = .rejected ∧ (depositToPool s f tok amt).1 = s) ∨
    ((depositToPool s f tok amt).2.2 = .ok ∧ (depositToPool s f tok amt).1 = depositOk s communityPool tok amt) := by
  unfold depositToPool
  split
  · exact Or.inl ⟨rfl, rfl⟩
  · exact Or.inr ⟨rfl, rfl⟩

theorem deposit_cases (s : St) (f : Fault) (tok amt : Nat) (r : Option Nat) (k : Bool) :
    ((deposit s f tok amt r k).2.2 = .rejected ∧ (deposit s f tok amt r k).1 = s) ∨
    ((deposit s f tok amt r k).2.2 = .ok ∧ k = true ∧ ∃ who, (who = communityPool ∨ r = some who) ∧
      (deposit s f tok amt r k).1 = depositOk s who tok amt) := by
  unfold deposit
  split
  · exact Or.inl ⟨rfl, rfl⟩
  · rename_i hk
    have hk' : k = true := by simpa using hk
    split
    · exact Or.inl ⟨rfl, rfl⟩
    · split
      · rcases depositToPool_cases s (f.tick tMint).1 tok amt with h | h
        · exact Or.inl h
        · exact Or.inr ⟨h.1, hk', communityPool, Or.inl rfl, h.2⟩
      · rename_i who
        split
        · rcases depositToPool_cases s (((f.tick tMint).1).tick tSend).1 tok amt with h | h
          · exact Or.inl h
          · exact Or.inr ⟨h.1, hk', communityPool, Or.inl rfl, h.2⟩
        · exact Or.inr ⟨rfl, hk', who, Or.inr rfl, rfl⟩

theorem setEstimate_cases (s : St) (f : Fault) (tok nonce est : Nat) :
    ((setEstimate s f tok nonce est).2.2 = .rejected ∧ (setEstimate s f tok nonce est).1 = s) ∨
    ((setEstimate s f tok nonce est).2.2 = .ok ∧ ∃ b, findBatch s.batches tok nonce = some b ∧ b.estimate = 0 ∧
      (setEstimate s f tok nonce est).1 = estimateOk s tok nonce est) := by
  unfold setEstimate
  split
  · exact Or.inl ⟨rfl, rfl⟩
  · rename_i b hfind
    split
    · exact Or.inl ⟨rfl, rfl⟩
    · rename_i hest
      split
      · exact Or.inl ⟨rfl, rfl⟩
      · exact Or.inr ⟨rfl, b, hfind, by omega, rfl⟩

theorem applyClaim_cases (s : St) (f : Fault) (c : Claim) :
    ((applyClaim s f c).2.2 = .rejected ∧ (applyClaim s f c).1 = s) ∨
    ((applyClaim s f c).2.2 = .ok ∧
      ((∃ tok nonce eh b, c = .executed tok nonce eh ∧ findBatch s.batches tok nonce = some b ∧ eh < b.timeout ∧
          (b.txs.map Tx.owed).sum ≤ s.escrow b.token ∧ (b.txs.map Tx.owed).sum ≤ s.supply b.token ∧
          (applyClaim s f c).1 = execOk s b) ∨
       (∃ tok amt r who, c = .deposit tok amt r true ∧ (who = communityPool ∨ r = some who) ∧
          (applyClaim s f c).1 = depositOk s who tok amt))) := by
  cases c with
  | executed tok nonce eh =>
    rcases execBatch_cases s f tok nonce eh with h | ⟨h1, b, h2, h3, h4, h5, h6⟩
    · exact Or.inl h
    · exact Or.inr ⟨h1, Or.inl ⟨tok, nonce, eh, b, rfl, h2, h3, h4, h5, h6⟩⟩
  | deposit tok amt r k =>
    rcases deposit_cases s f tok amt r k with h | ⟨h1, hk, who, h2, h3⟩
    · exact Or.inl h
    · subst hk
      exact Or.inr ⟨h1, Or.inr ⟨tok, amt, r, who, rfl, h2, h3⟩⟩

/-- the state after an observation: the handler's state with the observation logged -/
theorem observe_state (s : St) (f : Fault) (n : Nat) (c : Claim) :
    (observe s f n c).1 = { (applyClaim { s with lastObserved := n } f c).1 with
      applied := (n, c, (observe s f n c).2.2) :: (applyClaim { s with lastObserved := n } f c).1.applied } := rfl

theorem observe_res (s : St) (f : Fault) (n : Nat) (c : Claim) :
    (observe s f n c).2.2 = (applyClaim { s with lastObserved := n } f c).2.2 := rfl

/-! ### the op language: every operation the chain can perform on the bridge, each with its own fault -/

inductive Op where
  | send (f : Fault) (u tok amt h : Nat)
  | cancel (f : Fault) (u id : Nat)
  | build (f : Fault) (tok time : Nat)
  | fund (u tok amt : Nat)
  | setTax (tok : Nat) (c : Option TaxCfg)
  | setLimit (tok : Nat) (c : Option LimitCfg)
  | claim (n : Nat) (c : Claim)
  | endBlock (f : Fault) (h now : Nat) (toks : List Nat) (ests : List (Nat × Nat × Nat))

def apply (s : St) : Op → St
  | .send f u tok amt h => (send s f u tok amt h).1
  | .cancel f u id => (cancel s f u id).1
  | .build f tok time => (buildOne s f tok time).1
  | .fund u tok amt => fund s u tok amt
  | .setTax tok c => setTax s tok c
  | .setLimit tok c => setLimit s tok c
  | .claim n c => addClaim s n c
  | .endBlock f h now toks ests => (endBlock s f h now toks ests).1

def run (ops : List Op) : St := ops.foldl apply St.init

theorem run_append (a b : List Op) : run (a ++ b) = b.foldl apply (run a) := by
  unfold run; rw [List.foldl_append]

theorem run_snoc (a : List Op) (op : Op) : run (a ++ [op]) = apply (run a) op := by
  rw [run_append]; rfl

/-! ### lifting: a reflexive-transitive relation respected by every atomic step is respected by the
    end-block composite and by every history -/

/-- relations on (state, fault record): the general form, used when the fault sequence matters -/
structure InnerRelF (R : St × Fault → St × Fault → Prop) : Prop where
  refl : ∀ p, R p p
  trans : ∀ {a b c}, R a b → R b c → R a c
  build : ∀ s f tok time, R (s, f) ((buildOne s f tok time).1, (buildOne s f tok time).2.1)
  cancelBatch : ∀ s f tok nonce, R (s, f) ((cancelBatch s f tok nonce).1, (cancelBatch s f tok nonce).2.1)
  setEstimate : ∀ s f tok nonce est, R (s, f) ((setEstimate s f tok nonce est).1, (setEstimate s f tok nonce est).2.1)
  /-- the tally only ever observes the stored claim at the next nonce -/
  observe : ∀ s f n c, n = s.lastObserved + 1 → (n, c) ∈ s.claims → R (s, f) ((observe s f n c).1, (observe s f n c).2.1)
  /-- a collaborator call made by the composite itself (the tally's event emission) -/
  tick : ∀ s f t, R (s, f) (s, (f.tick t).1)

namespace InnerRelF
variable {R : St × Fault → St × Fault → Prop} (hR : InnerRelF R)
include hR

theorem createBatches (time : Nat) (toks : List Nat) : ∀ (s : St) (f : Fault),
    R (s, f) ((createBatches s f time toks).1, (createBatches s f time toks).2.1) := by
  induction toks with
  | nil => intro s f; exact hR.refl _
  | cons tok rest ih =>
    intro s f
    unfold Bridge.createBatches
    simp only
    split
    · exact hR.build s f tok time
    · exact hR.trans (hR.build s f tok time) (ih _ _)

theorem tally (fuel : Nat) : ∀ (s : St) (f : Fault), R (s, f) ((tally s f fuel).1, (tally s f fuel).2.1) := by
  induction fuel with
  | zero => intro s f; exact hR.refl _
  | succ k ih =>
    intro s f
    unfold Bridge.tally
    split
    · exact hR.refl _
    · rename_i n c hfind
      simp only
      have hmem := List.mem_of_find?_eq_some hfind
      have hn : n = s.lastObserved + 1 := by simpa using List.find?_some hfind
      have h1 := hR.trans (hR.observe s f n c hn hmem) (hR.tick _ _ tChainInfo)
      split
      · exact h1
      · exact hR.trans h1 (ih _ _)

theorem applyEstimates (ests : List (Nat × Nat × Nat)) : ∀ (s : St) (f : Fault),
    R (s, f) ((applyEstimates s f ests).1, (applyEstimates s f ests).2.1) := by
  induction ests with
  | nil => intro s f; exact hR.refl _
  | cons e rest ih =>
    intro s f
    obtain ⟨tok, nonce, est⟩ := e
    unfold Bridge.applyEstimates
    simp only
    exact hR.trans (hR.setEstimate s f tok nonce est) (ih _ _)

theorem timeouts (now : Nat) (bs : List Batch) : ∀ (s : St) (f : Fault),
    R (s, f) ((timeouts s f now bs).1, (timeouts s f now bs).2.1) := by
  induction bs with
  | nil => intro s f; exact hR.refl _
  | cons b rest ih =>
    intro s f
    unfold Bridge.timeouts
    split
    · simp only
      split
      · exact hR.cancelBatch s f b.token b.nonce
      · exact hR.trans (hR.cancelBatch s f b.token b.nonce) (ih _ _)
    · exact ih _ _

theorem endBlock (s : St) (f : Fault) (h now : Nat) (toks : List Nat) (ests : List (Nat × Nat × Nat)) :
    R (s, f) ((endBlock s f h now toks ests).1, (endBlock s f h now toks ests).2.1) := by
  unfold Bridge.endBlock
  simp only
  generalize hc : (if h % 50 == 0 then Bridge.createBatches s f now toks else (s, f, [])) = r1
  have h1 : R (s, f) (r1.1, r1.2.1) := by
    rw [← hc]
    split
    · exact hR.createBatches now toks s f
    · exact hR.refl _
  exact hR.trans (hR.trans (hR.trans h1 (hR.tally _ _ _)) (hR.applyEstimates _ _ _)) (hR.timeouts _ _ _ _)

end InnerRelF

/-- relations on states only -/
structure InnerRel (R : St → St → Prop) : Prop where
  refl : ∀ s, R s s
  trans : ∀ {a b c}, R a b → R b c → R a c
  build : ∀ s f tok time, R s (buildOne s f tok time).1
  cancelBatch : ∀ s f tok nonce, R s (cancelBatch s f tok nonce).1
  setEstimate : ∀ s f tok nonce est, R s (setEstimate s f tok nonce est).1
  /-- the tally only ever observes the stored claim at the next nonce -/
  observe : ∀ s f n c, n = s.lastObserved + 1 → (n, c) ∈ s.claims → R s (observe s f n c).1

namespace InnerRel
variable {R : St → St → Prop} (hR : InnerRel R)
include hR

theorem toF : InnerRelF (fun p q => R p.1 q.1) where
  refl := fun p => hR.refl p.1
  trans := fun h1 h2 => hR.trans h1 h2
  build := hR.build
  cancelBatch := hR.cancelBatch
  setEstimate := hR.setEstimate
  observe := hR.observe
  tick := fun s _ _ => hR.refl s

theorem createBatches (time : Nat) (toks : List Nat) (s : St) (f : Fault) : R s (createBatches s f time toks).1 :=
  hR.toF.createBatches time toks s f
theorem tally (fuel : Nat) (s : St) (f : Fault) : R s (tally s f fuel).1 := hR.toF.tally fuel s f
theorem applyEstimates (ests : List (Nat × Nat × Nat)) (s : St) (f : Fault) : R s (applyEstimates s f ests).1 :=
  hR.toF.applyEstimates ests s f
theorem timeouts (now : Nat) (bs : List Batch) (s : St) (f : Fault) : R s (timeouts s f now bs).1 :=
  hR.toF.timeouts now bs s f
theorem endBlock (s : St) (f : Fault) (h now : Nat) (toks : List Nat) (ests : List (Nat × Nat × Nat)) :
    R s (endBlock s f h now toks ests).1 := hR.toF.endBlock s f h now toks ests

end InnerRel

/-- an observable the keeper-level steps never write is unchanged by a whole end-block -/
theorem InnerRel.ofFrame {α : Type} (π : St → α)
    (hb : ∀ s tok time, π (buildOk s tok time) = π s)
    (hcb : ∀ s b, π (cancelBatchOk s b) = π s)
    (hest : ∀ s tok nonce est, π (estimateOk s tok nonce est) = π s)
    (hexec : ∀ s b, π (execOk s b) = π s)
    (hdep : ∀ s who tok amt, π (depositOk s who tok amt) = π s)
    (hcur : ∀ (s : St) (n : Nat), π { s with lastObserved := n } = π s)
    (hlog : ∀ (s : St) (e : Nat × Claim × Res), π { s with applied := e :: s.applied } = π s) :
    InnerRel (fun s s' => π s' = π s) where
  refl := fun _ => rfl
  trans := fun h1 h2 => h2.trans h1
  build := by
    intro s f tok time
    rcases buildOne_cases s f tok time with ⟨_, h⟩ | ⟨_, _, h⟩ <;> rw [h]
    exact hb s tok time
  cancelBatch := by
    intro s f tok nonce
    rcases cancelBatch_cases s f tok nonce with ⟨_, h⟩ | ⟨_, b, _, h⟩ <;> rw [h]
    exact hcb s b
  setEstimate := by
    intro s f tok nonce est
    rcases setEstimate_cases s f tok nonce est with ⟨_, h⟩ | ⟨_, b, _, _, h⟩ <;> rw [h]
    exact hest s tok nonce est
  observe := by
    intro s f n c _ _
    rw [observe_state, hlog]
    rcases applyClaim_cases { s with lastObserved := n } f c with
      ⟨_, h⟩ | ⟨_, ⟨tok, nonce, eh, b, _, _, _, _, _, h⟩ | ⟨tok, amt, r, who, _, _, h⟩⟩ <;> rw [h]
    · exact hcur s n
    · rw [hexec]; exact hcur s n
    · rw [hdep]; exact hcur s n

/-- generic: if `x` is in a list-valued observable after a history, either it was there at the start
    or there is a first step at which it appeared -/
theorem first_appearance {σ ο α : Type} (step : σ → ο → σ) (π : σ → List α) (x : α) (ops : List ο) :
    ∀ s, x ∈ π (ops.foldl step s) → x ∈ π s ∨
      ∃ pre op rest, ops = pre ++ op :: rest ∧ x ∉ π (pre.foldl step s) ∧ x ∈ π (step (pre.foldl step s) op) := by
  induction ops with
  | nil => intro s h; exact Or.inl h
  | cons op rest ih =>
    intro s h
    rcases ih (step s op) h with h1 | ⟨pre, op', rest', he, hn, hm⟩
    · by_cases h0 : x ∈ π s
      · exact Or.inl h0
      · exact Or.inr ⟨[], op, rest, rfl, h0, h1⟩
    · exact Or.inr ⟨op :: pre, op', rest', by rw [he]; rfl, hn, hm⟩

structure StepRel (R : St → St → Prop) : Prop extends InnerRel R where
  send : ∀ s f u tok amt h, R s (send s f u tok amt h).1
  cancel : ∀ s f u id, R s (cancel s f u id).1
  fund : ∀ s u tok amt, R s (fund s u tok amt)
  setTax : ∀ s tok c, R s (setTax s tok c)
  setLimit : ∀ s tok c, R s (setLimit s tok c)
  addClaim : ∀ s n c, R s (addClaim s n c)

namespace StepRel
variable {R : St → St → Prop} (hR : StepRel R)
include hR

theorem apply (s : St) (op : Op) : R s (apply s op) := by
  cases op with
  | send f u tok amt h => exact hR.send s f u tok amt h
  | cancel f u id => exact hR.cancel s f u id
  | build f tok time => exact hR.build s f tok time
  | fund u tok amt => exact hR.fund s u tok amt
  | setTax tok c => exact hR.setTax s tok c
  | setLimit tok c => exact hR.setLimit s tok c
  | claim n c => exact hR.addClaim s n c
  | endBlock f h now toks ests => exact hR.toInnerRel.endBlock s f h now toks ests

theorem foldl (ops : List Op) : ∀ s, R s (ops.foldl Bridge.apply s) := by
  induction ops with
  | nil => intro s; exact hR.refl s
  | cons op rest ih => intro s; exact hR.trans (hR.apply s op) (ih _)

end StepRel

/-- an observable no bridge operation writes is unchanged by every history -/
theorem StepRel.ofFrame {α : Type} (π : St → α) (inner : InnerRel (fun s s' => π s' = π s))
    (hsend : ∀ s u tok amt us, π (sendOk s u tok amt us) = π s)
    (hcancel : ∀ s t, π (cancelOk s t) = π s)
    (hfund : ∀ s u tok amt, π (Bridge.fund s u tok amt) = π s)
    (htax : ∀ s tok c, π (Bridge.setTax s tok c) = π s)
    (hlim : ∀ s tok c, π (Bridge.setLimit s tok c) = π s)
    (hclaim : ∀ s n c, π (Bridge.addClaim s n c) = π s) : StepRel (fun s s' => π s' = π s) where
  toInnerRel := inner
  send := by
    intro s f u tok amt h
    rcases send_cases s f u tok amt h with ⟨_, h1⟩ | ⟨_, usage', _, _, _, _, _, h1⟩ <;> rw [h1]
    exact hsend s u tok amt usage'
  cancel := by
    intro s f u id
    rcases cancel_cases s f u id with ⟨_, h1⟩ | ⟨_, t, _, _, h1⟩ <;> rw [h1]
    exact hcancel s t
  fund := hfund
  setTax := htax
  setLimit := hlim
  addClaim := hclaim

theorem setTax_other (s : St) (tok : Nat) (c : Option TaxCfg) :
    (setTax s tok c).pool = s.pool ∧ (setTax s tok c).batches = s.batches ∧ (setTax s tok c).archive = s.archive ∧
    (setTax s tok c).keys = s.keys ∧ (setTax s tok c).jailed = s.jailed ∧ (setTax s tok c).usage = s.usage ∧
    (setTax s tok c).limit = s.limit ∧ (setTax s tok c).accepted = s.accepted ∧ (setTax s tok c).lastTx = s.lastTx := by
  unfold setTax
  split
  · exact ⟨rfl, rfl, rfl, rfl, rfl, rfl, rfl, rfl, rfl⟩
  · split <;> exact ⟨rfl, rfl, rfl, rfl, rfl, rfl, rfl, rfl, rfl⟩

theorem addClaim_other (s : St) (n : Nat) (c : Claim) :
    (addClaim s n c).pool = s.pool ∧ (addClaim s n c).batches = s.batches ∧ (addClaim s n c).archive = s.archive ∧
    (addClaim s n c).keys = s.keys ∧ (addClaim s n c).jailed = s.jailed ∧ (addClaim s n c).usage = s.usage ∧
    (addClaim s n c).limit = s.limit ∧ (addClaim s n c).tax = s.tax ∧ (addClaim s n c).accepted = s.accepted ∧
    (addClaim s n c).lastTx = s.lastTx := by
  unfold addClaim
  split <;> exact ⟨rfl, rfl, rfl, rfl, rfl, rfl, rfl, rfl, rfl, rfl⟩

/-- "an invariant is preserved" is a reflexive-transitive relation -/
def Preserves (P : St → Prop) (s s' : St) : Prop := P s → P s'

end Paloma.Bridge
