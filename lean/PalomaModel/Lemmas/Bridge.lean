/- Helper lemmas for the bridge model (C01, C15). Not property theorems. -/
import PalomaModel.Model.Bridge

namespace Paloma.Bridge
open List

/-- amount+tax owed to transfers of token `tok` in a list -/
def owedTok (tok : Nat) (l : List Tx) : Nat := ((l.filter (fun t => t.token == tok)).map Tx.owed).sum

def batched (s : St) : List Tx := s.batches.flatMap (·.txs)
def pending (s : St) : List Tx := s.pool ++ batched s

theorem owedTok_nil (tok : Nat) : owedTok tok [] = 0 := rfl

theorem owedTok_cons (tok : Nat) (t : Tx) (l : List Tx) :
    owedTok tok (t :: l) = (if t.token = tok then t.owed else 0) + owedTok tok l := by
  unfold owedTok
  by_cases h : t.token = tok <;> simp [List.filter_cons, h]

theorem owedTok_append (tok : Nat) (l₁ l₂ : List Tx) :
    owedTok tok (l₁ ++ l₂) = owedTok tok l₁ + owedTok tok l₂ := by
  unfold owedTok; simp [List.filter_append, List.map_append, List.sum_append]

theorem owedTok_perm (tok : Nat) {l₁ l₂ : List Tx} (h : l₁.Perm l₂) : owedTok tok l₁ = owedTok tok l₂ := by
  unfold owedTok
  exact ((h.filter _).map _).sum_nat

theorem insertDesc_perm (t : Tx) (l : List Tx) : (insertDesc t l).Perm (t :: l) := by
  induction l with
  | nil => simp [insertDesc]
  | cons x xs ih =>
    simp only [insertDesc]
    split
    · exact Perm.refl _
    · exact (Perm.cons x ih).trans (Perm.swap t x xs)

theorem sortDesc_perm (l : List Tx) : (sortDesc l).Perm l := by
  induction l with
  | nil => simp [sortDesc]
  | cons t ts ih => exact (insertDesc_perm t _).trans (Perm.cons t ih)

theorem mem_sortDesc {t : Tx} {l : List Tx} : t ∈ sortDesc l ↔ t ∈ l := (sortDesc_perm l).mem_iff

/-- splitting the pool for a batch build is a permutation of the pool -/
theorem build_split_perm (pool : List Tx) (tok : Nat) :
    ((sortDesc (pool.filter (fun t => t.token == tok))).take OutgoingTxBatchSize ++
      (pool.filter (fun t => !(t.token == tok)) ++
        (sortDesc (pool.filter (fun t => t.token == tok))).drop OutgoingTxBatchSize)).Perm pool := by
  have h1 : ((sortDesc (pool.filter (fun t => t.token == tok))).take OutgoingTxBatchSize ++
      (pool.filter (fun t => !(t.token == tok)) ++
        (sortDesc (pool.filter (fun t => t.token == tok))).drop OutgoingTxBatchSize)).Perm
      (((sortDesc (pool.filter (fun t => t.token == tok))).take OutgoingTxBatchSize ++
        (sortDesc (pool.filter (fun t => t.token == tok))).drop OutgoingTxBatchSize) ++
        pool.filter (fun t => !(t.token == tok))) := by
    rw [List.append_assoc]
    exact Perm.append_left _ perm_append_comm
  refine h1.trans ?_
  rw [List.take_append_drop]
  exact (Perm.append_right _ (sortDesc_perm _)).trans (filter_append_perm _ pool)

theorem findBatch_some {l : List Batch} {tok nonce : Nat} {b : Batch} (h : findBatch l tok nonce = some b) :
    b ∈ l ∧ b.token = tok ∧ b.nonce = nonce := by
  unfold findBatch at h
  have hm := List.mem_of_find?_eq_some h
  have hp := List.find?_some h
  simp only [Bool.and_eq_true, beq_iff_eq] at hp
  exact ⟨hm, hp.1, hp.2⟩

def bkey (b : Batch) : Nat × Nat := (b.token, b.nonce)

/-- with distinct `(token, nonce)` keys, removing a batch removes exactly that batch's transfers -/
theorem batched_remove_perm (bs : List Batch) (b : Batch) (hb : b ∈ bs)
    (hk : (bs.map bkey).Nodup) :
    (bs.flatMap (·.txs)).Perm (b.txs ++ (removeBatch bs b.token b.nonce).flatMap (·.txs)) := by
  induction bs with
  | nil => cases hb
  | cons x xs ih =>
    have hk' := List.nodup_cons.mp (by simpa only [List.map_cons] using hk)
    unfold removeBatch at *
    simp only [List.flatMap_cons, List.filter_cons]
    rcases List.mem_cons.mp hb with rfl | hmem
    · -- the head is the batch; no other batch has its key
      have hrest : xs.filter (fun y => !(y.token == b.token && y.nonce == b.nonce)) = xs := by
        apply List.filter_eq_self.mpr
        intro y hy
        by_cases hyk : y.token = b.token ∧ y.nonce = b.nonce
        · exfalso; apply hk'.1
          exact List.mem_map.mpr ⟨y, hy, by simp [bkey, hyk.1, hyk.2]⟩
        · simp only [Bool.not_eq_true', Bool.and_eq_false_iff, beq_eq_false_iff_ne, ne_eq]
          by_cases h1 : y.token = b.token
          · right; exact fun h2 => hyk ⟨h1, h2⟩
          · left; exact h1
      simp only [beq_self_eq_true, Bool.and_self, Bool.not_true, Bool.false_eq_true, if_false]
      rw [hrest]
    · have hne : ¬ (x.token = b.token ∧ x.nonce = b.nonce) := by
        intro hx; apply hk'.1
        exact List.mem_map.mpr ⟨b, hmem, by simp [bkey, hx.1, hx.2]⟩
      have hcond : (!(x.token == b.token && x.nonce == b.nonce)) = true := by
        simp only [Bool.not_eq_true', Bool.and_eq_false_iff, beq_eq_false_iff_ne, ne_eq]
        by_cases h1 : x.token = b.token
        · right; exact fun h2 => hne ⟨h1, h2⟩
        · left; exact h1
      simp only [hcond, if_true, List.flatMap_cons]
      have := ih hmem hk'.2
      refine (Perm.append_left x.txs this).trans ?_
      rw [← List.append_assoc, ← List.append_assoc]
      exact Perm.append_right _ perm_append_comm

theorem removeBatch_sublist (bs : List Batch) (tok nonce : Nat) : (removeBatch bs tok nonce).Sublist bs :=
  List.filter_sublist

theorem owedTok_of_token (tok : Nat) (l : List Tx) (h : ∀ t ∈ l, t.token = tok) :
    owedTok tok l = (l.map Tx.owed).sum := by
  unfold owedTok
  rw [List.filter_eq_self.mpr]
  intro t ht; simp [h t ht]

theorem owedTok_of_other (tok tok' : Nat) (l : List Tx) (h : ∀ t ∈ l, t.token = tok') (hne : tok' ≠ tok) :
    owedTok tok l = 0 := by
  unfold owedTok
  rw [List.filter_eq_nil_iff.mpr]
  · rfl
  · intro t ht; simp [h t ht, hne]

theorem findTx_some {l : List Tx} {id : Nat} {t : Tx} (h : findTx l id = some t) : t ∈ l ∧ t.id = id := by
  unfold findTx at h
  exact ⟨List.mem_of_find?_eq_some h, by simpa using List.find?_some h⟩

/-- with distinct ids, filtering out an id removes exactly that transfer -/
theorem filter_id_perm (l : List Tx) (t : Tx) (ht : t ∈ l) (hnd : (l.map (·.id)).Nodup) :
    l.Perm (t :: l.filter (fun x => x.id != t.id)) := by
  induction l with
  | nil => cases ht
  | cons x xs ih =>
    have hnd' := List.nodup_cons.mp (by simpa only [List.map_cons] using hnd)
    simp only [List.filter_cons]
    rcases List.mem_cons.mp ht with rfl | hmem
    · have : xs.filter (fun y => y.id != t.id) = xs := by
        apply List.filter_eq_self.mpr
        intro y hy
        have : y.id ≠ t.id := fun e => hnd'.1 (List.mem_map.mpr ⟨y, hy, e⟩)
        simp [this]
      simp [this]
    · have hne : x.id ≠ t.id := fun e => hnd'.1 (List.mem_map.mpr ⟨t, hmem, e.symm⟩)
      simp only [bne_iff_ne, ne_eq, hne, not_false_eq_true, if_true]
      exact (Perm.cons x (ih hmem hnd'.2)).trans (Perm.swap t x _)

end Paloma.Bridge
