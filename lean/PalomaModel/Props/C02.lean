/-
C02 — oracle safety: > 66 % power, one vote per validator, applied once, in order.
Model: `Model/Oracle.lean`. The invariants are proved for every history of votes (any
validator, nonce, competing claim), tallies with an arbitrary power table each, periodic
validator-nonce catch-up and governance nonce overrides.
-/
import PalomaModel.Model.Oracle
import PalomaModel.Gen.Consts

namespace Paloma.Oracle
open List

/-! ## helper lemmas -/
section Lemmas

theorem addVote_nodup (votes : List Nat) (v : Nat) (h : votes.Nodup) : (addVote votes v).Nodup := by
  unfold addVote
  split
  · exact h
  · rename_i hc
    rw [List.nodup_append]
    refine ⟨h, by simp, ?_⟩
    intro a ha b hb
    simp at hb; subst hb
    intro e; subst e
    exact hc (by simpa using ha)

theorem mem_putAtt {l : List Att} {a x : Att} (h : x ∈ putAtt l a) : x = a ∨ x ∈ l := by
  unfold putAtt at h
  split at h
  · rcases List.mem_map.mp h with ⟨y, hy, rfl⟩
    split
    · left; rfl
    · right; exact hy
  · rcases List.mem_append.mp h with h | h
    · right; exact h
    · left; simpa using h

theorem findAtt_mem {l : List Att} {n h : Nat} {a : Att} (hf : findAtt l n h = some a) : a ∈ l :=
  List.mem_of_find?_eq_some hf

theorem mem_insertByHash {a x : Att} {l : List Att} (h : x ∈ insertByHash a l) : x = a ∨ x ∈ l := by
  induction l with
  | nil => left; simpa [insertByHash] using h
  | cons y ys ih =>
    simp only [insertByHash] at h
    split at h
    · rcases List.mem_cons.mp h with h | h
      · left; exact h
      · right; exact h
    · rcases List.mem_cons.mp h with h | h
      · right; simp [h]
      · rcases ih h with h | h
        · left; exact h
        · right; simp [h]

theorem mem_attsAt {l : List Att} {n : Nat} {x : Att} (h : x ∈ attsAt l n) : x ∈ l ∧ x.nonce = n := by
  unfold attsAt at h
  have : ∀ (m : List Att), x ∈ m.foldr insertByHash [] → x ∈ m := by
    intro m
    induction m with
    | nil => intro h; simp at h
    | cons y ys ih =>
      intro h
      simp only [List.foldr_cons] at h
      rcases mem_insertByHash h with h | h
      · simp [h]
      · simp [ih h]
  have hm := this _ h
  have := List.mem_filter.mp hm
  exact ⟨this.1, by simpa using this.2⟩

/-- if some prefix sum exceeds `required`, so does the total -/
theorem reaches_sum (power : Nat → Nat) (required : Nat) (votes : List Nat) (acc : Nat)
    (h : reaches power required votes acc = true) : acc + (votes.map power).sum > required := by
  induction votes generalizing acc with
  | nil => simp [reaches] at h
  | cons v vs ih =>
    simp only [reaches] at h
    split at h
    · simp only [List.map_cons, List.sum_cons]; omega
    · have := ih _ h
      simp only [List.map_cons, List.sum_cons]; omega

/-- the C02 invariant -/
structure Inv (s : St) : Prop where
  nodup : ∀ a ∈ s.atts, a.votes.Nodup
  /-- every observation happened exactly at cursor + 1 -/
  step1 : ∀ e ∈ s.observations, e.nonce = e.cursorBefore + 1
  /-- observations of an epoch: strictly increasing nonces, all ≤ cursor -/
  incr : s.observations.Pairwise (fun a b => a.nonce < b.nonce)
  le : ∀ e ∈ s.observations, e.nonce ≤ s.lastObserved
  /-- effects are a sub-sequence of the observations -/
  sub : s.effects.Sublist s.observations

theorem inv_init : Inv St.init := by
  constructor <;> simp [St.init]

theorem attFor_nodup (s : St) (n h eth : Nat) (ap : Bool) (amt : Nat) (hi : ∀ a ∈ s.atts, a.votes.Nodup) :
    (attFor s n h eth ap amt).votes.Nodup := by
  unfold attFor
  cases hf : findAtt s.atts n h with
  | none => simp
  | some a => simpa using hi a (findAtt_mem hf)

theorem vote_inv (s : St) (v n h eth : Nat) (ap : Bool) (amt : Nat) (hi : Inv s) :
    Inv (vote s v n h eth ap amt).1 := by
  unfold vote
  split
  · exact hi
  · split
    · exact hi
    · constructor
      · intro a ha
        rcases mem_putAtt ha with rfl | ha
        · exact addVote_nodup _ _ (attFor_nodup s n h eth ap amt hi.nodup)
        · exact hi.nodup a ha
      · exact hi.step1
      · exact hi.incr
      · exact hi.le
      · exact hi.sub

theorem tryAtt_inv (s : St) (a : Att) (power : Nat → Nat) (total : Nat) (ef : EventFault) (hi : Inv s)
    (ha : a.votes.Nodup) : Inv (tryAtt s a power total ef).1 := by
  unfold tryAtt
  split
  · exact hi
  · split
    · exact hi
    · split
      · exact hi
      · rename_i hn
        have hn' : a.nonce = s.lastObserved + 1 := by simpa using hn
        split
        · constructor
          · exact hi.nodup
          · exact hi.step1
          · exact hi.incr
          · intro e he; have := hi.le e he; simp only; omega
          · exact hi.sub
        · constructor
          · intro x hx
            rcases mem_putAtt hx with rfl | hx
            · exact ha
            · exact hi.nodup x hx
          · intro e he
            simp only [List.mem_append, List.mem_singleton] at he
            rcases he with he | rfl
            · exact hi.step1 e he
            · simp [hn']
          · simp only
            rw [List.pairwise_append]
            refine ⟨hi.incr, by simp, ?_⟩
            intro x hx y hy
            simp at hy; subst hy
            have := hi.le x hx; simp only; omega
          · intro e he
            simp only [List.mem_append, List.mem_singleton] at he
            rcases he with he | rfl
            · have := hi.le e he; simp only; omega
            · simp
          · simp only
            split
            · exact List.Sublist.append hi.sub (List.Sublist.refl _)
            · exact hi.sub.trans (List.sublist_append_left _ _)

theorem tallyAtts_inv (power : Nat → Nat) (total n : Nat) (ef : EventFault) (as : List Att) :
    ∀ s, Inv s → (∀ a ∈ as, a.votes.Nodup) → Inv (tallyAtts s power total n ef as).1 := by
  induction as with
  | nil => intro s hi _; exact hi
  | cons a rest ih =>
    intro s hi hnd
    unfold tallyAtts
    have ha := hnd a (by simp)
    have hrest : ∀ x ∈ rest, x.votes.Nodup := fun x hx => hnd x (by simp [hx])
    split
    · split
      · exact tryAtt_inv s a power total ef hi ha
      · exact ih _ (tryAtt_inv s a power total ef hi ha) hrest
    · exact ih _ hi hrest

theorem tallyKeys_inv (snap : List Att) (power : Nat → Nat) (total : Nat) (ef : EventFault) (keys : List Nat)
    (hsnap : ∀ a ∈ snap, a.votes.Nodup) : ∀ s, Inv s → Inv (tallyKeys s snap power total ef keys) := by
  induction keys with
  | nil => intro s hi; exact hi
  | cons n rest ih =>
    intro s hi
    unfold tallyKeys
    have h1 := tallyAtts_inv power total n ef (attsAt snap n) s hi (fun a ha => hsnap a (mem_attsAt ha).1)
    split
    · exact h1
    · exact ih _ h1

theorem tally_inv (s : St) (power : Nat → Nat) (total : Nat) (ef : EventFault) (hi : Inv s) : Inv (tally s power total ef) :=
  tallyKeys_inv s.atts power total ef _ hi.nodup s hi

theorem catchUp_inv (s : St) (hi : Inv s) : Inv (catchUp s) := by
  constructor
  · exact hi.nodup
  · exact hi.step1
  · exact hi.incr
  · exact hi.le
  · exact hi.sub

theorem override_inv (s : St) (n : Nat) (hi : Inv s) : Inv (override s n) := by
  constructor
  · exact hi.nodup
  · intro e he; simp [override] at he
  · simp [override]
  · intro e he; simp [override] at he
  · simp [override]

end Lemmas

/-- everything that can happen to the oracle of one chain -/
inductive Op where
  | vote (v n h eth : Nat) (applicable : Bool) (amount : Nat)
  | tally (power : List (Nat × Nat)) (total : Nat)
  /-- a tally during which the observation event of the listed attestations (nonce, hash) cannot be emitted -/
  | tallyFault (power : List (Nat × Nat)) (total : Nat) (failing : List (Nat × Nat))
  | catchUp
  | override (n : Nat)

def apply (s : St) : Op → St
  | .vote v n h eth ap amt => (vote s v n h eth ap amt).1
  | .tally p t => tally s (powerOf p) t
  | .tallyFault p t f => tally s (powerOf p) t (faultOf f)
  | .catchUp => catchUp s
  | .override n => override s n

def run (ops : List Op) : St := ops.foldl apply St.init

/-! ## Property theorems (C02) -/

theorem reachable_inv (ops : List Op) : Inv (run ops) := by
  unfold run
  suffices h : ∀ s, Inv s → Inv (ops.foldl apply s) from h _ inv_init
  induction ops with
  | nil => intro s hi; exact hi
  | cons op rest ih =>
    intro s hi
    apply ih
    cases op with
    | vote v n h eth ap amt => exact vote_inv s v n h eth ap amt hi
    | tally p t => exact tally_inv s _ t _ hi
    | tallyFault p t f => exact tally_inv s _ t _ hi
    | catchUp => exact catchUp_inv s hi
    | override n => exact override_inv s n hi

/-- **votes_nodup.** In every reachable state no validator appears twice in any attestation's
vote list — whatever the order of votes, tallies, catch-ups and nonce overrides. -/
theorem votes_nodup (ops : List Op) : ∀ a ∈ (run ops).atts, a.votes.Nodup :=
  (reachable_inv ops).nodup

/-- **observed_has_quorum.** `TryAttestation` marks an attestation observed only if the power
(as read at this very tally) of its voters exceeds 66 % of the total; with `votes_nodup` every
validator's power is counted at most once in that sum. -/
theorem observed_has_quorum (s : St) (a : Att) (power : Nat → Nat) (total : Nat)
    (h : (tryAtt s a power total).2 = .observedOk) :
    100 * (a.votes.map power).sum > 66 * total ∧ a.nonce = s.lastObserved + 1 ∧ a.observed = false := by
  unfold tryAtt at h
  split at h
  · cases h
  · rename_i hobs
    split at h
    · cases h
    · rename_i hr
      split at h
      · cases h
      · rename_i hn
        have hr' : reaches power (66 * total / 100) a.votes 0 = true := by simpa using hr
        have := reaches_sum power _ a.votes 0 hr'
        refine ⟨by omega, by simpa using hn, by simpa using hobs⟩

/-- **no_quorum_no_effect.** Without a voter prefix above the threshold nothing changes. -/
theorem no_quorum_no_effect (s : St) (a : Att) (power : Nat → Nat) (total : Nat)
    (hobs : a.observed = false) (h : 100 * (a.votes.map power).sum ≤ 66 * total) :
    (tryAtt s a power total).1 = s := by
  unfold tryAtt
  simp only [hobs, Bool.false_eq_true, if_false]
  have : reaches power (66 * total / 100) a.votes 0 = false := by
    cases hr : reaches power (66 * total / 100) a.votes 0
    · rfl
    · have := reaches_sum power _ a.votes 0 hr; omega
  simp [this]

/-- **applied_exactly_once_if_applicable.** When an attestation is observed its effect is applied
in that same step exactly when the handler can apply it; the cursor advances either way. -/
theorem applied_exactly_once_if_applicable (s : St) (a : Att) (power : Nat → Nat) (total : Nat)
    (h : (tryAtt s a power total).2 = .observedOk) :
    (tryAtt s a power total).1.lastObserved = a.nonce ∧
    (a.applicable = true →
      (tryAtt s a power total).1.effects = s.effects ++ [{ nonce := a.nonce, hash := a.hash, cursorBefore := s.lastObserved }] ∧
      (tryAtt s a power total).1.minted = s.minted + a.amount) ∧
    (a.applicable = false →
      (tryAtt s a power total).1.effects = s.effects ∧ (tryAtt s a power total).1.minted = s.minted) := by
  unfold tryAtt at h ⊢
  split at h
  · cases h
  · split at h
    · cases h
    · split at h
      · cases h
      · split at h
        · cases h
        · rename_i h1 h2 h3 h4
          simp only [h1, h2, h3, h4, if_false]
          refine ⟨rfl, ?_, ?_⟩
          · intro hap; simp [hap]
          · intro hap; simp [hap]

/-- **event_failure_loses_only_the_event.** Whether or not the observation event of an attestation
can be emitted (the chain-info lookup behind it may fail), the state `TryAttestation` leaves is the
same: the claim is marked observed, the cursor moved and the effect applied before the event is
attempted. Only the result differs (`eventFailed` stops the rest of this chain's tally). -/
theorem event_failure_loses_only_the_event (s : St) (a : Att) (power : Nat → Nat) (total : Nat) (ef : EventFault) :
    (tryAtt s a power total ef).1 = (tryAtt s a power total).1 ∧
    ((tryAtt s a power total ef).2 = .eventFailed → (tryAtt s a power total).2 = .observedOk) ∧
    ((tryAtt s a power total ef).2 ≠ .eventFailed → (tryAtt s a power total ef).2 = (tryAtt s a power total).2) := by
  unfold tryAtt
  split
  · simp
  · split
    · simp
    · split
      · simp
      · split
        · simp
        · simp only [noFault, Bool.false_eq_true, if_false, true_and]
          split <;> simp

/-- **applied_exactly_once_under_event_failure.** The clause "exactly once whenever it can be applied
at all" also holds for an observation whose event fails: same quorum, same cursor step, same effect. -/
theorem applied_exactly_once_under_event_failure (s : St) (a : Att) (power : Nat → Nat) (total : Nat) (ef : EventFault)
    (h : (tryAtt s a power total ef).2 = .eventFailed) :
    100 * (a.votes.map power).sum > 66 * total ∧ a.nonce = s.lastObserved + 1 ∧
    (tryAtt s a power total ef).1.lastObserved = a.nonce ∧
    (a.applicable = true → (tryAtt s a power total ef).1.minted = s.minted + a.amount) ∧
    (a.applicable = false → (tryAtt s a power total ef).1.minted = s.minted) := by
  have e := event_failure_loses_only_the_event s a power total ef
  have hok := e.2.1 h
  have q := observed_has_quorum s a power total hok
  have ap := applied_exactly_once_if_applicable s a power total hok
  rw [e.1]
  exact ⟨q.1, q.2.1, ap.1, fun hp => (ap.2.1 hp).2, fun hp => (ap.2.2 hp).2⟩

/-- **consecutive_order / one_claim_per_nonce / applied_at_most_once.** Between governance
resets: every observation happened at cursor+1, observed nonces strictly increase (so at most
one claim per nonce is ever observed, and none twice), and the applied effects are a
sub-sequence of the observations (each applied at most once, in nonce order). -/
theorem effects_in_order (ops : List Op) :
    (∀ e ∈ (run ops).observations, e.nonce = e.cursorBefore + 1) ∧
    (run ops).observations.Pairwise (fun a b => a.nonce < b.nonce) ∧
    (run ops).effects.Sublist (run ops).observations ∧
    (run ops).effects.Pairwise (fun a b => a.nonce < b.nonce) := by
  have hi := reachable_inv ops
  exact ⟨hi.step1, hi.incr, hi.sub, hi.incr.sublist hi.sub⟩

/-- **competing_claims_exclusive.** Two observations of one epoch with the same nonce are the
same observation: competing claims at one nonce can never both take effect. -/
theorem competing_claims_exclusive (ops : List Op) (e₁ e₂ : Effect)
    (h₁ : e₁ ∈ (run ops).observations) (h₂ : e₂ ∈ (run ops).observations) (hn : e₁.nonce = e₂.nonce) :
    e₁ = e₂ := by
  have hp := (reachable_inv ops).incr
  rcases List.mem_iff_getElem.mp h₁ with ⟨i, hi, rfl⟩
  rcases List.mem_iff_getElem.mp h₂ with ⟨j, hj, rfl⟩
  have hlt := List.pairwise_iff_getElem.mp hp
  rcases Nat.lt_trichotomy i j with h | h | h
  · have := hlt i j hi hj h; omega
  · subst h; rfl
  · have := hlt j i hj hi h; omega

/-- **threshold_as_in_source.** The constants the model's `tryAtt` uses (`> 66 * total / 100`) are
the ones in the current source: `AttestationVotesPowerThreshold = 66`, strict `GT`, divisor 100
(regenerated by the extractor on every run). -/
theorem threshold_as_in_source :
    Paloma.Gen.Consts.attestationVotesPowerThreshold = 66 ∧
    Paloma.Gen.Consts.tryAttestationComparator = "GT" ∧
    Paloma.Gen.Consts.tryAttestationDivisor = 100 ∧
    Paloma.Gen.Consts.updateValidatorNoncesPeriod = 50 := by decide

/-- **vote_requires_next_nonce.** A validator's vote is accepted only for exactly the nonce
after its last one. -/
theorem vote_requires_next_nonce (s : St) (v n h eth : Nat) (ap : Bool) (amt : Nat)
    (hok : (vote s v n h eth ap amt).2 = .ok) : n = lastNonceOf s v + 1 := by
  unfold vote at hok
  split at hok
  · cases hok
  · rename_i hn; simpa using hn

/-! ### non-vacuity: validator 1 votes, the nonce is overridden, it votes again — counted once -/
def demo : List Op :=
  [ .vote 1 1 77 100 true 5, .override 0, .vote 1 1 77 100 true 5, .vote 2 1 77 100 true 5,
    .tally [(1, 40), (2, 30), (3, 30)] 100 ]

example : ((run demo).atts.map (·.votes)) = [[1, 2]] ∧ (run demo).lastObserved = 1 ∧
    (run demo).minted = 5 ∧ (run demo).effects.length = 1 := by decide
example : (run [.vote 1 1 77 100 true 5, .override 0, .vote 1 1 77 100 true 5,
    .tally [(1, 40), (2, 30), (3, 30)] 100]).lastObserved = 0 := by decide
/-- two claims reach quorum in one block; the event of the first cannot be emitted: it is applied, the second waits -/
example : (run [.vote 1 1 77 100 true 5, .vote 2 1 77 100 true 5, .vote 1 2 88 101 true 6, .vote 2 2 88 101 true 6,
    .tallyFault [(1, 40), (2, 30), (3, 30)] 100 [(1, 77)]]).minted = 5 ∧
  (run [.vote 1 1 77 100 true 5, .vote 2 1 77 100 true 5, .vote 1 2 88 101 true 6, .vote 2 2 88 101 true 6,
    .tally [(1, 40), (2, 30), (3, 30)] 100]).minted = 11 := by decide

end Paloma.Oracle
