/-
C02 — oracle safety: > 66 % power, one vote per validator, applied once, in order.
Model: `Model/Oracle.lean` (mirrors x/skyway/keeper/attestation.go, x/skyway/abci.go, keeper.go at the
current HEAD). Everything below the marker is proved for EVERY history `run ops` of votes (any validator,
nonce, competing claim, accepted or rejected), end-of-block tallies with an arbitrary power table each (with
or without a failing observation event), periodic validator-nonce catch-up and governance nonce overrides.

Ghost state and how it is tied down. `St.log` (with `epoch`, `epochStart`) is never read by the executable
model. It is tied
  * to the executable state by `log_matches_state` (an attestation is flagged observed iff the log has an
    entry for it, exactly one, with the same claim), `minted_eq_sum_log` (the observable `minted` is the sum
    over the log) and `cursor_consecutive` (the cursor is `epochStart` + number of entries of this epoch);
  * to the op history by `effect_requires_quorum` (every entry was appended by a tally op of the history
    whose power table gave the entry's voters more than 66 % of the table's total) and
    `effect_voters_voted` (every one of those voters has an accepted vote op for that very claim earlier in
    the history).
External ASSUMPTIONS (named where used): claim hashes are collision free (a hash identifies the claim
content; `applicable` and `amount` are functions of the hash); x/staking keeps `LastTotalPower` equal to
the sum of the `LastValidatorPower` records (`totalOf`); validators stay bonded; pruning (1000 nonces
behind the cursor) is not reached.
-/
import PalomaModel.Model.Oracle
import PalomaModel.Gen.Consts

namespace Paloma.Oracle
open List

/-! ## helper lemmas -/
section Lemmas

theorem rev_induction {α : Type} {P : List α → Prop} (hnil : P []) (hsnoc : ∀ l a, P l → P (l ++ [a])) :
    ∀ l, P l := by
  have h : ∀ l : List α, P l.reverse := by
    intro l
    induction l with
    | nil => simpa using hnil
    | cons a l ih => simpa using hsnoc _ a ih
  intro l
  simpa using h l.reverse

theorem addVote_nodup (votes : List Nat) (v : Nat) (h : votes.Nodup) : (addVote votes v).Nodup := by
  unfold addVote
  split
  · exact h
  · rename_i hc
    rw [List.nodup_append]
    refine ⟨h, by simp, ?_⟩
    intro a ha b hb
    simp at hb; subst hb
    intro e; subst e
    exact hc (by simpa using ha)

theorem mem_addVote {votes : List Nat} {v w : Nat} (h : w ∈ addVote votes v) : w ∈ votes ∨ w = v := by
  unfold addVote at h
  split at h
  · left; exact h
  · simpa using h

/-- two attestations are stored under the same key -/
def sameKey (a b : Att) : Prop := a.nonce = b.nonce ∧ a.hash = b.hash

theorem mem_putAtt {l : List Att} {a x : Att} (h : x ∈ putAtt l a) : x = a ∨ (x ∈ l ∧ ¬ sameKey x a) := by
  unfold putAtt at h
  split at h
  · rcases List.mem_map.mp h with ⟨y, hy, rfl⟩
    split
    · left; rfl
    · rename_i hk
      right; refine ⟨hy, ?_⟩
      intro hs; apply hk; simp [hs.1, hs.2]
  · rename_i hany
    rcases List.mem_append.mp h with h | h
    · right; refine ⟨h, ?_⟩
      intro hs; apply hany
      exact List.any_eq_true.mpr ⟨x, h, by simp [hs.1, hs.2]⟩
    · left; simpa using h

theorem mem_putAtt_self (l : List Att) (a : Att) : a ∈ putAtt l a := by
  unfold putAtt
  split
  · rename_i hany
    rcases List.any_eq_true.mp hany with ⟨x, hx, hk⟩
    exact List.mem_map.mpr ⟨x, hx, by simp [hk]⟩
  · simp

theorem mem_putAtt_of_ne {l : List Att} {a x : Att} (hx : x ∈ l) (hk : ¬ sameKey x a) : x ∈ putAtt l a := by
  unfold putAtt
  have hk' : (x.nonce == a.nonce && x.hash == a.hash) = false := by
    cases h : (x.nonce == a.nonce && x.hash == a.hash)
    · rfl
    · exfalso; apply hk
      simp only [Bool.and_eq_true, beq_iff_eq] at h
      exact h
  split
  · exact List.mem_map.mpr ⟨x, hx, by simp [hk']⟩
  · exact List.mem_append.mpr (Or.inl hx)

/-- distinct store keys -/
def KeysDistinct (l : List Att) : Prop := l.Pairwise (fun a b => ¬ sameKey a b)

theorem keys_unique {l : List Att} (h : KeysDistinct l) {a b : Att} (ha : a ∈ l) (hb : b ∈ l)
    (hk : sameKey a b) : a = b := by
  unfold KeysDistinct at h
  rcases List.mem_iff_getElem.mp ha with ⟨i, hi, rfl⟩
  rcases List.mem_iff_getElem.mp hb with ⟨j, hj, rfl⟩
  have hp := List.pairwise_iff_getElem.mp h
  rcases Nat.lt_trichotomy i j with hij | hij | hij
  · exact absurd hk (hp i j hi hj hij)
  · subst hij; rfl
  · exact absurd ⟨hk.1.symm, hk.2.symm⟩ (hp j i hj hi hij)

theorem putAtt_keys {l : List Att} (a : Att) (h : KeysDistinct l) : KeysDistinct (putAtt l a) := by
  unfold KeysDistinct at *
  unfold putAtt
  split
  · rw [List.pairwise_map]
    refine h.imp ?_
    intro x y hxy hs
    apply hxy
    unfold sameKey at *
    split at hs <;> split at hs <;> rename_i h1 h2 <;>
      simp only [Bool.and_eq_true, beq_iff_eq] at h1 h2 <;> omega
  · rename_i hany
    rw [List.pairwise_append]
    refine ⟨h, by simp, ?_⟩
    intro x hx y hy hs
    simp at hy; subst hy
    apply hany
    exact List.any_eq_true.mpr ⟨x, hx, by simp [hs.1, hs.2]⟩

theorem findAtt_mem {l : List Att} {n h : Nat} {a : Att} (hf : findAtt l n h = some a) : a ∈ l :=
  List.mem_of_find?_eq_some hf

theorem findAtt_key {l : List Att} {n h : Nat} {a : Att} (hf : findAtt l n h = some a) :
    a.nonce = n ∧ a.hash = h := by
  have := List.find?_some hf
  simpa using this

theorem findAtt_none {l : List Att} {n h : Nat} (hf : findAtt l n h = none) :
    ∀ a ∈ l, ¬ (a.nonce = n ∧ a.hash = h) := by
  intro a ha hk
  have := List.find?_eq_none.mp hf a ha
  apply this; simp [hk.1, hk.2]

theorem mem_insertByHash {a x : Att} {l : List Att} (h : x ∈ insertByHash a l) : x = a ∨ x ∈ l := by
  induction l with
  | nil => left; simpa [insertByHash] using h
  | cons y ys ih =>
    simp only [insertByHash] at h
    split at h
    · rcases List.mem_cons.mp h with h | h
      · left; exact h
      · right; exact h
    · rcases List.mem_cons.mp h with h | h
      · right; simp [h]
      · rcases ih h with h | h
        · left; exact h
        · right; simp [h]

theorem mem_attsAt {l : List Att} {n : Nat} {x : Att} (h : x ∈ attsAt l n) : x ∈ l ∧ x.nonce = n := by
  unfold attsAt at h
  have : ∀ (m : List Att), x ∈ m.foldr insertByHash [] → x ∈ m := by
    intro m
    induction m with
    | nil => intro h; simp at h
    | cons y ys ih =>
      intro h
      simp only [List.foldr_cons] at h
      rcases mem_insertByHash h with h | h
      · simp [h]
      · simp [ih h]
  have hm := this _ h
  have := List.mem_filter.mp hm
  exact ⟨this.1, by simpa using this.2⟩

/-- if some prefix sum exceeds `required`, so does the total -/
theorem reaches_sum (power : Nat → Nat) (required : Nat) (votes : List Nat) (acc : Nat)
    (h : reaches power required votes acc = true) : acc + (votes.map power).sum > required := by
  induction votes generalizing acc with
  | nil => simp [reaches] at h
  | cons v vs ih =>
    simp only [reaches] at h
    split at h
    · simp only [List.map_cons, List.sum_cons]; omega
    · have := ih _ h
      simp only [List.map_cons, List.sum_cons]; omega

/-- the strict quorum test of `TryAttestation`, in the property's words: more than 66 % of the total -/
theorem reaches_quorum (power : Nat → Nat) (total : Nat) (votes : List Nat)
    (h : reaches power (requiredPower total) votes 0 = true) : 100 * (votes.map power).sum > 66 * total := by
  have := reaches_sum power _ votes 0 h
  simp only [requiredPower, votesPowerThreshold, powerDivisor] at this
  omega

theorem not_reaches_of_le (power : Nat → Nat) (total : Nat) (votes : List Nat)
    (h : 100 * (votes.map power).sum ≤ 66 * total) : reaches power (requiredPower total) votes 0 = false := by
  cases hr : reaches power (requiredPower total) votes 0
  · rfl
  · have := reaches_quorum power total votes hr; omega

/-! ### the power table -/

theorem powerOf_cons (k w : Nat) (tbl : List (Nat × Nat)) (v : Nat) :
    powerOf ((k, w) :: tbl) v = if k = v then w else powerOf tbl v := by
  unfold powerOf
  rw [List.find?_cons]
  by_cases h : k = v
  · simp [h]
  · have : ((k, w).1 == v) = false := by simp [h]
    simp [this, h]

theorem filter_ne_cons_eq (k w v : Nat) (rest : List (Nat × Nat)) (h : k = v) :
    ((k, w) :: rest).filter (fun p => p.1 != v) = rest.filter (fun p => p.1 != v) := by
  simp [h]

theorem filter_ne_cons_ne (k w v : Nat) (rest : List (Nat × Nat)) (h : ¬ k = v) :
    ((k, w) :: rest).filter (fun p => p.1 != v) = (k, w) :: rest.filter (fun p => p.1 != v) := by
  simp [h]

theorem powerOf_filter_ne (tbl : List (Nat × Nat)) (v u : Nat) (h : u ≠ v) :
    powerOf (tbl.filter (fun p => p.1 != v)) u = powerOf tbl u := by
  induction tbl with
  | nil => rfl
  | cons p rest ih =>
    obtain ⟨k, w⟩ := p
    by_cases hk : k = v
    · rw [filter_ne_cons_eq k w v rest hk, powerOf_cons, ih]
      have : ¬ k = u := fun e => h (by omega)
      simp [this]
    · rw [filter_ne_cons_ne k w v rest hk, powerOf_cons, powerOf_cons, ih]

theorem totalOf_cons (k w : Nat) (rest : List (Nat × Nat)) : totalOf ((k, w) :: rest) = w + totalOf rest := by
  simp [totalOf]

theorem totalOf_split (tbl : List (Nat × Nat)) (v : Nat) :
    powerOf tbl v + totalOf (tbl.filter (fun p => p.1 != v)) ≤ totalOf tbl := by
  induction tbl with
  | nil => simp [powerOf, totalOf]
  | cons p rest ih =>
    obtain ⟨k, w⟩ := p
    by_cases hk : k = v
    · rw [filter_ne_cons_eq k w v rest hk, powerOf_cons, totalOf_cons]
      simp only [hk, if_true]
      omega
    · rw [filter_ne_cons_ne k w v rest hk, powerOf_cons, totalOf_cons, totalOf_cons]
      simp only [hk, if_false]
      omega

/-- the summed power of distinct voters never exceeds the table's total: "more than 66 % of the total" is a
genuine fraction of the bonded power, every validator's row being counted at most once -/
theorem voters_power_le_total (voters : List Nat) (hnd : voters.Nodup) :
    ∀ tbl : List (Nat × Nat), (voters.map (powerOf tbl)).sum ≤ totalOf tbl := by
  induction voters with
  | nil => intro tbl; simp
  | cons v vs ih =>
    intro tbl
    have hv : v ∉ vs := (List.nodup_cons.mp hnd).1
    have hvs : vs.Nodup := (List.nodup_cons.mp hnd).2
    have h1 := ih hvs (tbl.filter (fun p => p.1 != v))
    have h2 : vs.map (powerOf (tbl.filter (fun p => p.1 != v))) = vs.map (powerOf tbl) := by
      apply List.map_congr_left
      intro u hu
      exact powerOf_filter_ne tbl v u (fun e => hv (e ▸ hu))
    rw [h2] at h1
    have h3 := totalOf_split tbl v
    simp only [List.map_cons, List.sum_cons]
    omega

/-! ### the loops of `attestationTally` -/

theorem tallyAtts_induct (P : St → Prop) (power : Nat → Nat) (total n : Nat) (ef : EventFault) :
    ∀ (as : List Att),
      (∀ s a, P s → a ∈ as → n = s.lastObserved + 1 → P (tryAtt s a power total ef).1) →
      ∀ s, P s → P (tallyAtts s power total n ef as).1 := by
  intro as
  induction as with
  | nil => intro _ s h; exact h
  | cons a rest ih =>
    intro hstep s hp
    unfold tallyAtts
    have ih' := ih (fun s x hp hx hn => hstep s x hp (by simp [hx]) hn)
    split
    · rename_i hn
      split
      · exact hstep s a hp (by simp) hn
      · exact ih' _ (hstep s a hp (by simp) hn)
    · exact ih' _ hp

theorem tallyKeys_induct (P : St → Prop) (snap : List Att) (power : Nat → Nat) (total : Nat) (ef : EventFault)
    (hstep : ∀ s a, P s → a ∈ snap → a.nonce = s.lastObserved + 1 → P (tryAtt s a power total ef).1) :
    ∀ (keys : List Nat) s, P s → P (tallyKeys s snap power total ef keys) := by
  intro keys
  induction keys with
  | nil => intro s h; exact h
  | cons n rest ih =>
    intro s hp
    unfold tallyKeys
    have h1 : P (tallyAtts s power total n ef (attsAt snap n)).1 :=
      tallyAtts_induct P power total n ef (attsAt snap n)
        (fun s a hp ha hn => hstep s a hp (mem_attsAt ha).1 (by rw [(mem_attsAt ha).2]; exact hn)) s hp
    split
    · exact h1
    · exact ih _ h1

/-- induction principle for a whole tally: `TryAttestation` is only ever called on attestations of the
mapping read at the start, and only on one whose nonce is the cursor + 1 at that moment -/
theorem tally_induct (P : St → Prop) (s0 : St) (power : Nat → Nat) (total : Nat) (ef : EventFault)
    (hstep : ∀ s a, P s → a ∈ s0.atts → a.nonce = s.lastObserved + 1 → P (tryAtt s a power total ef).1)
    (h0 : P s0) : P (tally s0 power total ef) :=
  tallyKeys_induct P s0.atts power total ef hstep _ s0 h0

/-- `TryAttestation` either leaves the state untouched or performs `observe` under its four guards -/
theorem tryAtt_cases (s : St) (a : Att) (power : Nat → Nat) (total : Nat) (ef : EventFault) :
    (tryAtt s a power total ef).1 = s ∨
    (a.observed = false ∧ reaches power (requiredPower total) a.votes 0 = true ∧
      a.nonce = s.lastObserved + 1 ∧ s.lastEth ≤ a.eth ∧ (tryAtt s a power total ef).1 = observe s a) := by
  unfold tryAtt
  split
  · left; rfl
  · rename_i h1
    split
    · left; rfl
    · rename_i h2
      split
      · left; rfl
      · rename_i h3
        split
        · left; rfl
        · rename_i h4
          right
          refine ⟨by simpa using h1, by simpa using h2, by simpa using h3, by omega, rfl⟩

/-! ### the invariant -/

/-- the C02 invariant -/
structure Inv (s : St) : Prop where
  nodup : ∀ a ∈ s.atts, a.votes.Nodup
  keys : KeysDistinct s.atts
  /-- the cursor stands exactly as many nonces behind the last reset as claims were observed since -/
  cursor : s.lastObserved = s.epochStart + s.observations.length
  /-- ... and these observations are the consecutive nonces after the reset value -/
  consec : s.observations.map (·.nonce) = List.range' (s.epochStart + 1) s.observations.length
  before : ∀ o ∈ s.log, o.nonce = o.cursorBefore + 1
  epochLe : ∀ o ∈ s.log, o.epoch ≤ s.epoch
  minted : s.minted = (s.log.map Obs.mint).sum
  obsAtt : ∀ o ∈ s.log, ∃ a ∈ s.atts, a.nonce = o.nonce ∧ a.hash = o.hash ∧ a.observed = true ∧
    a.applicable = o.applicable ∧ a.amount = o.amount ∧ a.eth = o.eth
  attObs : ∀ a ∈ s.atts, a.observed = true → ∃ o ∈ s.log, o.nonce = a.nonce ∧ o.hash = a.hash
  uniq : s.log.Pairwise (fun o o' => ¬ (o.nonce = o'.nonce ∧ o.hash = o'.hash))
  ethLe : ∀ o ∈ s.log, o.eth ≤ s.lastEth
  ethMono : s.log.Pairwise (fun o o' => o.eth ≤ o'.eth)

theorem inv_init : Inv St.init := by
  constructor <;> simp [St.init, St.observations, KeysDistinct]

theorem attFor_cases (s : St) (n h eth : Nat) (ap : Bool) (amt : Nat) :
    (attFor s n h eth ap amt ∈ s.atts ∧ (attFor s n h eth ap amt).nonce = n ∧ (attFor s n h eth ap amt).hash = h) ∨
    ((∀ a ∈ s.atts, ¬ (a.nonce = n ∧ a.hash = h)) ∧
      attFor s n h eth ap amt =
        { nonce := n, hash := h, eth := eth, votes := [], observed := false, applicable := ap, amount := amt }) := by
  unfold attFor
  cases hf : findAtt s.atts n h with
  | none => right; exact ⟨findAtt_none hf, rfl⟩
  | some a => left; exact ⟨findAtt_mem hf, findAtt_key hf⟩

/-- what an accepted vote stores: the attestation of that key with the voter added, everything else as it was -/
def voted (s : St) (v n h eth : Nat) (ap : Bool) (amt : Nat) : Att :=
  { attFor s n h eth ap amt with votes := addVote (attFor s n h eth ap amt).votes v }

theorem vote_cases (s : St) (v n h eth : Nat) (ap : Bool) (amt : Nat) :
    ((vote s v n h eth ap amt).2 = .rejected ∧ (vote s v n h eth ap amt).1 = s) ∨
    ((vote s v n h eth ap amt).2 = .ok ∧ n = lastNonceOf s v + 1 ∧ (attFor s n h eth ap amt).eth = eth ∧
      (vote s v n h eth ap amt).1 =
        { s with atts := putAtt s.atts (voted s v n h eth ap amt), valNonce := setNonce s.valNonce v n }) := by
  unfold vote
  split
  · left; exact ⟨rfl, rfl⟩
  · rename_i h1
    split
    · left; exact ⟨rfl, rfl⟩
    · rename_i h2
      right
      exact ⟨rfl, by simpa using h1, by simpa using h2, rfl⟩

theorem vote_inv (s : St) (v n h eth : Nat) (ap : Bool) (amt : Nat) (hi : Inv s) :
    Inv (vote s v n h eth ap amt).1 := by
  rcases vote_cases s v n h eth ap amt with ⟨_, he⟩ | ⟨_, _, _, he⟩
  · rw [he]; exact hi
  · rw [he]
    have hx : ∀ a ∈ s.atts, sameKey a (voted s v n h eth ap amt) → attFor s n h eth ap amt = a := by
      intro a ha hk
      rcases attFor_cases s n h eth ap amt with ⟨hm, hn, hh⟩ | ⟨hno, _⟩
      · apply keys_unique hi.keys hm ha
        unfold sameKey voted at *
        simp only at hk
        omega
      · exfalso
        apply hno a ha
        rcases attFor_cases s n h eth ap amt with ⟨_, hn, hh⟩ | ⟨_, hq⟩
        · unfold sameKey voted at hk; simp only at hk; omega
        · unfold sameKey voted at hk; simp only [hq] at hk; exact hk
    constructor
    · intro a ha
      rcases mem_putAtt ha with rfl | ⟨ha, _⟩
      · apply addVote_nodup
        rcases attFor_cases s n h eth ap amt with ⟨hm, _, _⟩ | ⟨_, hq⟩
        · exact hi.nodup _ hm
        · rw [hq]; simp
      · exact hi.nodup a ha
    · exact putAtt_keys _ hi.keys
    · exact hi.cursor
    · exact hi.consec
    · exact hi.before
    · exact hi.epochLe
    · exact hi.minted
    · intro o ho
      obtain ⟨a, ha, h1, h2, h3, h4, h5, h6⟩ := hi.obsAtt o ho
      by_cases hk : sameKey a (voted s v n h eth ap amt)
      · refine ⟨voted s v n h eth ap amt, mem_putAtt_self _ _, ?_⟩
        have := hx a ha hk
        unfold voted
        simp only [this]
        exact ⟨h1, h2, h3, h4, h5, h6⟩
      · exact ⟨a, mem_putAtt_of_ne ha hk, h1, h2, h3, h4, h5, h6⟩
    · intro a ha hobs
      rcases mem_putAtt ha with rfl | ⟨ha, _⟩
      · rcases attFor_cases s n h eth ap amt with ⟨hm, _, _⟩ | ⟨_, hq⟩
        · exact hi.attObs (attFor s n h eth ap amt) hm hobs
        · unfold voted at hobs; simp [hq] at hobs
      · exact hi.attObs a ha hobs
    · exact hi.uniq
    · exact hi.ethLe
    · exact hi.ethMono

theorem observations_observe (s : St) (a : Att) :
    (observe s a).observations = s.observations ++ [mkObs s a] := by
  simp [St.observations, observe, mkObs, List.filter_append]

theorem observe_inv (s : St) (a : Att) (hi : Inv s) (ha : a ∈ s.atts) (hobs : a.observed = false)
    (hn : a.nonce = s.lastObserved + 1) (he : s.lastEth ≤ a.eth) : Inv (observe s a) := by
  have hfresh : ∀ o ∈ s.log, ¬ (o.nonce = a.nonce ∧ o.hash = a.hash) := by
    intro o ho hk
    obtain ⟨a', ha', h1, h2, h3, _⟩ := hi.obsAtt o ho
    have : a' = a := keys_unique hi.keys ha' ha ⟨by omega, by omega⟩
    subst this
    simp [hobs] at h3
  constructor
  · intro x hx
    rcases mem_putAtt hx with rfl | ⟨hx, _⟩
    · exact hi.nodup a ha
    · exact hi.nodup x hx
  · exact putAtt_keys _ hi.keys
  · rw [observations_observe]
    have := hi.cursor
    simp only [observe, List.length_append, List.length_singleton]
    omega
  · rw [observations_observe]
    simp only [List.map_append, List.map_cons, List.map_nil, List.length_append, List.length_singleton]
    rw [List.range'_concat, hi.consec]
    have := hi.cursor
    simp only [observe, mkObs]
    congr 2
    omega
  · intro o ho
    simp only [observe, List.mem_append, List.mem_singleton] at ho
    rcases ho with ho | rfl
    · exact hi.before o ho
    · simp [mkObs, hn]
  · intro o ho
    simp only [observe, List.mem_append, List.mem_singleton] at ho
    rcases ho with ho | rfl
    · exact hi.epochLe o ho
    · simp [mkObs, observe]
  · simp only [observe, List.map_append, List.map_cons, List.map_nil, List.sum_append, List.sum_cons, List.sum_nil]
    have := hi.minted
    cases hap : a.applicable <;> simp [Obs.mint, mkObs, hap] <;> omega
  · intro o ho
    simp only [observe, List.mem_append, List.mem_singleton] at ho
    rcases ho with ho | rfl
    · obtain ⟨a', ha', h1, h2, h3, h4, h5, h6⟩ := hi.obsAtt o ho
      refine ⟨a', mem_putAtt_of_ne ha' ?_, h1, h2, h3, h4, h5, h6⟩
      intro hk
      exact hfresh o ho ⟨by unfold sameKey at hk; simp only at hk; omega, by unfold sameKey at hk; simp only at hk; omega⟩
    · exact ⟨{ a with observed := true }, mem_putAtt_self _ _, by simp [mkObs]⟩
  · intro x hx hxo
    simp only [observe] at hx ⊢
    rcases mem_putAtt hx with rfl | ⟨hx, _⟩
    · exact ⟨mkObs s a, by simp, by simp [mkObs]⟩
    · obtain ⟨o, ho, h1, h2⟩ := hi.attObs x hx hxo
      exact ⟨o, by simp [ho], h1, h2⟩
  · simp only [observe]
    rw [List.pairwise_append]
    refine ⟨hi.uniq, by simp, ?_⟩
    intro o ho o' ho'
    simp only [List.mem_singleton] at ho'
    subst ho'
    simpa [mkObs] using hfresh o ho
  · intro o ho
    simp only [observe, List.mem_append, List.mem_singleton] at ho ⊢
    rcases ho with ho | rfl
    · have := hi.ethLe o ho; omega
    · simp [mkObs]
  · simp only [observe]
    rw [List.pairwise_append]
    refine ⟨hi.ethMono, by simp, ?_⟩
    intro o ho o' ho'
    simp only [List.mem_singleton] at ho'
    subst ho'
    have := hi.ethLe o ho
    simp only [mkObs]; omega

/-- every attestation of the mapping read at the start of a tally is still stored unchanged, unless its
nonce has been passed by the cursor in the meantime -/
def Tracks (s0 s : St) : Prop := ∀ x ∈ s0.atts, x ∈ s.atts ∨ x.nonce ≤ s.lastObserved

theorem observe_tracks (s0 s : St) (a : Att) (hn : a.nonce = s.lastObserved + 1) (ht : Tracks s0 s) :
    Tracks s0 (observe s a) := by
  intro x hx
  rcases ht x hx with h | h
  · by_cases hk : sameKey x { a with observed := true }
    · right; unfold sameKey at hk; simp only [observe] at hk ⊢; omega
    · left; exact mem_putAtt_of_ne h hk
  · right; simp only [observe]; omega

/-- tally induction with the invariant carried along: in the step the attestation handed to
`TryAttestation` is known to be the one currently stored -/
theorem tally_induct_inv (P : St → Prop) (s0 : St) (power : Nat → Nat) (total : Nat) (ef : EventFault)
    (hi0 : Inv s0)
    (hstep : ∀ s a, Inv s → P s → a ∈ s.atts → a ∈ s0.atts → a.observed = false →
      reaches power (requiredPower total) a.votes 0 = true → a.nonce = s.lastObserved + 1 → s.lastEth ≤ a.eth →
      P (observe s a))
    (h0 : P s0) : Inv (tally s0 power total ef) ∧ P (tally s0 power total ef) := by
  have := tally_induct (fun s => Inv s ∧ Tracks s0 s ∧ P s) s0 power total ef ?_ ⟨hi0, fun x hx => Or.inl hx, h0⟩
  · exact ⟨this.1, this.2.2⟩
  · intro s a ⟨hi, ht, hp⟩ ha0 hn
    rcases tryAtt_cases s a power total ef with he | ⟨h1, h2, h3, h4, he⟩
    · rw [he]; exact ⟨hi, ht, hp⟩
    · rw [he]
      have ha : a ∈ s.atts := by
        rcases ht a ha0 with h | h
        · exact h
        · omega
      exact ⟨observe_inv s a hi ha h1 h3 h4, observe_tracks s0 s a h3 ht, hstep s a hi hp ha ha0 h1 h2 h3 h4⟩

theorem tally_inv (s : St) (power : Nat → Nat) (total : Nat) (ef : EventFault) (hi : Inv s) :
    Inv (tally s power total ef) :=
  (tally_induct_inv (fun _ => True) s power total ef hi (fun _ _ _ _ _ _ _ _ _ _ => trivial) trivial).1

theorem catchUp_inv (s : St) (hi : Inv s) : Inv (catchUp s) := by
  constructor
  · exact hi.nodup
  · exact hi.keys
  · exact hi.cursor
  · exact hi.consec
  · exact hi.before
  · exact hi.epochLe
  · exact hi.minted
  · exact hi.obsAtt
  · exact hi.attObs
  · exact hi.uniq
  · exact hi.ethLe
  · exact hi.ethMono

theorem observations_override (s : St) (n : Nat) (hi : Inv s) : (override s n).observations = [] := by
  simp only [St.observations, override]
  rw [List.filter_eq_nil_iff]
  intro o ho
  have := hi.epochLe o ho
  simp only [beq_iff_eq]
  omega

theorem override_inv (s : St) (n : Nat) (hi : Inv s) : Inv (override s n) := by
  constructor
  · exact hi.nodup
  · exact hi.keys
  · rw [observations_override s n hi]; simp [override]
  · rw [observations_override s n hi]; simp
  · exact hi.before
  · intro o ho
    have := hi.epochLe o ho
    simp only [override]; omega
  · exact hi.minted
  · exact hi.obsAtt
  · exact hi.attObs
  · exact hi.uniq
  · exact hi.ethLe
  · exact hi.ethMono

/-! ### histories -/

/-- everything that can happen to the oracle of one chain -/
inductive Op where
  | vote (v n h eth : Nat) (applicable : Bool) (amount : Nat)
  /-- end of block: `power` is the whole `LastValidatorPower` table at that moment (the total is its sum);
  `failing` lists the attestations (nonce, hash) whose observation event cannot be emitted in this block -/
  | tally (power : List (Nat × Nat)) (failing : List (Nat × Nat))
  | catchUp
  | override (n : Nat)

def apply (s : St) : Op → St
  | .vote v n h eth ap amt => (vote s v n h eth ap amt).1
  | .tally p f => tally s (powerOf p) (totalOf p) (faultOf f)
  | .catchUp => catchUp s
  | .override n => override s n

def run (ops : List Op) : St := ops.foldl apply St.init

theorem run_snoc (l : List Op) (op : Op) : run (l ++ [op]) = apply (run l) op := by
  simp [run, List.foldl_append]

theorem apply_inv (s : St) (op : Op) (hi : Inv s) : Inv (apply s op) := by
  cases op with
  | vote v n h eth ap amt => exact vote_inv s v n h eth ap amt hi
  | tally p f => exact tally_inv s _ _ _ hi
  | catchUp => exact catchUp_inv s hi
  | override n => exact override_inv s n hi

theorem run_inv (ops : List Op) : Inv (run ops) := by
  induction ops using rev_induction with
  | hnil => exact inv_init
  | hsnoc l op ih => rw [run_snoc]; exact apply_inv _ op ih

/-- `o` records the observation of an attestation stored in `s` whose (distinct) voters hold more than 66 %
of `total` under `power` -/
def QuorumObs (s : St) (power : Nat → Nat) (total : Nat) (o : Obs) : Prop :=
  ∃ a ∈ s.atts, a.observed = false ∧ a.nonce = o.nonce ∧ a.hash = o.hash ∧ a.eth = o.eth ∧
    a.applicable = o.applicable ∧ a.amount = o.amount ∧ a.votes = o.voters ∧ a.votes.Nodup ∧
    100 * (a.votes.map power).sum > 66 * total

/-- what a whole tally does to the ghost log and to the cursor -/
theorem tally_log (s0 : St) (power : Nat → Nat) (total : Nat) (ef : EventFault) (hi : Inv s0) :
    ∃ new, (tally s0 power total ef).log = s0.log ++ new ∧
      (tally s0 power total ef).epoch = s0.epoch ∧ (tally s0 power total ef).epochStart = s0.epochStart ∧
      (tally s0 power total ef).valNonce = s0.valNonce ∧
      (∀ o ∈ new, o.epoch = s0.epoch ∧ QuorumObs s0 power total o) := by
  refine (tally_induct_inv (fun s => ∃ new, s.log = s0.log ++ new ∧ s.epoch = s0.epoch ∧
      s.epochStart = s0.epochStart ∧ s.valNonce = s0.valNonce ∧
      (∀ o ∈ new, o.epoch = s0.epoch ∧ QuorumObs s0 power total o)) s0 power total ef hi ?_
      ⟨[], by simp, rfl, rfl, rfl, by simp⟩).2
  intro s a _ ⟨new, hl, he, hes, hv, hq⟩ _ ha0 hobs hr _ _
  refine ⟨new ++ [mkObs s a], by simp [observe, hl], by simp [observe, he], by simp [observe, hes],
    by simp [observe, hv], ?_⟩
  intro o ho
  rcases List.mem_append.mp ho with ho | ho
  · exact hq o ho
  · simp only [List.mem_singleton] at ho
    subst ho
    exact ⟨by simp [mkObs, he], a, ha0, hobs, rfl, rfl, rfl, rfl, rfl, rfl, hi.nodup a ha0,
      reaches_quorum power total a.votes hr⟩

/-- everything but the observed flag -/
def AttSame (a a' : Att) : Prop :=
  a'.nonce = a.nonce ∧ a'.hash = a.hash ∧ a'.eth = a.eth ∧ a'.applicable = a.applicable ∧
    a'.amount = a.amount ∧ a'.votes = a.votes

/-- a tally changes stored attestations in their observed flag only -/
theorem tally_atts (s0 : St) (power : Nat → Nat) (total : Nat) (ef : EventFault) (hi : Inv s0) :
    ∀ a' ∈ (tally s0 power total ef).atts, ∃ a ∈ s0.atts, AttSame a a' := by
  refine (tally_induct_inv (fun s => ∀ a' ∈ s.atts, ∃ a ∈ s0.atts, AttSame a a') s0 power total ef hi ?_
      (fun a ha => ⟨a, ha, rfl, rfl, rfl, rfl, rfl, rfl⟩)).2
  intro s a _ hp _ ha0 _ _ _ _ a' ha'
  simp only [observe] at ha'
  rcases mem_putAtt ha' with rfl | ⟨ha', _⟩
  · exact ⟨a, ha0, rfl, rfl, rfl, rfl, rfl, rfl⟩
  · exact hp a' ha'

/-- where the entries of the ghost log come from -/
theorem apply_log (s : St) (op : Op) (hi : Inv s) :
    ∃ new, (apply s op).log = s.log ++ new ∧
      ∀ o ∈ new, ∃ p f, op = .tally p f ∧ QuorumObs s (powerOf p) (totalOf p) o := by
  cases op with
  | vote v n h eth ap amt =>
    refine ⟨[], ?_, by simp⟩
    rcases vote_cases s v n h eth ap amt with ⟨_, he⟩ | ⟨_, _, _, he⟩ <;> simp [apply, he]
  | tally p f =>
    obtain ⟨new, hl, _, _, _, hq⟩ := tally_log s (powerOf p) (totalOf p) (faultOf f) hi
    exact ⟨new, hl, fun o ho => ⟨p, f, rfl, (hq o ho).2⟩⟩
  | catchUp => exact ⟨[], by simp [apply, catchUp], by simp⟩
  | override n => exact ⟨[], by simp [apply, override], by simp⟩

/-- where the votes of a stored attestation come from -/
theorem apply_votes (s : St) (op : Op) (hi : Inv s) :
    ∀ a' ∈ (apply s op).atts, ∀ w ∈ a'.votes,
      (∃ a ∈ s.atts, a.nonce = a'.nonce ∧ a.hash = a'.hash ∧ a.eth = a'.eth ∧ w ∈ a.votes) ∨
      (∃ ap amt, op = .vote w a'.nonce a'.hash a'.eth ap amt ∧ (vote s w a'.nonce a'.hash a'.eth ap amt).2 = .ok) := by
  intro a' ha' w hw
  cases op with
  | vote v n h eth ap amt =>
    simp only [apply] at ha'
    rcases vote_cases s v n h eth ap amt with ⟨_, he⟩ | ⟨hok, _, heth, he⟩
    · rw [he] at ha'; exact Or.inl ⟨a', ha', rfl, rfl, rfl, hw⟩
    · rw [he] at ha'
      simp only at ha'
      rcases mem_putAtt ha' with rfl | ⟨ha', _⟩
      · rcases attFor_cases s n h eth ap amt with ⟨hm, hn, hh⟩ | ⟨_, hq⟩
        · rcases mem_addVote (show w ∈ addVote (attFor s n h eth ap amt).votes v from hw) with hw | rfl
          · exact Or.inl ⟨attFor s n h eth ap amt, hm, rfl, rfl, rfl, hw⟩
          · right
            refine ⟨ap, amt, ?_, ?_⟩
            · show Op.vote w n h eth ap amt = Op.vote w (attFor s n h eth ap amt).nonce (attFor s n h eth ap amt).hash
                (attFor s n h eth ap amt).eth ap amt
              rw [hn, hh, heth]
            · show (vote s w (attFor s n h eth ap amt).nonce (attFor s n h eth ap amt).hash
                (attFor s n h eth ap amt).eth ap amt).2 = .ok
              rw [hn, hh, heth]; exact hok
        · have hw' : w ∈ addVote (attFor s n h eth ap amt).votes v := hw
          rw [hq] at hw'
          rcases mem_addVote hw' with hw' | rfl
          · simp at hw'
          · right
            refine ⟨ap, amt, ?_, ?_⟩
            · show Op.vote w n h eth ap amt = Op.vote w (attFor s n h eth ap amt).nonce (attFor s n h eth ap amt).hash
                (attFor s n h eth ap amt).eth ap amt
              rw [hq]
            · show (vote s w (attFor s n h eth ap amt).nonce (attFor s n h eth ap amt).hash
                (attFor s n h eth ap amt).eth ap amt).2 = .ok
              rw [hq]; exact hok
      · exact Or.inl ⟨a', ha', rfl, rfl, rfl, hw⟩
  | tally p f =>
    obtain ⟨a, ha, h1, h2, h3, _, _, h6⟩ := tally_atts s (powerOf p) (totalOf p) (faultOf f) hi a' ha'
    exact Or.inl ⟨a, ha, h1.symm, h2.symm, h3.symm, h6 ▸ hw⟩
  | catchUp => exact Or.inl ⟨a', ha', rfl, rfl, rfl, hw⟩
  | override n => exact Or.inl ⟨a', ha', rfl, rfl, rfl, hw⟩

/-- where the claim content of a stored attestation comes from: the vote that created it -/
theorem apply_origin (s : St) (op : Op) (hi : Inv s) :
    ∀ a' ∈ (apply s op).atts,
      (∃ a ∈ s.atts, a.nonce = a'.nonce ∧ a.hash = a'.hash ∧ a.eth = a'.eth ∧ a.applicable = a'.applicable ∧
        a.amount = a'.amount) ∨
      (∃ v, op = .vote v a'.nonce a'.hash a'.eth a'.applicable a'.amount ∧
        (vote s v a'.nonce a'.hash a'.eth a'.applicable a'.amount).2 = .ok) := by
  intro a' ha'
  cases op with
  | vote v n h eth ap amt =>
    simp only [apply] at ha'
    rcases vote_cases s v n h eth ap amt with ⟨_, he⟩ | ⟨hok, _, heth, he⟩
    · rw [he] at ha'; exact Or.inl ⟨a', ha', rfl, rfl, rfl, rfl, rfl⟩
    · rw [he] at ha'
      simp only at ha'
      rcases mem_putAtt ha' with rfl | ⟨ha', _⟩
      · rcases attFor_cases s n h eth ap amt with ⟨hm, _, _⟩ | ⟨_, hq⟩
        · exact Or.inl ⟨attFor s n h eth ap amt, hm, rfl, rfl, rfl, rfl, rfl⟩
        · right
          refine ⟨v, ?_, ?_⟩
          · show Op.vote v n h eth ap amt = Op.vote v (attFor s n h eth ap amt).nonce (attFor s n h eth ap amt).hash
              (attFor s n h eth ap amt).eth (attFor s n h eth ap amt).applicable (attFor s n h eth ap amt).amount
            rw [hq]
          · show (vote s v (attFor s n h eth ap amt).nonce (attFor s n h eth ap amt).hash
              (attFor s n h eth ap amt).eth (attFor s n h eth ap amt).applicable (attFor s n h eth ap amt).amount).2 = .ok
            rw [hq]; exact hok
      · exact Or.inl ⟨a', ha', rfl, rfl, rfl, rfl, rfl⟩
  | tally p f =>
    obtain ⟨a, ha, h1, h2, h3, h4, h5, _⟩ := tally_atts s (powerOf p) (totalOf p) (faultOf f) hi a' ha'
    exact Or.inl ⟨a, ha, h1.symm, h2.symm, h3.symm, h4.symm, h5.symm⟩
  | catchUp => exact Or.inl ⟨a', ha', rfl, rfl, rfl, rfl, rfl⟩
  | override n => exact Or.inl ⟨a', ha', rfl, rfl, rfl, rfl, rfl⟩

theorem filter_length_le_one {α : Type} (p : α → Bool) (l : List α)
    (h : l.Pairwise (fun x y => ¬ (p x = true ∧ p y = true))) : (l.filter p).length ≤ 1 := by
  induction l with
  | nil => simp
  | cons x xs ih =>
    rw [List.pairwise_cons] at h
    by_cases hx : p x = true
    · have : xs.filter p = [] := List.filter_eq_nil_iff.mpr (fun y hy hpy => h.1 y hy ⟨hx, hpy⟩)
      simp [hx, this]
    · simp only [List.filter_cons, hx]; exact ih h.2

/-- the history contains an accepted vote of `v` for claim `(n, h)` reported at remote height `eth` -/
def VotedIn (ops : List Op) (v n h eth : Nat) : Prop :=
  ∃ pre ap amt post, ops = pre ++ Op.vote v n h eth ap amt :: post ∧ (vote (run pre) v n h eth ap amt).2 = .ok

theorem VotedIn.snoc {l : List Op} {v n h eth : Nat} (hv : VotedIn l v n h eth) (op : Op) :
    VotedIn (l ++ [op]) v n h eth := by
  obtain ⟨pre, ap, amt, post, he, hok⟩ := hv
  exact ⟨pre, ap, amt, post ++ [op], by simp [he], hok⟩

theorem VotedIn.append {l : List Op} {v n h eth : Nat} (hv : VotedIn l v n h eth) (more : List Op) :
    VotedIn (l ++ more) v n h eth := by
  obtain ⟨pre, ap, amt, post, he, hok⟩ := hv
  exact ⟨pre, ap, amt, post ++ more, by simp [he], hok⟩

/-- the history contains an accepted vote that submitted exactly this claim content -/
def SubmittedIn (ops : List Op) (n h eth : Nat) (ap : Bool) (amt : Nat) : Prop :=
  ∃ pre v post, ops = pre ++ Op.vote v n h eth ap amt :: post ∧ (vote (run pre) v n h eth ap amt).2 = .ok

theorem SubmittedIn.snoc {l : List Op} {n h eth : Nat} {ap : Bool} {amt : Nat} (hv : SubmittedIn l n h eth ap amt)
    (op : Op) : SubmittedIn (l ++ [op]) n h eth ap amt := by
  obtain ⟨pre, v, post, he, hok⟩ := hv
  exact ⟨pre, v, post ++ [op], by simp [he], hok⟩

/-- ASSUMPTION (tmhash collision freeness; the pre-image is C11's subject): within a history a claim hash
determines the claim content the model carries next to it (`applicable`, `amount`). The remote height is
NOT covered by the hash; `Attest` compares it explicitly. -/
def HashIdentifiesClaim (ops : List Op) : Prop :=
  ∀ v n h e ap am v' e' ap' am', Op.vote v n h e ap am ∈ ops → Op.vote v' n h e' ap' am' ∈ ops → ap = ap' ∧ am = am'

end Lemmas

/-! ## Property theorems (C02) -/

/-- the invariant holds after every history -/
theorem reachable_inv (ops : List Op) : Inv (run ops) := run_inv ops

/-- **votes_nodup.** In every reachable state no validator appears twice in any attestation's
vote list — whatever the order of votes, tallies, catch-ups and nonce overrides. -/
theorem votes_nodup (ops : List Op) : ∀ a ∈ (run ops).atts, a.votes.Nodup :=
  (reachable_inv ops).nodup

/-- **log_provenance.** Every entry of the ghost log was appended by a tally op of the history (it is in the
log right after that op), for an attestation stored (unobserved) at that point whose distinct voters held
more than 66 % of that tally's total. -/
theorem log_provenance (ops : List Op) :
    ∀ o ∈ (run ops).log, ∃ pre p f post, ops = pre ++ Op.tally p f :: post ∧
      o ∈ (run (pre ++ [Op.tally p f])).log ∧
      QuorumObs (run pre) (powerOf p) (totalOf p) o := by
  induction ops using rev_induction with
  | hnil => intro o ho; simp [run, St.init] at ho
  | hsnoc l op ih =>
    intro o ho
    rw [run_snoc] at ho
    obtain ⟨new, hl, hq⟩ := apply_log (run l) op (run_inv l)
    rw [hl] at ho
    rcases List.mem_append.mp ho with ho | ho
    · obtain ⟨pre, p, f, post, he, hin, hQ⟩ := ih o ho
      exact ⟨pre, p, f, post ++ [op], by simp [he], hin, hQ⟩
    · obtain ⟨p, f, rfl, hQ⟩ := hq o ho
      exact ⟨l, p, f, [], rfl, by rw [run_snoc, hl]; exact List.mem_append.mpr (Or.inr ho), hQ⟩

/-- **votes_were_cast** ("have each voted for that identical claim"). Every validator in the vote list of a
stored attestation has an accepted vote op in the history for exactly that claim `(nonce, hash)` and with
exactly the stored remote height. -/
theorem votes_were_cast (ops : List Op) :
    ∀ a ∈ (run ops).atts, ∀ v ∈ a.votes, VotedIn ops v a.nonce a.hash a.eth := by
  induction ops using rev_induction with
  | hnil => intro a ha; simp [run, St.init] at ha
  | hsnoc l op ih =>
    intro a' ha' w hw
    rw [run_snoc] at ha'
    rcases apply_votes (run l) op (run_inv l) a' ha' w hw with ⟨a, ha, h1, h2, h3, hwa⟩ | ⟨ap, amt, rfl, hok⟩
    · have := ih a ha w hwa
      rw [h1, h2, h3] at this
      exact this.snoc op
    · exact ⟨l, ap, amt, [], rfl, hok⟩

/-- **claim_content_was_submitted.** The claim content stored with an attestation (remote height, whether
the handler can apply it, amount) is the content of an accepted vote op of the history for that `(nonce, hash)`. -/
theorem claim_content_was_submitted (ops : List Op) :
    ∀ a ∈ (run ops).atts, SubmittedIn ops a.nonce a.hash a.eth a.applicable a.amount := by
  induction ops using rev_induction with
  | hnil => intro a ha; simp [run, St.init] at ha
  | hsnoc l op ih =>
    intro a' ha'
    rw [run_snoc] at ha'
    rcases apply_origin (run l) op (run_inv l) a' ha' with ⟨a, ha, h1, h2, h3, h4, h5⟩ | ⟨v, rfl, hok⟩
    · have := ih a ha
      rw [h1, h2, h3, h4, h5] at this
      exact this.snoc op
    · exact ⟨l, v, [], rfl, hok⟩

/-- **effect_requires_quorum** ("takes effect only after validators that together hold more than 66 % of the
current bonded voting power have each voted for that identical claim, with every validator's power counted
at most once"), over whole histories. Every claim that ever took effect — every entry `o` of the log, which
by `log_matches_state` / `minted_eq_sum_log` are exactly the observed flags and the minted total — was
appended by a tally op of the history. At that point of the history (`pre`) the claim's stored voters were
pairwise distinct, their summed power under THAT tally's table exceeded 66 % of THAT table's total (and is at
most the total: a genuine fraction), and every one of them has an accepted vote op for the very same claim
`(nonce, hash)` at the same remote height earlier in the history (before the tally); the claim content was
submitted by an accepted vote; the entry is not in the log before that tally and is in it right after. -/
theorem effect_requires_quorum (ops : List Op) :
    ∀ o ∈ (run ops).log, ∃ pre p f post, ops = pre ++ Op.tally p f :: post ∧
      o.voters.Nodup ∧
      100 * (o.voters.map (powerOf p)).sum > 66 * totalOf p ∧
      (o.voters.map (powerOf p)).sum ≤ totalOf p ∧
      (∀ v ∈ o.voters, VotedIn pre v o.nonce o.hash o.eth) ∧
      SubmittedIn pre o.nonce o.hash o.eth o.applicable o.amount ∧
      o ∉ (run pre).log ∧ o ∈ (run (pre ++ [Op.tally p f])).log := by
  intro o ho
  obtain ⟨pre, p, f, post, he, hin, a, ha, h0, h1, h2, h3, h4, h5, h6, h7, h8⟩ := log_provenance ops o ho
  refine ⟨pre, p, f, post, he, h6 ▸ h7, h6 ▸ h8, voters_power_le_total _ (h6 ▸ h7) p, ?_, ?_, ?_, hin⟩
  · intro v hv
    have := votes_were_cast pre a ha v (h6 ▸ hv)
    rw [h1, h2, h3] at this
    exact this
  · have := claim_content_was_submitted pre a ha
    rw [h1, h2, h3, h4, h5] at this
    exact this
  · intro hmem
    obtain ⟨a', ha', k1, k2, k3, _⟩ := (reachable_inv pre).obsAtt o hmem
    have : a' = a := keys_unique (reachable_inv pre).keys ha' ha ⟨by omega, by omega⟩
    subst this
    rw [h0] at k3; cases k3

/-- **voters_voted_identical_claim.** Under the hash assumption the votes behind an effect are votes for the
identical claim in every modelled component: each voter's accepted vote op carries the nonce, hash, remote
height, applicability and amount of the claim that took effect. -/
theorem voters_voted_identical_claim (ops : List Op) (hc : HashIdentifiesClaim ops) :
    ∀ o ∈ (run ops).log, ∀ v ∈ o.voters, ∃ pre post,
      ops = pre ++ Op.vote v o.nonce o.hash o.eth o.applicable o.amount :: post ∧
      (vote (run pre) v o.nonce o.hash o.eth o.applicable o.amount).2 = .ok := by
  intro o ho v hv
  obtain ⟨pre, p, f, post, he, _, _, _, hvoted, hsub, _⟩ := effect_requires_quorum ops o ho
  obtain ⟨pre1, ap, amt, post1, he1, hok⟩ := hvoted v hv
  obtain ⟨pre2, v2, post2, he2, _⟩ := hsub
  have hm1 : Op.vote v o.nonce o.hash o.eth ap amt ∈ ops := by rw [he, he1]; simp
  have hm2 : Op.vote v2 o.nonce o.hash o.eth o.applicable o.amount ∈ ops := by rw [he, he2]; simp
  obtain ⟨rfl, rfl⟩ := hc _ _ _ _ _ _ _ _ _ _ hm1 hm2
  exact ⟨pre1, post1 ++ Op.tally p f :: post, by rw [he, he1]; simp, hok⟩

/-- **tally_without_quorum_is_noop** (the negative side of the quorum clause, for ANY state and ANY power
table). A whole end-of-block tally leaves the state untouched — cursor, heights, observed flags, minted
total, log — unless some stored, not yet observed attestation at exactly cursor + 1 has voters with more
than 66 % of the total AND a remote height not below the last observed one. Competing claims, claims at
other nonces, minorities, already observed claims and refused heights change nothing. -/
theorem tally_without_quorum_is_noop (s : St) (power : Nat → Nat) (total : Nat) (ef : EventFault)
    (h : ∀ a ∈ s.atts, a.nonce = s.lastObserved + 1 → a.observed = false →
      100 * (a.votes.map power).sum ≤ 66 * total ∨ a.eth < s.lastEth) :
    tally s power total ef = s := by
  refine tally_induct (fun s' => s' = s) s power total ef ?_ rfl
  intro s' a hs ha hn
  subst hs
  rcases tryAtt_cases s' a power total ef with he | ⟨h1, h2, _, h4, _⟩
  · exact he
  · exfalso
    rcases h a ha hn h1 with hq | hq
    · have := not_reaches_of_le power total a.votes hq
      rw [h2] at this; cases this
    · omega

/-- **state_change_requires_quorum** (step form of the quorum clause, any state). If an op changes the minted
total, the log, the last observed remote height or the cursor, it is either a governance override (which
changes the cursor only) or a tally whose table gives some stored unobserved attestation at cursor + 1 more
than 66 % of the table's total. Votes and catch-ups never do. -/
theorem state_change_requires_quorum (s : St) (op : Op)
    (h : (apply s op).minted ≠ s.minted ∨ (apply s op).log ≠ s.log ∨ (apply s op).lastEth ≠ s.lastEth ∨
      (apply s op).lastObserved ≠ s.lastObserved) :
    (∃ n, op = .override n ∧ (apply s op).minted = s.minted ∧ (apply s op).log = s.log ∧
      (apply s op).lastEth = s.lastEth ∧ (apply s op).atts = s.atts) ∨
    (∃ p f, op = .tally p f ∧ ∃ a ∈ s.atts, a.nonce = s.lastObserved + 1 ∧ a.observed = false ∧
      s.lastEth ≤ a.eth ∧ 100 * (a.votes.map (powerOf p)).sum > 66 * totalOf p) := by
  cases op with
  | vote v n hh eth ap amt =>
    exfalso
    rcases vote_cases s v n hh eth ap amt with ⟨_, he⟩ | ⟨_, _, _, he⟩ <;>
      simp only [apply, he] at h <;> simp at h
  | tally p f =>
    right
    refine ⟨p, f, rfl, ?_⟩
    apply Classical.byContradiction
    intro hno
    have hnoop := tally_without_quorum_is_noop s (powerOf p) (totalOf p) (faultOf f) (by
      intro a ha hn hobs
      by_cases hq : 100 * (a.votes.map (powerOf p)).sum ≤ 66 * totalOf p
      · exact Or.inl hq
      · by_cases he : a.eth < s.lastEth
        · exact Or.inr he
        · exact absurd ⟨a, ha, hn, hobs, by omega, by omega⟩ hno)
    simp only [apply, hnoop] at h
    simp at h
  | catchUp => exfalso; simp [apply, catchUp] at h
  | override n => left; exact ⟨n, rfl, rfl, rfl, rfl, rfl⟩

/-- **cursor_consecutive** ("claims take effect in strictly consecutive nonce order", "at most one claim per
event nonce"), over whole histories. Since the last governance reset (which installed `epochStart`) the
cursor has moved only together with an observation and only by one: it stands at `epochStart` + the number
of observations, and the observed nonces are exactly `epochStart+1, epochStart+2, …` in this order — no
gap, no repetition. Each observation was made when the cursor stood at its nonce − 1. The applied effects
are a sub-sequence of the observations (each applied at most once, in nonce order). -/
theorem cursor_consecutive (ops : List Op) :
    (run ops).lastObserved = (run ops).epochStart + (run ops).observations.length ∧
    (run ops).observations.map (·.nonce) =
      List.range' ((run ops).epochStart + 1) (run ops).observations.length ∧
    (∀ o ∈ (run ops).observations, o.nonce = o.cursorBefore + 1) ∧
    (run ops).effects.Sublist (run ops).observations := by
  have hi := reachable_inv ops
  refine ⟨hi.cursor, hi.consec, ?_, List.filter_sublist⟩
  intro o ho
  exact hi.before o (List.mem_filter.mp ho).1

/-- observed nonces of one epoch strictly increase -/
theorem observations_increasing (ops : List Op) :
    (run ops).observations.Pairwise (fun a b => a.nonce < b.nonce) := by
  have h := (reachable_inv ops).consec
  have hp : ((run ops).observations.map (·.nonce)).Pairwise (· < ·) := by
    rw [h]; exact List.pairwise_lt_range' 1
  exact List.pairwise_map.mp hp

/-- **no_nonce_gap.** The same clause in the form the harness monitors: every observation of the current
epoch lies in `(epochStart, cursor]`, and for every nonce in that range exactly one claim was observed. -/
theorem no_nonce_gap (ops : List Op) :
    (∀ o ∈ (run ops).observations, (run ops).epochStart < o.nonce ∧ o.nonce ≤ (run ops).lastObserved) ∧
    (∀ n, (run ops).epochStart < n → n ≤ (run ops).lastObserved →
      ((run ops).observations.filter (fun o => o.nonce == n)).length = 1) := by
  have hi := reachable_inv ops
  have hc := hi.cursor
  have hm := hi.consec
  constructor
  · intro o ho
    have : o.nonce ∈ (run ops).observations.map (·.nonce) := List.mem_map.mpr ⟨o, ho, rfl⟩
    rw [hm, List.mem_range'_1] at this
    omega
  · intro n h1 h2
    have hmem : n ∈ (run ops).observations.map (·.nonce) := by
      rw [hm, List.mem_range'_1]; omega
    obtain ⟨o, ho, hn⟩ := List.mem_map.mp hmem
    have hge : 0 < ((run ops).observations.filter (fun o => o.nonce == n)).length :=
      List.length_pos_of_mem (List.mem_filter.mpr ⟨ho, by simp [hn]⟩)
    have hle := filter_length_le_one (fun o : Obs => o.nonce == n) (run ops).observations
      ((observations_increasing ops).imp (by
        intro x y hxy hp
        simp only [beq_iff_eq] at hp
        omega))
    omega

/-- **effects_in_order** (the former statement, kept): every observation happened at cursor + 1, observed
nonces strictly increase, the applied effects are a sub-sequence of the observations, in nonce order. -/
theorem effects_in_order (ops : List Op) :
    (∀ e ∈ (run ops).observations, e.nonce = e.cursorBefore + 1) ∧
    (run ops).observations.Pairwise (fun a b => a.nonce < b.nonce) ∧
    (run ops).effects.Sublist (run ops).observations ∧
    (run ops).effects.Pairwise (fun a b => a.nonce < b.nonce) :=
  ⟨(cursor_consecutive ops).2.2.1, observations_increasing ops, (cursor_consecutive ops).2.2.2,
    (observations_increasing ops).sublist (cursor_consecutive ops).2.2.2⟩

/-- **competing_claims_exclusive.** Two observations of one epoch with the same nonce are the
same observation: competing claims at one nonce can never both take effect. -/
theorem competing_claims_exclusive (ops : List Op) (e₁ e₂ : Obs)
    (h₁ : e₁ ∈ (run ops).observations) (h₂ : e₂ ∈ (run ops).observations) (hn : e₁.nonce = e₂.nonce) :
    e₁ = e₂ := by
  have hp := observations_increasing ops
  rcases List.mem_iff_getElem.mp h₁ with ⟨i, hi, rfl⟩
  rcases List.mem_iff_getElem.mp h₂ with ⟨j, hj, rfl⟩
  have hlt := List.pairwise_iff_getElem.mp hp
  rcases Nat.lt_trichotomy i j with h | h | h
  · have := hlt i j hi hj h; omega
  · subst h; rfl
  · have := hlt j i hj hi h; omega

/-- **cursor_step.** How a single op of a history moves the cursor: votes and catch-ups not at all, an
override to its argument (starting a new epoch with no observations), a tally by exactly the number of
observations it appends to the current epoch, each of them with quorum under that tally's table. -/
theorem cursor_step (ops : List Op) (op : Op) :
    match op with
    | .vote .. => (apply (run ops) op).lastObserved = (run ops).lastObserved
    | .catchUp => (apply (run ops) op).lastObserved = (run ops).lastObserved
    | .override n => (apply (run ops) op).lastObserved = n ∧ (apply (run ops) op).epochStart = n ∧
        (apply (run ops) op).observations = []
    | .tally p _ => ∃ new, (apply (run ops) op).observations = (run ops).observations ++ new ∧
        (apply (run ops) op).log = (run ops).log ++ new ∧
        (apply (run ops) op).lastObserved = (run ops).lastObserved + new.length ∧
        ∀ o ∈ new, QuorumObs (run ops) (powerOf p) (totalOf p) o := by
  have hi := reachable_inv ops
  cases op with
  | vote v n h eth ap amt =>
    rcases vote_cases (run ops) v n h eth ap amt with ⟨_, he⟩ | ⟨_, _, _, he⟩ <;> simp [apply, he]
  | catchUp => simp [apply, catchUp]
  | override n => exact ⟨rfl, rfl, observations_override _ n hi⟩
  | tally p f =>
    obtain ⟨new, hl, hep, hes, _, hq⟩ := tally_log (run ops) (powerOf p) (totalOf p) (faultOf f) hi
    have hi' := tally_inv (run ops) (powerOf p) (totalOf p) (faultOf f) hi
    have hobs : (tally (run ops) (powerOf p) (totalOf p) (faultOf f)).observations =
        (run ops).observations ++ new := by
      simp only [St.observations, hl, hep, List.filter_append]
      congr 1
      exact List.filter_eq_self.mpr (fun o ho => by simp [(hq o ho).1])
    refine ⟨new, hobs, hl, ?_, fun o ho => (hq o ho).2⟩
    have h1 := hi'.cursor
    have h2 := hi.cursor
    rw [hobs, hes] at h1
    simp only [apply, List.length_append] at h1 ⊢
    omega

/-- **minted_eq_sum_log.** The observable effect is tied to the ghost log: the minted total is the sum of
the amounts of the logged observations whose claim the handler could apply. -/
theorem minted_eq_sum_log (ops : List Op) : (run ops).minted = ((run ops).log.map Obs.mint).sum :=
  (reachable_inv ops).minted

/-- **log_matches_state** ("its effect is applied at most once — exactly once whenever it can be applied at
all"), over whole histories and ACROSS governance resets. For every stored attestation the log has exactly
one entry with its `(nonce, hash)` if its observed flag is set and none otherwise, and that entry minted the
attestation's amount if the handler can apply the claim and nothing otherwise. With `minted_eq_sum_log`:
an observed applicable claim is counted in the minted total exactly once, a claim that is not observed or
not applicable never. -/
theorem log_matches_state (ops : List Op) :
    ∀ a ∈ (run ops).atts,
      (((run ops).log.filter (fun o => o.nonce == a.nonce && o.hash == a.hash)).map Obs.mint =
        if a.observed then [if a.applicable then a.amount else 0] else []) ∧
      (∀ o ∈ (run ops).log, o.nonce = a.nonce → o.hash = a.hash →
        a.observed = true ∧ o.applicable = a.applicable ∧ o.amount = a.amount ∧ o.eth = a.eth) := by
  intro a ha
  have hi := reachable_inv ops
  have hsame : ∀ o ∈ (run ops).log, o.nonce = a.nonce → o.hash = a.hash →
      a.observed = true ∧ o.applicable = a.applicable ∧ o.amount = a.amount ∧ o.eth = a.eth := by
    intro o ho h1 h2
    obtain ⟨a', ha', k1, k2, k3, k4, k5, k6⟩ := hi.obsAtt o ho
    have : a' = a := keys_unique hi.keys ha' ha ⟨by omega, by omega⟩
    subst this
    exact ⟨k3, k4.symm, k5.symm, k6.symm⟩
  refine ⟨?_, hsame⟩
  have hle := filter_length_le_one (fun o : Obs => o.nonce == a.nonce && o.hash == a.hash) (run ops).log
    (hi.uniq.imp (by
      intro x y hxy hp
      simp only [Bool.and_eq_true, beq_iff_eq] at hp
      exact hxy ⟨by omega, by omega⟩))
  cases hobs : a.observed
  · simp only [Bool.false_eq_true, if_false, List.map_eq_nil_iff, List.filter_eq_nil_iff]
    intro o ho hk
    simp only [Bool.and_eq_true, beq_iff_eq] at hk
    have := (hsame o ho hk.1 hk.2).1
    rw [hobs] at this; cases this
  · obtain ⟨o, ho, h1, h2⟩ := hi.attObs a ha hobs
    have hmem : o ∈ (run ops).log.filter (fun o => o.nonce == a.nonce && o.hash == a.hash) :=
      List.mem_filter.mpr ⟨ho, by simp [h1, h2]⟩
    have hlen := List.length_pos_of_mem hmem
    match hL : (run ops).log.filter (fun o => o.nonce == a.nonce && o.hash == a.hash) with
    | [] => rw [hL] at hlen; simp at hlen
    | [x] =>
      have hx : x ∈ (run ops).log.filter (fun o => o.nonce == a.nonce && o.hash == a.hash) := by simp [hL]
      have hx' := List.mem_filter.mp hx
      have hk := hx'.2
      simp only [Bool.and_eq_true, beq_iff_eq] at hk
      obtain ⟨_, k1, k2, _⟩ := hsame x hx'.1 hk.1 hk.2
      rw [hL]
      simp [Obs.mint, k1, k2]
    | x :: y :: rest => rw [hL] at hle; simp at hle

/-- **log_entries_are_observed_attestations.** Conversely every entry of the log is the record of a stored
attestation whose observed flag is set and carries that attestation's claim. (The model never deletes
attestations; pruning 1000 nonces behind the cursor is outside the modelled histories.) -/
theorem log_entries_are_observed_attestations (ops : List Op) :
    ∀ o ∈ (run ops).log, ∃ a ∈ (run ops).atts, a.nonce = o.nonce ∧ a.hash = o.hash ∧ a.observed = true ∧
      a.applicable = o.applicable ∧ a.amount = o.amount ∧ a.eth = o.eth :=
  (reachable_inv ops).obsAtt

/-- **observed_requires_quorum.** The quorum clause stated on the executable state alone (no ghost): if after
a history an attestation is flagged observed, then the history contains a tally op before which that
attestation was stored unobserved with pairwise distinct voters whose power under that tally's table
exceeded 66 % of the table's total, each of whom had cast an accepted vote for exactly this claim (nonce,
hash, remote height) earlier in the history. -/
theorem observed_requires_quorum (ops : List Op) :
    ∀ a ∈ (run ops).atts, a.observed = true →
      ∃ pre p f post, ops = pre ++ Op.tally p f :: post ∧
        ∃ a0 ∈ (run pre).atts, a0.nonce = a.nonce ∧ a0.hash = a.hash ∧ a0.eth = a.eth ∧ a0.observed = false ∧
          a0.votes.Nodup ∧
          100 * (a0.votes.map (powerOf p)).sum > 66 * totalOf p ∧
          (a0.votes.map (powerOf p)).sum ≤ totalOf p ∧
          ∀ v ∈ a0.votes, VotedIn pre v a.nonce a.hash a.eth := by
  intro a ha hobs
  have hi := reachable_inv ops
  obtain ⟨o, ho, h1, h2⟩ := hi.attObs a ha hobs
  obtain ⟨_, _, _, h6⟩ := (log_matches_state ops a ha).2 o ho h1 h2
  obtain ⟨pre, p, f, post, he, _, a0, ha0, k0, k1, k2, k3, _, _, _, k7, k8⟩ := log_provenance ops o ho
  refine ⟨pre, p, f, post, he, a0, ha0, by omega, by omega, by omega, k0, k7, k8,
    voters_power_le_total _ k7 p, ?_⟩
  intro v hv
  have := votes_were_cast pre a0 ha0 v hv
  rw [show a0.nonce = a.nonce by omega, show a0.hash = a.hash by omega, show a0.eth = a.eth by omega] at this
  exact this

/-- **observed_heights_never_roll_back.** The remote heights of the observed claims never decrease, and the
stored last height bounds them all — the guard `TryAttestation` checks before anything is written. -/
theorem observed_heights_never_roll_back (ops : List Op) :
    (run ops).log.Pairwise (fun o o' => o.eth ≤ o'.eth) ∧ ∀ o ∈ (run ops).log, o.eth ≤ (run ops).lastEth :=
  ⟨(reachable_inv ops).ethMono, (reachable_inv ops).ethLe⟩

/-- **observed_has_quorum.** `TryAttestation` marks an attestation observed only if the power
(as read at this very tally) of its voters exceeds 66 % of the total; with `votes_nodup` every
validator's power is counted at most once in that sum. -/
theorem observed_has_quorum (s : St) (a : Att) (power : Nat → Nat) (total : Nat) (ef : EventFault)
    (h : (tryAtt s a power total ef).2 = .observedOk ∨ (tryAtt s a power total ef).2 = .eventFailed) :
    100 * (a.votes.map power).sum > 66 * total ∧ a.nonce = s.lastObserved + 1 ∧ a.observed = false ∧
    s.lastEth ≤ a.eth ∧ (tryAtt s a power total ef).1 = observe s a := by
  unfold tryAtt at h ⊢
  split at h
  · simp at h
  · rename_i hobs
    split at h
    · simp at h
    · rename_i hr
      split at h
      · simp at h
      · rename_i hn
        split at h
        · simp at h
        · rename_i he
          have hr' : reaches power (requiredPower total) a.votes 0 = true := by simpa using hr
          simp only [hobs, hr, hn, he, if_false]
          exact ⟨reaches_quorum power total a.votes hr', by simpa using hn, by simp, by omega, rfl⟩

/-- **rejected_try_is_noop.** Every other outcome of `TryAttestation` — already observed, not enough power,
out of order, remote height below the last observed one — leaves the state exactly as it was. In
particular a refused height no longer consumes the nonce. -/
theorem rejected_try_is_noop (s : St) (a : Att) (power : Nat → Nat) (total : Nat) (ef : EventFault)
    (h : (tryAtt s a power total ef).2 = .nothing ∨ (tryAtt s a power total ef).2 = .abort) :
    (tryAtt s a power total ef).1 = s := by
  unfold tryAtt at h ⊢
  by_cases h1 : a.observed = true
  · simp [h1]
  · by_cases h2 : (!reaches power (requiredPower total) a.votes 0) = true
    · simp [h1, h2]
    · by_cases h3 : a.nonce ≠ s.lastObserved + 1
      · simp [h1, h2, h3]
      · by_cases h4 : s.lastEth > a.eth
        · simp [h1, h2, h3, h4]
        · exfalso
          simp only [h1, h2, h3, h4, if_false] at h
          cases hf : ef a.nonce a.hash <;> simp [hf] at h

/-- the outcome of `TryAttestation` is `abort` with the state untouched when the claim's remote height is
below the last observed one (the branch repaired by 5e19ceda) -/
theorem refused_height_is_noop (s : St) (a : Att) (power : Nat → Nat) (total : Nat) (ef : EventFault)
    (h : a.eth < s.lastEth) :
    (tryAtt s a power total ef).1 = s ∧ (tryAtt s a power total ef).2 ≠ .observedOk ∧
    (tryAtt s a power total ef).2 ≠ .eventFailed := by
  have h4 : s.lastEth > a.eth := h
  unfold tryAtt
  by_cases h1 : a.observed = true
  · simp [h1]
  · by_cases h2 : (!reaches power (requiredPower total) a.votes 0) = true
    · simp [h1, h2]
    · by_cases h3 : a.nonce ≠ s.lastObserved + 1
      · simp [h1, h2, h3]
      · simp [h1, h2, h3, h4]

/-- **no_quorum_no_effect.** Without a voter prefix above the threshold nothing changes. -/
theorem no_quorum_no_effect (s : St) (a : Att) (power : Nat → Nat) (total : Nat) (ef : EventFault)
    (h : 100 * (a.votes.map power).sum ≤ 66 * total) :
    (tryAtt s a power total ef).1 = s := by
  rcases tryAtt_cases s a power total ef with he | ⟨_, h2, _⟩
  · exact he
  · have := not_reaches_of_le power total a.votes h
    rw [h2] at this; cases this

/-- **applied_exactly_once_if_applicable.** When an attestation is observed its effect is applied
in that same step exactly when the handler can apply it; the cursor advances either way. -/
theorem applied_exactly_once_if_applicable (s : St) (a : Att) :
    (observe s a).lastObserved = a.nonce ∧
    (observe s a).observations = s.observations ++ [mkObs s a] ∧
    (a.applicable = true →
      (observe s a).effects = s.effects ++ [mkObs s a] ∧ (observe s a).minted = s.minted + a.amount) ∧
    (a.applicable = false →
      (observe s a).effects = s.effects ∧ (observe s a).minted = s.minted) := by
  refine ⟨rfl, observations_observe s a, ?_, ?_⟩
  · intro hap
    refine ⟨?_, by simp [observe, hap]⟩
    unfold St.effects
    rw [observations_observe, List.filter_append]
    simp [mkObs, hap]
  · intro hap
    refine ⟨?_, by simp [observe, hap]⟩
    unfold St.effects
    rw [observations_observe, List.filter_append]
    simp [mkObs, hap]

/-- **event_failure_loses_only_the_event.** Whether or not the observation event of an attestation
can be emitted (the chain-info lookup behind it may fail), the state `TryAttestation` leaves is the
same: the claim is marked observed, the cursor moved and the effect applied before the event is
attempted. Only the result differs (`eventFailed` stops the rest of this chain's tally). -/
theorem event_failure_loses_only_the_event (s : St) (a : Att) (power : Nat → Nat) (total : Nat) (ef : EventFault) :
    (tryAtt s a power total ef).1 = (tryAtt s a power total).1 ∧
    ((tryAtt s a power total ef).2 = .eventFailed → (tryAtt s a power total).2 = .observedOk) ∧
    ((tryAtt s a power total ef).2 ≠ .eventFailed → (tryAtt s a power total ef).2 = (tryAtt s a power total).2) := by
  unfold tryAtt
  split
  · simp
  · split
    · simp
    · split
      · simp
      · split
        · simp
        · simp only [noFault, Bool.false_eq_true, if_false, true_and]
          split <;> simp

/-- **applied_exactly_once_under_event_failure.** The clause "exactly once whenever it can be applied
at all" also holds for an observation whose event fails: same quorum, same cursor step, same effect. -/
theorem applied_exactly_once_under_event_failure (s : St) (a : Att) (power : Nat → Nat) (total : Nat) (ef : EventFault)
    (h : (tryAtt s a power total ef).2 = .eventFailed) :
    100 * (a.votes.map power).sum > 66 * total ∧ a.nonce = s.lastObserved + 1 ∧
    (tryAtt s a power total ef).1.lastObserved = a.nonce ∧
    (a.applicable = true → (tryAtt s a power total ef).1.minted = s.minted + a.amount) ∧
    (a.applicable = false → (tryAtt s a power total ef).1.minted = s.minted) := by
  obtain ⟨q, hn, _, _, he⟩ := observed_has_quorum s a power total ef (Or.inr h)
  rw [he]
  exact ⟨q, hn, rfl, fun hp => by simp [observe, hp], fun hp => by simp [observe, hp]⟩

/-- **threshold_as_in_source.** The constants `tryAtt` uses (`requiredPower`, built from
`votesPowerThreshold` and `powerDivisor`, compared strictly) ARE the ones in the current source:
`AttestationVotesPowerThreshold`, divisor 100, comparator `GT` (regenerated by the extractor on every
run), and they mean "more than 66 %". -/
theorem threshold_as_in_source :
    votesPowerThreshold = Paloma.Gen.Consts.attestationVotesPowerThreshold ∧
    powerDivisor = Paloma.Gen.Consts.tryAttestationDivisor ∧
    Paloma.Gen.Consts.tryAttestationComparator = "GT" ∧
    Paloma.Gen.Consts.updateValidatorNoncesPeriod = 50 ∧
    (∀ total, requiredPower total =
      Paloma.Gen.Consts.attestationVotesPowerThreshold * total / Paloma.Gen.Consts.tryAttestationDivisor) ∧
    (∀ (power : Nat → Nat) (total : Nat) (votes : List Nat),
      reaches power (requiredPower total) votes 0 = true → 100 * (votes.map power).sum > 66 * total) :=
  ⟨by decide, by decide, by decide, by decide, fun _ => rfl, reaches_quorum⟩

/-- **vote_requires_next_nonce.** A validator's vote is accepted only for exactly the nonce
after its last one, and only with the remote height the stored claim has; a rejected vote changes nothing. -/
theorem vote_requires_next_nonce (s : St) (v n h eth : Nat) (ap : Bool) (amt : Nat) :
    ((vote s v n h eth ap amt).2 = .ok → n = lastNonceOf s v + 1 ∧ (attFor s n h eth ap amt).eth = eth) ∧
    ((vote s v n h eth ap amt).2 = .rejected → (vote s v n h eth ap amt).1 = s) := by
  rcases vote_cases s v n h eth ap amt with ⟨hr, he⟩ | ⟨hok, hn, heth, _⟩
  · exact ⟨fun hok => (by rw [hr] at hok; cases hok), fun _ => he⟩
  · exact ⟨fun _ => ⟨hn, heth⟩, fun hr => (by rw [hok] at hr; cases hr)⟩

/-! ### non-vacuity (all through `run` from the initial state) -/

/-- validator 1 votes, the nonce is overridden, it votes again — counted once; validator 2 joins; 70 of 100 -/
def demo : List Op :=
  [ .vote 1 1 77 100 true 5, .override 0, .vote 1 1 77 100 true 5, .vote 2 1 77 100 true 5,
    .tally [(1, 40), (2, 30), (3, 30)] [] ]

example : ((run demo).atts.map (·.votes)) = [[1, 2]] ∧ (run demo).lastObserved = 1 ∧
    (run demo).minted = 5 ∧ (run demo).effects.length = 1 ∧ (run demo).log.map (·.voters) = [[1, 2]] ∧
    (run demo).epochStart = 0 ∧ (run demo).observations.map (·.nonce) = [1] := by decide
/-- the hash assumption is satisfiable by a history with an effect -/
example : HashIdentifiesClaim demo := by
  intro v n h e ap am v' e' ap' am' h1 h2
  simp only [demo, List.mem_cons, Op.vote.injEq, List.mem_nil_iff, reduceCtorEq, or_false, false_or] at h1 h2
  rcases h1 with h1 | h1 | h1 <;> rcases h2 with h2 | h2 | h2 <;>
    exact ⟨h1.2.2.2.2.1.trans h2.2.2.2.2.1.symm, h1.2.2.2.2.2.trans h2.2.2.2.2.2.symm⟩
/-- a minority (40 of 100), however often it votes, moves nothing -/
example : (run [.vote 1 1 77 100 true 5, .override 0, .vote 1 1 77 100 true 5,
    .tally [(1, 40), (2, 30), (3, 30)] []]).lastObserved = 0 := by decide
/-- exactly 66 % is not enough, 67 % is -/
example : (run [.vote 1 1 77 100 true 5, .tally [(1, 66), (2, 34)] []]).lastObserved = 0 ∧
    (run [.vote 1 1 77 100 true 5, .tally [(1, 67), (2, 33)] []]).lastObserved = 1 := by decide
/-- power is read at the tally: the same votes fail under one table and succeed under the next -/
example : (run [.vote 1 1 77 100 true 5, .tally [(1, 10), (2, 90)] [], .tally [(1, 90), (2, 10)] []]).log.map
    (·.voters) = [[1]] := by decide
/-- two claims reach quorum in one block; the event of the first cannot be emitted: it is applied, the second waits -/
example : (run [.vote 1 1 77 100 true 5, .vote 2 1 77 100 true 5, .vote 1 2 88 101 true 6, .vote 2 2 88 101 true 6,
    .tally [(1, 40), (2, 30), (3, 30)] [(1, 77)]]).minted = 5 ∧
  (run [.vote 1 1 77 100 true 5, .vote 2 1 77 100 true 5, .vote 1 2 88 101 true 6, .vote 2 2 88 101 true 6,
    .tally [(1, 40), (2, 30), (3, 30)] []]).minted = 11 := by decide
/-- competing claims at one nonce: only one is observed; a claim the handler cannot apply is observed
(the cursor moves) without an effect -/
example : (run [.vote 1 1 77 100 false 5, .vote 2 1 77 100 false 5, .vote 3 1 78 100 true 9,
    .tally [(1, 40), (2, 30), (3, 30)] []]).observations.map (·.hash) = [77] ∧
  (run [.vote 1 1 77 100 false 5, .vote 2 1 77 100 false 5, .vote 3 1 78 100 true 9,
    .tally [(1, 40), (2, 30), (3, 30)] []]).effects = [] ∧
  (run [.vote 1 1 77 100 false 5, .vote 2 1 77 100 false 5, .vote 3 1 78 100 true 9,
    .tally [(1, 40), (2, 30), (3, 30)] []]).minted = 0 := by decide

/-- A claim with quorum whose remote height (50) is below the last observed one (110): refused, and the
oracle stays where it was — cursor 1, nothing observed or minted for nonce 2, and nonce 3 has to wait.
Before 5e19ceda (`setLastObservedSkywayNonce` ran before `SetLastObservedEthereumBlockHeight`) the second
tally of this very history left the cursor at 2 with nonce 2 unobserved, and the third tally observed
nonce 3: effects at nonces 1, 3 — the full clause "strictly consecutive" was false (reproduced on the
real keeper; recorded as `fixed` in known_findings.json; monitored by `no_nonce_gap` in the harness). -/
def refusedHeight : List Op :=
  [ .vote 1 1 77 110 true 5, .vote 2 1 77 110 true 5, .tally [(1, 40), (2, 30), (3, 30)] [],
    .vote 1 2 88 50 true 6, .vote 2 2 88 50 true 6, .tally [(1, 40), (2, 30), (3, 30)] [],
    .vote 1 3 99 130 true 7, .vote 2 3 99 130 true 7, .tally [(1, 40), (2, 30), (3, 30)] [] ]

example : (run refusedHeight).lastObserved = 1 ∧ (run refusedHeight).lastEth = 110 ∧
    (run refusedHeight).observations.map (·.nonce) = [1] ∧ (run refusedHeight).minted = 5 ∧
    (run refusedHeight).atts.map (fun a => (a.nonce, a.observed)) = [(1, true), (2, false), (3, false)] := by decide

/-- two epochs: observations 1, 2, a reset to 5, observations 6, 7 (nonce 6 by a non-applicable claim);
the log keeps both epochs, the cursor is reset value + observations of the epoch -/
def twoEpochs : List Op :=
  [ .vote 1 1 11 100 true 5, .vote 2 1 11 100 true 5, .vote 1 2 12 101 true 6, .vote 2 2 12 101 true 6,
    .tally [(1, 40), (2, 30), (3, 30)] [], .override 5,
    .vote 1 6 16 105 false 7, .vote 2 6 16 105 false 7, .vote 1 7 17 106 true 8, .vote 2 7 17 106 true 8,
    .tally [(1, 40), (2, 30), (3, 30)] [] ]

example : (run twoEpochs).log.map (·.nonce) = [1, 2, 6, 7] ∧ (run twoEpochs).observations.map (·.nonce) = [6, 7] ∧
    (run twoEpochs).effects.map (·.nonce) = [7] ∧ (run twoEpochs).epochStart = 5 ∧
    (run twoEpochs).lastObserved = 7 ∧ (run twoEpochs).minted = 19 := by decide

end Paloma.Oracle
