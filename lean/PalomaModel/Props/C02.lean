/-
C02 — oracle safety: > 66 % power, one vote per validator, applied once, in order.
Model: `Model/Oracle.lean` (mirrors x/skyway/keeper/attestation.go, x/skyway/abci.go, keeper.go at the
current HEAD). Everything below the marker is proved for EVERY history `run ops` of votes (any validator,
nonce, competing claim of any bridge deployment, accepted or rejected), end-of-block tallies with an
arbitrary power table each (with or without a failing observation event), periodic validator-nonce catch-up,
governance nonce overrides and chain activations (bridge re-deployments: new compass id, cursor reset to 0).

Ghost state and how it is tied down. `St.log` (with `epoch`, `epochStart`) is never read by the executable
model. It is tied
  * to the executable state by `log_matches_state` (an attestation is flagged observed iff the log has an
    entry for it, exactly one, with the same claim), `minted_eq_sum_log` (the observable `minted` is the sum
    over the log) and `cursor_consecutive` (the cursor is `epochStart` + number of entries of this epoch);
  * to the op history by `effect_requires_quorum` (every entry was appended by a tally op of the history
    whose power table gave the entry's voters more than 66 % of the table's total), `votes_were_cast` (every
    one of those voters has an accepted vote op for that very claim earlier in the history),
    `epoch_is_number_of_resets` (`epoch` = number of reset ops, `epochStart` = value of the last one,
    `compassId` = argument of the last activation) and `log_epoch_tied_to_history` (an entry's `epoch` /
    `deployment` = number of resets / last activation before the tally that appended it).
"Between governance resets" is stated for every interval, not only the current one: `every_epoch_consecutive`,
`every_epoch_no_gap`, `competing_claims_exclusive_every_epoch` (per epoch, the epoch starts being the function
`epochStarts` of the op history) and `between_resets_consecutive` (on the op history alone, no ghost).
"For each remote chain and bridge deployment": `chains_independent` (product over chains) and
`one_deployment_per_epoch` (the deployment changes only with a reset; only its claims are tallied).
"That identical claim": `honest_votes_counted_only_for_identical_claim` — histories whose votes carry real
claims (`Props/C11.lean`: field lists of the submittable claim types, hashed through `preimage`); the former
assumption `HashIdentifiesClaim` is derived there (`hash_identifies_claim_of_preimages`).

External ASSUMPTIONS (named where used): the hash does not collide on the pre-images of the claims that occur
in the history at hand (`NoCollisionAt`, pointwise); x/staking keeps `LastTotalPower` equal to the sum of the
`LastValidatorPower` records (`totalOf`); the per-chain stores are disjoint (`applyM`); validators stay
bonded; pruning (1000 nonces behind the cursor) is not reached.
-/
import PalomaModel.Model.Oracle
import PalomaModel.Gen.Consts
import PalomaModel.Props.C11

namespace Paloma.Oracle
open List

/-! ## helper lemmas -/
section Lemmas

theorem rev_induction {α : Type} {P : List α → Prop} (hnil : P []) (hsnoc : ∀ l a, P l → P (l ++ [a])) :
    ∀ l, P l := by
  have h : ∀ l : List α, P l.reverse := by
    intro l
    induction l with
    | nil => simpa using hnil
    | cons a l ih => simpa using hsnoc _ a ih
  intro l
  simpa using h l.reverse

theorem addVote_nodup (votes : List Nat) (v : Nat) (h : votes.Nodup) : (addVote votes v).Nodup := by
  unfold addVote
  split
  · exact h
  · rename_i hc
    rw [List.nodup_append]
    refine ⟨h, by simp, ?_⟩
    intro a ha b hb
    simp at hb; subst hb
    intro e; subst e
    exact hc (by simpa using ha)

theorem mem_addVote {votes : List Nat} {v w : Nat} (h : w ∈ addVote votes v) : w ∈ votes ∨ w = v := by
  unfold addVote at h
  split at h
  · left; exact h
  · simpa using h

/-- two attestations are stored under the same key -/
def sameKey (a b : Att) : Prop := a.nonce = b.nonce ∧ a.hash = b.hash

theorem mem_putAtt {l : List Att} {a x : Att} (h : x ∈ putAtt l a) : x = a ∨ (x ∈ l ∧ ¬ sameKey x a) := by
  unfold putAtt at h
  split at h
  · rcases List.mem_map.mp h with ⟨y, hy, rfl⟩
    split
    · left; rfl
    · rename_i hk
      right; refine ⟨hy, ?_⟩
      intro hs; apply hk; simp [hs.1, hs.2]
  · rename_i hany
    rcases List.mem_append.mp h with h | h
    · right; refine ⟨h, ?_⟩
      intro hs; apply hany
      exact List.any_eq_true.mpr ⟨x, h, by simp [hs.1, hs.2]⟩
    · left; simpa using h

theorem mem_putAtt_self (l : List Att) (a : Att) : a ∈ putAtt l a := by
  unfold putAtt
  split
  · rename_i hany
    rcases List.any_eq_true.mp hany with ⟨x, hx, hk⟩
    exact List.mem_map.mpr ⟨x, hx, by simp [hk]⟩
  · simp

theorem mem_putAtt_of_ne {l : List Att} {a x : Att} (hx : x ∈ l) (hk : ¬ sameKey x a) : x ∈ putAtt l a := by
  unfold putAtt
  have hk' : (x.nonce == a.nonce && x.hash == a.hash) = false := by
    cases h : (x.nonce == a.nonce && x.hash == a.hash)
    · rfl
    · exfalso; apply hk
      simp only [Bool.and_eq_true, beq_iff_eq] at h
      exact h
  split
  · exact List.mem_map.mpr ⟨x, hx, by simp [hk']⟩
  · exact List.mem_append.mpr (Or.inl hx)

/-- distinct store keys -/
def KeysDistinct (l : List Att) : Prop := l.Pairwise (fun a b => ¬ sameKey a b)

theorem keys_unique {l : List Att} (h : KeysDistinct l) {a b : Att} (ha : a ∈ l) (hb : b ∈ l)
    (hk : sameKey a b) : a = b := by
  unfold KeysDistinct at h
  rcases List.mem_iff_getElem.mp ha with ⟨i, hi, rfl⟩
  rcases List.mem_iff_getElem.mp hb with ⟨j, hj, rfl⟩
  have hp := List.pairwise_iff_getElem.mp h
  rcases Nat.lt_trichotomy i j with hij | hij | hij
  · exact absurd hk (hp i j hi hj hij)
  · subst hij; rfl
  · exact absurd ⟨hk.1.symm, hk.2.symm⟩ (hp j i hj hi hij)

theorem putAtt_keys {l : List Att} (a : Att) (h : KeysDistinct l) : KeysDistinct (putAtt l a) := by
  unfold KeysDistinct at *
  unfold putAtt
  split
  · rw [List.pairwise_map]
    refine h.imp ?_
    intro x y hxy hs
    apply hxy
    unfold sameKey at *
    split at hs <;> split at hs <;> rename_i h1 h2 <;>
      simp only [Bool.and_eq_true, beq_iff_eq] at h1 h2 <;> omega
  · rename_i hany
    rw [List.pairwise_append]
    refine ⟨h, by simp, ?_⟩
    intro x hx y hy hs
    simp at hy; subst hy
    apply hany
    exact List.any_eq_true.mpr ⟨x, hx, by simp [hs.1, hs.2]⟩

theorem findAtt_mem {l : List Att} {n h : Nat} {a : Att} (hf : findAtt l n h = some a) : a ∈ l :=
  List.mem_of_find?_eq_some hf

theorem findAtt_key {l : List Att} {n h : Nat} {a : Att} (hf : findAtt l n h = some a) :
    a.nonce = n ∧ a.hash = h := by
  have := List.find?_some hf
  simpa using this

theorem findAtt_none {l : List Att} {n h : Nat} (hf : findAtt l n h = none) :
    ∀ a ∈ l, ¬ (a.nonce = n ∧ a.hash = h) := by
  intro a ha hk
  have := List.find?_eq_none.mp hf a ha
  apply this; simp [hk.1, hk.2]

theorem mem_insertByHash {a x : Att} {l : List Att} (h : x ∈ insertByHash a l) : x = a ∨ x ∈ l := by
  induction l with
  | nil => left; simpa [insertByHash] using h
  | cons y ys ih =>
    simp only [insertByHash] at h
    split at h
    · rcases List.mem_cons.mp h with h | h
      · left; exact h
      · right; exact h
    · rcases List.mem_cons.mp h with h | h
      · right; simp [h]
      · rcases ih h with h | h
        · left; exact h
        · right; simp [h]

theorem mem_attsAt {l : List Att} {n : Nat} {x : Att} (h : x ∈ attsAt l n) : x ∈ l ∧ x.nonce = n := by
  unfold attsAt at h
  have : ∀ (m : List Att), x ∈ m.foldr insertByHash [] → x ∈ m := by
    intro m
    induction m with
    | nil => intro h; simp at h
    | cons y ys ih =>
      intro h
      simp only [List.foldr_cons] at h
      rcases mem_insertByHash h with h | h
      · simp [h]
      · simp [ih h]
  have hm := this _ h
  have := List.mem_filter.mp hm
  exact ⟨this.1, by simpa using this.2⟩

/-- if some prefix sum exceeds `required`, so does the total -/
theorem reaches_sum (power : Nat → Nat) (required : Nat) (votes : List Nat) (acc : Nat)
    (h : reaches power required votes acc = true) : acc + (votes.map power).sum > required := by
  induction votes generalizing acc with
  | nil => simp [reaches] at h
  | cons v vs ih =>
    simp only [reaches] at h
    split at h
    · simp only [List.map_cons, List.sum_cons]; omega
    · have := ih _ h
      simp only [List.map_cons, List.sum_cons]; omega

/-- the strict quorum test of `TryAttestation`, in the property's words: more than 66 % of the total -/
theorem reaches_quorum (power : Nat → Nat) (total : Nat) (votes : List Nat)
    (h : reaches power (requiredPower total) votes 0 = true) : 100 * (votes.map power).sum > 66 * total := by
  have := reaches_sum power _ votes 0 h
  simp only [requiredPower, votesPowerThreshold, powerDivisor] at this
  omega

theorem not_reaches_of_le (power : Nat → Nat) (total : Nat) (votes : List Nat)
    (h : 100 * (votes.map power).sum ≤ 66 * total) : reaches power (requiredPower total) votes 0 = false := by
  cases hr : reaches power (requiredPower total) votes 0
  · rfl
  · have := reaches_quorum power total votes hr; omega

/-! ### the power table -/

theorem powerOf_cons (k w : Nat) (tbl : List (Nat × Nat)) (v : Nat) :
    powerOf ((k, w) :: tbl) v = if k = v then w else powerOf tbl v := by
  unfold powerOf
  rw [List.find?_cons]
  by_cases h : k = v
  · simp [h]
  · have : ((k, w).1 == v) = false := by simp [h]
    simp [this, h]

theorem filter_ne_cons_eq (k w v : Nat) (rest : List (Nat × Nat)) (h : k = v) :
    ((k, w) :: rest).filter (fun p => p.1 != v) = rest.filter (fun p => p.1 != v) := by
  simp [h]

theorem filter_ne_cons_ne (k w v : Nat) (rest : List (Nat × Nat)) (h : ¬ k = v) :
    ((k, w) :: rest).filter (fun p => p.1 != v) = (k, w) :: rest.filter (fun p => p.1 != v) := by
  simp [h]

theorem powerOf_filter_ne (tbl : List (Nat × Nat)) (v u : Nat) (h : u ≠ v) :
    powerOf (tbl.filter (fun p => p.1 != v)) u = powerOf tbl u := by
  induction tbl with
  | nil => rfl
  | cons p rest ih =>
    obtain ⟨k, w⟩ := p
    by_cases hk : k = v
    · rw [filter_ne_cons_eq k w v rest hk, powerOf_cons, ih]
      have : ¬ k = u := fun e => h (by omega)
      simp [this]
    · rw [filter_ne_cons_ne k w v rest hk, powerOf_cons, powerOf_cons, ih]

theorem totalOf_cons (k w : Nat) (rest : List (Nat × Nat)) : totalOf ((k, w) :: rest) = w + totalOf rest := by
  simp [totalOf]

theorem totalOf_split (tbl : List (Nat × Nat)) (v : Nat) :
    powerOf tbl v + totalOf (tbl.filter (fun p => p.1 != v)) ≤ totalOf tbl := by
  induction tbl with
  | nil => simp [powerOf, totalOf]
  | cons p rest ih =>
    obtain ⟨k, w⟩ := p
    by_cases hk : k = v
    · rw [filter_ne_cons_eq k w v rest hk, powerOf_cons, totalOf_cons]
      simp only [hk, if_true]
      omega
    · rw [filter_ne_cons_ne k w v rest hk, powerOf_cons, totalOf_cons, totalOf_cons]
      simp only [hk, if_false]
      omega

/-- the summed power of distinct voters never exceeds the table's total: "more than 66 % of the total" is a
genuine fraction of the bonded power, every validator's row being counted at most once -/
theorem voters_power_le_total (voters : List Nat) (hnd : voters.Nodup) :
    ∀ tbl : List (Nat × Nat), (voters.map (powerOf tbl)).sum ≤ totalOf tbl := by
  induction voters with
  | nil => intro tbl; simp
  | cons v vs ih =>
    intro tbl
    have hv : v ∉ vs := (List.nodup_cons.mp hnd).1
    have hvs : vs.Nodup := (List.nodup_cons.mp hnd).2
    have h1 := ih hvs (tbl.filter (fun p => p.1 != v))
    have h2 : vs.map (powerOf (tbl.filter (fun p => p.1 != v))) = vs.map (powerOf tbl) := by
      apply List.map_congr_left
      intro u hu
      exact powerOf_filter_ne tbl v u (fun e => hv (e ▸ hu))
    rw [h2] at h1
    have h3 := totalOf_split tbl v
    simp only [List.map_cons, List.sum_cons]
    omega

/-! ### the loops of `attestationTally` -/

theorem tallyAtts_induct (P : St → Prop) (power : Nat → Nat) (total n : Nat) (ef : EventFault) :
    ∀ (as : List Att),
      (∀ s a, P s → a ∈ as → n = s.lastObserved + 1 → P (tryAtt s a power total ef).1) →
      ∀ s, P s → P (tallyAtts s power total n ef as).1 := by
  intro as
  induction as with
  | nil => intro _ s h; exact h
  | cons a rest ih =>
    intro hstep s hp
    unfold tallyAtts
    have ih' := ih (fun s x hp hx hn => hstep s x hp (by simp [hx]) hn)
    split
    · rename_i hn
      split
      · exact hstep s a hp (by simp) hn
      · exact ih' _ (hstep s a hp (by simp) hn)
    · exact ih' _ hp

theorem tallyKeys_induct (P : St → Prop) (snap : List Att) (power : Nat → Nat) (total : Nat) (ef : EventFault)
    (hstep : ∀ s a, P s → a ∈ snap → a.nonce = s.lastObserved + 1 → P (tryAtt s a power total ef).1) :
    ∀ (keys : List Nat) s, P s → P (tallyKeys s snap power total ef keys) := by
  intro keys
  induction keys with
  | nil => intro s h; exact h
  | cons n rest ih =>
    intro s hp
    unfold tallyKeys
    have h1 : P (tallyAtts s power total n ef (attsAt snap n)).1 :=
      tallyAtts_induct P power total n ef (attsAt snap n)
        (fun s a hp ha hn => hstep s a hp (mem_attsAt ha).1 (by rw [(mem_attsAt ha).2]; exact hn)) s hp
    split
    · exact h1
    · exact ih _ h1

/-- an attestation passes the deployment filter of `GetAttestationMapping` -/
def Visible (s : St) (a : Att) : Prop := s.compassId = 0 ∨ a.compass = s.compassId

theorem mem_visible {s : St} {a : Att} : a ∈ visible s ↔ a ∈ s.atts ∧ Visible s a := by
  unfold visible Visible
  rw [List.mem_filter]
  simp only [Bool.or_eq_true, beq_iff_eq]

/-- induction principle for a whole tally: `TryAttestation` is only ever called on attestations of the
mapping read at the start (stored attestations of the current deployment), and only on one whose nonce is
the cursor + 1 at that moment -/
theorem tally_induct (P : St → Prop) (s0 : St) (power : Nat → Nat) (total : Nat) (ef : EventFault)
    (hstep : ∀ s a, P s → a ∈ s0.atts → Visible s0 a → a.nonce = s.lastObserved + 1 →
      P (tryAtt s a power total ef).1)
    (h0 : P s0) : P (tally s0 power total ef) :=
  tallyKeys_induct P (visible s0) power total ef
    (fun s a hp ha hn => hstep s a hp (mem_visible.mp ha).1 (mem_visible.mp ha).2 hn) _ s0 h0

/-- `TryAttestation` either leaves the state untouched or performs `observe` under its four guards -/
theorem tryAtt_cases (s : St) (a : Att) (power : Nat → Nat) (total : Nat) (ef : EventFault) :
    (tryAtt s a power total ef).1 = s ∨
    (a.observed = false ∧ reaches power (requiredPower total) a.votes 0 = true ∧
      a.nonce = s.lastObserved + 1 ∧ s.lastEth ≤ a.eth ∧ (tryAtt s a power total ef).1 = observe s a) := by
  unfold tryAtt
  split
  · left; rfl
  · rename_i h1
    split
    · left; rfl
    · rename_i h2
      split
      · left; rfl
      · rename_i h3
        split
        · left; rfl
        · rename_i h4
          right
          refine ⟨by simpa using h1, by simpa using h2, by simpa using h3, by omega, rfl⟩

/-! ### the invariant -/

/-- the C02 invariant -/
structure Inv (s : St) : Prop where
  nodup : ∀ a ∈ s.atts, a.votes.Nodup
  keys : KeysDistinct s.atts
  /-- the cursor stands exactly as many nonces behind the last reset as claims were observed since -/
  cursor : s.lastObserved = s.epochStart + s.observations.length
  /-- ... and these observations are the consecutive nonces after the reset value -/
  consec : s.observations.map (·.nonce) = List.range' (s.epochStart + 1) s.observations.length
  before : ∀ o ∈ s.log, o.nonce = o.cursorBefore + 1
  epochLe : ∀ o ∈ s.log, o.epoch ≤ s.epoch
  minted : s.minted = (s.log.map Obs.mint).sum
  obsAtt : ∀ o ∈ s.log, ∃ a ∈ s.atts, a.nonce = o.nonce ∧ a.hash = o.hash ∧ a.observed = true ∧
    a.applicable = o.applicable ∧ a.amount = o.amount ∧ a.eth = o.eth ∧ a.compass = o.compass
  attObs : ∀ a ∈ s.atts, a.observed = true → ∃ o ∈ s.log, o.nonce = a.nonce ∧ o.hash = a.hash
  uniq : s.log.Pairwise (fun o o' => ¬ (o.nonce = o'.nonce ∧ o.hash = o'.hash))
  ethLe : ∀ o ∈ s.log, o.eth ≤ s.lastEth
  ethMono : s.log.Pairwise (fun o o' => o.eth ≤ o'.eth)
  /-- the observations of the current epoch were made under the current deployment id -/
  deploy : ∀ o ∈ s.log, o.epoch = s.epoch → o.deployment = s.compassId

theorem inv_init : Inv St.init := by
  constructor <;> simp [St.init, St.observations, KeysDistinct]

theorem attFor_cases (s : St) (n h eth : Nat) (ap : Bool) (amt cp : Nat) :
    (attFor s n h eth ap amt cp ∈ s.atts ∧ (attFor s n h eth ap amt cp).nonce = n ∧ (attFor s n h eth ap amt cp).hash = h) ∨
    ((∀ a ∈ s.atts, ¬ (a.nonce = n ∧ a.hash = h)) ∧
      attFor s n h eth ap amt cp =
        { nonce := n, hash := h, eth := eth, votes := [], observed := false, applicable := ap, amount := amt,
          compass := cp }) := by
  unfold attFor
  cases hf : findAtt s.atts n h with
  | none => right; exact ⟨findAtt_none hf, rfl⟩
  | some a => left; exact ⟨findAtt_mem hf, findAtt_key hf⟩

/-- what an accepted vote stores: the attestation of that key with the voter added, everything else as it was -/
def voted (s : St) (v n h eth : Nat) (ap : Bool) (amt cp : Nat) : Att :=
  { attFor s n h eth ap amt cp with votes := addVote (attFor s n h eth ap amt cp).votes v }

theorem vote_cases (s : St) (v n h eth : Nat) (ap : Bool) (amt cp : Nat) :
    ((vote s v n h eth ap amt cp).2 = .rejected ∧ (vote s v n h eth ap amt cp).1 = s) ∨
    ((vote s v n h eth ap amt cp).2 = .ok ∧ n = lastNonceOf s v + 1 ∧ (attFor s n h eth ap amt cp).eth = eth ∧
      (vote s v n h eth ap amt cp).1 =
        { s with atts := putAtt s.atts (voted s v n h eth ap amt cp), valNonce := setNonce s.valNonce v n }) := by
  unfold vote
  split
  · left; exact ⟨rfl, rfl⟩
  · rename_i h1
    split
    · left; exact ⟨rfl, rfl⟩
    · rename_i h2
      right
      exact ⟨rfl, by simpa using h1, by simpa using h2, rfl⟩

theorem vote_inv (s : St) (v n h eth : Nat) (ap : Bool) (amt cp : Nat) (hi : Inv s) :
    Inv (vote s v n h eth ap amt cp).1 := by
  rcases vote_cases s v n h eth ap amt cp with ⟨_, he⟩ | ⟨_, _, _, he⟩
  · rw [he]; exact hi
  · rw [he]
    have hx : ∀ a ∈ s.atts, sameKey a (voted s v n h eth ap amt cp) → attFor s n h eth ap amt cp = a := by
      intro a ha hk
      rcases attFor_cases s n h eth ap amt cp with ⟨hm, hn, hh⟩ | ⟨hno, _⟩
      · apply keys_unique hi.keys hm ha
        unfold sameKey voted at *
        simp only at hk
        omega
      · exfalso
        apply hno a ha
        rcases attFor_cases s n h eth ap amt cp with ⟨_, hn, hh⟩ | ⟨_, hq⟩
        · unfold sameKey voted at hk; simp only at hk; omega
        · unfold sameKey voted at hk; simp only [hq] at hk; exact hk
    constructor
    · intro a ha
      rcases mem_putAtt ha with rfl | ⟨ha, _⟩
      · apply addVote_nodup
        rcases attFor_cases s n h eth ap amt cp with ⟨hm, _, _⟩ | ⟨_, hq⟩
        · exact hi.nodup _ hm
        · rw [hq]; simp
      · exact hi.nodup a ha
    · exact putAtt_keys _ hi.keys
    · exact hi.cursor
    · exact hi.consec
    · exact hi.before
    · exact hi.epochLe
    · exact hi.minted
    · intro o ho
      obtain ⟨a, ha, h1, h2, h3, h4, h5, h6, h7⟩ := hi.obsAtt o ho
      by_cases hk : sameKey a (voted s v n h eth ap amt cp)
      · refine ⟨voted s v n h eth ap amt cp, mem_putAtt_self _ _, ?_⟩
        have := hx a ha hk
        unfold voted
        simp only [this]
        exact ⟨h1, h2, h3, h4, h5, h6, h7⟩
      · exact ⟨a, mem_putAtt_of_ne ha hk, h1, h2, h3, h4, h5, h6, h7⟩
    · intro a ha hobs
      rcases mem_putAtt ha with rfl | ⟨ha, _⟩
      · rcases attFor_cases s n h eth ap amt cp with ⟨hm, _, _⟩ | ⟨_, hq⟩
        · exact hi.attObs (attFor s n h eth ap amt cp) hm hobs
        · unfold voted at hobs; simp [hq] at hobs
      · exact hi.attObs a ha hobs
    · exact hi.uniq
    · exact hi.ethLe
    · exact hi.ethMono
    · exact hi.deploy

theorem observations_observe (s : St) (a : Att) :
    (observe s a).observations = s.observations ++ [mkObs s a] := by
  simp [St.observations, observe, mkObs, List.filter_append]

theorem observe_inv (s : St) (a : Att) (hi : Inv s) (ha : a ∈ s.atts) (hobs : a.observed = false)
    (hn : a.nonce = s.lastObserved + 1) (he : s.lastEth ≤ a.eth) : Inv (observe s a) := by
  have hfresh : ∀ o ∈ s.log, ¬ (o.nonce = a.nonce ∧ o.hash = a.hash) := by
    intro o ho hk
    obtain ⟨a', ha', h1, h2, h3, _⟩ := hi.obsAtt o ho
    have : a' = a := keys_unique hi.keys ha' ha ⟨by omega, by omega⟩
    subst this
    simp [hobs] at h3
  constructor
  · intro x hx
    rcases mem_putAtt hx with rfl | ⟨hx, _⟩
    · exact hi.nodup a ha
    · exact hi.nodup x hx
  · exact putAtt_keys _ hi.keys
  · rw [observations_observe]
    have := hi.cursor
    simp only [observe, List.length_append, List.length_singleton]
    omega
  · rw [observations_observe]
    simp only [List.map_append, List.map_cons, List.map_nil, List.length_append, List.length_singleton]
    rw [List.range'_concat, hi.consec]
    have := hi.cursor
    simp only [observe, mkObs]
    congr 2
    omega
  · intro o ho
    simp only [observe, List.mem_append, List.mem_singleton] at ho
    rcases ho with ho | rfl
    · exact hi.before o ho
    · simp [mkObs, hn]
  · intro o ho
    simp only [observe, List.mem_append, List.mem_singleton] at ho
    rcases ho with ho | rfl
    · exact hi.epochLe o ho
    · simp [mkObs, observe]
  · simp only [observe, List.map_append, List.map_cons, List.map_nil, List.sum_append, List.sum_cons, List.sum_nil]
    have := hi.minted
    cases hap : a.applicable <;> simp [Obs.mint, mkObs, hap] <;> omega
  · intro o ho
    simp only [observe, List.mem_append, List.mem_singleton] at ho
    rcases ho with ho | rfl
    · obtain ⟨a', ha', h1, h2, h3, h4, h5, h6, h7⟩ := hi.obsAtt o ho
      refine ⟨a', mem_putAtt_of_ne ha' ?_, h1, h2, h3, h4, h5, h6, h7⟩
      intro hk
      exact hfresh o ho ⟨by unfold sameKey at hk; simp only at hk; omega, by unfold sameKey at hk; simp only at hk; omega⟩
    · exact ⟨{ a with observed := true }, mem_putAtt_self _ _, by simp [mkObs]⟩
  · intro x hx hxo
    simp only [observe] at hx ⊢
    rcases mem_putAtt hx with rfl | ⟨hx, _⟩
    · exact ⟨mkObs s a, by simp, by simp [mkObs]⟩
    · obtain ⟨o, ho, h1, h2⟩ := hi.attObs x hx hxo
      exact ⟨o, by simp [ho], h1, h2⟩
  · simp only [observe]
    rw [List.pairwise_append]
    refine ⟨hi.uniq, by simp, ?_⟩
    intro o ho o' ho'
    simp only [List.mem_singleton] at ho'
    subst ho'
    simpa [mkObs] using hfresh o ho
  · intro o ho
    simp only [observe, List.mem_append, List.mem_singleton] at ho ⊢
    rcases ho with ho | rfl
    · have := hi.ethLe o ho; omega
    · simp [mkObs]
  · simp only [observe]
    rw [List.pairwise_append]
    refine ⟨hi.ethMono, by simp, ?_⟩
    intro o ho o' ho'
    simp only [List.mem_singleton] at ho'
    subst ho'
    have := hi.ethLe o ho
    simp only [mkObs]; omega
  · intro o ho he
    simp only [observe, List.mem_append, List.mem_singleton] at ho he ⊢
    rcases ho with ho | rfl
    · exact hi.deploy o ho he
    · simp [mkObs]

/-- every attestation of the mapping read at the start of a tally is still stored unchanged, unless its
nonce has been passed by the cursor in the meantime -/
def Tracks (s0 s : St) : Prop := ∀ x ∈ s0.atts, x ∈ s.atts ∨ x.nonce ≤ s.lastObserved

theorem observe_tracks (s0 s : St) (a : Att) (hn : a.nonce = s.lastObserved + 1) (ht : Tracks s0 s) :
    Tracks s0 (observe s a) := by
  intro x hx
  rcases ht x hx with h | h
  · by_cases hk : sameKey x { a with observed := true }
    · right; unfold sameKey at hk; simp only [observe] at hk ⊢; omega
    · left; exact mem_putAtt_of_ne h hk
  · right; simp only [observe]; omega

/-- tally induction with the invariant carried along: in the step the attestation handed to
`TryAttestation` is known to be the one currently stored -/
theorem tally_induct_inv (P : St → Prop) (s0 : St) (power : Nat → Nat) (total : Nat) (ef : EventFault)
    (hi0 : Inv s0)
    (hstep : ∀ s a, Inv s → P s → a ∈ s.atts → a ∈ s0.atts → Visible s0 a → a.observed = false →
      reaches power (requiredPower total) a.votes 0 = true → a.nonce = s.lastObserved + 1 → s.lastEth ≤ a.eth →
      P (observe s a))
    (h0 : P s0) : Inv (tally s0 power total ef) ∧ P (tally s0 power total ef) := by
  have := tally_induct (fun s => Inv s ∧ Tracks s0 s ∧ P s) s0 power total ef ?_ ⟨hi0, fun x hx => Or.inl hx, h0⟩
  · exact ⟨this.1, this.2.2⟩
  · intro s a ⟨hi, ht, hp⟩ ha0 hvis hn
    rcases tryAtt_cases s a power total ef with he | ⟨h1, h2, h3, h4, he⟩
    · rw [he]; exact ⟨hi, ht, hp⟩
    · rw [he]
      have ha : a ∈ s.atts := by
        rcases ht a ha0 with h | h
        · exact h
        · omega
      exact ⟨observe_inv s a hi ha h1 h3 h4, observe_tracks s0 s a h3 ht, hstep s a hi hp ha ha0 hvis h1 h2 h3 h4⟩

theorem tally_inv (s : St) (power : Nat → Nat) (total : Nat) (ef : EventFault) (hi : Inv s) :
    Inv (tally s power total ef) :=
  (tally_induct_inv (fun _ => True) s power total ef hi (fun _ _ _ _ _ _ _ _ _ _ _ => trivial) trivial).1

theorem catchUp_inv (s : St) (hi : Inv s) : Inv (catchUp s) := by
  constructor
  · exact hi.nodup
  · exact hi.keys
  · exact hi.cursor
  · exact hi.consec
  · exact hi.before
  · exact hi.epochLe
  · exact hi.minted
  · exact hi.obsAtt
  · exact hi.attObs
  · exact hi.uniq
  · exact hi.ethLe
  · exact hi.ethMono
  · exact hi.deploy

theorem observations_override (s : St) (n : Nat) (hi : Inv s) : (override s n).observations = [] := by
  simp only [St.observations, override]
  rw [List.filter_eq_nil_iff]
  intro o ho
  have := hi.epochLe o ho
  simp only [beq_iff_eq]
  omega

theorem override_inv (s : St) (n : Nat) (hi : Inv s) : Inv (override s n) := by
  constructor
  · exact hi.nodup
  · exact hi.keys
  · rw [observations_override s n hi]; simp [override]
  · rw [observations_override s n hi]; simp
  · exact hi.before
  · intro o ho
    have := hi.epochLe o ho
    simp only [override]; omega
  · exact hi.minted
  · exact hi.obsAtt
  · exact hi.attObs
  · exact hi.uniq
  · exact hi.ethLe
  · exact hi.ethMono
  · intro o ho he
    have := hi.epochLe o ho
    simp only [override] at he
    omega

theorem observations_activate (s : St) (c : Nat) (hi : Inv s) : (activate s c).observations = [] := by
  simp only [St.observations, activate, override]
  rw [List.filter_eq_nil_iff]
  intro o ho
  have := hi.epochLe o ho
  simp only [beq_iff_eq]
  omega

/-- a chain activation: new deployment id, cursor and validator nonces reset to 0, a new epoch -/
theorem activate_inv (s : St) (c : Nat) (hi : Inv s) : Inv (activate s c) := by
  constructor
  · exact hi.nodup
  · exact hi.keys
  · rw [observations_activate s c hi]; simp [activate, override]
  · rw [observations_activate s c hi]; simp
  · exact hi.before
  · intro o ho
    have := hi.epochLe o ho
    simp only [activate, override]; omega
  · exact hi.minted
  · exact hi.obsAtt
  · exact hi.attObs
  · exact hi.uniq
  · exact hi.ethLe
  · exact hi.ethMono
  · intro o ho he
    have := hi.epochLe o ho
    simp only [activate, override] at he
    omega

/-! ### histories -/

/-- everything that can happen to the oracle of one chain -/
inductive Op where
  | vote (v n h eth : Nat) (applicable : Bool) (amount : Nat) (compass : Nat)
  /-- end of block: `power` is the whole `LastValidatorPower` table at that moment (the total is its sum);
  `failing` lists the attestations (nonce, hash) whose observation event cannot be emitted in this block -/
  | tally (power : List (Nat × Nat)) (failing : List (Nat × Nat))
  | catchUp
  /-- governance `NonceOverrideProposal` -/
  | override (n : Nat)
  /-- chain activation / bridge re-deployment with compass id `c` (`EVMActivatedChain` event) -/
  | activate (c : Nat)

def apply (s : St) : Op → St
  | .vote v n h eth ap amt cp => (vote s v n h eth ap amt cp).1
  | .tally p f => tally s (powerOf p) (totalOf p) (faultOf f)
  | .catchUp => catchUp s
  | .override n => override s n
  | .activate c => activate s c

def run (ops : List Op) : St := ops.foldl apply St.init

theorem run_snoc (l : List Op) (op : Op) : run (l ++ [op]) = apply (run l) op := by
  simp [run, List.foldl_append]

theorem apply_inv (s : St) (op : Op) (hi : Inv s) : Inv (apply s op) := by
  cases op with
  | vote v n h eth ap amt cp => exact vote_inv s v n h eth ap amt cp hi
  | tally p f => exact tally_inv s _ _ _ hi
  | catchUp => exact catchUp_inv s hi
  | override n => exact override_inv s n hi
  | activate c => exact activate_inv s c hi

theorem run_inv (ops : List Op) : Inv (run ops) := by
  induction ops using rev_induction with
  | hnil => exact inv_init
  | hsnoc l op ih => rw [run_snoc]; exact apply_inv _ op ih

/-- `o` records the observation of an attestation stored in `s` whose (distinct) voters hold more than 66 %
of `total` under `power` -/
def QuorumObs (s : St) (power : Nat → Nat) (total : Nat) (o : Obs) : Prop :=
  ∃ a ∈ s.atts, a.observed = false ∧ a.nonce = o.nonce ∧ a.hash = o.hash ∧ a.eth = o.eth ∧
    a.applicable = o.applicable ∧ a.amount = o.amount ∧ a.votes = o.voters ∧ a.votes.Nodup ∧
    100 * (a.votes.map power).sum > 66 * total

/-- `o` records an observation made out of `s`' epoch and deployment: the claim passed the deployment filter
of `GetAttestationMapping` as it stood in `s` -/
def DeployObs (s : St) (o : Obs) : Prop :=
  o.epoch = s.epoch ∧ o.deployment = s.compassId ∧ (s.compassId = 0 ∨ o.compass = s.compassId)

/-- what a whole tally does to the ghost log and to the cursor -/
theorem tally_log (s0 : St) (power : Nat → Nat) (total : Nat) (ef : EventFault) (hi : Inv s0) :
    ∃ new, (tally s0 power total ef).log = s0.log ++ new ∧
      (tally s0 power total ef).epoch = s0.epoch ∧ (tally s0 power total ef).epochStart = s0.epochStart ∧
      (tally s0 power total ef).valNonce = s0.valNonce ∧
      (tally s0 power total ef).compassId = s0.compassId ∧
      (∀ o ∈ new, DeployObs s0 o ∧ QuorumObs s0 power total o) := by
  refine (tally_induct_inv (fun s => ∃ new, s.log = s0.log ++ new ∧ s.epoch = s0.epoch ∧
      s.epochStart = s0.epochStart ∧ s.valNonce = s0.valNonce ∧ s.compassId = s0.compassId ∧
      (∀ o ∈ new, DeployObs s0 o ∧ QuorumObs s0 power total o)) s0 power total ef hi ?_
      ⟨[], by simp, rfl, rfl, rfl, rfl, by simp⟩).2
  intro s a _ ⟨new, hl, he, hes, hv, hc, hq⟩ _ ha0 hvis hobs hr _ _
  refine ⟨new ++ [mkObs s a], by simp [observe, hl], by simp [observe, he], by simp [observe, hes],
    by simp [observe, hv], by simp [observe, hc], ?_⟩
  intro o ho
  rcases List.mem_append.mp ho with ho | ho
  · exact hq o ho
  · simp only [List.mem_singleton] at ho
    subst ho
    exact ⟨⟨by simp [mkObs, he], by simp [mkObs, hc], hvis⟩, a, ha0, hobs, rfl, rfl, rfl, rfl, rfl, rfl,
      hi.nodup a ha0, reaches_quorum power total a.votes hr⟩

/-- everything but the observed flag -/
def AttSame (a a' : Att) : Prop :=
  a'.nonce = a.nonce ∧ a'.hash = a.hash ∧ a'.eth = a.eth ∧ a'.applicable = a.applicable ∧
    a'.amount = a.amount ∧ a'.votes = a.votes ∧ a'.compass = a.compass

/-- a tally changes stored attestations in their observed flag only -/
theorem tally_atts (s0 : St) (power : Nat → Nat) (total : Nat) (ef : EventFault) (hi : Inv s0) :
    ∀ a' ∈ (tally s0 power total ef).atts, ∃ a ∈ s0.atts, AttSame a a' := by
  refine (tally_induct_inv (fun s => ∀ a' ∈ s.atts, ∃ a ∈ s0.atts, AttSame a a') s0 power total ef hi ?_
      (fun a ha => ⟨a, ha, rfl, rfl, rfl, rfl, rfl, rfl, rfl⟩)).2
  intro s a _ hp _ ha0 _ _ _ _ _ a' ha'
  simp only [observe] at ha'
  rcases mem_putAtt ha' with rfl | ⟨ha', _⟩
  · exact ⟨a, ha0, rfl, rfl, rfl, rfl, rfl, rfl, rfl⟩
  · exact hp a' ha'

/-- where the entries of the ghost log come from -/
theorem apply_log (s : St) (op : Op) (hi : Inv s) :
    ∃ new, (apply s op).log = s.log ++ new ∧
      ∀ o ∈ new, ∃ p f, op = .tally p f ∧ DeployObs s o ∧ QuorumObs s (powerOf p) (totalOf p) o := by
  cases op with
  | vote v n h eth ap amt cp =>
    refine ⟨[], ?_, by simp⟩
    rcases vote_cases s v n h eth ap amt cp with ⟨_, he⟩ | ⟨_, _, _, he⟩ <;> simp [apply, he]
  | tally p f =>
    obtain ⟨new, hl, _, _, _, _, hq⟩ := tally_log s (powerOf p) (totalOf p) (faultOf f) hi
    exact ⟨new, hl, fun o ho => ⟨p, f, rfl, hq o ho⟩⟩
  | catchUp => exact ⟨[], by simp [apply, catchUp], by simp⟩
  | override n => exact ⟨[], by simp [apply, override], by simp⟩
  | activate c => exact ⟨[], by simp [apply, activate, override], by simp⟩

/-- where the votes of a stored attestation come from -/
theorem apply_votes (s : St) (op : Op) (hi : Inv s) :
    ∀ a' ∈ (apply s op).atts, ∀ w ∈ a'.votes,
      (∃ a ∈ s.atts, a.nonce = a'.nonce ∧ a.hash = a'.hash ∧ a.eth = a'.eth ∧ w ∈ a.votes) ∨
      (∃ ap amt cp, op = .vote w a'.nonce a'.hash a'.eth ap amt cp ∧ (vote s w a'.nonce a'.hash a'.eth ap amt cp).2 = .ok) := by
  intro a' ha' w hw
  cases op with
  | vote v n h eth ap amt cp =>
    simp only [apply] at ha'
    rcases vote_cases s v n h eth ap amt cp with ⟨_, he⟩ | ⟨hok, _, heth, he⟩
    · rw [he] at ha'; exact Or.inl ⟨a', ha', rfl, rfl, rfl, hw⟩
    · rw [he] at ha'
      simp only at ha'
      rcases mem_putAtt ha' with rfl | ⟨ha', _⟩
      · rcases attFor_cases s n h eth ap amt cp with ⟨hm, hn, hh⟩ | ⟨_, hq⟩
        · rcases mem_addVote (show w ∈ addVote (attFor s n h eth ap amt cp).votes v from hw) with hw | rfl
          · exact Or.inl ⟨attFor s n h eth ap amt cp, hm, rfl, rfl, rfl, hw⟩
          · right
            refine ⟨ap, amt, cp, ?_, ?_⟩
            · show Op.vote w n h eth ap amt cp = Op.vote w (attFor s n h eth ap amt cp).nonce (attFor s n h eth ap amt cp).hash
                (attFor s n h eth ap amt cp).eth ap amt cp
              rw [hn, hh, heth]
            · show (vote s w (attFor s n h eth ap amt cp).nonce (attFor s n h eth ap amt cp).hash
                (attFor s n h eth ap amt cp).eth ap amt cp).2 = .ok
              rw [hn, hh, heth]; exact hok
        · have hw' : w ∈ addVote (attFor s n h eth ap amt cp).votes v := hw
          rw [hq] at hw'
          rcases mem_addVote hw' with hw' | rfl
          · simp at hw'
          · right
            refine ⟨ap, amt, cp, ?_, ?_⟩
            · show Op.vote w n h eth ap amt cp = Op.vote w (attFor s n h eth ap amt cp).nonce (attFor s n h eth ap amt cp).hash
                (attFor s n h eth ap amt cp).eth ap amt cp
              rw [hq]
            · show (vote s w (attFor s n h eth ap amt cp).nonce (attFor s n h eth ap amt cp).hash
                (attFor s n h eth ap amt cp).eth ap amt cp).2 = .ok
              rw [hq]; exact hok
      · exact Or.inl ⟨a', ha', rfl, rfl, rfl, hw⟩
  | tally p f =>
    obtain ⟨a, ha, h1, h2, h3, _, _, h6, _⟩ := tally_atts s (powerOf p) (totalOf p) (faultOf f) hi a' ha'
    exact Or.inl ⟨a, ha, h1.symm, h2.symm, h3.symm, h6 ▸ hw⟩
  | catchUp => exact Or.inl ⟨a', ha', rfl, rfl, rfl, hw⟩
  | override n => exact Or.inl ⟨a', ha', rfl, rfl, rfl, hw⟩
  | activate c => exact Or.inl ⟨a', ha', rfl, rfl, rfl, hw⟩

/-- where the claim content of a stored attestation comes from: the vote that created it -/
theorem apply_origin (s : St) (op : Op) (hi : Inv s) :
    ∀ a' ∈ (apply s op).atts,
      (∃ a ∈ s.atts, a.nonce = a'.nonce ∧ a.hash = a'.hash ∧ a.eth = a'.eth ∧ a.applicable = a'.applicable ∧
        a.amount = a'.amount ∧ a.compass = a'.compass) ∨
      (∃ v, op = .vote v a'.nonce a'.hash a'.eth a'.applicable a'.amount a'.compass ∧
        (vote s v a'.nonce a'.hash a'.eth a'.applicable a'.amount a'.compass).2 = .ok) := by
  intro a' ha'
  cases op with
  | vote v n h eth ap amt cp =>
    simp only [apply] at ha'
    rcases vote_cases s v n h eth ap amt cp with ⟨_, he⟩ | ⟨hok, _, heth, he⟩
    · rw [he] at ha'; exact Or.inl ⟨a', ha', rfl, rfl, rfl, rfl, rfl, rfl⟩
    · rw [he] at ha'
      simp only at ha'
      rcases mem_putAtt ha' with rfl | ⟨ha', _⟩
      · rcases attFor_cases s n h eth ap amt cp with ⟨hm, _, _⟩ | ⟨_, hq⟩
        · exact Or.inl ⟨attFor s n h eth ap amt cp, hm, rfl, rfl, rfl, rfl, rfl, rfl⟩
        · right
          refine ⟨v, ?_, ?_⟩
          · show Op.vote v n h eth ap amt cp = Op.vote v (attFor s n h eth ap amt cp).nonce (attFor s n h eth ap amt cp).hash
              (attFor s n h eth ap amt cp).eth (attFor s n h eth ap amt cp).applicable (attFor s n h eth ap amt cp).amount
              (attFor s n h eth ap amt cp).compass
            rw [hq]
          · show (vote s v (attFor s n h eth ap amt cp).nonce (attFor s n h eth ap amt cp).hash
              (attFor s n h eth ap amt cp).eth (attFor s n h eth ap amt cp).applicable (attFor s n h eth ap amt cp).amount
              (attFor s n h eth ap amt cp).compass).2 = .ok
            rw [hq]; exact hok
      · exact Or.inl ⟨a', ha', rfl, rfl, rfl, rfl, rfl, rfl⟩
  | tally p f =>
    obtain ⟨a, ha, h1, h2, h3, h4, h5, _, h7⟩ := tally_atts s (powerOf p) (totalOf p) (faultOf f) hi a' ha'
    exact Or.inl ⟨a, ha, h1.symm, h2.symm, h3.symm, h4.symm, h5.symm, h7.symm⟩
  | catchUp => exact Or.inl ⟨a', ha', rfl, rfl, rfl, rfl, rfl, rfl⟩
  | override n => exact Or.inl ⟨a', ha', rfl, rfl, rfl, rfl, rfl, rfl⟩
  | activate c => exact Or.inl ⟨a', ha', rfl, rfl, rfl, rfl, rfl, rfl⟩

theorem filter_length_le_one {α : Type} (p : α → Bool) (l : List α)
    (h : l.Pairwise (fun x y => ¬ (p x = true ∧ p y = true))) : (l.filter p).length ≤ 1 := by
  induction l with
  | nil => simp
  | cons x xs ih =>
    rw [List.pairwise_cons] at h
    by_cases hx : p x = true
    · have : xs.filter p = [] := List.filter_eq_nil_iff.mpr (fun y hy hpy => h.1 y hy ⟨hx, hpy⟩)
      simp [hx, this]
    · simp only [List.filter_cons, hx]; exact ih h.2

/-- the history contains an accepted vote of `v` for claim `(n, h)` reported at remote height `eth` -/
def VotedIn (ops : List Op) (v n h eth : Nat) : Prop :=
  ∃ pre ap amt cp post, ops = pre ++ Op.vote v n h eth ap amt cp :: post ∧ (vote (run pre) v n h eth ap amt cp).2 = .ok

theorem VotedIn.snoc {l : List Op} {v n h eth : Nat} (hv : VotedIn l v n h eth) (op : Op) :
    VotedIn (l ++ [op]) v n h eth := by
  obtain ⟨pre, ap, amt, cp, post, he, hok⟩ := hv
  exact ⟨pre, ap, amt, cp, post ++ [op], by simp [he], hok⟩

theorem VotedIn.append {l : List Op} {v n h eth : Nat} (hv : VotedIn l v n h eth) (more : List Op) :
    VotedIn (l ++ more) v n h eth := by
  obtain ⟨pre, ap, amt, cp, post, he, hok⟩ := hv
  exact ⟨pre, ap, amt, cp, post ++ more, by simp [he], hok⟩

/-- the history contains an accepted vote that submitted exactly this claim content -/
def SubmittedIn (ops : List Op) (n h eth : Nat) (ap : Bool) (amt cp : Nat) : Prop :=
  ∃ pre v post, ops = pre ++ Op.vote v n h eth ap amt cp :: post ∧ (vote (run pre) v n h eth ap amt cp).2 = .ok

theorem SubmittedIn.snoc {l : List Op} {n h eth : Nat} {ap : Bool} {amt cp : Nat} (hv : SubmittedIn l n h eth ap amt cp)
    (op : Op) : SubmittedIn (l ++ [op]) n h eth ap amt cp := by
  obtain ⟨pre, v, post, he, hok⟩ := hv
  exact ⟨pre, v, post ++ [op], by simp [he], hok⟩

/-- the history contains this very vote op, and `Attest` accepted it -/
def AcceptedIn (ops : List Op) (v n h eth : Nat) (ap : Bool) (amt cp : Nat) : Prop :=
  ∃ pre post, ops = pre ++ Op.vote v n h eth ap amt cp :: post ∧ (vote (run pre) v n h eth ap amt cp).2 = .ok

/-- Within a history a claim hash determines the claim content the model carries next to it (`applicable`,
`amount`, `compass`) — for the ACCEPTED votes only (rejected votes are not constrained). This is a
hypothesis of `voters_voted_identical_claim`; it is not assumed for histories made of real claims:
`hash_identifies_claim_of_preimages` (below) DERIVES it from C11's pre-image theorems and pointwise
collision freeness of the hash on the pre-images that occur in the history. (The remote height is part of
the pre-image too; in addition `Attest` compares it explicitly, which `votes_were_cast` uses.) -/
def HashIdentifiesClaim (ops : List Op) : Prop :=
  ∀ v n h e ap am cp v' e' ap' am' cp', AcceptedIn ops v n h e ap am cp → AcceptedIn ops v' n h e' ap' am' cp' →
    ap = ap' ∧ am = am' ∧ cp = cp'

/-! ### epochs: the resets of a history -/

/-- the cursor value an op resets the oracle to, if it is a reset: a governance override installs its
argument, a chain activation installs 0 -/
def resetOf : Op → Option Nat
  | .override n => some n
  | .activate _ => some 0
  | _ => none

/-- the reset values of a history, oldest first -/
def resetsOf (ops : List Op) : List Nat := ops.filterMap resetOf

/-- the cursor value each epoch of a history starts from: epoch 0 starts at 0 (genesis), epoch `k + 1` at the
value installed by the `k`-th reset op of the history. A function of the op history alone. -/
def epochStarts (ops : List Op) : List Nat := 0 :: resetsOf ops

/-- the bridge deployment id on record after a history: the argument of its last activation, 0 (none) if
there is none. A function of the op history alone. -/
def deploymentOf (ops : List Op) : Nat :=
  ops.foldl (fun d op => match op with | .activate c => c | _ => d) 0

/-- the entries of the log that were made in epoch `e` -/
def St.obsOf (s : St) (e : Nat) : List Obs := s.log.filter (fun o => o.epoch == e)

theorem obsOf_current (s : St) : s.obsOf s.epoch = s.observations := rfl

theorem resetsOf_snoc (l : List Op) (op : Op) :
    resetsOf (l ++ [op]) = resetsOf l ++ (match resetOf op with | some n => [n] | none => []) := by
  unfold resetsOf
  rw [List.filterMap_append]
  cases h : resetOf op <;> simp [List.filterMap_cons, h]

/-- what an op does to the ghost epoch counter, the epoch start and the deployment id -/
theorem apply_epoch (s : St) (op : Op) (hi : Inv s) :
    (resetOf op = none → (apply s op).epoch = s.epoch ∧ (apply s op).epochStart = s.epochStart) ∧
    (∀ n, resetOf op = some n → (apply s op).epoch = s.epoch + 1 ∧ (apply s op).epochStart = n ∧
      (apply s op).lastObserved = n ∧ (apply s op).log = s.log) ∧
    ((apply s op).compassId = match op with | .activate c => c | _ => s.compassId) := by
  cases op with
  | vote v n h eth ap amt cp =>
    rcases vote_cases s v n h eth ap amt cp with ⟨_, he⟩ | ⟨_, _, _, he⟩ <;> simp [apply, he, resetOf]
  | tally p f =>
    obtain ⟨new, _, h1, h2, _, h3, _⟩ := tally_log s (powerOf p) (totalOf p) (faultOf f) hi
    simp [apply, resetOf, h1, h2, h3]
  | catchUp => simp [apply, catchUp, resetOf]
  | override n => simp [apply, override, resetOf]
  | activate c => simp [apply, activate, override, resetOf]

/-- every op appends to the log only entries of the epoch it was applied in -/
theorem apply_log_epoch (s : St) (op : Op) (hi : Inv s) :
    ∃ new, (apply s op).log = s.log ++ new ∧ ∀ o ∈ new, o.epoch = s.epoch := by
  obtain ⟨new, hl, hq⟩ := apply_log s op hi
  refine ⟨new, hl, ?_⟩
  intro o ho
  obtain ⟨_, _, _, hD, _⟩ := hq o ho
  exact hD.1

theorem filter_epoch_new {new : List Obs} {e e' : Nat} (h : ∀ o ∈ new, o.epoch = e') (hne : e ≠ e') :
    new.filter (fun o => o.epoch == e) = [] := by
  rw [List.filter_eq_nil_iff]
  intro o ho
  have := h o ho
  simp only [beq_iff_eq]
  omega

theorem filter_epoch_all {new : List Obs} {e : Nat} (h : ∀ o ∈ new, o.epoch = e) :
    new.filter (fun o => o.epoch == e) = new :=
  List.filter_eq_self.mpr (fun o ho => by simp [h o ho])

/-- what consecutive nonces after `st` mean, entry by entry -/
theorem consecutive_facts (l : List Obs) (st : Nat) (h : l.map (·.nonce) = List.range' (st + 1) l.length) :
    l.Pairwise (fun a b => a.nonce < b.nonce) ∧
    (∀ o ∈ l, st < o.nonce ∧ o.nonce ≤ st + l.length) ∧
    (∀ n, st < n → n ≤ st + l.length → (l.filter (fun o => o.nonce == n)).length = 1) := by
  have hp : l.Pairwise (fun a b => a.nonce < b.nonce) := by
    have : (l.map (·.nonce)).Pairwise (· < ·) := by rw [h]; exact List.pairwise_lt_range' 1
    exact List.pairwise_map.mp this
  refine ⟨hp, ?_, ?_⟩
  · intro o ho
    have : o.nonce ∈ l.map (·.nonce) := List.mem_map.mpr ⟨o, ho, rfl⟩
    rw [h, List.mem_range'_1] at this
    omega
  · intro n h1 h2
    have hmem : n ∈ l.map (·.nonce) := by rw [h, List.mem_range'_1]; omega
    obtain ⟨o, ho, hn⟩ := List.mem_map.mp hmem
    have hge : 0 < (l.filter (fun o => o.nonce == n)).length :=
      List.length_pos_of_mem (List.mem_filter.mpr ⟨ho, by simp [hn]⟩)
    have hle := filter_length_le_one (fun o : Obs => o.nonce == n) l
      (hp.imp (by
        intro x y hxy hq
        simp only [beq_iff_eq] at hq
        omega))
    omega

/-- two entries with the same nonce in a list of strictly increasing nonces are the same entry -/
theorem increasing_unique {l : List Obs} (hp : l.Pairwise (fun a b => a.nonce < b.nonce)) {e₁ e₂ : Obs}
    (h₁ : e₁ ∈ l) (h₂ : e₂ ∈ l) (hn : e₁.nonce = e₂.nonce) : e₁ = e₂ := by
  rcases List.mem_iff_getElem.mp h₁ with ⟨i, hi, rfl⟩
  rcases List.mem_iff_getElem.mp h₂ with ⟨j, hj, rfl⟩
  have hlt := List.pairwise_iff_getElem.mp hp
  rcases Nat.lt_trichotomy i j with h | h | h
  · have := hlt i j hi hj h; omega
  · subst h; rfl
  · have := hlt j i hj hi h; omega

/-- what an op that is not a reset does between two states satisfying the invariant: it appends to the log
exactly as many entries as it moves the cursor, with the consecutive nonces after the old cursor -/
theorem apply_consecutive (s : St) (op : Op) (hi : Inv s) (hr : resetOf op = none) :
    ∃ new, (apply s op).log = s.log ++ new ∧
      new.map (·.nonce) = List.range' (s.lastObserved + 1) new.length ∧
      (apply s op).lastObserved = s.lastObserved + new.length := by
  obtain ⟨new, hl, hep⟩ := apply_log_epoch s op hi
  obtain ⟨he, hes⟩ := (apply_epoch s op hi).1 hr
  have hi' := apply_inv s op hi
  have hobs : (apply s op).observations = s.observations ++ new := by
    simp only [St.observations, hl, he, List.filter_append]
    rw [filter_epoch_all hep]
  refine ⟨new, hl, ?_, ?_⟩
  · have h1 := hi'.consec
    rw [hobs, hes, List.map_append, List.length_append, ← List.range'_append_1, hi.consec] at h1
    have h2 := List.append_cancel_left h1
    rw [h2, hi.cursor]
    congr 1
    omega
  · have h1 := hi'.cursor
    rw [hobs, hes, List.length_append] at h1
    have := hi.cursor
    omega

/-! ### histories of real claims (the link to C11) -/

open Paloma.ClaimHash in
/-- a claim as the validators submit it: its type, the nonce and remote height (the first two hashed parts of
every submittable type), the type-specific hashed fields in between, and the compass id (the last hashed
part of every submittable type; `Props/C11.lean`, `hashed_fields_as_in_property`) -/
structure OClaim where
  ty : String
  nonce : Nat
  eth : Nat
  mid : List Field
  compass : List Nat
deriving DecidableEq

open Paloma.ClaimHash in
/-- the hashed fields in format order -/
def OClaim.fields (c : OClaim) : List Field := .num c.nonce :: .num c.eth :: (c.mid ++ [.str c.compass])

open Paloma.ClaimHash in
def OClaim.toClaim (c : OClaim) : Claim := { ty := c.ty, fields := c.fields }

theorem OClaim.toClaim_inj {c c' : OClaim} (h : c.toClaim = c'.toClaim) : c = c' := by
  cases c; cases c'
  simp only [OClaim.toClaim, OClaim.fields, Paloma.ClaimHash.Claim.mk.injEq, List.cons.injEq,
    Paloma.ClaimHash.Field.num.injEq] at h
  obtain ⟨h1, h2, h3, h4⟩ := h
  have h5 := List.append_inj' h4 rfl
  simp only [List.cons.injEq, Paloma.ClaimHash.Field.str.injEq, and_true] at h5
  simp [h1, h2, h3, h5.1, h5.2]

/-- how a claim-level history is turned into the oracle's ops: `H` is the hash (of the pre-image bytes, as a
number), `content` what applying the claim does as far as the oracle model carries it (whether the handler
succeeds, and the amount) — ANY function of the claim, i.e. of its type and hashed fields —, `cc` the
numbering of compass ids (the model compares them for equality only; 0 stands for the empty id) -/
structure Lowering where
  H : List Nat → Nat
  content : OClaim → Bool × Nat
  cc : List Nat → Nat

/-- histories whose votes carry real claims -/
inductive COp where
  | vote (v : Nat) (c : OClaim)
  | tally (power : List (Nat × Nat)) (failing : List (Nat × Nat))
  | catchUp
  | override (n : Nat)
  | activate (compass : List Nat)

open Paloma.ClaimHash in
def Lowering.hash (L : Lowering) (c : OClaim) : Nat := L.H (preimage c.fields)

def Lowering.voteOp (L : Lowering) (v : Nat) (c : OClaim) : Op :=
  .vote v c.nonce (L.hash c) c.eth (L.content c).1 (L.content c).2 (L.cc c.compass)

def Lowering.op (L : Lowering) : COp → Op
  | .vote v c => L.voteOp v c
  | .tally p f => .tally p f
  | .catchUp => .catchUp
  | .override n => .override n
  | .activate c => .activate (L.cc c)

/-- the claims voted for in a history -/
def claimsOf : List COp → List OClaim
  | [] => []
  | .vote _ c :: rest => c :: claimsOf rest
  | _ :: rest => claimsOf rest

theorem mem_claimsOf {hist : List COp} {v : Nat} {c : OClaim} (h : COp.vote v c ∈ hist) : c ∈ claimsOf hist := by
  induction hist with
  | nil => simp at h
  | cons x xs ih =>
    rcases List.mem_cons.mp h with rfl | h'
    · simp [claimsOf]
    · cases x <;> simp [claimsOf, ih h']

/-- a vote op in the lowered history comes from a vote for a claim in the claim-level history, at the same
position -/
theorem lowered_vote_origin (L : Lowering) (hist : List COp) (pre post : List Op) (v n h e : Nat) (ap : Bool)
    (am cp : Nat) (he : hist.map L.op = pre ++ Op.vote v n h e ap am cp :: post) :
    ∃ hpre c hpost, hist = hpre ++ COp.vote v c :: hpost ∧ hpre.map L.op = pre ∧ hpost.map L.op = post ∧
      n = c.nonce ∧ h = L.hash c ∧ e = c.eth ∧ ap = (L.content c).1 ∧ am = (L.content c).2 ∧
      cp = L.cc c.compass := by
  obtain ⟨l₁, l₂, h1, h2, h3⟩ := List.map_eq_append_iff.mp he
  obtain ⟨x, l₃, h4, h5, h6⟩ := List.map_eq_cons_iff.mp h3
  cases x with
  | vote w c =>
    simp only [Lowering.op, Lowering.voteOp, Op.vote.injEq] at h5
    obtain ⟨rfl, k1, k2, k3, k4, k5, k6⟩ := h5
    exact ⟨l₁, c, l₃, by rw [h1, h4], h2, h6, k1.symm, k2.symm, k3.symm, k4.symm, k5.symm, k6.symm⟩
  | tally p f => simp [Lowering.op] at h5
  | catchUp => simp [Lowering.op] at h5
  | override n => simp [Lowering.op] at h5
  | activate c => simp [Lowering.op] at h5

/-! ### all remote chains -/

/-- what the end of a block does to the oracle of one active chain: `attestationTally`, and on every 50th
block `UpdateValidatorNoncesToLatest` -/
def endBlockOps (p f : List (Nat × Nat)) (catchUp : Bool) : List Op :=
  if catchUp then [.tally p f, .catchUp] else [.tally p f]

/-- everything that can happen to the oracles of ALL remote chains -/
inductive MOp where
  /-- an op addressed to one chain: a claim message names its chain (`GetChainReferenceId`, the store prefix
  of everything `Attest` reads and writes), a governance override and a chain activation name theirs -/
  | on (chain : Nat) (op : Op)
  /-- end of a block (`EndBlocker`): for every active chain the tally with the ONE power table of this block
  (an error in one chain's tally is logged and the loop goes on); `failing c` lists chain `c`'s attestations
  whose observation event cannot be emitted -/
  | endBlock (active : List Nat) (power : List (Nat × Nat)) (failing : Nat → List (Nat × Nat)) (catchUp : Bool)

/-- ASSUMPTION (x/skyway `GetStore(ctx, chainReferenceID)`: the per-chain stores are disjoint prefixes): an op
touches the state of the chain(s) it addresses and nothing else -/
def applyM (m : Nat → St) : MOp → (Nat → St)
  | .on c op => fun c' => if c' = c then apply (m c') op else m c'
  | .endBlock active p f cu => fun c' =>
      if c' ∈ active then (endBlockOps p (f c') cu).foldl apply (m c') else m c'

def runM (ops : List MOp) : Nat → St := ops.foldl applyM (fun _ => St.init)

/-- the single-chain history a multi-chain history amounts to for chain `c` -/
def projOp (c : Nat) : MOp → List Op
  | .on c' op => if c = c' then [op] else []
  | .endBlock active p f cu => if c ∈ active then endBlockOps p (f c) cu else []

theorem run_append (a b : List Op) : run (a ++ b) = b.foldl apply (run a) := by
  simp [run, List.foldl_append]

/-- the hash does not collide on the pre-images of the two claims (pointwise; nothing global) -/
def NoCollisionAt (L : Lowering) (c c' : OClaim) : Prop :=
  L.hash c = L.hash c' → Paloma.ClaimHash.preimage c.fields = Paloma.ClaimHash.preimage c'.fields

end Lemmas

section BridgeLemmas

/-! ### claim registry -/

theorem regLookup_some {r : List (Nat × Nat)} {h c : Nat} (hl : regLookup r h = some c) : (h, c) ∈ r := by
  unfold regLookup at hl
  cases hf : r.find? (fun p => p.1 == h) with
  | none => simp [hf] at hl
  | some p =>
    simp [hf] at hl
    have hm := List.mem_of_find?_eq_some hf
    have hk := List.find?_some hf
    simp at hk
    have : p = (h, c) := by cases p; simp_all
    rw [← this]; exact hm

theorem regLookup_none {r : List (Nat × Nat)} {h : Nat} (hl : regLookup r h = none) : ∀ p ∈ r, p.1 ≠ h := by
  unfold regLookup at hl
  cases hf : r.find? (fun p => p.1 == h) with
  | some p => simp [hf] at hl
  | none =>
    intro p hp he
    have := List.find?_eq_none.mp hf p hp
    simp [he] at this

/-- a key is held by one claim only -/
def Functional (r : List (Nat × Nat)) : Prop := ∀ p ∈ r, ∀ q ∈ r, p.1 = q.1 → p.2 = q.2

theorem register_spec {r r' : List (Nat × Nat)} {h c : Nat} (hr : register r h c = some r') (hf : Functional r) :
    Functional r' ∧ (h, c) ∈ r' ∧ ∀ p ∈ r, p ∈ r' := by
  unfold register at hr
  cases hl : regLookup r h with
  | some c' =>
    simp [hl] at hr
    obtain ⟨hc, rfl⟩ := hr
    subst hc
    exact ⟨hf, regLookup_some hl, fun p hp => hp⟩
  | none =>
    simp [hl] at hr
    subst hr
    refine ⟨?_, by simp, fun p hp => by simp [hp]⟩
    intro p hp q hq he
    simp at hp hq
    have hn := regLookup_none hl
    rcases hp with hp | rfl <;> rcases hq with hq | rfl
    · exact hf p hp q hq he
    · exact absurd he (hn p hp)
    · exact absurd he.symm (hn q hq)
    · rfl

theorem registerAll_spec (l : List (Nat × Nat)) : ∀ {r r' : List (Nat × Nat)}, registerAll r l = some r' → Functional r →
    Functional r' ∧ (∀ p ∈ r, p ∈ r') ∧ ∀ p ∈ l, p ∈ r' := by
  induction l with
  | nil =>
    intro r r' h hf
    simp [registerAll] at h
    subst h
    exact ⟨hf, fun p hp => hp, by simp⟩
  | cons p rest ih =>
    intro r r' h hf
    unfold registerAll at h
    cases hreg : register r p.1 p.2 with
    | none => simp [hreg] at h
    | some r1 =>
      simp [hreg] at h
      obtain ⟨hf1, hin, hsub⟩ := register_spec hreg hf
      obtain ⟨hf', hsub', hall⟩ := ih h hf1
      refine ⟨hf', fun q hq => hsub' q (hsub q hq), ?_⟩
      intro q hq
      simp at hq
      rcases hq with rfl | hq
      · exact hsub' _ hin
      · exact hall q hq

/-- an identity-annotated history: every op together with the identity (a number per distinct tuple of ALL
claim fields) of the claim it submits (ignored for ops that are not votes) -/
def subsOf : List (Op × Nat) → List (Nat × Nat)
  | [] => []
  | (.vote _ _ h _ _ _ _, c) :: rest => (h, c) :: subsOf rest
  | _ :: rest => subsOf rest

theorem mem_subsOf {hist : List (Op × Nat)} {v n h e : Nat} {ap : Bool} {am cp c : Nat}
    (hm : (Op.vote v n h e ap am cp, c) ∈ hist) : (h, c) ∈ subsOf hist := by
  induction hist with
  | nil => cases hm
  | cons x rest ih =>
    obtain ⟨op, c'⟩ := x
    simp at hm
    rcases hm with ⟨rfl, rfl⟩ | hm
    · simp [subsOf]
    · cases op <;> simp [subsOf, ih hm]

/-- the claim's identity determines what the model carries next to the key (applicability, amount, compass id):
they are fields (or functions of fields) of the claim -/
def IdentityDeterminesContent (hist : List (Op × Nat)) : Prop :=
  ∀ v n h e ap am cp c v' n' h' e' ap' am' cp',
    (Op.vote v n h e ap am cp, c) ∈ hist → (Op.vote v' n' h' e' ap' am' cp', c) ∈ hist → ap = ap' ∧ am = am' ∧ cp = cp'

/-! ### bridge -/

/-- batch nonces are unique and never above the counter -/
def IdsOk (b : Bridge) : Prop := b.batches.Pairwise (fun x y => x.id ≠ y.id) ∧ ∀ x ∈ b.batches, x.id ≤ b.lastId

/-- where the value of every transfer ever sent is: in an open batch, in the pool, or burned -/
def Bridge.value (b : Bridge) : Nat := (b.batches.map (·.amount)).sum + b.pool + b.burned

theorem sum_filter_split (l : List Batch) (p : Batch → Bool) :
    (l.map (·.amount)).sum = ((l.filter p).map (·.amount)).sum + ((l.filter (fun x => !p x)).map (·.amount)).sum := by
  induction l with
  | nil => simp
  | cons x rest ih =>
    cases hp : p x <;> simp [hp, ih] <;> omega

theorem sum_remove_unique (l : List Batch) (hp : l.Pairwise (fun x y => x.id ≠ y.id)) (x : Batch) (hx : x ∈ l) :
    (l.map (·.amount)).sum = x.amount + ((l.filter (fun y => y.id != x.id)).map (·.amount)).sum := by
  induction l with
  | nil => cases hx
  | cons y rest ih =>
    rw [List.pairwise_cons] at hp
    simp at hx
    rcases hx with rfl | hx
    · have : rest.filter (fun y => y.id != x.id) = rest := by
        apply List.filter_eq_self.mpr
        intro z hz
        have := hp.1 z hz
        simp; exact fun h => this h.symm
      simp [this]
    · have hne : y.id ≠ x.id := hp.1 x hx
      have := ih hp.2 hx
      simp [hne, this]; omega

theorem findBatch_some {b : Bridge} {id : Nat} {x : Batch} (h : findBatch b id = some x) : x ∈ b.batches ∧ x.id = id := by
  unfold findBatch at h
  refine ⟨List.mem_of_find?_eq_some h, ?_⟩
  have := List.find?_some h
  simpa using this

theorem idsOk_filter (b : Bridge) (p : Batch → Bool) (h : IdsOk b) (b' : Bridge) (hb : b'.batches = b.batches.filter p)
    (hl : b'.lastId = b.lastId) : IdsOk b' := by
  refine ⟨?_, ?_⟩
  · rw [hb]; exact h.1.sublist List.filter_sublist
  · intro x hx; rw [hb] at hx; rw [hl]; exact h.2 x (List.mem_filter.mp hx).1

theorem send_value (b : Bridge) (a : Nat) : (send b a).value = b.value + a := by
  simp [send, Bridge.value]; omega

theorem send_ids (b : Bridge) (a : Nat) (h : IdsOk b) : IdsOk (send b a) := h

theorem build_value (b : Bridge) (now : Nat) : (build b now).value = b.value := by
  unfold build
  split
  · rfl
  · simp [Bridge.value]

theorem build_ids (b : Bridge) (now : Nat) (h : IdsOk b) : IdsOk (build b now) := by
  unfold build
  split
  · exact h
  · refine ⟨?_, ?_⟩
    · simp only [List.pairwise_append]
      refine ⟨h.1, by simp, ?_⟩
      intro x hx y hy
      simp at hy
      subst hy
      have := h.2 x hx
      simp; omega
    · intro x hx
      simp at hx
      rcases hx with hx | rfl
      · have := h.2 x hx; simp; omega
      · simp

theorem exec_value (b : Bridge) (id eth : Nat) (h : IdsOk b) : (execBatch b id eth).value = b.value := by
  unfold execBatch
  cases hf : findBatch b id with
  | none => rfl
  | some x =>
    simp only
    split
    · obtain ⟨hx, hid⟩ := findBatch_some hf
      have := sum_remove_unique b.batches h.1 x hx
      simp only [Bridge.value]
      rw [this, hid]; omega
    · rfl

theorem exec_ids (b : Bridge) (id eth : Nat) (h : IdsOk b) : IdsOk (execBatch b id eth) := by
  unfold execBatch
  cases hf : findBatch b id with
  | none => exact h
  | some x =>
    simp only
    split
    · exact idsOk_filter b _ h _ rfl rfl
    · exact h

theorem cancel_value (b : Bridge) (now : Nat) : (cancelExpired b now).value = b.value := by
  have := sum_filter_split b.batches (fun x => !(x.timeout < now))
  simp only [Bool.not_not] at this
  simp only [cancelExpired, Bridge.value]
  rw [this]; omega

theorem cancel_ids (b : Bridge) (now : Nat) (h : IdsOk b) : IdsOk (cancelExpired b now) :=
  idsOk_filter b _ h _ rfl rfl

theorem handle_value (b : Bridge) (o : Obs) (h : IdsOk b) : (handle b o).value = b.value ∧ IdsOk (handle b o) := by
  unfold handle
  split
  · exact ⟨exec_value b _ _ h, exec_ids b _ _ h⟩
  · exact ⟨rfl, h⟩

theorem handlerEffects_value (obs : List Obs) : ∀ (b : Bridge), IdsOk b →
    (handlerEffects b obs).value = b.value ∧ IdsOk (handlerEffects b obs) := by
  induction obs with
  | nil => intro b h; exact ⟨rfl, h⟩
  | cons o rest ih =>
    intro b h
    obtain ⟨hv, hi⟩ := handle_value b o h
    obtain ⟨hv', hi'⟩ := ih (handle b o) hi
    exact ⟨by simp only [handlerEffects, List.foldl_cons] at hv' ⊢; rw [hv', hv], by simpa [handlerEffects] using hi'⟩

/-- `b'` came out of `b` by handler calls / cancellations only: nothing was un-burned, no batch appeared, the
claim table is the same -/
def Later (b b' : Bridge) : Prop :=
  b.burned ≤ b'.burned ∧ (∀ y ∈ b'.batches, y ∈ b.batches) ∧ b'.execClaims = b.execClaims

theorem Later.refl (b : Bridge) : Later b b := ⟨Nat.le_refl _, fun _ h => h, rfl⟩

theorem Later.trans {a b c : Bridge} (h1 : Later a b) (h2 : Later b c) : Later a c :=
  ⟨Nat.le_trans h1.1 h2.1, fun y hy => h1.2.1 y (h2.2.1 y hy), h2.2.2.trans h1.2.2⟩

theorem exec_later (b : Bridge) (id eth : Nat) : Later b (execBatch b id eth) := by
  unfold execBatch
  cases hf : findBatch b id with
  | none => exact Later.refl b
  | some x =>
    simp only
    split
    · exact ⟨by simp, fun _ hy => (List.mem_filter.mp hy).1, rfl⟩
    · exact Later.refl b

theorem handle_later (b : Bridge) (o : Obs) : Later b (handle b o) := by
  unfold handle
  split
  · exact exec_later b _ _
  · exact Later.refl b

theorem handlerEffects_later (obs : List Obs) : ∀ b : Bridge, Later b (handlerEffects b obs) := by
  induction obs with
  | nil => intro b; exact Later.refl b
  | cons o rest ih =>
    intro b
    have := ih (handle b o)
    simp only [handlerEffects, List.foldl_cons] at this ⊢
    exact (handle_later b o).trans this

theorem cancel_later (b : Bridge) (now : Nat) : Later b (cancelExpired b now) :=
  ⟨Nat.le_refl _, fun _ hy => (List.mem_filter.mp hy).1, rfl⟩

end BridgeLemmas

section SenderLemmas

/-! ### votes enter as claim messages

The histories above are lists of `Attest`-level ops: `Op.vote v …` takes the voting validator as given. The
histories below are lists of what actually reaches the chain: a claim message is delivered for an account
(`creator`: what the ante handler authenticated) and NAMES an orchestrator in its body. `lowerS` maps such a
history to the `Attest`-level history it amounts to (`runS_eq_run`), so every theorem of this file applies to
it; `flatMap_split` carries positions in the lowered history back to positions in the message history. -/

/-- a step of a history whose votes are claim messages -/
inductive SOp where
  /-- a deposit / executed-batch / light-node-sale claim message delivered for account `creator`, naming `orch` -/
  | msg (creator orch n h eth : Nat) (applicable : Bool) (amount : Nat) (compass : Nat)
  | tally (power : List (Nat × Nat)) (failing : List (Nat × Nat))
  | catchUp
  | override (n : Nat)
  | activate (c : Nat)

/-- `B`: the bonded validators (= their orchestrator accounts) -/
def applyS (B : List Nat) (s : St) : SOp → St
  | .msg c o n h eth ap amt cp => (voteMsg B s c o n h eth ap amt cp).1
  | .tally p f => tally s (powerOf p) (totalOf p) (faultOf f)
  | .catchUp => catchUp s
  | .override n => override s n
  | .activate c => activate s c

def runS (B : List Nat) (ops : List SOp) : St := ops.foldl (applyS B) St.init

/-- the `Attest`-level ops a step amounts to: a claim message that fails the handlers' gate amounts to nothing -/
def lowerS (B : List Nat) : SOp → List Op
  | .msg c o n h eth ap amt cp => if claimGate B c o then [.vote o n h eth ap amt cp] else []
  | .tally p f => [.tally p f]
  | .catchUp => [.catchUp]
  | .override n => [.override n]
  | .activate c => [.activate c]

theorem claimGate_iff (B : List Nat) (c o : Nat) : claimGate B c o = true ↔ c = o ∧ o ∈ B := by
  simp [claimGate]

theorem voteMsg_gate (B : List Nat) (s : St) (c o n h eth : Nat) (ap : Bool) (amt cp : Nat) :
    voteMsg B s c o n h eth ap amt cp = if claimGate B c o then vote s o n h eth ap amt cp else (s, .rejected) := by
  unfold voteMsg claimGate
  by_cases h1 : c = o
  · by_cases h2 : B.contains o = true
    · simp [h1, h2]
    · simp [h1, h2]
  · simp [h1]

theorem applyS_lower (B : List Nat) (s : St) (op : SOp) : applyS B s op = (lowerS B op).foldl apply s := by
  cases op with
  | msg c o n h eth ap amt cp =>
    simp only [applyS, lowerS, voteMsg_gate]
    by_cases hg : claimGate B c o = true
    · simp [hg, apply]
    · simp [hg]
  | tally p f => rfl
  | catchUp => rfl
  | override n => rfl
  | activate c => rfl

theorem runS_snoc (B : List Nat) (l : List SOp) (op : SOp) : runS B (l ++ [op]) = applyS B (runS B l) op := by
  simp [runS, List.foldl_append]

theorem flatMap_split {α β : Type} (f : α → List β) : ∀ (l : List α) (pre' : List β) (x : β) (post' : List β),
    l.flatMap f = pre' ++ x :: post' →
    ∃ pre op post a b, l = pre ++ op :: post ∧ f op = a ++ x :: b ∧ pre' = pre.flatMap f ++ a ∧
      post' = b ++ post.flatMap f := by
  intro l
  induction l with
  | nil => intro pre' x post' h; simp at h
  | cons y ys ih =>
    intro pre' x post' h
    rw [List.flatMap_cons] at h
    rcases List.append_eq_append_iff.mp h with ⟨a', h1, h2⟩ | ⟨c', h1, h2⟩
    · obtain ⟨pre, op, post, a, b, e1, e2, e3, e4⟩ := ih a' x post' h2
      exact ⟨y :: pre, op, post, a, b, by simp [e1], e2, by simp [h1, e3, List.flatMap_cons], e4⟩
    · cases c' with
      | nil =>
        simp only [List.nil_append] at h2
        obtain ⟨pre, op, post, a, b, e1, e2, e3, e4⟩ := ih [] x post' h2.symm
        refine ⟨y :: pre, op, post, a, b, by simp [e1], e2, ?_, e4⟩
        rw [List.flatMap_cons, List.append_assoc, ← e3, h1]
        simp
      | cons z zs =>
        simp only [List.cons_append, List.cons.injEq] at h2
        obtain ⟨rfl, h2⟩ := h2
        exact ⟨[], y, ys, pre', zs, by simp, h1, by simp, h2⟩

theorem singleton_eq_append_cons {α : Type} {y x : α} {a b : List α} (h : [y] = a ++ x :: b) :
    a = [] ∧ b = [] ∧ y = x := by
  cases a with
  | nil => simp at h; exact ⟨rfl, h.2, h.1⟩
  | cons a0 as => simp at h

theorem runS_eq_run (B : List Nat) (ops : List SOp) : runS B ops = run (ops.flatMap (lowerS B)) := by
  induction ops using rev_induction with
  | hnil => rfl
  | hsnoc l op ih =>
    rw [runS_snoc, applyS_lower, ih, List.flatMap_append, run_append]
    simp

/-- the history contains a claim message for claim `(n, h)` at remote height `eth` that was delivered for
validator `v`'s OWN account, names `v`, and was accepted -/
def SentIn (B : List Nat) (ops : List SOp) (v n h eth : Nat) : Prop :=
  ∃ pre ap amt cp post, ops = pre ++ SOp.msg v v n h eth ap amt cp :: post ∧ v ∈ B ∧
    (voteMsg B (runS B pre) v v n h eth ap amt cp).2 = .ok

/-- an accepted `Attest` of the lowered history is a claim message the validator itself sent -/
theorem votedIn_lower (B : List Nat) (ops : List SOp) (v n h eth : Nat)
    (hv : VotedIn (ops.flatMap (lowerS B)) v n h eth) : SentIn B ops v n h eth := by
  obtain ⟨pre', ap, amt, cp, post', he, hok⟩ := hv
  obtain ⟨pre, op, post, a, b, e1, e2, e3, _⟩ := flatMap_split (lowerS B) ops pre' _ post' he
  cases op with
  | msg c o n0 h0 eth0 ap0 amt0 cp0 =>
    simp only [lowerS] at e2
    by_cases hg : claimGate B c o = true
    · rw [if_pos hg] at e2
      obtain ⟨ha, _, hx⟩ := singleton_eq_append_cons e2
      obtain ⟨hco, hoB⟩ := (claimGate_iff B c o).mp hg
      cases hx
      subst hco ha
      refine ⟨pre, ap, amt, cp, post, e1, hoB, ?_⟩
      have hr : run pre' = runS B pre := by rw [e3, runS_eq_run]; simp
      rw [voteMsg_gate, if_pos hg, ← hr]
      exact hok
    · rw [if_neg hg] at e2
      simp at e2
  | tally p f => simp only [lowerS] at e2; have := (singleton_eq_append_cons e2).2.2; cases this
  | catchUp => simp only [lowerS] at e2; have := (singleton_eq_append_cons e2).2.2; cases this
  | override n1 => simp only [lowerS] at e2; have := (singleton_eq_append_cons e2).2.2; cases this
  | activate c1 => simp only [lowerS] at e2; have := (singleton_eq_append_cons e2).2.2; cases this

end SenderLemmas

/-! ## Property theorems (C02) -/

/-- the invariant holds after every history -/
theorem reachable_inv (ops : List Op) : Inv (run ops) := run_inv ops

/-- **votes_nodup.** In every reachable state no validator appears twice in any attestation's
vote list — whatever the order of votes, tallies, catch-ups and nonce overrides. -/
theorem votes_nodup (ops : List Op) : ∀ a ∈ (run ops).atts, a.votes.Nodup :=
  (reachable_inv ops).nodup

/-- **log_provenance.** Every entry of the ghost log was appended by a tally op of the history (it is in the
log right after that op), for an attestation stored (unobserved) at that point whose distinct voters held
more than 66 % of that tally's total. -/
theorem log_provenance (ops : List Op) :
    ∀ o ∈ (run ops).log, ∃ pre p f post, ops = pre ++ Op.tally p f :: post ∧
      o ∈ (run (pre ++ [Op.tally p f])).log ∧
      DeployObs (run pre) o ∧ QuorumObs (run pre) (powerOf p) (totalOf p) o := by
  induction ops using rev_induction with
  | hnil => intro o ho; simp [run, St.init] at ho
  | hsnoc l op ih =>
    intro o ho
    rw [run_snoc] at ho
    obtain ⟨new, hl, hq⟩ := apply_log (run l) op (run_inv l)
    rw [hl] at ho
    rcases List.mem_append.mp ho with ho | ho
    · obtain ⟨pre, p, f, post, he, hin, hD, hQ⟩ := ih o ho
      exact ⟨pre, p, f, post ++ [op], by simp [he], hin, hD, hQ⟩
    · obtain ⟨p, f, rfl, hD, hQ⟩ := hq o ho
      exact ⟨l, p, f, [], rfl, by rw [run_snoc, hl]; exact List.mem_append.mpr (Or.inr ho), hD, hQ⟩

/-- **votes_were_cast** ("have each voted for that identical claim"). Every validator in the vote list of a
stored attestation has an accepted vote op in the history for exactly that claim `(nonce, hash)` and with
exactly the stored remote height. -/
theorem votes_were_cast (ops : List Op) :
    ∀ a ∈ (run ops).atts, ∀ v ∈ a.votes, VotedIn ops v a.nonce a.hash a.eth := by
  induction ops using rev_induction with
  | hnil => intro a ha; simp [run, St.init] at ha
  | hsnoc l op ih =>
    intro a' ha' w hw
    rw [run_snoc] at ha'
    rcases apply_votes (run l) op (run_inv l) a' ha' w hw with ⟨a, ha, h1, h2, h3, hwa⟩ | ⟨ap, amt, cp, rfl, hok⟩
    · have := ih a ha w hwa
      rw [h1, h2, h3] at this
      exact this.snoc op
    · exact ⟨l, ap, amt, cp, [], rfl, hok⟩

/-- **claim_content_was_submitted.** The claim content stored with an attestation (remote height, whether
the handler can apply it, amount, compass id) is the content of an accepted vote op of the history for that
`(nonce, hash)`. -/
theorem claim_content_was_submitted (ops : List Op) :
    ∀ a ∈ (run ops).atts, SubmittedIn ops a.nonce a.hash a.eth a.applicable a.amount a.compass := by
  induction ops using rev_induction with
  | hnil => intro a ha; simp [run, St.init] at ha
  | hsnoc l op ih =>
    intro a' ha'
    rw [run_snoc] at ha'
    rcases apply_origin (run l) op (run_inv l) a' ha' with ⟨a, ha, h1, h2, h3, h4, h5, h6⟩ | ⟨v, rfl, hok⟩
    · have := ih a ha
      rw [h1, h2, h3, h4, h5, h6] at this
      exact this.snoc op
    · exact ⟨l, v, [], rfl, hok⟩

/-- **effect_requires_quorum** ("takes effect only after validators that together hold more than 66 % of the
current bonded voting power have each voted for that identical claim, with every validator's power counted
at most once"), over whole histories. Every claim that ever took effect — every entry `o` of the log, which
by `log_matches_state` / `minted_eq_sum_log` are exactly the observed flags and the minted total — was
appended by a tally op of the history. At that point of the history (`pre`) the claim's stored voters were
pairwise distinct, their summed power under THAT tally's table exceeded 66 % of THAT table's total (and is at
most the total: a genuine fraction), and every one of them has an accepted vote op for the very same claim
`(nonce, hash)` at the same remote height earlier in the history (before the tally); the claim content was
submitted by an accepted vote; the entry is not in the log before that tally and is in it right after; and
the claim belongs to the bridge deployment recorded at that point (or none was recorded). -/
theorem effect_requires_quorum (ops : List Op) :
    ∀ o ∈ (run ops).log, ∃ pre p f post, ops = pre ++ Op.tally p f :: post ∧
      o.voters.Nodup ∧
      100 * (o.voters.map (powerOf p)).sum > 66 * totalOf p ∧
      (o.voters.map (powerOf p)).sum ≤ totalOf p ∧
      (∀ v ∈ o.voters, VotedIn pre v o.nonce o.hash o.eth) ∧
      SubmittedIn pre o.nonce o.hash o.eth o.applicable o.amount o.compass ∧
      o ∉ (run pre).log ∧ o ∈ (run (pre ++ [Op.tally p f])).log ∧
      ((run pre).compassId = 0 ∨ o.compass = (run pre).compassId) := by
  intro o ho
  obtain ⟨pre, p, f, post, he, hin, hD, a, ha, h0, h1, h2, h3, h4, h5, h6, h7, h8⟩ := log_provenance ops o ho
  have hcp : a.compass = o.compass := by
    have hin' := hin
    obtain ⟨a', ha', k1, k2, _, _, _, _, k7⟩ := (reachable_inv (pre ++ [Op.tally p f])).obsAtt o hin'
    rw [run_snoc] at ha'
    obtain ⟨a0, ha0, q1, q2, _, _, _, _, q7⟩ := tally_atts (run pre) _ _ _ (reachable_inv pre) a' ha'
    have : a0 = a := keys_unique (reachable_inv pre).keys ha0 ha ⟨by omega, by omega⟩
    subst this
    omega
  refine ⟨pre, p, f, post, he, h6 ▸ h7, h6 ▸ h8, voters_power_le_total _ (h6 ▸ h7) p, ?_, ?_, ?_, hin, hD.2.2⟩
  · intro v hv
    have := votes_were_cast pre a ha v (h6 ▸ hv)
    rw [h1, h2, h3] at this
    exact this
  · have := claim_content_was_submitted pre a ha
    rw [h1, h2, h3, h4, h5, hcp] at this
    exact this
  · intro hmem
    obtain ⟨a', ha', k1, k2, k3, _⟩ := (reachable_inv pre).obsAtt o hmem
    have : a' = a := keys_unique (reachable_inv pre).keys ha' ha ⟨by omega, by omega⟩
    subst this
    rw [h0] at k3; cases k3

/-- **voters_voted_identical_claim.** If the hash identifies the claim content (`HashIdentifiesClaim`, a
condition on the ACCEPTED votes of the history that `hash_identifies_claim_of_preimages` derives from C11's
pre-image theorems), the votes behind an effect are votes for the identical claim in every modelled
component: each voter's accepted vote op carries the nonce, hash, remote height, applicability, amount and
compass id of the claim that took effect. -/
theorem voters_voted_identical_claim (ops : List Op) (hc : HashIdentifiesClaim ops) :
    ∀ o ∈ (run ops).log, ∀ v ∈ o.voters, AcceptedIn ops v o.nonce o.hash o.eth o.applicable o.amount o.compass := by
  intro o ho v hv
  obtain ⟨pre, p, f, post, he, _, _, _, hvoted, hsub, _⟩ := effect_requires_quorum ops o ho
  obtain ⟨pre1, ap, amt, cp, post1, he1, hok⟩ := hvoted v hv
  obtain ⟨pre2, v2, post2, he2, hok2⟩ := hsub
  have hm1 : AcceptedIn ops v o.nonce o.hash o.eth ap amt cp :=
    ⟨pre1, post1 ++ Op.tally p f :: post, by rw [he, he1]; simp, hok⟩
  have hm2 : AcceptedIn ops v2 o.nonce o.hash o.eth o.applicable o.amount o.compass :=
    ⟨pre2, post2 ++ Op.tally p f :: post, by rw [he, he2]; simp, hok2⟩
  obtain ⟨rfl, rfl, rfl⟩ := hc _ _ _ _ _ _ _ _ _ _ _ _ hm1 hm2
  exact hm1

open Paloma.ClaimHash in
/-- **every_wellTyped_claim_is_an_oracle_claim.** The claim-level histories below lose nothing: every
well-typed claim of a submittable type (C11) has the layout of an `OClaim` — nonce, remote height, the
type-specific fields, compass id. -/
theorem every_wellTyped_claim_is_an_oracle_claim (c : Claim) (hc : c.wellTyped = true) :
    ∃ oc : OClaim, oc.toClaim = c := by
  unfold Claim.wellTyped at hc
  obtain ⟨d, hd, hdc⟩ := List.any_eq_true.mp hc
  simp only [Bool.and_eq_true, beq_iff_eq] at hdc
  obtain ⟨hn, hs⟩ := hdc
  have hform := shapes_have_oracle_form
  rw [List.all_eq_true] at hform
  have hd' := hform d hd
  cases hk : shapeOf d with
  | none => simp [hk] at hs
  | some ks =>
    simp only [hk] at hs hd'
    split at hd'
    · rename_i rest heq
      simp only [Option.some.injEq] at heq
      subst heq
      simp only [beq_iff_eq] at hd'
      obtain ⟨ys, hys⟩ := List.getLast?_eq_some_iff.mp hd'
      subst hys
      obtain ⟨n, r1, h1, hs1⟩ := hasShape_cons_num hs
      obtain ⟨e, r2, h2, hs2⟩ := hasShape_cons_num hs1
      obtain ⟨mid, b, h3⟩ := hasShape_snoc_str ys r2 hs2
      refine ⟨{ ty := c.ty, nonce := n, eth := e, mid := mid, compass := b }, ?_⟩
      cases c
      simp only [OClaim.toClaim, OClaim.fields, Claim.mk.injEq, true_and]
      simp only at h1
      rw [h1, h2, h3]
    · simp at hd'

/-- **hash_identifies_claim_of_preimages** (`HashIdentifiesClaim` is DERIVED from C11, not assumed). Take any
history whose votes carry real claims — each an instance of a submittable claim type of the current source
(`Claim.wellTyped`, checked against the regenerated format table) — lowered to oracle ops by hashing the
pre-image (`Model/ClaimHash.lean`) and attaching what applying the claim does (`content`: any function of
type and hashed fields). ASSUMPTION (external, pointwise): the hash does not collide on the pre-images of
the claims that occur in THIS history (`NoCollisionAt`; no global injectivity). Then in the lowered history a
claim hash identifies the claim content: C11's `same_key_same_claim` makes two claims with one `(nonce,
hash)` the same claim, of the same type, with the same value in every hashed field. -/
theorem hash_identifies_claim_of_preimages (L : Lowering) (hist : List COp)
    (hwt : ∀ c ∈ claimsOf hist, c.toClaim.wellTyped = true)
    (hnc : ∀ c ∈ claimsOf hist, ∀ c' ∈ claimsOf hist, NoCollisionAt L c c') :
    HashIdentifiesClaim (hist.map L.op) := by
  intro v n h e ap am cp v' e' ap' am' cp' ⟨pre, post, he, _⟩ ⟨pre', post', he', _⟩
  obtain ⟨hpre, c, hpost, hh, _, _, _, k2, _, k4, k5, k6⟩ := lowered_vote_origin L hist pre post v n h e ap am cp he
  obtain ⟨hpre', c', hpost', hh', _, _, _, k2', _, k4', k5', k6'⟩ :=
    lowered_vote_origin L hist pre' post' v' n h e' ap' am' cp' he'
  have hc : c ∈ claimsOf hist := mem_claimsOf (v := v) (by rw [hh]; simp)
  have hc' : c' ∈ claimsOf hist := mem_claimsOf (v := v') (by rw [hh']; simp)
  have hkey : L.hash c = L.hash c' := by rw [← k2, ← k2']
  have := OClaim.toClaim_inj
    (Paloma.ClaimHash.same_key_same_claim L.H c.toClaim c'.toClaim (hwt c hc) (hwt c' hc') (hnc c hc c' hc') hkey)
  subst this
  exact ⟨by rw [k4, k4'], by rw [k5, k5'], by rw [k6, k6']⟩

/-- **honest_votes_counted_only_for_identical_claim** (C02's "have each voted for that identical claim" and
C11's second sentence, "a validator can therefore never get honest votes counted towards a claim whose
effect differs from what the honest validators saw", as one statement over whole histories). For every
history of votes for real claims (any validators, any order, competing claims of the same or of different
claim types at the same and at different nonces), tallies with any power tables, catch-ups, governance
overrides and chain activations: every claim that ever takes effect is a claim `c` that was submitted in
the history; what took effect is `content c`; and EVERY validator whose power was counted towards it has an
accepted vote op in the history for that very claim `c` — the same type and the same value of every hashed
field (nonce, remote height, token, amount, sender, receiver, batch nonce, buyer, originating contract,
deployment id). Only external assumption: pointwise collision freeness of the hash on the claims of the
history. -/
theorem honest_votes_counted_only_for_identical_claim (L : Lowering) (hist : List COp)
    (hwt : ∀ c ∈ claimsOf hist, c.toClaim.wellTyped = true)
    (hnc : ∀ c ∈ claimsOf hist, ∀ c' ∈ claimsOf hist, NoCollisionAt L c c') :
    ∀ o ∈ (run (hist.map L.op)).log, ∃ c ∈ claimsOf hist,
      o.nonce = c.nonce ∧ o.hash = L.hash c ∧ o.eth = c.eth ∧
      o.applicable = (L.content c).1 ∧ o.amount = (L.content c).2 ∧ o.compass = L.cc c.compass ∧
      ∀ v ∈ o.voters, ∃ hpre hpost, hist = hpre ++ COp.vote v c :: hpost ∧
        (vote (run (hpre.map L.op)) v c.nonce (L.hash c) c.eth (L.content c).1 (L.content c).2
          (L.cc c.compass)).2 = .ok := by
  intro o ho
  obtain ⟨pre, p, f, post, he, _, _, _, hvoted, hsub, _⟩ := effect_requires_quorum (hist.map L.op) o ho
  obtain ⟨pre2, v2, post2, he2, _⟩ := hsub
  have he2' : hist.map L.op = pre2 ++ Op.vote v2 o.nonce o.hash o.eth o.applicable o.amount o.compass ::
      (post2 ++ Op.tally p f :: post) := by rw [he, he2]; simp
  obtain ⟨hpre2, c, hpost2, hh2, _, _, k1, k2, k3, k4, k5, k6⟩ := lowered_vote_origin L hist _ _ _ _ _ _ _ _ _ he2'
  have hc : c ∈ claimsOf hist := mem_claimsOf (v := v2) (by rw [hh2]; simp)
  refine ⟨c, hc, k1, k2, k3, k4, k5, k6, ?_⟩
  intro v hv
  obtain ⟨pre1, ap, amt, cp, post1, he1, hok⟩ := hvoted v hv
  have he1' : hist.map L.op = pre1 ++ Op.vote v o.nonce o.hash o.eth ap amt cp :: (post1 ++ Op.tally p f :: post) := by
    rw [he, he1]; simp
  obtain ⟨hpre1, c1, hpost1, hh1, hp1, _, j1, j2, j3, j4, j5, j6⟩ := lowered_vote_origin L hist _ _ _ _ _ _ _ _ _ he1'
  have hc1 : c1 ∈ claimsOf hist := mem_claimsOf (v := v) (by rw [hh1]; simp)
  have hkey : L.hash c1 = L.hash c := by rw [← j2, ← k2]
  have := OClaim.toClaim_inj
    (Paloma.ClaimHash.same_key_same_claim L.H c1.toClaim c.toClaim (hwt c1 hc1) (hwt c hc) (hnc c1 hc1 c hc) hkey)
  subst this
  refine ⟨hpre1, hpost1, hh1, ?_⟩
  rw [hp1, ← j1, ← j2, ← j3, ← j4, ← j5, ← j6]
  exact hok

/-- **tally_without_quorum_is_noop** (the negative side of the quorum clause, for ANY state and ANY power
table). A whole end-of-block tally leaves the state untouched — cursor, heights, observed flags, minted
total, log — unless some stored, not yet observed attestation at exactly cursor + 1 has voters with more
than 66 % of the total AND a remote height not below the last observed one AND belongs to the current bridge
deployment (if one is recorded). Competing claims, claims at other nonces, claims of other deployments,
minorities, already observed claims and refused heights change nothing. -/
theorem tally_without_quorum_is_noop (s : St) (power : Nat → Nat) (total : Nat) (ef : EventFault)
    (h : ∀ a ∈ s.atts, Visible s a → a.nonce = s.lastObserved + 1 → a.observed = false →
      100 * (a.votes.map power).sum ≤ 66 * total ∨ a.eth < s.lastEth) :
    tally s power total ef = s := by
  refine tally_induct (fun s' => s' = s) s power total ef ?_ rfl
  intro s' a hs ha hvis hn
  subst hs
  rcases tryAtt_cases s' a power total ef with he | ⟨h1, h2, _, h4, _⟩
  · exact he
  · exfalso
    rcases h a ha hvis hn h1 with hq | hq
    · have := not_reaches_of_le power total a.votes hq
      rw [h2] at this; cases this
    · omega

/-- **state_change_requires_quorum** (step form of the quorum clause, any state). If an op changes the minted
total, the log, the last observed remote height or the cursor, it is either a governance override or a chain
activation (which change the cursor only) or a tally whose table gives some stored unobserved attestation of
the current deployment at cursor + 1 more than 66 % of the table's total. Votes and catch-ups never do. -/
theorem state_change_requires_quorum (s : St) (op : Op)
    (h : (apply s op).minted ≠ s.minted ∨ (apply s op).log ≠ s.log ∨ (apply s op).lastEth ≠ s.lastEth ∨
      (apply s op).lastObserved ≠ s.lastObserved) :
    ((∃ n, op = .override n) ∨ (∃ c, op = .activate c)) ∧ (apply s op).minted = s.minted ∧
      (apply s op).log = s.log ∧ (apply s op).lastEth = s.lastEth ∧ (apply s op).atts = s.atts ∨
    (∃ p f, op = .tally p f ∧ ∃ a ∈ s.atts, Visible s a ∧ a.nonce = s.lastObserved + 1 ∧ a.observed = false ∧
      s.lastEth ≤ a.eth ∧ 100 * (a.votes.map (powerOf p)).sum > 66 * totalOf p) := by
  cases op with
  | vote v n hh eth ap amt cp =>
    exfalso
    rcases vote_cases s v n hh eth ap amt cp with ⟨_, he⟩ | ⟨_, _, _, he⟩ <;>
      simp only [apply, he] at h <;> simp at h
  | tally p f =>
    right
    refine ⟨p, f, rfl, ?_⟩
    apply Classical.byContradiction
    intro hno
    have hnoop := tally_without_quorum_is_noop s (powerOf p) (totalOf p) (faultOf f) (by
      intro a ha hvis hn hobs
      by_cases hq : 100 * (a.votes.map (powerOf p)).sum ≤ 66 * totalOf p
      · exact Or.inl hq
      · by_cases he : a.eth < s.lastEth
        · exact Or.inr he
        · exact absurd ⟨a, ha, hvis, hn, hobs, by omega, by omega⟩ hno)
    simp only [apply, hnoop] at h
    simp at h
  | catchUp => exfalso; simp [apply, catchUp] at h
  | override n => left; exact ⟨Or.inl ⟨n, rfl⟩, rfl, rfl, rfl, rfl⟩
  | activate c => left; exact ⟨Or.inr ⟨c, rfl⟩, rfl, rfl, rfl, rfl⟩

/-- **epoch_is_number_of_resets / epochStart_is_last_reset / deployment_is_last_activation** (the ghosts
`epoch`, `epochStart` and the state field `compassId` are functions of the op history). After every history
the epoch counter is the number of reset ops (governance overrides and chain activations) in it, `epochStart`
is the value installed by the last of them (0 if there is none), so `epochStarts ops` lists the start of
every epoch up to the current one, and the deployment id on record is the argument of the last activation. -/
theorem epoch_is_number_of_resets (ops : List Op) :
    (run ops).epoch = (resetsOf ops).length ∧
    (epochStarts ops)[(run ops).epoch]? = some (run ops).epochStart ∧
    (epochStarts ops).getLast? = some (run ops).epochStart ∧
    (run ops).compassId = deploymentOf ops := by
  induction ops using rev_induction with
  | hnil => simp [run, St.init, resetsOf, epochStarts, deploymentOf]
  | hsnoc l op ih =>
    obtain ⟨ih1, ih2, ih3, ih4⟩ := ih
    have hst := apply_epoch (run l) op (run_inv l)
    rw [run_snoc]
    have hd : (apply (run l) op).compassId = deploymentOf (l ++ [op]) := by
      rw [hst.2.2, ih4]
      unfold deploymentOf
      rw [List.foldl_append]
      cases op <;> rfl
    cases hr : resetOf op with
    | none =>
      obtain ⟨h1, h2⟩ := hst.1 hr
      have hrs : resetsOf (l ++ [op]) = resetsOf l := by rw [resetsOf_snoc, hr]; simp
      refine ⟨by rw [h1, hrs, ih1], ?_, ?_, hd⟩
      · unfold epochStarts at ih2 ⊢; rw [h1, h2, hrs, ih2]
      · unfold epochStarts at ih3 ⊢; rw [h2, hrs, ih3]
    | some n =>
      obtain ⟨h1, h2, _, _⟩ := hst.2.1 n hr
      have hrs : resetsOf (l ++ [op]) = resetsOf l ++ [n] := by rw [resetsOf_snoc, hr]
      refine ⟨by rw [h1, hrs, ih1]; simp, ?_, ?_, hd⟩
      · unfold epochStarts
        rw [h1, h2, hrs, ih1]
        rw [show 0 :: (resetsOf l ++ [n]) = (0 :: resetsOf l) ++ [n] from rfl]
        rw [List.getElem?_append_right (by simp)]
        simp
      · unfold epochStarts
        rw [h2, hrs, show 0 :: (resetsOf l ++ [n]) = (0 :: resetsOf l) ++ [n] from rfl,
          List.getLast?_append]
        simp

/-- **log_epoch_tied_to_history.** The ghost fields `epoch` and `deployment` of a log entry are functions of
the history too: an entry appended by the tally after `pre` carries the number of reset ops in `pre` and the
deployment id of the last activation in `pre`; its claim is of that deployment unless none is recorded; and
no entry is of a later epoch than the current one. -/
theorem log_epoch_tied_to_history (ops : List Op) :
    (∀ o ∈ (run ops).log, ∃ pre p f post, ops = pre ++ Op.tally p f :: post ∧
      o ∉ (run pre).log ∧ o ∈ (run (pre ++ [Op.tally p f])).log ∧
      o.epoch = (resetsOf pre).length ∧ o.deployment = deploymentOf pre ∧
      (deploymentOf pre = 0 ∨ o.compass = deploymentOf pre)) ∧
    (∀ o ∈ (run ops).log, o.epoch ≤ (run ops).epoch) := by
  refine ⟨?_, (reachable_inv ops).epochLe⟩
  intro o ho
  obtain ⟨pre, p, f, post, he, hin, hD, a, ha, h0, h1, h2, _⟩ := log_provenance ops o ho
  obtain ⟨t1, _, _, t4⟩ := epoch_is_number_of_resets pre
  refine ⟨pre, p, f, post, he, ?_, hin, by rw [hD.1, t1], by rw [hD.2.1, t4], by rw [← t4]; exact hD.2.2⟩
  intro hmem
  obtain ⟨a', ha', k1, k2, k3, _⟩ := (reachable_inv pre).obsAtt o hmem
  have : a' = a := keys_unique (reachable_inv pre).keys ha' ha ⟨by omega, by omega⟩
  subst this
  rw [h0] at k3; cases k3

/-- **every_epoch_consecutive** ("between governance resets … at most one claim per event nonce takes effect
… and claims take effect in strictly consecutive nonce order", for EVERY interval between resets of the
history, not only the current one). For every epoch `e` of the history — `st` being the cursor value that
epoch started from, i.e. 0 for `e = 0` and the value installed by the `e`-th reset op otherwise — the nonces
of the claims that took effect in epoch `e`, in the order they took effect, are exactly
`st + 1, st + 2, …`: no gap, no repetition, no reordering. -/
theorem every_epoch_consecutive (ops : List Op) :
    ∀ e st, (epochStarts ops)[e]? = some st →
      ((run ops).obsOf e).map (·.nonce) = List.range' (st + 1) ((run ops).obsOf e).length := by
  induction ops using rev_induction with
  | hnil =>
    intro e st _
    simp [run, St.init, St.obsOf]
  | hsnoc l op ih =>
    intro e st hst
    have hi := run_inv l
    obtain ⟨t1, t2, _, _⟩ := epoch_is_number_of_resets l
    obtain ⟨t1', t2', _, _⟩ := epoch_is_number_of_resets (l ++ [op])
    obtain ⟨new, hl, hep⟩ := apply_log_epoch (run l) op hi
    have hlen : e < (epochStarts (l ++ [op])).length := by
      rcases Nat.lt_or_ge e (epochStarts (l ++ [op])).length with h | h
      · exact h
      · rw [List.getElem?_eq_none h] at hst; cases hst
    by_cases hcur : e = (run (l ++ [op])).epoch
    · -- the current epoch: the invariant of the new state
      subst hcur
      rw [t2'] at hst
      cases hst
      rw [obsOf_current]
      exact (run_inv (l ++ [op])).consec
    · -- a closed epoch: nothing was added to it, and its start is where it was
      have hlt : e < (run (l ++ [op])).epoch := by
        simp only [epochStarts, List.length_cons] at hlen
        omega
      have hle : e ≤ (run l).epoch := by
        rw [run_snoc] at hlt
        cases hr : resetOf op with
        | none => rw [((apply_epoch (run l) op hi).1 hr).1] at hlt; omega
        | some n => rw [((apply_epoch (run l) op hi).2.1 n hr).1] at hlt; omega
      have hst' : (epochStarts l)[e]? = some st := by
        have hpre : epochStarts (l ++ [op]) = epochStarts l ++ (match resetOf op with | some n => [n] | none => []) := by
          unfold epochStarts; rw [resetsOf_snoc]; rfl
        rw [hpre, List.getElem?_append_left (by simp only [epochStarts, List.length_cons]; omega)] at hst
        exact hst
      have hsame : (run (l ++ [op])).obsOf e = (run l).obsOf e := by
        rw [run_snoc]
        by_cases hee : e = (run l).epoch
        · -- `op` was a reset that closed epoch `e`: the log is unchanged
          cases hr : resetOf op with
          | none =>
            exfalso
            rw [run_snoc, ((apply_epoch (run l) op hi).1 hr).1] at hcur
            exact hcur hee
          | some n =>
            simp only [St.obsOf, ((apply_epoch (run l) op hi).2.1 n hr).2.2.2]
        · simp only [St.obsOf, hl, List.filter_append, filter_epoch_new hep hee, List.append_nil]
      rw [hsame]
      exact ih e st hst'

/-- **every_epoch_no_gap / one claim per nonce in every epoch.** For every epoch of the history, with start
value `st` and `k` observed claims: observed nonces strictly increase, every one of them lies in
`(st, st + k]`, and for every nonce in that range exactly one claim took effect in that epoch. -/
theorem every_epoch_no_gap (ops : List Op) :
    ∀ e st, (epochStarts ops)[e]? = some st →
      ((run ops).obsOf e).Pairwise (fun a b => a.nonce < b.nonce) ∧
      (∀ o ∈ (run ops).obsOf e, st < o.nonce ∧ o.nonce ≤ st + ((run ops).obsOf e).length) ∧
      (∀ n, st < n → n ≤ st + ((run ops).obsOf e).length →
        (((run ops).obsOf e).filter (fun o => o.nonce == n)).length = 1) :=
  fun e st hst => consecutive_facts _ st (every_epoch_consecutive ops e st hst)

/-- **competing_claims_exclusive_every_epoch** ("between governance resets … at most one claim per event
nonce takes effect"), for any two entries of the whole log: two claims that took effect in the same epoch
(between the same two resets) at the same nonce are one and the same observation. Across epochs the same
nonce can be observed again (that is what a reset is for), but never the same claim: see `log_matches_state`. -/
theorem competing_claims_exclusive_every_epoch (ops : List Op) (e₁ e₂ : Obs)
    (h₁ : e₁ ∈ (run ops).log) (h₂ : e₂ ∈ (run ops).log) (he : e₁.epoch = e₂.epoch) (hn : e₁.nonce = e₂.nonce) :
    e₁ = e₂ := by
  have hle := (reachable_inv ops).epochLe e₁ h₁
  obtain ⟨t1, _, _, _⟩ := epoch_is_number_of_resets ops
  have hlen : e₁.epoch < (epochStarts ops).length := by
    simp only [epochStarts, List.length_cons]; omega
  have hp := (every_epoch_no_gap ops e₁.epoch _ (List.getElem?_eq_getElem hlen)).1
  exact increasing_unique hp (List.mem_filter.mpr ⟨h₁, by simp⟩) (List.mem_filter.mpr ⟨h₂, by simp [he]⟩) hn

/-- **one_deployment_per_epoch** ("for each … bridge deployment"). The deployment id changes only through a
chain activation, which is a reset: all claims that took effect in one epoch took effect under the same
deployment id, and each of them is a claim of that deployment (or no deployment was on record). Hence the
per-epoch statements above are per-deployment statements: within one deployment epoch at most one claim per
nonce, consecutive nonces. -/
theorem one_deployment_per_epoch (ops : List Op) :
    (∀ o ∈ (run ops).log, ∀ o' ∈ (run ops).log, o.epoch = o'.epoch → o.deployment = o'.deployment) ∧
    (∀ o ∈ (run ops).log, o.deployment = 0 ∨ o.compass = o.deployment) ∧
    (∀ o ∈ (run ops).log, o.epoch = (run ops).epoch → o.deployment = (run ops).compassId) := by
  have h := log_epoch_tied_to_history ops
  refine ⟨?_, ?_, (reachable_inv ops).deploy⟩
  · induction ops using rev_induction with
    | hnil => intro o ho; simp [run, St.init] at ho
    | hsnoc l op ih =>
      have hi := run_inv l
      have ih' := ih (log_epoch_tied_to_history l)
      obtain ⟨new, hl, hq⟩ := apply_log (run l) op hi
      rw [run_snoc, hl]
      have hnew : ∀ o ∈ new, o.epoch = (run l).epoch ∧ o.deployment = (run l).compassId := by
        intro o ho
        obtain ⟨_, _, _, hD, _⟩ := hq o ho
        exact ⟨hD.1, hD.2.1⟩
      intro o ho o' ho' hee
      rcases List.mem_append.mp ho with ho | ho <;> rcases List.mem_append.mp ho' with ho' | ho'
      · exact ih' o ho o' ho' hee
      · rw [(hnew o' ho').2]
        exact hi.deploy o ho (by rw [hee, (hnew o' ho').1])
      · rw [(hnew o ho).2]
        exact (hi.deploy o' ho' (by rw [← hee, (hnew o ho).1])).symm
      · rw [(hnew o ho).2, (hnew o' ho').2]
  · intro o ho
    obtain ⟨pre, _, _, _, _, _, _, _, hd, hc⟩ := h.1 o ho
    rw [hd]; exact hc

/-- **between_resets_consecutive** (the same clause stated on the op history alone, with no ghost epoch: "for
every interval between governance resets"). Take ANY point of a history (`pre`) and ANY continuation `mid`
that contains no reset op (no governance override, no chain activation). Then what `mid` adds to the log of
effects is a block `new` whose nonces are exactly cursor + 1, cursor + 2, … counted from the cursor as it
stood after `pre`, in this order, and the cursor ends exactly `new.length` further: within the interval no
nonce is skipped, none takes effect twice, none out of order, and the cursor never moves without an effect. -/
theorem between_resets_consecutive (pre mid : List Op) (hmid : ∀ op ∈ mid, resetOf op = none) :
    ∃ new, (run (pre ++ mid)).log = (run pre).log ++ new ∧
      new.map (·.nonce) = List.range' ((run pre).lastObserved + 1) new.length ∧
      (run (pre ++ mid)).lastObserved = (run pre).lastObserved + new.length ∧
      (run (pre ++ mid)).epoch = (run pre).epoch ∧ (run (pre ++ mid)).compassId = (run pre).compassId := by
  induction mid using rev_induction with
  | hnil => exact ⟨[], by simp, by simp, by simp, by simp, by simp⟩
  | hsnoc m op ih =>
    obtain ⟨new, h1, h2, h3, h4, h5⟩ := ih (fun o ho => hmid o (by simp [ho]))
    have hr : resetOf op = none := hmid op (by simp)
    have hi := run_inv (pre ++ m)
    obtain ⟨more, k1, k2, k3⟩ := apply_consecutive (run (pre ++ m)) op hi hr
    have hep := (apply_epoch (run (pre ++ m)) op hi).1 hr
    have hcp := (apply_epoch (run (pre ++ m)) op hi).2.2
    rw [← List.append_assoc, run_snoc]
    refine ⟨new ++ more, by rw [k1, h1, List.append_assoc], ?_, by rw [k3, h3, List.length_append]; omega,
      by rw [hep.1, h4], ?_⟩
    · rw [List.map_append, List.length_append, ← List.range'_append_1, h2, k2, h3]
      congr 2
      omega
    · rw [hcp, ← h5]
      cases op <;> first | rfl | (simp [resetOf] at hr)

/-- **chains_independent** ("for each remote chain"). The oracle state of chain `c` after any multi-chain
history — votes, overrides and activations addressed to any chains, end-blocks that tally every active chain
with the block's power table — is the single-chain `run` of the ops that concern `c`. Every theorem of this
file therefore holds for each chain separately (quorum, one claim per nonce and consecutive order per epoch
and deployment of THAT chain, exactly-once application), whatever happens on the other chains;
`every_chain_every_epoch_consecutive` below is one instance spelled out. -/
theorem chains_independent (ops : List MOp) (c : Nat) : runM ops c = run (ops.flatMap (projOp c)) := by
  induction ops using rev_induction with
  | hnil => rfl
  | hsnoc l op ih =>
    have hm : runM (l ++ [op]) = applyM (runM l) op := by simp [runM, List.foldl_append]
    rw [hm, List.flatMap_append, run_append, ← ih]
    cases op with
    | on c' o =>
      by_cases h : c = c' <;> simp [applyM, projOp, h]
    | endBlock active p f cu =>
      by_cases h : c ∈ active <;> simp [applyM, projOp, h]

/-- **every_chain_every_epoch_consecutive.** `every_epoch_consecutive` for each chain of a multi-chain
history: for every chain `c` and every epoch of that chain (between two resets addressed to `c`), the nonces
of the claims that took effect on `c` are consecutive from that epoch's start. -/
theorem every_chain_every_epoch_consecutive (ops : List MOp) (c : Nat) :
    ∀ e st, (epochStarts (ops.flatMap (projOp c)))[e]? = some st →
      ((runM ops c).obsOf e).map (·.nonce) = List.range' (st + 1) ((runM ops c).obsOf e).length := by
  rw [chains_independent]
  exact every_epoch_consecutive _

/-- **cursor_consecutive** (the current epoch; the instance of `every_epoch_consecutive` the harness monitors).
Since the last reset (which installed `epochStart`, the last element of `epochStarts ops`) the
cursor has moved only together with an observation and only by one: it stands at `epochStart` + the number
of observations, and the observed nonces are exactly `epochStart+1, epochStart+2, …` in this order — no
gap, no repetition. Each observation was made when the cursor stood at its nonce − 1. The applied effects
are a sub-sequence of the observations (each applied at most once, in nonce order). -/
theorem cursor_consecutive (ops : List Op) :
    (run ops).lastObserved = (run ops).epochStart + (run ops).observations.length ∧
    (run ops).observations.map (·.nonce) =
      List.range' ((run ops).epochStart + 1) (run ops).observations.length ∧
    (∀ o ∈ (run ops).log, o.nonce = o.cursorBefore + 1) ∧
    (run ops).effects.Sublist (run ops).observations := by
  have hi := reachable_inv ops
  exact ⟨hi.cursor, hi.consec, hi.before, List.filter_sublist⟩

/-- observed nonces of one epoch strictly increase -/
theorem observations_increasing (ops : List Op) :
    (run ops).observations.Pairwise (fun a b => a.nonce < b.nonce) :=
  (consecutive_facts _ _ (reachable_inv ops).consec).1

/-- **no_nonce_gap.** The current epoch in the form the harness monitors: every observation of the current
epoch lies in `(epochStart, cursor]`, and for every nonce in that range exactly one claim was observed. -/
theorem no_nonce_gap (ops : List Op) :
    (∀ o ∈ (run ops).observations, (run ops).epochStart < o.nonce ∧ o.nonce ≤ (run ops).lastObserved) ∧
    (∀ n, (run ops).epochStart < n → n ≤ (run ops).lastObserved →
      ((run ops).observations.filter (fun o => o.nonce == n)).length = 1) := by
  have hi := reachable_inv ops
  have hc := hi.cursor
  obtain ⟨_, h2, h3⟩ := consecutive_facts _ _ hi.consec
  exact ⟨fun o ho => by have := h2 o ho; omega, fun n h1 h2' => h3 n h1 (by omega)⟩

/-- **effects_in_order** (the former statement, kept): every observation happened at cursor + 1, observed
nonces strictly increase, the applied effects are a sub-sequence of the observations, in nonce order. -/
theorem effects_in_order (ops : List Op) :
    (∀ e ∈ (run ops).log, e.nonce = e.cursorBefore + 1) ∧
    (run ops).observations.Pairwise (fun a b => a.nonce < b.nonce) ∧
    (run ops).effects.Sublist (run ops).observations ∧
    (run ops).effects.Pairwise (fun a b => a.nonce < b.nonce) :=
  ⟨(cursor_consecutive ops).2.2.1, observations_increasing ops, (cursor_consecutive ops).2.2.2,
    (observations_increasing ops).sublist (cursor_consecutive ops).2.2.2⟩

/-- **competing_claims_exclusive** (current epoch; see `competing_claims_exclusive_every_epoch` for all).
Two observations of one epoch with the same nonce are the same observation: competing claims at one nonce
can never both take effect. -/
theorem competing_claims_exclusive (ops : List Op) (e₁ e₂ : Obs)
    (h₁ : e₁ ∈ (run ops).observations) (h₂ : e₂ ∈ (run ops).observations) (hn : e₁.nonce = e₂.nonce) :
    e₁ = e₂ :=
  increasing_unique (observations_increasing ops) h₁ h₂ hn

/-- **cursor_step.** How a single op of a history moves the cursor: votes and catch-ups not at all, an
override to its argument and an activation to 0 (starting a new epoch with no observations; the activation
also installs the deployment id), a tally by exactly the number of observations it appends to the current
epoch, each of them with quorum under that tally's table and of the current deployment. -/
theorem cursor_step (ops : List Op) (op : Op) :
    match op with
    | .vote .. => (apply (run ops) op).lastObserved = (run ops).lastObserved
    | .catchUp => (apply (run ops) op).lastObserved = (run ops).lastObserved
    | .override n => (apply (run ops) op).lastObserved = n ∧ (apply (run ops) op).epochStart = n ∧
        (apply (run ops) op).observations = [] ∧ (apply (run ops) op).compassId = (run ops).compassId
    | .activate c => (apply (run ops) op).lastObserved = 0 ∧ (apply (run ops) op).epochStart = 0 ∧
        (apply (run ops) op).observations = [] ∧ (apply (run ops) op).compassId = c
    | .tally p _ => ∃ new, (apply (run ops) op).observations = (run ops).observations ++ new ∧
        (apply (run ops) op).log = (run ops).log ++ new ∧
        (apply (run ops) op).lastObserved = (run ops).lastObserved + new.length ∧
        ∀ o ∈ new, DeployObs (run ops) o ∧ QuorumObs (run ops) (powerOf p) (totalOf p) o := by
  have hi := reachable_inv ops
  cases op with
  | vote v n h eth ap amt cp =>
    rcases vote_cases (run ops) v n h eth ap amt cp with ⟨_, he⟩ | ⟨_, _, _, he⟩ <;> simp [apply, he]
  | catchUp => simp [apply, catchUp]
  | override n => exact ⟨rfl, rfl, observations_override _ n hi, rfl⟩
  | activate c => exact ⟨rfl, rfl, observations_activate _ c hi, rfl⟩
  | tally p f =>
    obtain ⟨new, hl, hep, hes, _, _, hq⟩ := tally_log (run ops) (powerOf p) (totalOf p) (faultOf f) hi
    have hi' := tally_inv (run ops) (powerOf p) (totalOf p) (faultOf f) hi
    have hobs : (tally (run ops) (powerOf p) (totalOf p) (faultOf f)).observations =
        (run ops).observations ++ new := by
      simp only [St.observations, hl, hep, List.filter_append]
      congr 1
      exact List.filter_eq_self.mpr (fun o ho => by simp [(hq o ho).1.1])
    refine ⟨new, hobs, hl, ?_, hq⟩
    have h1 := hi'.cursor
    have h2 := hi.cursor
    rw [hobs, hes] at h1
    simp only [apply, List.length_append] at h1 ⊢
    omega

/-- **minted_eq_sum_log.** The observable effect is tied to the ghost log: the minted total is the sum of
the amounts of the logged observations whose claim the handler could apply. -/
theorem minted_eq_sum_log (ops : List Op) : (run ops).minted = ((run ops).log.map Obs.mint).sum :=
  (reachable_inv ops).minted

/-- **log_matches_state** ("its effect is applied at most once — exactly once whenever it can be applied at
all"), over whole histories and ACROSS governance resets. For every stored attestation the log has exactly
one entry with its `(nonce, hash)` if its observed flag is set and none otherwise, and that entry minted the
attestation's amount if the handler can apply the claim and nothing otherwise. With `minted_eq_sum_log`:
an observed applicable claim is counted in the minted total exactly once, a claim that is not observed or
not applicable never. -/
theorem log_matches_state (ops : List Op) :
    ∀ a ∈ (run ops).atts,
      (((run ops).log.filter (fun o => o.nonce == a.nonce && o.hash == a.hash)).map Obs.mint =
        if a.observed then [if a.applicable then a.amount else 0] else []) ∧
      (∀ o ∈ (run ops).log, o.nonce = a.nonce → o.hash = a.hash →
        a.observed = true ∧ o.applicable = a.applicable ∧ o.amount = a.amount ∧ o.eth = a.eth ∧
        o.compass = a.compass) := by
  intro a ha
  have hi := reachable_inv ops
  have hsame : ∀ o ∈ (run ops).log, o.nonce = a.nonce → o.hash = a.hash →
      a.observed = true ∧ o.applicable = a.applicable ∧ o.amount = a.amount ∧ o.eth = a.eth ∧
      o.compass = a.compass := by
    intro o ho h1 h2
    obtain ⟨a', ha', k1, k2, k3, k4, k5, k6, k7⟩ := hi.obsAtt o ho
    have : a' = a := keys_unique hi.keys ha' ha ⟨by omega, by omega⟩
    subst this
    exact ⟨k3, k4.symm, k5.symm, k6.symm, k7.symm⟩
  refine ⟨?_, hsame⟩
  have hle := filter_length_le_one (fun o : Obs => o.nonce == a.nonce && o.hash == a.hash) (run ops).log
    (hi.uniq.imp (by
      intro x y hxy hp
      simp only [Bool.and_eq_true, beq_iff_eq] at hp
      exact hxy ⟨by omega, by omega⟩))
  cases hobs : a.observed
  · simp only [Bool.false_eq_true, if_false, List.map_eq_nil_iff, List.filter_eq_nil_iff]
    intro o ho hk
    simp only [Bool.and_eq_true, beq_iff_eq] at hk
    have := (hsame o ho hk.1 hk.2).1
    rw [hobs] at this; cases this
  · obtain ⟨o, ho, h1, h2⟩ := hi.attObs a ha hobs
    have hmem : o ∈ (run ops).log.filter (fun o => o.nonce == a.nonce && o.hash == a.hash) :=
      List.mem_filter.mpr ⟨ho, by simp [h1, h2]⟩
    have hlen := List.length_pos_of_mem hmem
    match hL : (run ops).log.filter (fun o => o.nonce == a.nonce && o.hash == a.hash) with
    | [] => rw [hL] at hlen; simp at hlen
    | [x] =>
      have hx : x ∈ (run ops).log.filter (fun o => o.nonce == a.nonce && o.hash == a.hash) := by simp [hL]
      have hx' := List.mem_filter.mp hx
      have hk := hx'.2
      simp only [Bool.and_eq_true, beq_iff_eq] at hk
      obtain ⟨_, k1, k2, _⟩ := hsame x hx'.1 hk.1 hk.2
      rw [hL]
      simp [Obs.mint, k1, k2]
    | x :: y :: rest => rw [hL] at hle; simp at hle

/-- **log_entries_are_observed_attestations.** Conversely every entry of the log is the record of a stored
attestation whose observed flag is set and carries that attestation's claim. (The model never deletes
attestations; pruning 1000 nonces behind the cursor is outside the modelled histories.) -/
theorem log_entries_are_observed_attestations (ops : List Op) :
    ∀ o ∈ (run ops).log, ∃ a ∈ (run ops).atts, a.nonce = o.nonce ∧ a.hash = o.hash ∧ a.observed = true ∧
      a.applicable = o.applicable ∧ a.amount = o.amount ∧ a.eth = o.eth ∧ a.compass = o.compass :=
  (reachable_inv ops).obsAtt

/-- **observed_requires_quorum.** The quorum clause stated on the executable state alone (no ghost): if after
a history an attestation is flagged observed, then the history contains a tally op before which that
attestation was stored unobserved with pairwise distinct voters whose power under that tally's table
exceeded 66 % of the table's total, each of whom had cast an accepted vote for exactly this claim (nonce,
hash, remote height) earlier in the history; and the attestation passed the deployment filter at that point. -/
theorem observed_requires_quorum (ops : List Op) :
    ∀ a ∈ (run ops).atts, a.observed = true →
      ∃ pre p f post, ops = pre ++ Op.tally p f :: post ∧
        ∃ a0 ∈ (run pre).atts, a0.nonce = a.nonce ∧ a0.hash = a.hash ∧ a0.eth = a.eth ∧ a0.observed = false ∧
          a0.votes.Nodup ∧ ((run pre).compassId = 0 ∨ a.compass = (run pre).compassId) ∧
          100 * (a0.votes.map (powerOf p)).sum > 66 * totalOf p ∧
          (a0.votes.map (powerOf p)).sum ≤ totalOf p ∧
          ∀ v ∈ a0.votes, VotedIn pre v a.nonce a.hash a.eth := by
  intro a ha hobs
  have hi := reachable_inv ops
  obtain ⟨o, ho, h1, h2⟩ := hi.attObs a ha hobs
  obtain ⟨_, _, _, h6, h7⟩ := (log_matches_state ops a ha).2 o ho h1 h2
  obtain ⟨pre, p, f, post, he, _, hD, a0, ha0, k0, k1, k2, k3, _, _, _, k7, k8⟩ := log_provenance ops o ho
  refine ⟨pre, p, f, post, he, a0, ha0, by omega, by omega, by omega, k0, k7, h7 ▸ hD.2.2, k8,
    voters_power_le_total _ k7 p, ?_⟩
  intro v hv
  have := votes_were_cast pre a0 ha0 v hv
  rw [show a0.nonce = a.nonce by omega, show a0.hash = a.hash by omega, show a0.eth = a.eth by omega] at this
  exact this

/-- **observed_heights_never_roll_back.** The remote heights of the observed claims never decrease, and the
stored last height bounds them all — the guard `TryAttestation` checks before anything is written. -/
theorem observed_heights_never_roll_back (ops : List Op) :
    (run ops).log.Pairwise (fun o o' => o.eth ≤ o'.eth) ∧ ∀ o ∈ (run ops).log, o.eth ≤ (run ops).lastEth :=
  ⟨(reachable_inv ops).ethMono, (reachable_inv ops).ethLe⟩

/-- **observed_has_quorum.** `TryAttestation` marks an attestation observed only if the power
(as read at this very tally) of its voters exceeds 66 % of the total; with `votes_nodup` every
validator's power is counted at most once in that sum. -/
theorem observed_has_quorum (s : St) (a : Att) (power : Nat → Nat) (total : Nat) (ef : EventFault)
    (h : (tryAtt s a power total ef).2 = .observedOk ∨ (tryAtt s a power total ef).2 = .eventFailed) :
    100 * (a.votes.map power).sum > 66 * total ∧ a.nonce = s.lastObserved + 1 ∧ a.observed = false ∧
    s.lastEth ≤ a.eth ∧ (tryAtt s a power total ef).1 = observe s a := by
  unfold tryAtt at h ⊢
  split at h
  · simp at h
  · rename_i hobs
    split at h
    · simp at h
    · rename_i hr
      split at h
      · simp at h
      · rename_i hn
        split at h
        · simp at h
        · rename_i he
          have hr' : reaches power (requiredPower total) a.votes 0 = true := by simpa using hr
          simp only [hobs, hr, hn, he, if_false]
          exact ⟨reaches_quorum power total a.votes hr', by simpa using hn, by simp, by omega, rfl⟩

/-- **rejected_try_is_noop.** Every other outcome of `TryAttestation` — already observed, not enough power,
out of order, remote height below the last observed one — leaves the state exactly as it was. In
particular a refused height no longer consumes the nonce. -/
theorem rejected_try_is_noop (s : St) (a : Att) (power : Nat → Nat) (total : Nat) (ef : EventFault)
    (h : (tryAtt s a power total ef).2 = .nothing ∨ (tryAtt s a power total ef).2 = .abort) :
    (tryAtt s a power total ef).1 = s := by
  unfold tryAtt at h ⊢
  by_cases h1 : a.observed = true
  · simp [h1]
  · by_cases h2 : (!reaches power (requiredPower total) a.votes 0) = true
    · simp [h1, h2]
    · by_cases h3 : a.nonce ≠ s.lastObserved + 1
      · simp [h1, h2, h3]
      · by_cases h4 : s.lastEth > a.eth
        · simp [h1, h2, h3, h4]
        · exfalso
          simp only [h1, h2, h3, h4, if_false] at h
          cases hf : ef a.nonce a.hash <;> simp [hf] at h

/-- the outcome of `TryAttestation` is `abort` with the state untouched when the claim's remote height is
below the last observed one (the branch repaired by 5e19ceda) -/
theorem refused_height_is_noop (s : St) (a : Att) (power : Nat → Nat) (total : Nat) (ef : EventFault)
    (h : a.eth < s.lastEth) :
    (tryAtt s a power total ef).1 = s ∧ (tryAtt s a power total ef).2 ≠ .observedOk ∧
    (tryAtt s a power total ef).2 ≠ .eventFailed := by
  have h4 : s.lastEth > a.eth := h
  unfold tryAtt
  by_cases h1 : a.observed = true
  · simp [h1]
  · by_cases h2 : (!reaches power (requiredPower total) a.votes 0) = true
    · simp [h1, h2]
    · by_cases h3 : a.nonce ≠ s.lastObserved + 1
      · simp [h1, h2, h3]
      · simp [h1, h2, h3, h4]

/-- **no_quorum_no_effect.** Without a voter prefix above the threshold nothing changes. -/
theorem no_quorum_no_effect (s : St) (a : Att) (power : Nat → Nat) (total : Nat) (ef : EventFault)
    (h : 100 * (a.votes.map power).sum ≤ 66 * total) :
    (tryAtt s a power total ef).1 = s := by
  rcases tryAtt_cases s a power total ef with he | ⟨_, h2, _⟩
  · exact he
  · have := not_reaches_of_le power total a.votes h
    rw [h2] at this; cases this

/-- **applied_exactly_once_if_applicable.** When an attestation is observed its effect is applied
in that same step exactly when the handler can apply it; the cursor advances either way. -/
theorem applied_exactly_once_if_applicable (s : St) (a : Att) :
    (observe s a).lastObserved = a.nonce ∧
    (observe s a).observations = s.observations ++ [mkObs s a] ∧
    (a.applicable = true →
      (observe s a).effects = s.effects ++ [mkObs s a] ∧ (observe s a).minted = s.minted + a.amount) ∧
    (a.applicable = false →
      (observe s a).effects = s.effects ∧ (observe s a).minted = s.minted) := by
  refine ⟨rfl, observations_observe s a, ?_, ?_⟩
  · intro hap
    refine ⟨?_, by simp [observe, hap]⟩
    unfold St.effects
    rw [observations_observe, List.filter_append]
    simp [mkObs, hap]
  · intro hap
    refine ⟨?_, by simp [observe, hap]⟩
    unfold St.effects
    rw [observations_observe, List.filter_append]
    simp [mkObs, hap]

/-- **event_failure_loses_only_the_event.** Whether or not the observation event of an attestation
can be emitted (the chain-info lookup behind it may fail), the state `TryAttestation` leaves is the
same: the claim is marked observed, the cursor moved and the effect applied before the event is
attempted. Only the result differs (`eventFailed` stops the rest of this chain's tally). -/
theorem event_failure_loses_only_the_event (s : St) (a : Att) (power : Nat → Nat) (total : Nat) (ef : EventFault) :
    (tryAtt s a power total ef).1 = (tryAtt s a power total).1 ∧
    ((tryAtt s a power total ef).2 = .eventFailed → (tryAtt s a power total).2 = .observedOk) ∧
    ((tryAtt s a power total ef).2 ≠ .eventFailed → (tryAtt s a power total ef).2 = (tryAtt s a power total).2) := by
  unfold tryAtt
  split
  · simp
  · split
    · simp
    · split
      · simp
      · split
        · simp
        · simp only [noFault, Bool.false_eq_true, if_false, true_and]
          split <;> simp

/-- **applied_exactly_once_under_event_failure.** The clause "exactly once whenever it can be applied
at all" also holds for an observation whose event fails: same quorum, same cursor step, same effect. -/
theorem applied_exactly_once_under_event_failure (s : St) (a : Att) (power : Nat → Nat) (total : Nat) (ef : EventFault)
    (h : (tryAtt s a power total ef).2 = .eventFailed) :
    100 * (a.votes.map power).sum > 66 * total ∧ a.nonce = s.lastObserved + 1 ∧
    (tryAtt s a power total ef).1.lastObserved = a.nonce ∧
    (a.applicable = true → (tryAtt s a power total ef).1.minted = s.minted + a.amount) ∧
    (a.applicable = false → (tryAtt s a power total ef).1.minted = s.minted) := by
  obtain ⟨q, hn, _, _, he⟩ := observed_has_quorum s a power total ef (Or.inr h)
  rw [he]
  exact ⟨q, hn, rfl, fun hp => by simp [observe, hp], fun hp => by simp [observe, hp]⟩

/-- **threshold_as_in_source.** The constants `tryAtt` uses (`requiredPower`, built from
`votesPowerThreshold` and `powerDivisor`, compared strictly) ARE the ones in the current source:
`AttestationVotesPowerThreshold`, divisor 100, comparator `GT` (regenerated by the extractor on every
run), and they mean "more than 66 %". -/
theorem threshold_as_in_source :
    votesPowerThreshold = Paloma.Gen.Consts.attestationVotesPowerThreshold ∧
    powerDivisor = Paloma.Gen.Consts.tryAttestationDivisor ∧
    Paloma.Gen.Consts.tryAttestationComparator = "GT" ∧
    Paloma.Gen.Consts.updateValidatorNoncesPeriod = 50 ∧
    (∀ total, requiredPower total =
      Paloma.Gen.Consts.attestationVotesPowerThreshold * total / Paloma.Gen.Consts.tryAttestationDivisor) ∧
    (∀ (power : Nat → Nat) (total : Nat) (votes : List Nat),
      reaches power (requiredPower total) votes 0 = true → 100 * (votes.map power).sum > 66 * total) :=
  ⟨by decide, by decide, by decide, by decide, fun _ => rfl, reaches_quorum⟩

/-- **vote_requires_next_nonce.** A validator's vote is accepted only for exactly the nonce
after its last one, and only with the remote height the stored claim has; a rejected vote changes nothing. -/
theorem vote_requires_next_nonce (s : St) (v n h eth : Nat) (ap : Bool) (amt cp : Nat) :
    ((vote s v n h eth ap amt cp).2 = .ok → n = lastNonceOf s v + 1 ∧ (attFor s n h eth ap amt cp).eth = eth) ∧
    ((vote s v n h eth ap amt cp).2 = .rejected → (vote s v n h eth ap amt cp).1 = s) := by
  rcases vote_cases s v n h eth ap amt cp with ⟨hr, he⟩ | ⟨hok, hn, heth, _⟩
  · exact ⟨fun hok => (by rw [hr] at hok; cases hok), fun _ => he⟩
  · exact ⟨fun _ => ⟨hn, heth⟩, fun hr => (by rw [hok] at hr; cases hr)⟩

/-! ### non-vacuity (all through `run` from the initial state) -/

/-- validator 1 votes, the nonce is overridden, it votes again — counted once; validator 2 joins; 70 of 100 -/
def demo : List Op :=
  [ .vote 1 1 77 100 true 5 0, .override 0, .vote 1 1 77 100 true 5 0, .vote 2 1 77 100 true 5 0,
    .tally [(1, 40), (2, 30), (3, 30)] [] ]

example : ((run demo).atts.map (·.votes)) = [[1, 2]] ∧ (run demo).lastObserved = 1 ∧
    (run demo).minted = 5 ∧ (run demo).effects.length = 1 ∧ (run demo).log.map (·.voters) = [[1, 2]] ∧
    (run demo).epochStart = 0 ∧ (run demo).epoch = 1 ∧ epochStarts demo = [0, 0] ∧
    (run demo).observations.map (·.nonce) = [1] := by decide
/-- a minority (40 of 100), however often it votes, moves nothing -/
example : (run [.vote 1 1 77 100 true 5 0, .override 0, .vote 1 1 77 100 true 5 0,
    .tally [(1, 40), (2, 30), (3, 30)] []]).lastObserved = 0 := by decide
/-- exactly 66 % is not enough, 67 % is -/
example : (run [.vote 1 1 77 100 true 5 0, .tally [(1, 66), (2, 34)] []]).lastObserved = 0 ∧
    (run [.vote 1 1 77 100 true 5 0, .tally [(1, 67), (2, 33)] []]).lastObserved = 1 := by decide
/-- power is read at the tally: the same votes fail under one table and succeed under the next -/
example : (run [.vote 1 1 77 100 true 5 0, .tally [(1, 10), (2, 90)] [], .tally [(1, 90), (2, 10)] []]).log.map
    (·.voters) = [[1]] := by decide
/-- two claims reach quorum in one block; the event of the first cannot be emitted: it is applied, the second waits -/
example : (run [.vote 1 1 77 100 true 5 0, .vote 2 1 77 100 true 5 0, .vote 1 2 88 101 true 6 0, .vote 2 2 88 101 true 6 0,
    .tally [(1, 40), (2, 30), (3, 30)] [(1, 77)]]).minted = 5 ∧
  (run [.vote 1 1 77 100 true 5 0, .vote 2 1 77 100 true 5 0, .vote 1 2 88 101 true 6 0, .vote 2 2 88 101 true 6 0,
    .tally [(1, 40), (2, 30), (3, 30)] []]).minted = 11 := by decide
/-- competing claims at one nonce: only one is observed; a claim the handler cannot apply is observed
(the cursor moves) without an effect -/
example : (run [.vote 1 1 77 100 false 5 0, .vote 2 1 77 100 false 5 0, .vote 3 1 78 100 true 9 0,
    .tally [(1, 40), (2, 30), (3, 30)] []]).observations.map (·.hash) = [77] ∧
  (run [.vote 1 1 77 100 false 5 0, .vote 2 1 77 100 false 5 0, .vote 3 1 78 100 true 9 0,
    .tally [(1, 40), (2, 30), (3, 30)] []]).effects = [] ∧
  (run [.vote 1 1 77 100 false 5 0, .vote 2 1 77 100 false 5 0, .vote 3 1 78 100 true 9 0,
    .tally [(1, 40), (2, 30), (3, 30)] []]).minted = 0 := by decide

/-- A claim with quorum whose remote height (50) is below the last observed one (110): refused, and the
oracle stays where it was — cursor 1, nothing observed or minted for nonce 2, and nonce 3 has to wait.
Before 5e19ceda (`setLastObservedSkywayNonce` ran before `SetLastObservedEthereumBlockHeight`) the second
tally of this very history left the cursor at 2 with nonce 2 unobserved, and the third tally observed
nonce 3: effects at nonces 1, 3 — the full clause "strictly consecutive" was false (reproduced on the
real keeper; recorded as `fixed` in known_findings.json; monitored by `no_nonce_gap` in the harness). No
Lean statement is made about that older tree: the model mirrors the current one. -/
def refusedHeight : List Op :=
  [ .vote 1 1 77 110 true 5 0, .vote 2 1 77 110 true 5 0, .tally [(1, 40), (2, 30), (3, 30)] [],
    .vote 1 2 88 50 true 6 0, .vote 2 2 88 50 true 6 0, .tally [(1, 40), (2, 30), (3, 30)] [],
    .vote 1 3 99 130 true 7 0, .vote 2 3 99 130 true 7 0, .tally [(1, 40), (2, 30), (3, 30)] [] ]

example : (run refusedHeight).lastObserved = 1 ∧ (run refusedHeight).lastEth = 110 ∧
    (run refusedHeight).observations.map (·.nonce) = [1] ∧ (run refusedHeight).minted = 5 ∧
    (run refusedHeight).atts.map (fun a => (a.nonce, a.observed)) = [(1, true), (2, false), (3, false)] := by decide

/-- two epochs: observations 1, 2, a reset to 5, observations 6, 7 (nonce 6 by a non-applicable claim);
the log keeps both epochs; `every_epoch_consecutive` speaks about both: epoch 0 started at 0 and has the
nonces 1, 2; epoch 1 started at 5 (the override of the history) and has 6, 7 -/
def twoEpochs : List Op :=
  [ .vote 1 1 11 100 true 5 0, .vote 2 1 11 100 true 5 0, .vote 1 2 12 101 true 6 0, .vote 2 2 12 101 true 6 0,
    .tally [(1, 40), (2, 30), (3, 30)] [], .override 5,
    .vote 1 6 16 105 false 7 0, .vote 2 6 16 105 false 7 0, .vote 1 7 17 106 true 8 0, .vote 2 7 17 106 true 8 0,
    .tally [(1, 40), (2, 30), (3, 30)] [] ]

example : (run twoEpochs).log.map (·.nonce) = [1, 2, 6, 7] ∧ (run twoEpochs).observations.map (·.nonce) = [6, 7] ∧
    (run twoEpochs).effects.map (·.nonce) = [7] ∧ (run twoEpochs).epochStart = 5 ∧
    (run twoEpochs).lastObserved = 7 ∧ (run twoEpochs).minted = 19 ∧
    epochStarts twoEpochs = [0, 5] ∧ (run twoEpochs).epoch = 1 ∧
    ((run twoEpochs).obsOf 0).map (·.nonce) = [1, 2] ∧ ((run twoEpochs).obsOf 1).map (·.nonce) = [6, 7] := by decide

/-- the same nonce takes effect in two epochs (a reset BACK to 0), with two different claims: allowed across a
reset, excluded within an epoch (`competing_claims_exclusive_every_epoch`); log `(epoch, nonce, hash)` -/
example : (run [.vote 1 1 11 100 true 5 0, .vote 2 1 11 100 true 5 0, .tally [(1, 40), (2, 30), (3, 30)] [],
    .override 0, .vote 1 1 10 100 true 4 0, .vote 2 1 10 100 true 4 0,
    .tally [(1, 40), (2, 30), (3, 30)] []]).log.map (fun o => (o.epoch, o.nonce, o.hash)) = [(0, 1, 11), (1, 1, 10)] := by
  decide

/-- bridge deployments: the chain is activated with compass id 1; at nonce 1 a claim of deployment 1 (hash 21)
and a claim of deployment 2 (hash 22, more power behind it!) compete: only the claim of the current deployment
is tallied. After the re-deployment (activation with id 2: cursor back to 0, a new epoch) the validators vote
again; now the deployment-2 claim takes effect at nonce 1 and the old one is out of the mapping. Log entries
as `(epoch, deployment, compass, nonce, hash)`. -/
def twoDeployments : List Op :=
  [ .activate 1,
    .vote 1 1 21 100 true 5 1, .vote 2 1 22 100 true 6 2, .vote 3 1 22 100 true 6 2,
    .tally [(1, 10), (2, 45), (3, 45)] [],          -- 90 % behind the claim of deployment 2: not tallied
    .vote 2 2 23 101 true 7 1,                       -- validators 2, 3 move on
    .tally [(1, 70), (2, 15), (3, 15)] [],          -- 70 % behind the claim of deployment 1: observed
    .activate 2,
    .vote 2 1 22 100 true 6 2, .vote 3 1 22 100 true 6 2,
    .tally [(1, 10), (2, 45), (3, 45)] [] ]

example : (run twoDeployments).log.map (fun o => (o.epoch, o.deployment, o.compass, o.nonce, o.hash)) =
      [(1, 1, 1, 1, 21), (2, 2, 2, 1, 22)] ∧
    (run twoDeployments).compassId = 2 ∧ deploymentOf twoDeployments = 2 ∧ epochStarts twoDeployments = [0, 0, 0] ∧
    (run twoDeployments).minted = 11 ∧
    (run (twoDeployments.take 5)).lastObserved = 0 := by decide

/-- the periodic validator-nonce catch-up in a history: validator 3 never voted for nonces 1 and 2 (its
record would stay at 0 and its vote for nonce 3 be refused as non-contiguous); after the catch-up at the end
of the block its record is the cursor and the vote for nonce 3 is accepted — and counted once -/
def withCatchUp : List Op :=
  [ .vote 3 1 30 100 true 1 0,                                             -- creates validator 3's record (a minority claim)
    .vote 1 1 31 100 true 5 0, .vote 2 1 31 100 true 5 0, .vote 1 2 32 101 true 6 0, .vote 2 2 32 101 true 6 0,
    .tally [(1, 40), (2, 30), (3, 30)] [] ]

example : (vote (run withCatchUp) 3 3 33 102 true 7 0).2 = .rejected ∧
    (vote (run (withCatchUp ++ [.catchUp])) 3 3 33 102 true 7 0).2 = .ok ∧
    (run (withCatchUp ++ [.catchUp, .vote 3 3 33 102 true 7 0, .vote 1 3 33 102 true 7 0,
      .tally [(1, 40), (2, 30), (3, 30)] []])).log.map (fun o => (o.nonce, o.voters)) =
      [(1, [1, 2]), (2, [1, 2]), (3, [3, 1])] := by decide

/-- two remote chains in one history: chain 7 and chain 9 are tallied by the same end-blocks with the same
power table; each has its own cursor, votes and effects -/
def twoChains : List MOp :=
  [ .on 7 (.vote 1 1 71 100 true 5 0), .on 9 (.vote 1 1 91 200 true 8 0), .on 7 (.vote 2 1 71 100 true 5 0),
    .endBlock [7, 9] [(1, 40), (2, 30), (3, 30)] (fun _ => []) false,
    .on 9 (.vote 2 1 91 200 true 8 0),
    .endBlock [7, 9] [(1, 40), (2, 30), (3, 30)] (fun _ => []) true ]

example : (runM twoChains 7).lastObserved = 1 ∧ (runM twoChains 7).minted = 5 ∧ (runM twoChains 9).minted = 8 ∧
    (runM twoChains 8).lastObserved = 0 ∧
    (runM twoChains 9).log.map (fun o => (o.nonce, o.hash, o.voters)) = [(1, 91, [1, 2])] := by decide

/-! #### a history of real claims (hypotheses of `honest_votes_counted_only_for_identical_claim`) -/

/-- a toy hash for the example: the pre-image bytes read as a base-256 number -/
def toyL : Lowering :=
  { H := fun bytes => bytes.foldl (fun a b => a * 256 + b) 0,
    content := fun c => (c.ty != "MsgLightNodeSaleClaim", c.nonce + 100),
    cc := fun b => b.foldl (fun a x => a * 256 + x) 0 }

open Paloma.ClaimHash in
/-- a deposit seen by the honest validators (receiver bytes `[1]`), and the same deposit with another
receiver (`[2]`) submitted FIRST by validator 3; plus a batch claim at nonce 2 -/
def deposit (receiver : Nat) : OClaim :=
  { ty := "MsgSendToPalomaClaim", nonce := 1, eth := 100,
    mid := [.str [170], .amt 25, .str [187], .str [receiver]], compass := [1] }

open Paloma.ClaimHash in
def batchDone : OClaim :=
  { ty := "MsgBatchSendToRemoteClaim", nonce := 2, eth := 101, mid := [.num 4, .str [170]], compass := [1] }

def realHist : List COp :=
  [ .activate [1], .vote 3 (deposit 2), .vote 1 (deposit 1), .vote 2 (deposit 1),
    .tally [(1, 35), (2, 35), (3, 30)] [],
    .vote 1 batchDone, .vote 2 batchDone, .vote 3 batchDone, .tally [(1, 35), (2, 35), (3, 30)] [] ]

/-- the claims of `realHist` are well-typed against the regenerated table and the toy hash does not collide
on them: the hypotheses of the composite theorem hold; and the history has effects: the honest deposit
(validator 3's variant with the other receiver, although submitted first, got no honest vote: it is a
different attestation) and the executed batch, voted by all three -/
example : (∀ c ∈ claimsOf realHist, c.toClaim.wellTyped = true) := by decide
open Paloma.ClaimHash in
theorem example_toy_hashes :
    toyL.hash (deposit 1) = 280792967694312301275705069389661636116995846193 ∧
    toyL.hash (deposit 2) = 280792967694312301275705069389661636117012623409 ∧
    toyL.hash batchDone = 3976013386120864247805421498417 ∧
    preimage (deposit 1).fields = [49, 47, 49, 48, 48, 47, 97, 97, 47, 50, 53, 47, 98, 98, 47, 48, 49, 47, 48, 49] ∧
    preimage (deposit 2).fields = [49, 47, 49, 48, 48, 47, 97, 97, 47, 50, 53, 47, 98, 98, 47, 48, 50, 47, 48, 49] ∧
    preimage batchDone.fields = [50, 47, 49, 48, 49, 47, 52, 47, 97, 97, 47, 48, 49] := by
  have h1 : preimage (deposit 1).fields =
      [49, 47, 49, 48, 48, 47, 97, 97, 47, 50, 53, 47, 98, 98, 47, 48, 49, 47, 48, 49] := by
    simp [deposit, OClaim.fields, preimage, join, enc, encStr, hexd, decDigits, slash]
  have h2 : preimage (deposit 2).fields =
      [49, 47, 49, 48, 48, 47, 97, 97, 47, 50, 53, 47, 98, 98, 47, 48, 50, 47, 48, 49] := by
    simp [deposit, OClaim.fields, preimage, join, enc, encStr, hexd, decDigits, slash]
  have h3 : preimage batchDone.fields = [50, 47, 49, 48, 49, 47, 52, 47, 97, 97, 47, 48, 49] := by
    simp [batchDone, OClaim.fields, preimage, join, enc, encStr, hexd, decDigits, slash]
  refine ⟨?_, ?_, ?_, h1, h2, h3⟩
  · simp only [Lowering.hash, h1]; decide
  · simp only [Lowering.hash, h2]; decide
  · simp only [Lowering.hash, h3]; decide

example : ∀ c ∈ claimsOf realHist, ∀ c' ∈ claimsOf realHist, NoCollisionAt toyL c c' := by
  obtain ⟨h1, h2, h3, _⟩ := example_toy_hashes
  have hl : claimsOf realHist = [deposit 2, deposit 1, deposit 1, batchDone, batchDone, batchDone] := by decide
  rw [hl]
  intro c hc c' hc'
  simp only [List.mem_cons, List.mem_nil_iff, or_false] at hc hc'
  unfold NoCollisionAt
  rcases hc with rfl | rfl | rfl | rfl | rfl | rfl <;> rcases hc' with rfl | rfl | rfl | rfl | rfl | rfl <;>
    first
    | (intro _; rfl)
    | (rw [h1, h2]; intro h; exact absurd h (by decide))
    | (rw [h2, h1]; intro h; exact absurd h (by decide))
    | (rw [h1, h3]; intro h; exact absurd h (by decide))
    | (rw [h3, h1]; intro h; exact absurd h (by decide))
    | (rw [h2, h3]; intro h; exact absurd h (by decide))
    | (rw [h3, h2]; intro h; exact absurd h (by decide))

/-- the lowered history, with the hashes worked out -/
theorem example_realHist_lowered : realHist.map toyL.op =
    [ .activate 1,
      .vote 3 1 280792967694312301275705069389661636117012623409 100 true 101 1,
      .vote 1 1 280792967694312301275705069389661636116995846193 100 true 101 1,
      .vote 2 1 280792967694312301275705069389661636116995846193 100 true 101 1,
      .tally [(1, 35), (2, 35), (3, 30)] [],
      .vote 1 2 3976013386120864247805421498417 101 true 102 1,
      .vote 2 2 3976013386120864247805421498417 101 true 102 1,
      .vote 3 2 3976013386120864247805421498417 101 true 102 1,
      .tally [(1, 35), (2, 35), (3, 30)] [] ] := by
  obtain ⟨h1, h2, h3, _⟩ := example_toy_hashes
  simp only [realHist, List.map_cons, List.map_nil, Lowering.op, Lowering.voteOp, h1, h2, h3]
  rfl

example : (run (realHist.map toyL.op)).log.map (fun o => (o.nonce, o.voters, o.amount)) =
    [(1, [1, 2], 101), (2, [1, 2, 3], 102)] ∧
    (run (realHist.map toyL.op)).atts.map (fun a => (a.nonce, a.votes)) = [(1, [3]), (1, [1, 2]), (2, [1, 2, 3])] := by
  rw [example_realHist_lowered]
  decide

/-! ### claim identity checked on the history; executed-batch claims and the end blocker (C02) -/

/-- **registry_identifies** ("voted for that identical claim"). If the registry accepted every submission
`(key, identity)` of a history, then within that history the key determines the identity: no two different
claims share an attestation. This is the condition the driver checks on every vote line (`register`; a
refused line prints `distinct-claims-share-key`). -/
theorem registry_identifies (subs r : List (Nat × Nat)) (h : registerAll [] subs = some r) :
    ∀ p ∈ subs, ∀ q ∈ subs, p.1 = q.1 → p.2 = q.2 := by
  have hf : Functional ([] : List (Nat × Nat)) := by intro p hp; cases hp
  obtain ⟨hfun, _, hall⟩ := registerAll_spec subs h hf
  intro p hp q hq he
  exact hfun p (hall p hp) q (hall q hq) he

/-- **checked_history_identifies_claim.** For a history whose vote ops are annotated with the identity of the
submitted claim (identity = all fields, so it determines the content the model carries): if the registry accepts
the whole history, `HashIdentifiesClaim` holds — the hypothesis of `voters_voted_identical_claim` is discharged
by a run-time check on the very history at hand instead of being assumed. -/
theorem checked_history_identifies_claim (hist : List (Op × Nat)) (hid : IdentityDeterminesContent hist)
    (r : List (Nat × Nat)) (hreg : registerAll [] (subsOf hist) = some r) :
    HashIdentifiesClaim (hist.map (·.1)) := by
  intro v n h e ap am cp v' e' ap' am' cp' ha ha'
  obtain ⟨pre, post, he, _⟩ := ha
  obtain ⟨pre', post', he', _⟩ := ha'
  have hm : Op.vote v n h e ap am cp ∈ hist.map (·.1) := by rw [he]; simp
  have hm' : Op.vote v' n h e' ap' am' cp' ∈ hist.map (·.1) := by rw [he']; simp
  obtain ⟨⟨op, c⟩, hin, hop⟩ := List.mem_map.mp hm
  obtain ⟨⟨op', c'⟩, hin', hop'⟩ := List.mem_map.mp hm'
  simp at hop hop'
  subst hop hop'
  have hcc : c = c' := registry_identifies _ r hreg (h, c) (mem_subsOf hin) (h, c') (mem_subsOf hin') rfl
  subst hcc
  exact hid _ _ _ _ _ _ _ _ _ _ _ _ _ _ _ hin hin'

/-- **counted_voters_voted_identical_claim.** The end-to-end form: in a registry-checked, identity-annotated
history every voter counted for a claim that took effect has an accepted vote op carrying that claim's nonce,
key, remote height, applicability, amount and compass id. -/
theorem counted_voters_voted_identical_claim (hist : List (Op × Nat)) (hid : IdentityDeterminesContent hist)
    (r : List (Nat × Nat)) (hreg : registerAll [] (subsOf hist) = some r) :
    ∀ o ∈ (run (hist.map (·.1))).log, ∀ v ∈ o.voters,
      AcceptedIn (hist.map (·.1)) v o.nonce o.hash o.eth o.applicable o.amount o.compass :=
  voters_voted_identical_claim _ (checked_history_identifies_claim hist hid r hreg)

/-- **bridge_value_conserved** ("applied at most once"). Every unit of value a user sent is at any time in
exactly one place — an open batch, the unbatched pool, or burned: `send` adds to the sum, building a batch,
executing one, cancelling the expired ones and a whole end block (any tally, any block time) keep it. A batch
cannot be both executed (burned) and cancelled (back in the pool), nor executed twice. -/
theorem bridge_value_conserved (s : Sky) (power : Nat → Nat) (total : Nat) (ef : EventFault) (now : Nat) (fifty : Bool)
    (h : IdsOk s.b) :
    (endBlock s power total ef now fifty).b.value = s.b.value ∧ IdsOk (endBlock s power total ef now fifty).b := by
  have h1 : (if fifty then build s.b now else s.b).value = s.b.value ∧ IdsOk (if fifty then build s.b now else s.b) := by
    cases fifty
    · exact ⟨rfl, h⟩
    · exact ⟨build_value s.b now, build_ids s.b now h⟩
  obtain ⟨hv, hi⟩ := handlerEffects_value ((tally s.o power total ef).log.drop s.o.log.length) _ h1.2
  simp only [endBlock]
  exact ⟨by rw [cancel_value, hv, h1.1], cancel_ids _ now hi⟩

/-- step forms of the conservation law -/
theorem bridge_value_steps (b : Bridge) (h : IdsOk b) (a now id eth : Nat) :
    (send b a).value = b.value + a ∧ (build b now).value = b.value ∧ (execBatch b id eth).value = b.value ∧
      (cancelExpired b now).value = b.value :=
  ⟨send_value b a, build_value b now, exec_value b id eth h, cancel_value b now⟩

/-- **executed_batch_claim_is_applied** ("exactly once whenever it can be applied at all"). `OutgoingTxBatchExecuted`
on a batch that is in the store, reported at a remote height before its timeout: the vouchers are burned, no batch
with that nonce remains, the pool is untouched — and a cancellation sweep at ANY later block time hands back only
other batches. -/
theorem executed_batch_claim_is_applied (b : Bridge) (id eth : Nat) (x : Batch) (hf : findBatch b id = some x)
    (ht : eth < x.timeout) (now : Nat) :
    (execBatch b id eth).burned = b.burned + x.amount ∧ (execBatch b id eth).pool = b.pool ∧
      (∀ y ∈ (execBatch b id eth).batches, y.id ≠ id) ∧
      (cancelExpired (execBatch b id eth) now).pool =
        b.pool + ((b.batches.filter (fun y => y.id != id && decide (y.timeout < now))).map (·.amount)).sum := by
  unfold execBatch
  simp only [hf, ht, if_true]
  refine ⟨trivial, trivial, ?_, ?_⟩
  · intro y hy
    have := (List.mem_filter.mp hy).2
    simpa using this
  · simp [cancelExpired, List.filter_filter, Bool.and_comm]

/-- an executed-batch claim that cannot be applied (unknown batch, or reported at / after the timeout) changes
nothing -/
theorem executed_batch_claim_not_applicable_is_noop (b : Bridge) (id eth : Nat) (h : canExecute b id eth = false) :
    execBatch b id eth = b := by
  unfold canExecute at h
  unfold execBatch
  cases hf : findBatch b id with
  | none => rfl
  | some x => simp [hf] at h; simp [Nat.not_lt.mpr h]

/-- **observed_batch_claim_applied_in_its_block.** End-block level, every state, table, fault set and BLOCK TIME:
if the first claim the tally of this block observes is an executed-batch claim whose batch is in the store when the
tally runs (after `createBatch`) and whose remote height lies before the batch timeout, then after the end block
the batch's value is burned and no batch with that nonce is left — also when the batch expires in this very block:
`cleanupTimedOutBatches` runs after the tally and finds it gone. -/
theorem observed_batch_claim_applied_in_its_block (s : Sky) (power : Nat → Nat) (total : Nat) (ef : EventFault)
    (now : Nat) (fifty : Bool) (o : Obs) (rest : List Obs) (id : Nat) (x : Batch)
    (hobs : (tally s.o power total ef).log.drop s.o.log.length = o :: rest)
    (hclaim : regLookup (if fifty then build s.b now else s.b).execClaims o.hash = some id)
    (hopen : findBatch (if fifty then build s.b now else s.b) id = some x) (ht : o.eth < x.timeout) :
    s.b.burned + x.amount ≤ (endBlock s power total ef now fifty).b.burned ∧
      ∀ y ∈ (endBlock s power total ef now fifty).b.batches, y.id ≠ id := by
  have hb0 : s.b.burned = (if fifty then build s.b now else s.b).burned := by
    cases fifty
    · rfl
    · simp only [if_true]; unfold build; split <;> rfl
  simp only [endBlock, hobs]
  generalize (if fifty then build s.b now else s.b) = b1 at *
  have hstep : handlerEffects b1 (o :: rest) = handlerEffects (execBatch b1 id o.eth) rest := by
    simp [handlerEffects, handle, hclaim]
  rw [hstep]
  obtain ⟨hbu, _, hgone, _⟩ := executed_batch_claim_is_applied b1 id o.eth x hopen ht now
  have hl := (handlerEffects_later rest (execBatch b1 id o.eth)).trans (cancel_later _ now)
  refine ⟨?_, fun y hy => hgone y (hl.2.1 y hy)⟩
  have := hl.1
  omega


/-! ### non-vacuity (claim identity, executed-batch claims) -/

/-- two deposits that differ only in the bridge deployment: distinct identities 1 and 2 -/
example : registerAll [] [(77, 1), (78, 2), (77, 1)] = some [(77, 1), (78, 2)] := by decide

/-- … keyed alike (a hash that leaves the deployment id out): the registry refuses the history -/
example : registerAll [] [(77, 1), (77, 2)] = none := by decide

example : IdentityDeterminesContent [(.vote 1 1 77 100 true 5 2, 1), (.vote 2 1 78 100 true 5 1, 2), (.tally [(1, 10)] [], 0)] ∧
    registerAll [] (subsOf [(.vote 1 1 77 100 true 5 2, 1), (.vote 2 1 78 100 true 5 1, 2), (.tally [(1, 10)] [], 0)])
      = some [(77, 1), (78, 2)] := by
  refine ⟨?_, by decide⟩
  intro v n h e ap am cp c v' n' h' e' ap' am' cp' h1 h2
  simp at h1 h2
  rcases h1 with ⟨_, _, _, _, rfl, rfl, rfl, rfl⟩ | ⟨_, _, _, _, rfl, rfl, rfl, rfl⟩ <;>
    rcases h2 with ⟨_, _, _, _, rfl, rfl, rfl, h⟩ | ⟨_, _, _, _, rfl, rfl, rfl, h⟩ <;> simp_all

/-- a batch of 201 built at t = 1000 (timeout 1600), its executed-batch claim (key 77, nonce 1) voted by four of
five equal validators -/
def expiryDemo : Sky :=
  let s0 : Sky := { o := activate St.init 1, b := build (send (send {} 100) 101) 1000 }
  let s1 := (voteExec s0 1 1 77 100 1 1).1
  let s2 := (voteExec s1 2 1 77 100 1 1).1
  let s3 := (voteExec s2 3 1 77 100 1 1).1
  (voteExec s3 4 1 77 100 1 1).1

def fiveTens : List (Nat × Nat) := [(1, 10), (2, 10), (3, 10), (4, 10), (5, 10)]

/-- quorum and expiry in one block (block time 1601 > timeout 1600): the claim is observed AND applied — burned,
batch gone, nothing back in the pool; the hypotheses of `observed_batch_claim_applied_in_its_block` are met -/
example :
    let s' := endBlock expiryDemo (powerOf fiveTens) (totalOf fiveTens) noFault 1601 false
    IdsOk expiryDemo.b ∧ expiryDemo.b.batches = [{ id := 1, amount := 201, timeout := 1600 }] ∧
    ((tally expiryDemo.o (powerOf fiveTens) (totalOf fiveTens) noFault).log.drop expiryDemo.o.log.length).map (·.hash) = [77] ∧
    regLookup expiryDemo.b.execClaims 77 = some 1 ∧
    s'.o.lastObserved = 1 ∧ s'.b.burned = 201 ∧ s'.b.batches = [] ∧ s'.b.pool = 0 ∧ s'.supply = 0 ∧ s'.b.value = expiryDemo.b.value := by
  refine ⟨⟨by decide, by decide⟩, by decide, by decide, by decide, by decide, by decide, by decide, by decide, by decide, by decide⟩

/-- without quorum in that block the batch simply expires: cancelled, its value back in the pool, and the claim, once
it does get its quorum, cannot be applied any more (observed, nothing burned) -/
example :
    let s' := endBlock expiryDemo (powerOf [(1, 10), (2, 10), (3, 10), (4, 10), (5, 30)]) 70 noFault 1601 false
    let s'' := endBlock s' (powerOf fiveTens) (totalOf fiveTens) noFault 1603 false
    s'.o.lastObserved = 0 ∧ s'.b.batches = [] ∧ s'.b.pool = 201 ∧ s'.b.burned = 0 ∧
    s''.o.lastObserved = 1 ∧ s''.b.burned = 0 ∧ s''.b.pool = 201 := by
  refine ⟨by decide, by decide, by decide, by decide, by decide, by decide, by decide⟩

/-- at a multiple of 50 the returned transfers are batched again (new nonce 2) before the tally -/
example :
    let s' := endBlock expiryDemo (powerOf [(1, 10), (2, 10), (3, 10), (4, 10), (5, 30)]) 70 noFault 1601 false
    (endBlock s' (powerOf fiveTens) (totalOf fiveTens) noFault 1700 true).b.batches = [{ id := 2, amount := 201, timeout := 2300 }] := by
  decide

/-- `additionalPatchChecks`: a claim reported at a remote height at / after the timeout of the open batch is refused -/
example : (voteExec expiryDemo 5 1 79 1600 1 1).2 = .rejected ∧ (voteExec expiryDemo 5 1 79 1599 1 1).2 = .ok := by decide

/-! ### who cast the votes (claim messages) -/

/-- **foreign_claim_message_is_refused** ("validators … have EACH voted"). A claim message delivered for an
account other than the one it names as orchestrator changes nothing: naming a validator gives nobody that
validator's vote. (All three claim handlers: deposit and light-node sale through `voteMsg`, executed batch
through `voteExecMsg`.) -/
theorem foreign_claim_message_is_refused (B : List Nat) (s : St) (b : Sky) (c o n h eth id : Nat) (ap : Bool)
    (amt cp : Nat) (hne : c ≠ o) :
    voteMsg B s c o n h eth ap amt cp = (s, .rejected) ∧ voteExecMsg B b c o n h eth id cp = (b, .rejected) := by
  simp [voteMsg, voteExecMsg, hne]

/-- **claim_message_naming_non_validator_is_refused.** … and so does one that names (and is delivered for)
an account that is no bonded validator. -/
theorem claim_message_naming_non_validator_is_refused (B : List Nat) (s : St) (b : Sky) (c o n h eth id : Nat)
    (ap : Bool) (amt cp : Nat) (hnb : o ∉ B) :
    voteMsg B s c o n h eth ap amt cp = (s, .rejected) ∧ voteExecMsg B b c o n h eth id cp = (b, .rejected) := by
  by_cases hne : c = o <;> simp [voteMsg, voteExecMsg, hne, hnb]

/-- **own_claim_message_is_attest.** A bonded validator's own claim message is exactly `Attest` (resp.
`additionalPatchChecks` + `Attest`) for that validator: the gate loses no honest vote. -/
theorem own_claim_message_is_attest (B : List Nat) (s : St) (b : Sky) (v n h eth id : Nat) (ap : Bool)
    (amt cp : Nat) (hb : v ∈ B) :
    voteMsg B s v v n h eth ap amt cp = vote s v n h eth ap amt cp ∧
      voteExecMsg B b v v n h eth id cp = voteExec b v n h eth id cp := by
  simp [voteMsg, voteExecMsg, hb]

/-- **message_histories_are_attest_histories.** A history of claim messages, tallies, catch-ups and resets is
the `Attest`-level history of the messages that pass the handlers' gate — every theorem of this file about
`run` holds for `runS`. -/
theorem message_histories_are_attest_histories (B : List Nat) (ops : List SOp) :
    runS B ops = run (ops.flatMap (lowerS B)) := runS_eq_run B ops

/-- **stored_votes_were_sent_by_the_validator_itself.** Every validator in the vote list of a stored
attestation is bonded and has, earlier in the history, a claim message for exactly that claim `(nonce, hash)`
at exactly the stored remote height that was delivered for ITS OWN account and was accepted. -/
theorem stored_votes_were_sent_by_the_validator_itself (B : List Nat) (ops : List SOp) :
    ∀ a ∈ (runS B ops).atts, ∀ v ∈ a.votes, SentIn B ops v a.nonce a.hash a.eth := by
  intro a ha v hv
  rw [runS_eq_run] at ha
  exact votedIn_lower B ops v _ _ _ (votes_were_cast _ a ha v hv)

/-- **effect_requires_validators_own_messages** ("takes effect only after validators that together hold more
than 66 % of the current bonded voting power have EACH voted for that identical claim"), over histories of
claim messages. Every claim that ever took effect was appended to the log by a tally step of the history;
its voters were pairwise distinct, held more than 66 % of that tally's total, and EVERY ONE of them is a
bonded validator that had itself — a message delivered for its own account — sent an accepted claim message
for the very same claim `(nonce, hash)` at the same remote height before that tally. No message delivered
for another account, whatever orchestrator it names, contributes a vote. -/
theorem effect_requires_validators_own_messages (B : List Nat) (ops : List SOp) :
    ∀ o ∈ (runS B ops).log, ∃ pre p f post, ops = pre ++ SOp.tally p f :: post ∧
      o.voters.Nodup ∧
      100 * (o.voters.map (powerOf p)).sum > 66 * totalOf p ∧
      (∀ v ∈ o.voters, v ∈ B ∧ SentIn B pre v o.nonce o.hash o.eth) ∧
      o ∉ (runS B pre).log := by
  intro o ho
  rw [runS_eq_run] at ho
  obtain ⟨pre', p, f, post', he, hnd, hq, _, hvoted, _, hnot, _, _⟩ := effect_requires_quorum _ o ho
  obtain ⟨pre, op, post, a, b, e1, e2, e3, _⟩ := flatMap_split (lowerS B) ops pre' _ post' he
  have key : op = SOp.tally p f ∧ a = [] := by
    cases op with
    | msg c o1 n0 h0 eth0 ap0 amt0 cp0 =>
      simp only [lowerS] at e2
      by_cases hg : claimGate B c o1 = true
      · rw [if_pos hg] at e2; have := (singleton_eq_append_cons e2).2.2; cases this
      · rw [if_neg hg] at e2; simp at e2
    | tally p1 f1 =>
      simp only [lowerS] at e2
      obtain ⟨ha, _, hx⟩ := singleton_eq_append_cons e2
      cases hx
      exact ⟨rfl, ha⟩
    | catchUp => simp only [lowerS] at e2; have := (singleton_eq_append_cons e2).2.2; cases this
    | override n1 => simp only [lowerS] at e2; have := (singleton_eq_append_cons e2).2.2; cases this
    | activate c1 => simp only [lowerS] at e2; have := (singleton_eq_append_cons e2).2.2; cases this
  obtain ⟨rfl, rfl⟩ := key
  have hpre : pre' = pre.flatMap (lowerS B) := by simpa using e3
  subst hpre
  refine ⟨pre, p, f, post, e1, hnd, hq, ?_, ?_⟩
  · intro v hv
    have hs := votedIn_lower B pre v _ _ _ (hvoted v hv)
    have hb : v ∈ B := by
      obtain ⟨_, _, _, _, _, _, hb, _⟩ := hs
      exact hb
    exact ⟨hb, hs⟩
  · rw [runS_eq_run]; exact hnot

/-- **no_effect_without_validators_own_messages.** If no step of a history is a claim message that a bonded
validator's own account sent in its own name — whatever else is sent, by whomever, naming whomever —
nothing ever takes effect. -/
theorem no_effect_without_validators_own_messages (B : List Nat) (ops : List SOp)
    (h : ∀ c o n hh e ap am cp, SOp.msg c o n hh e ap am cp ∈ ops → c ≠ o ∨ c ∉ B) :
    (runS B ops).log = [] := by
  apply List.eq_nil_iff_forall_not_mem.mpr
  intro o ho
  obtain ⟨pre, p, f, post, he, _, hq, hsent, _⟩ := effect_requires_validators_own_messages B ops o ho
  cases hvs : o.voters with
  | nil => rw [hvs] at hq; simp at hq
  | cons v rest =>
    obtain ⟨hb, pre1, ap, amt, cp, post1, he1, _, _⟩ := hsent v (by rw [hvs]; exact List.mem_cons_self)
    have hm : SOp.msg v v o.nonce o.hash o.eth ap amt cp ∈ ops := by
      rw [he, he1]; simp
    rcases h _ _ _ _ _ _ _ _ hm with h1 | h1
    · exact h1 rfl
    · exact h1 hb

/-! claim messages: one account (9, no validator) delivers the claim of event 1 four times, naming validators
1..4 — nothing is stored, nothing takes effect; the same four validators sending it themselves have it observed -/
example : (runS [1, 2, 3, 4, 5] [.msg 9 1 1 77 100 true 5 1, .msg 9 2 1 77 100 true 5 1, .msg 9 3 1 77 100 true 5 1,
      .msg 9 4 1 77 100 true 5 1, .tally fiveTens []]).atts = [] ∧
    (runS [1, 2, 3, 4, 5] [.msg 2 1 1 77 100 true 5 1, .msg 1 9 1 77 100 true 5 1, .msg 9 9 1 77 100 true 5 1,
      .tally fiveTens []]).lastObserved = 0 := by decide

example : (runS [1, 2, 3, 4, 5] [.msg 1 1 1 77 100 true 5 1, .msg 2 2 1 77 100 true 5 1, .msg 3 3 1 77 100 true 5 1,
      .msg 9 5 1 77 100 true 5 1, .msg 4 4 1 77 100 true 5 1, .tally fiveTens []]).log.map (fun o => (o.nonce, o.voters)) =
    [(1, [1, 2, 3, 4])] := by decide

/-- the hypothesis of `no_effect_without_validators_own_messages` is met by a history with messages in it -/
example : ∀ c o n hh e ap am cp, SOp.msg c o n hh e ap am cp ∈
    [SOp.msg 9 1 1 77 100 true 5 1, SOp.msg 2 1 1 77 100 true 5 1, SOp.tally fiveTens []] → c ≠ o ∨ c ∉ [1, 2, 3, 4, 5] := by
  intro c o n hh e ap am cp hm
  simp at hm
  rcases hm with ⟨rfl, rfl, _⟩ | ⟨rfl, rfl, _⟩ <;> simp

example : (voteExecMsg [1, 2, 3, 4, 5] expiryDemo 9 5 1 79 1599 1 1).2 = .rejected ∧
    (voteExecMsg [1, 2, 3, 4, 5] expiryDemo 5 5 1 79 1599 1 1).2 = .ok := by decide


end Paloma.Oracle
