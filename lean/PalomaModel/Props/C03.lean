import PalomaModel.Model.Auth
import PalomaModel.Gen.Auth

/-!
# C03 — state kept on behalf of a principal changes only with that principal's authorisation

"State that Paloma keeps on behalf of a principal … changes only through a transaction signed by
that principal or by an address holding a fee grant from it (or, for batch confirmations,
carrying the validator's own external-chain signature over the exact item), or by the governance
authority.  A transaction authorised by account A never adds, alters or removes anything
attributed to a different principal B."

The model (`Model/Auth.lean`) is the authorisation decorator plus, per message type, the
principal in whose name the handler writes.  The per-type classification is data; the last
section proves by `decide` that it covers, and is compatible with, what the extractor found in
the Go source (`Gen/Auth.lean`).
-/

namespace Paloma.Auth

section Lemmas

theorem bump_other {slots : Addr → Nat} {a x : Addr} (h : x ≠ a) : bump slots a x = slots x := by
  simp [bump, h]

theorem bump_changed {slots : Addr → Nat} {a x : Addr} (h : bump slots a x ≠ slots x) : x = a := by
  unfold bump at h
  split at h
  · assumption
  · exact absurd rfl h

theorem anteOk_iff (m : Msg) (g : Addr → Addr → Bool) :
    anteOk m g = true ↔ (m.creator ∈ m.signers ∨ ∃ a ∈ m.signers, g m.creator a = true) := by
  simp [anteOk, List.any_eq_true]

theorem applyRule_grants (cfg : Cfg) (s : State) (m : Msg) (r : Rule) :
    (applyRule cfg s m r).grants = s.grants := by
  cases r <;> simp only [applyRule] <;> (try split) <;> rfl

theorem deliver_grants (cfg : Cfg) (s : State) (m : Msg) : (deliver cfg s m).grants = s.grants := by
  unfold deliver
  split
  · rfl
  · split
    · rfl
    · split
      · rfl
      · exact applyRule_grants cfg s m _

/-- who is entitled to see its slot change when `m` is delivered -/
def Authorises (cfg : Cfg) (grants : Addr → Addr → Bool) (B : Addr) (m : Msg) : Prop :=
  match cfg.ruleOf m.typ with
  | some .actsFor => B = m.creator ∧ (B ∈ m.signers ∨ ∃ a ∈ m.signers, grants B a = true)
  | some .authorityOnly => B = cfg.authority ∧ m.creator = cfg.authority ∧ anteOk m grants = true
  | some (.sigProven f) => B = m.idField f ∧ cfg.sigOk m f = true
  | some (.open_ _) => True
  | none => False

/-- the only way a slot changes -/
theorem deliver_changed (cfg : Cfg) (s : State) (m : Msg) (B : Addr)
    (h : (deliver cfg s m).slots B ≠ s.slots B) : Authorises cfg s.grants B m := by
  unfold Authorises
  by_cases hante : anteOk m s.grants = true
  · by_cases hh : cfg.handlerOk s m = true
    · cases hr : cfg.ruleOf m.typ with
      | none => simp [deliver, hante, hh, hr] at h
      | some r =>
        cases r with
        | actsFor =>
          simp only [deliver, hante, hh, hr, applyRule] at h
          have hB : B = m.creator := bump_changed (by simpa using h)
          subst hB
          exact ⟨rfl, (anteOk_iff m s.grants).1 hante⟩
        | authorityOnly =>
          simp only [deliver, hante, hh, hr, applyRule] at h
          by_cases hc : m.creator = cfg.authority
          · simp only [hc, if_true] at h
            exact ⟨bump_changed (by simpa using h), hc, hante⟩
          · simp [hc] at h
        | sigProven f =>
          simp only [deliver, hante, hh, hr, applyRule] at h
          by_cases hs : cfg.sigOk m f = true
          · simp only [hs, if_true] at h
            exact ⟨bump_changed (by simpa using h), hs⟩
          · simp [hs] at h
        | open_ reason => trivial
    · simp [deliver, hante, hh] at h
  · simp [deliver, hante] at h

/-- is principal `B` involved in `op`?  (everything that could entitle a change of `B`'s slot
    when `B` has no outstanding fee grants) -/
def Involves (cfg : Cfg) (B : Addr) : Op → Prop
  | .grant g _ => g = B
  | .revoke _ _ => False
  | .tx m =>
    B ∈ m.signers
    ∨ (∃ f, cfg.ruleOf m.typ = some (.sigProven f) ∧ m.idField f = B ∧ cfg.sigOk m f = true)
    ∨ (cfg.ruleOf m.typ = some .authorityOnly ∧ B = cfg.authority)
    ∨ (∃ r, cfg.ruleOf m.typ = some (.open_ r))

theorem step_keeps (cfg : Cfg) (s : State) (op : Op) (B : Addr)
    (hg : ∀ e, s.grants B e = false) (hop : ¬ Involves cfg B op) :
    (step cfg s op).slots B = s.slots B ∧ ∀ e, (step cfg s op).grants B e = false := by
  cases op with
  | grant a b =>
    simp only [Involves] at hop
    refine ⟨rfl, fun e => ?_⟩
    simp only [step, setGrant]
    split
    · rename_i h; exact absurd h.1.symm hop
    · exact hg e
  | revoke a b =>
    refine ⟨rfl, fun e => ?_⟩
    simp only [step, setGrant]
    split
    · rfl
    · exact hg e
  | tx m =>
    simp only [Involves, not_or] at hop
    obtain ⟨hsig, hsp, hauth, hopen⟩ := hop
    refine ⟨?_, fun e => by simp only [step, deliver_grants]; exact hg e⟩
    simp only [step]
    apply Classical.byContradiction
    intro hne
    have ha := deliver_changed cfg s m B hne
    unfold Authorises at ha
    split at ha
    · obtain ⟨_, h2⟩ := ha
      cases h2 with
      | inl h => exact hsig h
      | inr h => obtain ⟨a, _, hga⟩ := h; simp [hg a] at hga
    · rename_i hr
      exact hauth ⟨hr, ha.1⟩
    · rename_i f hr
      exact hsp ⟨f, hr, ha.1.symm, ha.2⟩
    · rename_i r hr
      exact hopen ⟨r, hr⟩
    · exact ha

end Lemmas

/- ## Property theorems -/

/-- Clause "changes only through a transaction signed by that principal or by an address holding a
fee grant from it", for every handler that writes in the creator's name: if delivering `m`
changes the slot of `B` then `B` is the creator AND `B` signed or granted an allowance to a
signer.  This is exactly what `VerifyAuthorisedSignatureDecorator` implies — no more (any fee
grant, of any size or message filter, delegates everything). -/
theorem write_authorised (cfg : Cfg) (s : State) (m : Msg) (B : Addr)
    (hr : cfg.ruleOf m.typ = some .actsFor)
    (h : (deliver cfg s m).slots B ≠ s.slots B) :
    B = m.creator ∧ (B ∈ m.signers ∨ ∃ a ∈ m.signers, s.grants B a = true) := by
  have := deliver_changed cfg s m B h
  simpa [Authorises, hr] using this

/-- Clause "A transaction authorised by account A never adds, alters or removes anything
attributed to a different principal B": a transaction whose signers do not include `B` and hold no
grant from `B` leaves `B`'s slot alone, whatever creator and identity fields it claims. -/
theorem no_cross_principal_write (cfg : Cfg) (s : State) (m : Msg) (B : Addr)
    (hr : cfg.ruleOf m.typ = some .actsFor)
    (hB : B ∉ m.signers) (hg : ∀ a ∈ m.signers, s.grants B a = false) :
    (deliver cfg s m).slots B = s.slots B := by
  apply Classical.byContradiction
  intro hne
  obtain ⟨_, h2⟩ := write_authorised cfg s m B hr hne
  cases h2 with
  | inl h => exact hB h
  | inr h => obtain ⟨a, ha, hga⟩ := h; simp [hg a ha] at hga

/-- Clause "or by the governance authority": an authority-only handler changes state only when
the creator is the governance authority (and then only the authority's own slot: the settings). -/
theorem authority_only (cfg : Cfg) (s : State) (m : Msg) (X : Addr)
    (hr : cfg.ruleOf m.typ = some .authorityOnly)
    (h : (deliver cfg s m).slots X ≠ s.slots X) :
    X = cfg.authority ∧ m.creator = cfg.authority ∧ anteOk m s.grants = true := by
  have := deliver_changed cfg s m X h
  simpa [Authorises, hr] using this

/-- Clause "(or, for batch confirmations, carrying the validator's own external-chain signature
over the exact item)": a signature-proven handler changes only the slot of the principal named
by the proven field, and only when that signature verifies. -/
theorem sig_proven_only (cfg : Cfg) (s : State) (m : Msg) (X : Addr) (f : Nat)
    (hr : cfg.ruleOf m.typ = some (.sigProven f))
    (h : (deliver cfg s m).slots X ≠ s.slots X) :
    X = m.idField f ∧ cfg.sigOk m f = true := by
  have := deliver_changed cfg s m X h
  simpa [Authorises, hr] using this

/-- The whole property over ALL histories of grants, revocations and transactions: a principal
that starts without outstanding fee grants and is not involved in any operation (never signs,
never grants, is never named by a verifying signature-proven field, is not the authority of an
authority-only message) keeps its slot — unless an `open_` message type occurs, about which
nothing is claimed. -/
theorem history_no_cross_principal_write (cfg : Cfg) (B : Addr) (ops : List Op) :
    ∀ s : State, (∀ e, s.grants B e = false) → (∀ op ∈ ops, ¬ Involves cfg B op) →
      (run cfg s ops).slots B = s.slots B := by
  induction ops with
  | nil => intro s _ _; rfl
  | cons op rest ih =>
    intro s hg hops
    have h1 := step_keeps cfg s op B hg (hops op (by simp))
    have h2 := ih (step cfg s op) h1.2 (fun o ho => hops o (by simp [ho]))
    simp only [run, List.foldl_cons] at h2 ⊢
    rw [h2, h1.1]

/-! ### The tables against the source (`Gen/Auth.lean`) -/

open Paloma.Gen.Auth in
/-- name used by the tables and the Go zoo -/
def hname (h : Handler) : String := h.module ++ "." ++ h.method

open Paloma.Gen.Auth in
/-- rule compatible with what the extractor saw in the handler -/
def ruleCompat (h : Handler) : Bool :=
  match ruleOf (hname h) with
  | some .actsFor =>
    if creatorCheckedInValidateBasic.contains (hname h) then h.vbUsesCreator else h.usesCreator
  | some .authorityOnly => h.authorityCheck
  | some (.sigProven _) => (sigProvenField.find? (·.1 == hname h)).any (fun p => h.reads.contains p.2)
  | some (.open_ _) => true
  | none => false

open Paloma.Gen.Auth in
/-- every string / bytes field of the request has a role, compatible with the reads -/
def rolesCompat (h : Handler) : Bool :=
  h.fields.all fun f =>
    match roleOf (hname h) f.1 with
    | none => false
    | some .equatedWithCreator =>
      (h.reads.contains f.1 && h.usesCreator) || (h.vbReads.contains f.1 && h.vbUsesCreator)
    | some .authorityField => h.authorityCheck && h.reads.contains f.1
    | some .sigProven => h.reads.contains f.1
    | some _ => true

open Paloma.Gen.Auth in
/-- `table_sound`, part 1: handlers and registered services coincide, and every one of them is
classified (a new RPC makes this fail). -/
theorem table_covers :
    (handlers.map fun h => (h.module, h.method)) = rpcs
    ∧ handlers.all (fun h => (ruleOf (hname h)).isSome) = true
    ∧ rules.all (fun r => handlers.any (fun h => hname h == r.1)) = true
    ∧ rules.length = handlers.length := by
  decide

open Paloma.Gen.Auth in
/-- `table_sound`, part 2: every rule is compatible with the handler's source: `actsFor` ⇒ the
handler (or, where stated, its ValidateBasic) reads the creator; `authorityOnly` ⇒ it compares
against the keeper's authority / calls the governance guard; `sigProven` ⇒ it reads the proven
field.  A handler that stops reading the creator makes this fail. -/
theorem table_sound : handlers.all ruleCompat = true := by
  decide

open Paloma.Gen.Auth in
/-- `table_sound`, part 3: every string / bytes field of every request type has a hand-written
role and `equatedWithCreator` / `authorityField` / `sigProven` roles are backed by reads of both
the field and the thing it is compared with.  A new field makes this fail. -/
theorem roles_sound :
    handlers.all rolesCompat = true
    ∧ roles.all (fun r => handlers.any (fun h => hname h == r.1 && h.fields.any (·.1 == r.2.1))) = true := by
  decide

/-- the `authoritySigned` / `creatorCheckedInValidateBasic` / `sigProvenField` side tables only
    name classified types of the right kind -/
theorem side_tables_sound :
    authoritySigned.all (fun t => ruleOf t == some .authorityOnly) = true
    ∧ creatorCheckedInValidateBasic.all (fun t => ruleOf t == some .actsFor) = true
    ∧ sigProvenField.all (fun p => ruleOf p.1 == some (.sigProven 0) && roleOf p.1 p.2 == some .sigProven) = true := by
  decide

/-! ### Non-vacuity -/

section Examples

def exCfg : Cfg where
  authority := 99
  ruleOf := ruleOf
  sigOk := fun m f => m.idField f == 7
  handlerOk := fun _ _ => true
  openEffect := fun _ s => s

def exState : State where
  slots := fun _ => 0
  grants := fun g e => g == 2 && e == 1

def exMsg (typ : String) (signer creator field : Addr) : Msg :=
  { typ := typ, signers := [signer], creator := creator, idField := fun _ => field }

/-- A signs for itself: its slot changes -/
example : (deliver exCfg exState (exMsg "valset.KeepAlive" 1 1 0)).slots 1 = 1 := by decide
/-- A signs with creator = B = 3 and no grant: rejected, nothing changes -/
example : (deliver exCfg exState (exMsg "valset.KeepAlive" 1 3 0)).slots 3 = 0 := by decide
/-- A signs with creator = B = 2 and a grant 2 → 1: accepted, B's slot changes -/
example : (deliver exCfg exState (exMsg "valset.KeepAlive" 1 2 0)).slots 2 = 1 := by decide
/-- governance message from a user: nothing; from the authority: the settings change -/
example : (deliver exCfg exState (exMsg "skyway.OverrideNonceProposal" 1 1 0)).slots 99 = 0 := by decide
example : (deliver exCfg exState (exMsg "skyway.OverrideNonceProposal" 99 99 0)).slots 99 = 1 := by decide
/-- batch confirmation naming validator 7 with 7's signature (sigOk), sent by 1: 7's slot changes;
    naming 8 (no valid signature): nothing -/
example : (deliver exCfg exState (exMsg "skyway.ConfirmBatch" 1 1 7)).slots 7 = 1 := by decide
example : (deliver exCfg exState (exMsg "skyway.ConfirmBatch" 1 1 8)).slots 8 = 0 := by decide
/-- the history theorem's hypotheses are satisfiable on a non-trivial history -/
example : (run exCfg exState [.grant 4 1, .tx (exMsg "valset.KeepAlive" 1 4 0), .tx (exMsg "tokenfactory.Mint" 1 3 3),
    .revoke 4 1, .tx (exMsg "valset.KeepAlive" 1 4 0)]).slots 4 = 1 := by decide
example : (run exCfg exState [.grant 4 1, .tx (exMsg "valset.KeepAlive" 1 4 0), .tx (exMsg "tokenfactory.Mint" 1 3 3),
    .revoke 4 1, .tx (exMsg "valset.KeepAlive" 1 4 0)]).slots 3 = 0 := by decide

end Examples

end Paloma.Auth
