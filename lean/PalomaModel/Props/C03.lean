import PalomaModel.Model.Auth
import PalomaModel.Gen.Auth

/-!
# C03 — state kept on behalf of a principal changes only with that principal's authorisation

"State that Paloma keeps on behalf of a principal … changes only through a transaction signed by
that principal or by an address holding a fee grant from it (or, for batch confirmations,
carrying the validator's own external-chain signature over the exact item), or by the governance
authority.  A transaction authorised by account A never adds, alters or removes anything
attributed to a different principal B."

The model (`Model/Auth.lean`) is the authorisation decorator plus, per message type, the
principal in whose name the handler writes.  The per-type classification is data; the last
section proves by `decide` that it covers, and is compatible with, what the extractor found in
the Go source (`Gen/Auth.lean`).
-/

namespace Paloma.Auth

section Lemmas

theorem bump_other {slots : Addr → Nat} {a x : Addr} (h : x ≠ a) : bump slots a x = slots x := by
  simp [bump, h]

theorem bump_changed {slots : Addr → Nat} {a x : Addr} (h : bump slots a x ≠ slots x) : x = a := by
  unfold bump at h
  split at h
  · assumption
  · exact absurd rfl h

theorem anteOk_iff (m : Msg) (g : Addr → Addr → Bool) :
    anteOk m g = true ↔ (m.creator ∈ m.signers ∨ ∃ a ∈ m.signers, g m.creator a = true) := by
  simp [anteOk, List.any_eq_true]

theorem applyRule_grants (cfg : Cfg) (s : State) (m : Msg) (r : Rule) :
    (applyRule cfg s m r).grants = s.grants := by
  cases r <;> simp only [applyRule] <;> (try split) <;> rfl

theorem deliver_grants (cfg : Cfg) (s : State) (m : Msg) : (deliver cfg s m).grants = s.grants := by
  unfold deliver
  split
  · rfl
  · split
    · rfl
    · split
      · rfl
      · exact applyRule_grants cfg s m _

/-- who is entitled to see its slot change when `m` is delivered -/
def Authorises (cfg : Cfg) (grants : Addr → Addr → Bool) (B : Addr) (m : Msg) : Prop :=
  match cfg.ruleOf m.typ with
  | some .actsFor => B = m.creator ∧ (B ∈ m.signers ∨ ∃ a ∈ m.signers, grants B a = true)
  | some .authorityOnly => B = cfg.authority ∧ m.creator = cfg.authority ∧ anteOk m grants = true
  | some (.sigProven f) => B = m.idField f ∧ cfg.sigOk m f = true
  | some (.open_ _) => True
  | none => False

/-- the only way a slot changes -/
theorem deliver_changed (cfg : Cfg) (s : State) (m : Msg) (B : Addr)
    (h : (deliver cfg s m).slots B ≠ s.slots B) : Authorises cfg s.grants B m := by
  unfold Authorises
  by_cases hante : anteOk m s.grants = true
  · by_cases hh : cfg.handlerOk s m = true
    · cases hr : cfg.ruleOf m.typ with
      | none => simp [deliver, hante, hh, hr] at h
      | some r =>
        cases r with
        | actsFor =>
          simp only [deliver, hante, hh, hr, applyRule] at h
          have hB : B = m.creator := bump_changed (by simpa using h)
          subst hB
          exact ⟨rfl, (anteOk_iff m s.grants).1 hante⟩
        | authorityOnly =>
          simp only [deliver, hante, hh, hr, applyRule] at h
          by_cases hc : m.creator = cfg.authority
          · simp only [hc, if_true] at h
            exact ⟨bump_changed (by simpa using h), hc, hante⟩
          · simp [hc] at h
        | sigProven f =>
          simp only [deliver, hante, hh, hr, applyRule] at h
          by_cases hs : cfg.sigOk m f = true
          · simp only [hs, if_true] at h
            exact ⟨bump_changed (by simpa using h), hs⟩
          · simp [hs] at h
        | open_ reason => trivial
    · simp [deliver, hante, hh] at h
  · simp [deliver, hante] at h

/-- handler level: `B` is the principal in whose name the handler of `m` writes -/
def Writes (cfg : Cfg) (B : Addr) (m : Msg) : Prop :=
  match cfg.ruleOf m.typ with
  | some .actsFor => B = m.creator
  | some .authorityOnly => B = cfg.authority ∧ m.creator = cfg.authority
  | some (.sigProven f) => B = m.idField f ∧ cfg.sigOk m f = true
  | some (.open_ _) => True
  | none => False

theorem handle_grants (cfg : Cfg) (s s' : State) (m : Msg) (h : handle cfg s m = some s') :
    s'.grants = s.grants := by
  unfold handle at h
  split at h
  · simp at h
  · split at h
    · simp at h
    · split at h
      · simp at h; rw [← h]; exact applyRule_grants cfg s m _
      · simp at h

theorem handle_changed (cfg : Cfg) (s s' : State) (m : Msg) (B : Addr)
    (h : handle cfg s m = some s') (hne : s'.slots B ≠ s.slots B) : Writes cfg B m := by
  unfold handle at h
  unfold Writes
  split at h
  · simp at h
  · cases hr : cfg.ruleOf m.typ with
    | none => simp [hr] at h
    | some r =>
      simp only [hr] at h
      split at h
      · rename_i hacc
        simp at h
        subst h
        cases r with
        | actsFor =>
          simp only [applyRule] at hne
          exact bump_changed (by simpa using hne)
        | authorityOnly =>
          have hc : m.creator = cfg.authority := by simpa [accepts] using hacc
          simp only [applyRule, hc, if_true] at hne
          exact ⟨bump_changed (by simpa using hne), hc⟩
        | sigProven f =>
          have hs : cfg.sigOk m f = true := by simpa [accepts] using hacc
          simp only [applyRule, hs, if_true] at hne
          exact ⟨bump_changed (by simpa using hne), hs⟩
        | open_ reason => trivial
      · simp at h

theorem handleAll_grants (cfg : Cfg) (ms : List Msg) :
    ∀ s s' : State, handleAll cfg s ms = some s' → s'.grants = s.grants := by
  induction ms with
  | nil => intro s s' h; simp [handleAll] at h; rw [h]
  | cons m rest ih =>
    intro s s' h
    simp only [handleAll] at h
    split at h
    · simp at h
    · rename_i s1 h1
      rw [ih s1 s' h, handle_grants cfg s s1 m h1]

theorem handleAll_changed (cfg : Cfg) (B : Addr) (ms : List Msg) :
    ∀ s s' : State, handleAll cfg s ms = some s' → s'.slots B ≠ s.slots B → ∃ m ∈ ms, Writes cfg B m := by
  induction ms with
  | nil => intro s s' h hne; simp [handleAll] at h; subst h; exact absurd rfl hne
  | cons m rest ih =>
    intro s s' h hne
    simp only [handleAll] at h
    split at h
    · simp at h
    · rename_i s1 h1
      by_cases h0 : s1.slots B = s.slots B
      · have hne' : s'.slots B ≠ s1.slots B := by rw [h0]; exact hne
        obtain ⟨m', hm', hw⟩ := ih s1 s' h hne'
        exact ⟨m', by simp [hm'], hw⟩
      · exact ⟨m, by simp, handle_changed cfg s s1 m B h1 h0⟩

theorem deliverTx_grants (cfg : Cfg) (s : State) (ms : List Msg) : (deliverTx cfg s ms).grants = s.grants := by
  unfold deliverTx
  split
  · rfl
  · split
    · rfl
    · rename_i s' h; exact handleAll_grants cfg ms s s' h

/-- is principal `B` involved in message `m`?  (everything that could entitle a change of `B`'s
    slot when `B` has no outstanding fee grants) -/
def InvolvesMsg (cfg : Cfg) (B : Addr) (m : Msg) : Prop :=
  B ∈ m.signers
  ∨ (∃ f, cfg.ruleOf m.typ = some (.sigProven f) ∧ m.idField f = B ∧ cfg.sigOk m f = true)
  ∨ (cfg.ruleOf m.typ = some .authorityOnly ∧ B = cfg.authority)
  ∨ (∃ r, cfg.ruleOf m.typ = some (.open_ r))

/-- is principal `B` involved in `op`? -/
def Involves (cfg : Cfg) (B : Addr) : Op → Prop
  | .grant g _ => g = B
  | .revoke _ _ => False
  | .tx m => InvolvesMsg cfg B m
  | .mtx ms => ∃ m ∈ ms, InvolvesMsg cfg B m

/-- a message that passed the decorator and writes for `B` involves `B` (given `B` granted nothing) -/
theorem writes_involves (cfg : Cfg) (g : Addr → Addr → Bool) (B : Addr) (m : Msg)
    (hg : ∀ e, g B e = false) (hante : anteOk m g = true) (hw : Writes cfg B m) : InvolvesMsg cfg B m := by
  unfold Writes at hw
  unfold InvolvesMsg
  split at hw
  · subst hw
    cases (anteOk_iff m g).1 hante with
    | inl h => exact Or.inl h
    | inr h => obtain ⟨a, _, hga⟩ := h; simp [hg a] at hga
  · rename_i hr
    exact Or.inr (Or.inr (Or.inl ⟨hr, hw.1⟩))
  · rename_i f hr
    exact Or.inr (Or.inl ⟨f, hr, hw.1.symm, hw.2⟩)
  · rename_i r hr
    exact Or.inr (Or.inr (Or.inr ⟨r, hr⟩))
  · exact absurd hw id

theorem step_keeps (cfg : Cfg) (s : State) (op : Op) (B : Addr)
    (hg : ∀ e, s.grants B e = false) (hop : ¬ Involves cfg B op) :
    (step cfg s op).slots B = s.slots B ∧ ∀ e, (step cfg s op).grants B e = false := by
  cases op with
  | grant a b =>
    simp only [Involves] at hop
    refine ⟨rfl, fun e => ?_⟩
    simp only [step, setGrant]
    split
    · rename_i h; exact absurd h.1.symm hop
    · exact hg e
  | revoke a b =>
    refine ⟨rfl, fun e => ?_⟩
    simp only [step, setGrant]
    split
    · rfl
    · exact hg e
  | tx m =>
    simp only [Involves] at hop
    refine ⟨?_, fun e => by simp only [step, deliver_grants]; exact hg e⟩
    simp only [step]
    apply Classical.byContradiction
    intro hne
    have ha := deliver_changed cfg s m B hne
    apply hop
    unfold Authorises at ha
    unfold InvolvesMsg
    split at ha
    · obtain ⟨_, h2⟩ := ha
      cases h2 with
      | inl h => exact Or.inl h
      | inr h => obtain ⟨a, _, hga⟩ := h; simp [hg a] at hga
    · rename_i hr
      exact Or.inr (Or.inr (Or.inl ⟨hr, ha.1⟩))
    · rename_i f hr
      exact Or.inr (Or.inl ⟨f, hr, ha.1.symm, ha.2⟩)
    · rename_i r hr
      exact Or.inr (Or.inr (Or.inr ⟨r, hr⟩))
    · exact absurd ha id
  | mtx ms =>
    simp only [Involves] at hop
    refine ⟨?_, fun e => by simp only [step, deliverTx_grants]; exact hg e⟩
    simp only [step]
    apply Classical.byContradiction
    intro hne
    unfold deliverTx at hne
    split at hne
    · exact hne rfl
    · rename_i hante
      have hall : anteOkTx ms s.grants = true := by simpa using hante
      split at hne
      · exact hne rfl
      · rename_i s' hs'
        obtain ⟨m, hm, hw⟩ := handleAll_changed cfg B ms s s' hs' hne
        have hm_ante : anteOk m s.grants = true := by
          unfold anteOkTx at hall
          exact (List.all_eq_true.1 hall) m hm
        exact hop ⟨m, hm, writes_involves cfg s.grants B m hg hm_ante hw⟩

/-! ### Transferable ownership (denoms) -/

theorem setAt_same {α : Type} (f : Nat → α) (d : Nat) (v : α) : setAt f d v d = v := by simp [setAt]

theorem setAt_other {α : Type} (f : Nat → α) {d x : Nat} (v : α) (h : x ≠ d) : setAt f d v x = f x := by
  simp [setAt, h]

theorem dAnteOk_iff (m : DMsg) (g : Addr → Addr → Bool) :
    dAnteOk m g = true ↔ (m.creator ∈ m.signers ∨ ∃ a ∈ m.signers, g m.creator a = true) := by
  simp [dAnteOk, List.any_eq_true]

theorem dHandle_grants (namer : Nat → Addr) (s s' : DState) (m : DMsg) (h : dHandle namer s m = some s') :
    s'.grants = s.grants := by
  unfold dHandle at h
  split at h <;> (split at h <;> simp at h) <;> (subst h; rfl)

/-- handler level: a handler that changes what is kept for `d` acts on `d`, in its owner's name -/
theorem dHandle_changed (namer : Nat → Addr) (s s' : DState) (m : DMsg) (d : Nat)
    (h : dHandle namer s m = some s') (hne : dView s' d ≠ dView s d) :
    d = m.denom ∧ dOwner namer s d = some m.creator := by
  have hd : d = m.denom := by
    apply Classical.byContradiction
    intro hd
    apply hne
    unfold dHandle at h
    split at h <;> (split at h <;> simp at h) <;> (subst h; simp [dView, setAt, hd])
  subst hd
  refine ⟨rfl, ?_⟩
  unfold dHandle at h
  unfold dOwner
  split at h
  · split at h
    · rename_i hc; simp [hc.1, hc.2]
    · simp at h
  · split at h
    · rename_i hc; simp [hc]
    · simp at h
  · split at h
    · rename_i hc; simp [hc]
    · simp at h

theorem dDeliver_grants (namer : Nat → Addr) (s : DState) (m : DMsg) : (dDeliver namer s m).grants = s.grants := by
  unfold dDeliver
  split
  · rfl
  · split
    · rfl
    · rename_i s' h; exact dHandle_grants namer s s' m h

theorem dDeliver_changed (namer : Nat → Addr) (s : DState) (m : DMsg) (d : Nat)
    (h : dView (dDeliver namer s m) d ≠ dView s d) :
    d = m.denom ∧ dOwner namer s d = some m.creator
      ∧ (m.creator ∈ m.signers ∨ ∃ a ∈ m.signers, s.grants m.creator a = true) := by
  unfold dDeliver at h
  split at h
  · exact absurd rfl h
  · rename_i hante
    have hante' : dAnteOk m s.grants = true := by simpa using hante
    split at h
    · exact absurd rfl h
    · rename_i s' hs'
      obtain ⟨h1, h2⟩ := dHandle_changed namer s s' m d hs' h
      exact ⟨h1, h2, (dAnteOk_iff m s.grants).1 hante'⟩

theorem dDeliver_keeps (namer : Nat → Addr) (s : DState) (m : DMsg) (d : Nat) (P : Addr)
    (hown : dOwner namer s d = some P) (hP : P ∉ m.signers) (hg : ∀ a ∈ m.signers, s.grants P a = false) :
    dView (dDeliver namer s m) d = dView s d := by
  apply Classical.byContradiction
  intro hne
  obtain ⟨_, h2, h3⟩ := dDeliver_changed namer s m d hne
  rw [hown] at h2
  have : P = m.creator := by simpa using h2
  subst this
  cases h3 with
  | inl h => exact hP h
  | inr h => obtain ⟨a, ha, hga⟩ := h; simp [hg a ha] at hga

/-- is principal `P` involved in `op`?  (signs, or grants an allowance) -/
def DInvolves (P : Addr) : DOp → Prop
  | .grant g _ => g = P
  | .revoke _ _ => False
  | .msg m => P ∈ m.signers

theorem dOwner_of_view (namer : Nat → Addr) (s s' : DState) (d : Nat) (h : dView s' d = dView s d) :
    dOwner namer s' d = dOwner namer s d := by
  unfold dView at h
  have : s'.den d = s.den d := by simpa using congrArg Prod.fst h
  simp [dOwner, this]

theorem dStep_keeps (namer : Nat → Addr) (s : DState) (op : DOp) (d : Nat) (P : Addr)
    (hown : dOwner namer s d = some P) (hg : ∀ e, s.grants P e = false) (hop : ¬ DInvolves P op) :
    dView (dStep namer s op) d = dView s d ∧ ∀ e, (dStep namer s op).grants P e = false := by
  cases op with
  | grant a b =>
    refine ⟨rfl, fun e => ?_⟩
    simp only [DInvolves] at hop
    simp only [dStep, setGrant]
    split
    · rename_i h; exact absurd h.1.symm hop
    · exact hg e
  | revoke a b =>
    refine ⟨rfl, fun e => ?_⟩
    simp only [dStep, setGrant]
    split
    · rfl
    · exact hg e
  | msg m =>
    simp only [DInvolves] at hop
    refine ⟨?_, fun e => by simp only [dStep, dDeliver_grants]; exact hg e⟩
    exact dDeliver_keeps namer s m d P hown hop (fun a _ => hg a)

/-! ### Batch confirmations -/

/-- a stored confirmation is backed: it names the key the validator it is filed under registered,
    and carries that key's signature over exactly the batch it confirms -/
def CBacked (regKey : Addr → Option Nat) (c : CConfirm) : Prop :=
  regKey c.orch = some c.key ∧ c.sigKey = c.key ∧ c.sigItem = c.batch

/-- the only way the handler stores something: the new confirmation is appended, is filed under
    the attempt's orchestrator and is backed -/
theorem cHandle_some (regKey : Addr → Option Nat) (s s' : CState) (a : CAttempt)
    (h : cHandle regKey s a = some s') :
    ∃ c, s'.confirms = s.confirms ++ [c] ∧ s'.grants = s.grants ∧ c.orch = a.orch ∧ c.batch = a.batch
      ∧ c.sigKey = a.sigKey ∧ c.sigItem = a.sigItem ∧ CBacked regKey c := by
  unfold cHandle at h
  split at h
  · simp at h
  · split at h
    · simp at h
    · rename_i hreg
      split at h
      · simp at h
      · rename_i hk
        split at h
        · simp at h
        · rename_i hi
          split at h
          · simp at h
          · split at h
            · simp at h
            · simp at h
              subst h
              refine ⟨⟨a.batch, a.orch, a.ethSigner, a.sigKey, a.sigItem⟩, rfl, rfl, rfl, rfl, rfl, rfl, ?_⟩
              refine ⟨?_, ?_, ?_⟩
              · simpa using hreg
              · simpa using hk
              · simpa using hi

theorem cDeliver_cases (regKey : Addr → Option Nat) (s : CState) (a : CAttempt) :
    cDeliver regKey s a = s ∨ (cAnteOk a s.grants = true ∧ ∃ s', cHandle regKey s a = some s' ∧ cDeliver regKey s a = s') := by
  unfold cDeliver
  split
  · exact Or.inl rfl
  · rename_i hante
    split
    · exact Or.inl rfl
    · rename_i s' hs'
      exact Or.inr ⟨by simpa using hante, s', hs', rfl⟩

theorem cDeliver_prefix (regKey : Addr → Option Nat) (s : CState) (a : CAttempt) :
    ∃ l, (cDeliver regKey s a).confirms = s.confirms ++ l := by
  cases cDeliver_cases regKey s a with
  | inl h => exact ⟨[], by rw [h]; simp⟩
  | inr h =>
    obtain ⟨_, s', hs', hd⟩ := h
    obtain ⟨c, hc, _⟩ := cHandle_some regKey s s' a hs'
    exact ⟨[c], by rw [hd, hc]⟩

theorem cDeliver_backed (regKey : Addr → Option Nat) (s : CState) (a : CAttempt)
    (hinv : ∀ c ∈ s.confirms, CBacked regKey c) : ∀ c ∈ (cDeliver regKey s a).confirms, CBacked regKey c := by
  intro c hc
  cases cDeliver_cases regKey s a with
  | inl h => rw [h] at hc; exact hinv c hc
  | inr h =>
    obtain ⟨_, s', hs', hd⟩ := h
    obtain ⟨c', hc', _, _, _, _, _, hbk⟩ := cHandle_some regKey s s' a hs'
    rw [hd, hc'] at hc
    cases List.mem_append.1 hc with
    | inl h => exact hinv c h
    | inr h =>
      have : c = c' := by simpa using h
      subst this; exact hbk

end Lemmas

/- ## Property theorems -/

/-- Clause "changes only through a transaction signed by that principal or by an address holding a
fee grant from it", for every handler that writes in the creator's name: if delivering `m`
changes the slot of `B` then `B` is the creator AND `B` signed or granted an allowance to a
signer.  This is exactly what `VerifyAuthorisedSignatureDecorator` implies — no more (any fee
grant, of any size or message filter, delegates everything). -/
theorem write_authorised (cfg : Cfg) (s : State) (m : Msg) (B : Addr)
    (hr : cfg.ruleOf m.typ = some .actsFor)
    (h : (deliver cfg s m).slots B ≠ s.slots B) :
    B = m.creator ∧ (B ∈ m.signers ∨ ∃ a ∈ m.signers, s.grants B a = true) := by
  have := deliver_changed cfg s m B h
  simpa [Authorises, hr] using this

/-- Clause "A transaction authorised by account A never adds, alters or removes anything
attributed to a different principal B": a transaction whose signers do not include `B` and hold no
grant from `B` leaves `B`'s slot alone, whatever creator and identity fields it claims. -/
theorem no_cross_principal_write (cfg : Cfg) (s : State) (m : Msg) (B : Addr)
    (hr : cfg.ruleOf m.typ = some .actsFor)
    (hB : B ∉ m.signers) (hg : ∀ a ∈ m.signers, s.grants B a = false) :
    (deliver cfg s m).slots B = s.slots B := by
  apply Classical.byContradiction
  intro hne
  obtain ⟨_, h2⟩ := write_authorised cfg s m B hr hne
  cases h2 with
  | inl h => exact hB h
  | inr h => obtain ⟨a, ha, hga⟩ := h; simp [hg a ha] at hga

/-- Clause "or by the governance authority": an authority-only handler changes state only when
the creator is the governance authority (and then only the authority's own slot: the settings). -/
theorem authority_only (cfg : Cfg) (s : State) (m : Msg) (X : Addr)
    (hr : cfg.ruleOf m.typ = some .authorityOnly)
    (h : (deliver cfg s m).slots X ≠ s.slots X) :
    X = cfg.authority ∧ m.creator = cfg.authority ∧ anteOk m s.grants = true := by
  have := deliver_changed cfg s m X h
  simpa [Authorises, hr] using this

/-- Clause "(or, for batch confirmations, carrying the validator's own external-chain signature
over the exact item)": a signature-proven handler changes only the slot of the principal named
by the proven field, and only when that signature verifies. -/
theorem sig_proven_only (cfg : Cfg) (s : State) (m : Msg) (X : Addr) (f : Nat)
    (hr : cfg.ruleOf m.typ = some (.sigProven f))
    (h : (deliver cfg s m).slots X ≠ s.slots X) :
    X = m.idField f ∧ cfg.sigOk m f = true := by
  have := deliver_changed cfg s m X h
  simpa [Authorises, hr] using this

/-- The whole property over ALL histories of grants, revocations, single- and MULTI-message
transactions (`Op.mtx`: the history version of `multi_msg_each_checked`): a principal
that starts without outstanding fee grants and is not involved in any operation (never signs,
never grants, is never named by a verifying signature-proven field, is not the authority of an
authority-only message) keeps its slot — unless an `open_` message type occurs, about which
nothing is claimed. -/
theorem history_no_cross_principal_write (cfg : Cfg) (B : Addr) (ops : List Op) :
    ∀ s : State, (∀ e, s.grants B e = false) → (∀ op ∈ ops, ¬ Involves cfg B op) →
      (run cfg s ops).slots B = s.slots B := by
  induction ops with
  | nil => intro s _ _; rfl
  | cons op rest ih =>
    intro s hg hops
    have h1 := step_keeps cfg s op B hg (hops op (by simp))
    have h2 := ih (step cfg s op) h1.2 (fun o ho => hops o (by simp [ho]))
    simp only [run, List.foldl_cons] at h2 ⊢
    rw [h2, h1.1]

/-- Multi-message transactions, clause "signed by that principal or by an address holding a fee
grant FROM IT": an accepted transaction has passed the decorator's check for EVERY one of its
messages individually — each creator signed, or granted an allowance to a signer, itself.  A
grant held from the creator of one message does not carry over to another message. -/
theorem multi_msg_each_checked (cfg : Cfg) (s : State) (msgs : List Msg)
    (h : txAccepted cfg s msgs = true) : ∀ m ∈ msgs, anteOk m s.grants = true := by
  unfold txAccepted anteOkTx at h
  have h1 : (msgs.all fun m => anteOk m s.grants) = true := by
    cases hh : (msgs.all fun m => anteOk m s.grants) <;> simp [hh] at h ⊢
  exact fun m hm => (List.all_eq_true.1 h1) m hm

/-- …and a transaction that is not accepted changes nothing at all (atomicity), while an accepted
one changes `B`'s slot only through a message that writes for `B` and was itself let through. -/
theorem multi_msg_changed (cfg : Cfg) (s : State) (msgs : List Msg) (B : Addr)
    (hne : (deliverTx cfg s msgs).slots B ≠ s.slots B) :
    txAccepted cfg s msgs = true ∧ ∃ m ∈ msgs, Writes cfg B m ∧ anteOk m s.grants = true := by
  unfold deliverTx at hne
  split at hne
  · exact absurd rfl hne
  · rename_i hante
    have hall : anteOkTx msgs s.grants = true := by simpa using hante
    split at hne
    · exact absurd rfl hne
    · rename_i s' hs'
      obtain ⟨m, hm, hw⟩ := handleAll_changed cfg B msgs s s' hs' hne
      refine ⟨by simp [txAccepted, hall, hs'], m, hm, hw, ?_⟩
      unfold anteOkTx at hall
      exact (List.all_eq_true.1 hall) m hm

/-- The attack the per-message check rules out: in a transaction signed by signers none of which
is `B` or holds a grant from `B`, no message in `B`'s name (nor any other `actsFor` message) can
change `B`'s slot — whatever grants the signers hold from the creators of the OTHER messages. -/
theorem multi_msg_no_cross_principal_write (cfg : Cfg) (s : State) (msgs : List Msg) (B : Addr)
    (hr : ∀ m ∈ msgs, cfg.ruleOf m.typ = some .actsFor)
    (hB : ∀ m ∈ msgs, B ∉ m.signers) (hg : ∀ m ∈ msgs, ∀ a ∈ m.signers, s.grants B a = false) :
    (deliverTx cfg s msgs).slots B = s.slots B := by
  apply Classical.byContradiction
  intro hne
  obtain ⟨_, m, hm, hw, hante⟩ := multi_msg_changed cfg s msgs B hne
  simp only [Writes, hr m hm] at hw
  subst hw
  cases (anteOk_iff m s.grants).1 hante with
  | inl h => exact hB m hm h
  | inr h => obtain ⟨a, ha, hga⟩ := h; simp [hg m hm a ha] at hga


/-! ### Ownership that can be handed over (token-factory denoms) -/

/-- Clause "a user's … token denoms … change only through a transaction signed by that principal
or by an address holding a fee grant from it", where "that principal" is the denom's CURRENT admin
(`dOwner`; before the denom exists: the account it is named after): if delivering `m` changes
anything kept for denom `d` (existence, admin, supply / metadata / bridge binding) then `m` acts on
`d`, its creator IS the owner, and the owner signed or granted an allowance to a signer.  The
address embedded in the denom's name plays no role once the denom exists. -/
theorem denom_change_authorised (namer : Nat → Addr) (s : DState) (m : DMsg) (d : Nat)
    (h : dView (dDeliver namer s m) d ≠ dView s d) :
    d = m.denom ∧ dOwner namer s d = some m.creator
      ∧ (m.creator ∈ m.signers ∨ ∃ a ∈ m.signers, s.grants m.creator a = true) :=
  dDeliver_changed namer s m d h

/-- Clause "a transaction authorised by account A never adds, alters or removes anything
attributed to a different principal B", for denoms: whatever a transaction names as creator and
whatever it tries (ChangeAdmin, Mint, Burn, SetDenomMetadata, bridge binding, re-creation), if the
denom's owner `P` is not among its signers and granted them nothing, the denom is untouched. -/
theorem denom_no_cross_principal_write (namer : Nat → Addr) (s : DState) (m : DMsg) (d : Nat) (P : Addr)
    (hown : dOwner namer s d = some P) (hP : P ∉ m.signers) (hg : ∀ a ∈ m.signers, s.grants P a = false) :
    dView (dDeliver namer s m) d = dView s d :=
  dDeliver_keeps namer s m d P hown hP hg

/-- A denom whose admin renounced (`ChangeAdmin` to "") belongs to nobody: no transaction of
anybody changes it any more — not even one by the account it is named after. -/
theorem denom_renounced_frozen (namer : Nat → Addr) (s : DState) (m : DMsg) (d : Nat)
    (hown : dOwner namer s d = none) : dView (dDeliver namer s m) d = dView s d := by
  apply Classical.byContradiction
  intro hne
  obtain ⟨_, h2, _⟩ := dDeliver_changed namer s m d hne
  rw [hown] at h2
  simp at h2

/-- The same over ALL histories of grants, revocations and denom messages: while the owner `P` of
`d` does not sign and grants nothing, nothing kept for `d` changes (so `P` stays the owner). -/
theorem denom_history_owner_only (namer : Nat → Addr) (d : Nat) (P : Addr) (ops : List DOp) :
    ∀ s : DState, dOwner namer s d = some P → (∀ e, s.grants P e = false) →
      (∀ op ∈ ops, ¬ DInvolves P op) → dView (dRun namer s ops) d = dView s d := by
  induction ops with
  | nil => intro s _ _ _; rfl
  | cons op rest ih =>
    intro s hown hg hops
    have h1 := dStep_keeps namer s op d P hown hg (hops op (by simp))
    have hown' : dOwner namer (dStep namer s op) d = some P := by
      rw [dOwner_of_view namer s _ d h1.1]; exact hown
    have h2 := ih (dStep namer s op) hown' h1.2 (fun o ho => hops o (by simp [ho]))
    simp only [dRun, List.foldl_cons] at h2 ⊢
    rw [h2, h1.1]

/-- An accepted `ChangeAdmin` was sent in the name of the then owner and makes exactly the named
account (or nobody) the owner. -/
theorem handover_moves_ownership (namer : Nat → Addr) (s : DState) (m : DMsg) (b : Option Addr)
    (hact : m.act = .changeAdmin b) (hacc : dAccepted namer s m = true) :
    dOwner namer s m.denom = some m.creator ∧ dOwner namer (dDeliver namer s m) m.denom = b := by
  unfold dAccepted at hacc
  have hante : dAnteOk m s.grants = true := by
    cases h : dAnteOk m s.grants <;> simp [h] at hacc ⊢
  have hsome : (dHandle namer s m).isSome = true := by
    cases h : (dHandle namer s m).isSome <;> simp [h] at hacc ⊢
  unfold dDeliver
  simp only [hante]
  unfold dHandle at hsome ⊢
  simp only [hact] at hsome ⊢
  by_cases hc : s.den m.denom = some (some m.creator)
  · simp [hc, dOwner, setAt]
  · simp [hc] at hsome

/-- After a hand-over to `b`, NO later history in which `b` neither signs nor grants changes the
denom — in particular nothing the former admin or the account the denom is named after signs
(e.g. a bridge binding for "its" denom). -/
theorem former_admin_locked_out (namer : Nat → Addr) (s : DState) (m : DMsg) (b : Addr) (ops : List DOp)
    (hact : m.act = .changeAdmin (some b)) (hacc : dAccepted namer s m = true)
    (hg : ∀ e, s.grants b e = false) (hops : ∀ op ∈ ops, ¬ DInvolves b op) :
    dView (dRun namer (dDeliver namer s m) ops) m.denom = dView (dDeliver namer s m) m.denom := by
  have h := (handover_moves_ownership namer s m (some b) hact hacc).2
  exact denom_history_owner_only namer m.denom b ops _ h
    (fun e => by rw [dDeliver_grants]; exact hg e) hops

/-! ### Batch confirmations: filed under the validator whose key signed -/

/-- Clause "(or, for batch confirmations, carrying the validator's own external-chain signature
over the exact item)", concretely: a confirmation that appears through an attempt `a` is filed
under `a`'s ORCHESTRATOR, for `a`'s batch, and `a` carries a signature made by the key that
orchestrator registered, over exactly that batch (and passed the decorator).  Who sent it does not
matter — and cannot help. -/
theorem confirm_appears_only_backed (regKey : Addr → Option Nat) (s : CState) (a : CAttempt) (c : CConfirm)
    (hin : c ∈ (cDeliver regKey s a).confirms) (hnew : c ∉ s.confirms) :
    c.orch = a.orch ∧ c.batch = a.batch ∧ regKey a.orch = some a.sigKey ∧ a.sigItem = a.batch
      ∧ (a.creator ∈ a.signers ∨ ∃ x ∈ a.signers, s.grants a.creator x = true) := by
  cases cDeliver_cases regKey s a with
  | inl h => rw [h] at hin; exact absurd hin hnew
  | inr h =>
    obtain ⟨hante, s', hs', hd⟩ := h
    obtain ⟨c', hc', _, ho, hb, hsk, hsi, hbk⟩ := cHandle_some regKey s s' a hs'
    rw [hd, hc'] at hin
    have : c = c' := by
      cases List.mem_append.1 hin with
      | inl h => exact absurd h hnew
      | inr h => simpa using h
    subst this
    obtain ⟨h1, h2, h3⟩ := hbk
    refine ⟨ho, hb, ?_, ?_, ?_⟩
    · rw [← ho, h1, ← hsk, h2]
    · rw [← hsi, h3, hb]
    · simpa [cAnteOk, List.any_eq_true] using hante

/-- "A transaction authorised by account A never adds … anything attributed to a different
principal B", for confirmations: an attempt whose signature was not made by the key registered by
the validator it names as orchestrator (e.g. A's own key and genuine signature, orchestrator B), or
not over exactly the batch, stores nothing — whoever signs the transaction, whatever `eth_signer`
says. -/
theorem no_confirm_in_anothers_name (regKey : Addr → Option Nat) (s : CState) (a : CAttempt)
    (h : regKey a.orch ≠ some a.sigKey ∨ a.sigItem ≠ a.batch) :
    (cDeliver regKey s a).confirms = s.confirms := by
  cases cDeliver_cases regKey s a with
  | inl h' => rw [h']
  | inr h' =>
    obtain ⟨_, s', hs', _⟩ := h'
    exfalso
    unfold cHandle at hs'
    split at hs'
    · simp at hs'
    · split at hs'
      · simp at hs'
      · rename_i hreg
        split at hs'
        · simp at hs'
        · rename_i hk
          split at hs'
          · simp at hs'
          · rename_i hi
            have hreg' : regKey a.orch = some a.ethSigner := by simpa using hreg
            have hk' : a.sigKey = a.ethSigner := by simpa using hk
            have hi' : a.sigItem = a.batch := by simpa using hi
            cases h with
            | inl h => exact h (by rw [hreg', hk'])
            | inr h => exact h hi'

/-- Over ALL histories of confirmation attempts (any senders, orchestrators, keys, items, replays):
every confirmation the chain holds names the key registered by the validator it is filed under and
carries that key's signature over exactly its batch. -/
theorem confirms_always_backed (regKey : Addr → Option Nat) (as : List CAttempt) :
    ∀ s : CState, (∀ c ∈ s.confirms, CBacked regKey c) → ∀ c ∈ (cRun regKey s as).confirms, CBacked regKey c := by
  induction as with
  | nil => intro s h; exact h
  | cons a rest ih =>
    intro s h
    simp only [cRun, List.foldl_cons]
    exact ih (cDeliver regKey s a) (cDeliver_backed regKey s a h)

/-- …and confirmations once stored are never altered or removed by later attempts (a validator's
later own confirmation cannot be pre-empted by an entry it did not sign, see above, nor its stored
one overwritten). -/
theorem confirms_never_altered (regKey : Addr → Option Nat) (as : List CAttempt) :
    ∀ s : CState, ∃ l, (cRun regKey s as).confirms = s.confirms ++ l := by
  induction as with
  | nil => intro s; exact ⟨[], by simp [cRun]⟩
  | cons a rest ih =>
    intro s
    obtain ⟨l1, h1⟩ := cDeliver_prefix regKey s a
    obtain ⟨l2, h2⟩ := ih (cDeliver regKey s a)
    refine ⟨l1 ++ l2, ?_⟩
    simp only [cRun, List.foldl_cons] at h2 ⊢
    rw [h2, h1, List.append_assoc]

/-! ### The tables against the source (`Gen/Auth.lean`) -/

open Paloma.Gen.Auth in
/-- name used by the tables and the Go zoo -/
def hname (h : Handler) : String := h.module ++ "." ++ h.method

open Paloma.Gen.Auth in
/-- rule compatible with what the extractor saw in the handler -/
def ruleCompat (h : Handler) : Bool :=
  match ruleOf (hname h) with
  | some .actsFor =>
    if creatorCheckedInValidateBasic.contains (hname h) then h.vbUsesCreator else h.usesCreator
  | some .authorityOnly => h.authorityCheck
  | some (.sigProven _) => (sigProvenField.find? (·.1 == hname h)).any (fun p => h.reads.contains p.2)
  | some (.open_ _) => true
  | none => false

open Paloma.Gen.Auth in
/-- every string / bytes field of the request has a role, compatible with the reads -/
def rolesCompat (h : Handler) : Bool :=
  h.fields.all fun f =>
    match roleOf (hname h) f.1 with
    | none => false
    | some .equatedWithCreator =>
      (h.reads.contains f.1 && h.usesCreator) || (h.vbReads.contains f.1 && h.vbUsesCreator)
    | some .authorityField => h.authorityCheck && h.reads.contains f.1
    | some .sigProven => h.reads.contains f.1
    | some _ => true

open Paloma.Gen.Auth in
/-- `table_sound`, part 1: handlers and registered services coincide, and every one of them is
classified (a new RPC makes this fail). -/
theorem table_covers :
    (handlers.map fun h => (h.module, h.method)) = rpcs
    ∧ handlers.all (fun h => (ruleOf (hname h)).isSome) = true
    ∧ rules.all (fun r => handlers.any (fun h => hname h == r.1)) = true
    ∧ rules.length = handlers.length := by
  decide

open Paloma.Gen.Auth in
/-- `table_sound`, part 2: every rule is compatible with the handler's source: `actsFor` ⇒ the
handler (or, where stated, its ValidateBasic) reads the creator; `authorityOnly` ⇒ it compares
against the keeper's authority / calls the governance guard; `sigProven` ⇒ it reads the proven
field.  A handler that stops reading the creator makes this fail. -/
theorem table_sound : handlers.all ruleCompat = true := by
  decide

open Paloma.Gen.Auth in
/-- `table_sound`, part 3: every string / bytes field of every request type has a hand-written
role and `equatedWithCreator` / `authorityField` / `sigProven` roles are backed by reads of both
the field and the thing it is compared with.  A new field makes this fail. -/
theorem roles_sound :
    handlers.all rolesCompat = true
    ∧ roles.all (fun r => handlers.any (fun h => hname h == r.1 && h.fields.any (·.1 == r.2.1))) = true := by
  decide

/-- the `authoritySigned` / `creatorCheckedInValidateBasic` / `sigProvenField` side tables only
    name classified types of the right kind -/
theorem side_tables_sound :
    authoritySigned.all (fun t => ruleOf t == some .authorityOnly) = true
    ∧ creatorCheckedInValidateBasic.all (fun t => ruleOf t == some .actsFor) = true
    ∧ sigProvenField.all (fun p => ruleOf p.1 == some (.sigProven 0) && roleOf p.1 p.2 == some .sigProven) = true := by
  decide

/-! ### Non-vacuity -/

section Examples

def exCfg : Cfg where
  authority := 99
  ruleOf := ruleOf
  sigOk := fun m f => m.idField f == 7
  handlerOk := fun _ _ => true
  openEffect := fun _ s => s

def exState : State where
  slots := fun _ => 0
  grants := fun g e => g == 2 && e == 1

def exMsg (typ : String) (signer creator field : Addr) : Msg :=
  { typ := typ, signers := [signer], creator := creator, idField := fun _ => field }

/-- A signs for itself: its slot changes -/
example : (deliver exCfg exState (exMsg "valset.KeepAlive" 1 1 0)).slots 1 = 1 := by decide
/-- A signs with creator = B = 3 and no grant: rejected, nothing changes -/
example : (deliver exCfg exState (exMsg "valset.KeepAlive" 1 3 0)).slots 3 = 0 := by decide
/-- A signs with creator = B = 2 and a grant 2 → 1: accepted, B's slot changes -/
example : (deliver exCfg exState (exMsg "valset.KeepAlive" 1 2 0)).slots 2 = 1 := by decide
/-- governance message from a user: nothing; from the authority: the settings change -/
example : (deliver exCfg exState (exMsg "skyway.OverrideNonceProposal" 1 1 0)).slots 99 = 0 := by decide
example : (deliver exCfg exState (exMsg "skyway.OverrideNonceProposal" 99 99 0)).slots 99 = 1 := by decide
/-- batch confirmation naming validator 7 with 7's signature (sigOk), sent by 1: 7's slot changes;
    naming 8 (no valid signature): nothing -/
example : (deliver exCfg exState (exMsg "skyway.ConfirmBatch" 1 1 7)).slots 7 = 1 := by decide
example : (deliver exCfg exState (exMsg "skyway.ConfirmBatch" 1 1 8)).slots 8 = 0 := by decide
/-- the history theorem's hypotheses are satisfiable on a non-trivial history -/
example : (run exCfg exState [.grant 4 1, .tx (exMsg "valset.KeepAlive" 1 4 0), .tx (exMsg "tokenfactory.Mint" 1 3 3),
    .revoke 4 1, .tx (exMsg "valset.KeepAlive" 1 4 0)]).slots 4 = 1 := by decide
example : (run exCfg exState [.grant 4 1, .tx (exMsg "valset.KeepAlive" 1 4 0), .tx (exMsg "tokenfactory.Mint" 1 3 3),
    .revoke 4 1, .tx (exMsg "valset.KeepAlive" 1 4 0)]).slots 3 = 0 := by decide

/-- the attack order: S = 1 holds a grant from G = 2 but none from B = 3; [creator G, creator B] and
    its reverse are rejected as a whole (G's slot does not change either), [G, S] is accepted -/
example : (deliverTx exCfg exState [exMsg "valset.KeepAlive" 1 2 0, exMsg "valset.KeepAlive" 1 3 0]).slots 3 = 0 := by decide
example : (deliverTx exCfg exState [exMsg "valset.KeepAlive" 1 2 0, exMsg "valset.KeepAlive" 1 3 0]).slots 2 = 0 := by decide
example : (deliverTx exCfg exState [exMsg "valset.KeepAlive" 1 3 0, exMsg "valset.KeepAlive" 1 2 0]).slots 2 = 0 := by decide
example : txAccepted exCfg exState [exMsg "valset.KeepAlive" 1 2 0, exMsg "valset.KeepAlive" 1 3 0] = false := by decide
example : (deliverTx exCfg exState [exMsg "valset.KeepAlive" 1 2 0, exMsg "tokenfactory.Mint" 1 1 0]).slots 2 = 1 := by decide
example : (deliverTx exCfg exState [exMsg "valset.KeepAlive" 1 2 0, exMsg "tokenfactory.Mint" 1 1 0]).slots 1 = 1 := by decide
/-- atomicity: a governance message from a user at the end reverts the first message too -/
example : (deliverTx exCfg exState [exMsg "valset.KeepAlive" 1 1 0, exMsg "skyway.OverrideNonceProposal" 1 1 0]).slots 1 = 0 := by decide
example : (run exCfg exState [.mtx [exMsg "valset.KeepAlive" 1 2 0, exMsg "valset.KeepAlive" 1 3 0], .grant 3 1,
    .mtx [exMsg "valset.KeepAlive" 1 2 0, exMsg "valset.KeepAlive" 1 3 0]]).slots 3 = 1 := by decide

/-! hand-over histories: denom 1 is named after account 10 -/
def exNamer : Nat → Addr := fun _ => 10
def exD (signer creator : Addr) (act : DAct) : DOp := .msg { signers := [signer], creator := creator, denom := 1, act := act }

/-- 10 creates, hands over to 22; then 10 (former admin AND the account in the name) is refused a
    write (e.g. the bridge binding) and a second hand-over, 22 is not -/
example : dView (dRun exNamer dInit [exD 10 10 .create, exD 10 10 (.changeAdmin (some 22)), exD 10 10 .write,
    exD 10 10 (.changeAdmin (some 10))]) 1 = (some (some 22), 0) := by decide
example : dView (dRun exNamer dInit [exD 10 10 .create, exD 10 10 (.changeAdmin (some 22)), exD 22 22 .write]) 1
    = (some (some 22), 1) := by decide
/-- in the admin's name without a grant: refused; with a grant 22 → 11: accepted -/
example : dView (dRun exNamer dInit [exD 10 10 .create, exD 10 10 (.changeAdmin (some 22)), exD 11 22 .write]) 1
    = (some (some 22), 0) := by decide
example : dView (dRun exNamer dInit [exD 10 10 .create, exD 10 10 (.changeAdmin (some 22)), .grant 22 11, exD 11 22 .write]) 1
    = (some (some 22), 1) := by decide
/-- renounced: frozen, also for the namesake; nobody but the namesake can create -/
example : dView (dRun exNamer dInit [exD 10 10 .create, exD 10 10 (.changeAdmin none), exD 10 10 .write, exD 10 10 .create]) 1
    = (some none, 0) := by decide
example : dView (dRun exNamer dInit [exD 11 11 .create]) 1 = (none, 0) := by decide
/-- the hypotheses of `former_admin_locked_out` are satisfiable -/
example : dAccepted exNamer (dRun exNamer dInit [exD 10 10 .create])
    { signers := [10], creator := 10, denom := 1, act := .changeAdmin (some 22) } = true := by decide

/-! confirmations: validators 20, 21 registered keys 20, 21; batch 1 -/
def exReg : Addr → Option Nat := fun v => if v = 20 then some 20 else if v = 21 then some 21 else none
def exC0 : CState := { confirms := [], grants := fun _ _ => false }
def exAtt (sender orch ethSigner sigKey sigItem : Nat) : CAttempt :=
  { signers := [sender], creator := sender, batchExists := true, batch := 1, orch := orch, ethSigner := ethSigner,
    sigKey := sigKey, sigItem := sigItem }

/-- honest; relayed by user 10 with 21's own signature: both stored -/
example : (cRun exReg exC0 [exAtt 20 20 20 20 1, exAtt 10 21 21 21 1]).confirms
    = [⟨1, 20, 20, 20, 1⟩, ⟨1, 21, 21, 21, 1⟩] := by decide
/-- validator 20 files its own key and genuine signature under 21; 21's key named but 20's
    signature; 21's signature over another batch: nothing stored, and 21 can still confirm -/
example : (cRun exReg exC0 [exAtt 20 21 20 20 1, exAtt 20 21 21 20 1, exAtt 20 21 21 21 2, exAtt 21 21 21 21 1]).confirms
    = [⟨1, 21, 21, 21, 1⟩] := by decide
/-- replay: once per validator -/
example : (cRun exReg exC0 [exAtt 20 20 20 20 1, exAtt 21 20 20 20 1]).confirms = [⟨1, 20, 20, 20, 1⟩] := by decide

end Examples

end Paloma.Auth
