import PalomaModel.Model.Auth
import PalomaModel.Gen.Auth

/-!
# C03 — state kept on behalf of a principal changes only with that principal's authorisation

"State that Paloma keeps on behalf of a principal … changes only through a transaction signed by
that principal or by an address holding a fee grant from it (or, for batch confirmations,
carrying the validator's own external-chain signature over the exact item), or by the governance
authority.  A transaction authorised by account A never adds, alters or removes anything
attributed to a different principal B."  Quantifier: "for every message type the chain accepts,
every identity-bearing field inside it, and every choice of signer, claimed creator and named
principal".

How the clauses are decided:

* The delivery model (`Model/Auth.lean`: SDK signature check → authorisation decorator, message by
  message → handlers, atomically) INTERPRETS a per-handler semantics `Sem`.  `genSem` computes that
  semantics for each of the 41 handlers from facts the extractor reads off the Go source
  (`Gen/Auth.lean`): use of the creator, comparisons of request fields with the creator / the
  keeper's authority (unconditional, erroring on mismatch, in the handler, a helper or
  ValidateBasic), unconditional overwrites, external-signature verification, the identity-like
  fields (address-typed, parsed as address, named like one), the proto signer option.
  `handlers_safe` (decide) shows every handler's semantics safe; `change_needs_authorisation`
  derives the property for ALL handlers from safety — the table → step link is a theorem.
* What is kept for a principal is a LIST of records and handlers apply arbitrary functions to it,
  so "adds", "alters", "removes" are distinguishable: `no_cross_principal_alteration` (old records
  stay in place), `no_cross_principal_write_partial` + the two reachable exceptions of "never adds"
  (`adds_clause_fails_for_target`, `adds_clause_fails_for_light_node_migration`).
* Histories: `history_change_attributed`, `grant_provenance`, `history_never_altered`,
  `history_untouched_partial`, `history_passive_unchanged` — by induction over `run`.
* The hand-written tables the driver's verdicts use (`rules`, `roles`, `mayTouch`, `sigCheck`,
  `authorityOkOf`) are tied to the delivery model: `rules_match_source`, `roles_match_source`,
  `side_tables_sound`, `mayTouch_sound`, `sigCheck_sound`.
* The denom and batch-confirmation models are related to the generic one by the common predicate
  `Justified` (`denom_change_justified`, `confirm_change_justified`); key registration is part of
  the confirmation model (`key_provenance`, `confirm_provenance`, `registered_strings_injective`,
  and the reachable failure of account-level injectivity `registered_accounts_not_injective`).

External ASSUMPTIONS (named in the docstrings where they enter): SDK signature verification
(`Tx.signers` signed), ECDSA recovery (`sigKey`), x/feegrant (`Op.grant` is signed by the granter),
x/gov (`Op.gov` only for passed proposals), baseapp runs ValidateBasic before the ante chain, and
the trusted readings `notPrincipal` / `target` roles / the footprint of the two `open` handlers.
-/

namespace Paloma.Auth

section Lemmas

/-! ### who authorised a transaction -/

/-- `P` signed the transaction, or one of its signers holds a fee allowance granted by `P` -/
def SignedOrGranted (grants : Addr → Addr → Bool) (signers : List Addr) (P : Addr) : Prop :=
  P ∈ signers ∨ ∃ a ∈ signers, grants P a = true

/-- Message `m` of a transaction signed by `signers` is entitled to change what the chain keeps
for `B` — the three ways the property statement names, independent of any table:
1. "signed by that principal or by an address holding a fee grant from it": `B` is the creator;
2. "carrying the validator's own external-chain signature over the exact item": an identity field
   names `B`, and the signature in the message was made by the key `B` registered over exactly the
   item the message is about;
3. "or by the governance authority": the message is sent in the authority's name and the
   authority signed (or a grantee of it). -/
def Justified (authority : Addr) (regKey : Addr → Option Nat) (grants : Addr → Addr → Bool)
    (signers : List Addr) (B : Addr) (m : Msg) : Prop :=
  (B = m.creator ∧ SignedOrGranted grants signers B)
  ∨ (∃ f, m.field f = some B ∧ regKey B = some m.sigKey ∧ m.sigItem = m.item)
  ∨ ((m.creator = authority ∨ m.field "Authority" = some authority) ∧ SignedOrGranted grants signers authority)

/-- The only other way something attributed to `B` appears: `m` NAMES `B` as a beneficiary (a
`target` field), or `B` is a pending grantee of the light-node feegranter and `m` is the migration
that registers all of them.  Records are only ever ADDED this way. -/
def NamedBy (env : Env) (grants : Addr → Addr → Bool) (B : Addr) (m : Msg) : Prop :=
  ∃ sem, env.semOf m.typ = some sem ∧
    ((∃ f ∈ sem.targets, m.field f = some B) ∨ (sem.stateKeyed = true ∧ grants env.lightFeegranter B = true))

/-- static soundness conditions on a handler's semantics (decidable; checked for every handler of
the generated table in `handlers_safe`):
* every identity field that keys a write is compared with the creator or signature-proven — unless
  the handler is governance gated;
* a message type signed by its `Authority` field is gated on that field;
* a governance-gated, metadata-signed type ties `metadata.creator` to the authority. -/
def Sem.safe (typ : String) (sem : Sem) : Bool :=
  (isGov sem || sem.keyed.all (fun f => sem.eqCreator.contains f || sem.sigFields.contains f))
  && (!authoritySigned.contains typ || sem.eqAuthority.contains "Authority")
  && (!isGov sem || authoritySigned.contains typ || sem.creatorIsAuthority
      || sem.eqAuthority.any (fun f => sem.eqCreator.contains f))

def SafeEnv (env : Env) : Prop := ∀ typ sem, env.semOf typ = some sem → Sem.safe typ sem = true

theorem anteOk_iff (m : Msg) (g : Addr → Addr → Bool) :
    anteOk m g = true ↔ SignedOrGranted g m.signers m.creator := by
  simp [anteOk, SignedOrGranted, List.any_eq_true]

theorem SignedOrGranted.mono {g : Addr → Addr → Bool} {l l' : List Addr} {P : Addr}
    (hsub : ∀ a ∈ l, a ∈ l') (h : SignedOrGranted g l P) : SignedOrGranted g l' P := by
  cases h with
  | inl h => exact Or.inl (hsub P h)
  | inr h => obtain ⟨a, ha, hg⟩ := h; exact Or.inr ⟨a, hsub a ha, hg⟩

/-- the SDK signature check: everybody a message declares as signer signed the transaction -/
theorem sigCheckTx_mem {S : List Addr} {decl : List (List Addr)} (h : sigCheckTx S decl = true) :
    ∀ d ∈ decl, ∀ a ∈ d, a ∈ S := by
  intro d hd a ha
  have hS : S = decl.flatten.eraseDups := by simpa [sigCheckTx] using h
  rw [hS, List.mem_eraseDups]
  exact List.mem_flatten.2 ⟨d, hd, ha⟩

theorem declared_meta {m : Msg} (h : authoritySigned.contains m.typ = false) : declared m = m.signers := by
  simp only [declared, declaredSigners, h, Bool.false_eq_true, if_false]

theorem declared_authority {m : Msg} {a : Addr} (h : authoritySigned.contains m.typ = true)
    (hf : m.field "Authority" = some a) : declared m = [a] := by
  simp only [declared, declaredSigners, h, if_true, hf, Option.toList]

/-! ### handlers -/

theorem handle_some {env : Env} {s s' : State} {m : Msg} (h : handle env s m = some s') :
    ∃ sem, env.semOf m.typ = some sem ∧ env.handlerOk s m = true ∧ guardsOk env m sem = true
      ∧ s' = { s with slots := newSlots env s m sem } := by
  unfold handle at h
  split at h
  · simp at h
  · rename_i sem hsem
    split at h
    · rename_i hc
      simp only [Option.some.injEq] at h
      have hc' : env.handlerOk s m = true ∧ guardsOk env m sem = true := by
        simpa [Bool.and_eq_true] using hc
      exact ⟨sem, hsem, hc'.1, hc'.2, h.symm⟩
    · simp at h

theorem guardsOk_eqCreator {env : Env} {m : Msg} {sem : Sem} (h : guardsOk env m sem = true) :
    ∀ f ∈ sem.eqCreator, m.field f = some m.creator := by
  intro f hf
  simp only [guardsOk, Bool.and_eq_true, List.all_eq_true] at h
  simpa using h.1.1.1.1 f hf

theorem guardsOk_eqAuthority {env : Env} {m : Msg} {sem : Sem} (h : guardsOk env m sem = true) :
    ∀ f ∈ sem.eqAuthority, m.field f = some env.authority := by
  intro f hf
  simp only [guardsOk, Bool.and_eq_true, List.all_eq_true] at h
  simpa using h.1.1.1.2 f hf

theorem guardsOk_creatorIsAuthority {env : Env} {m : Msg} {sem : Sem} (h : guardsOk env m sem = true)
    (hc : sem.creatorIsAuthority = true) : m.creator = env.authority := by
  simp only [guardsOk, Bool.and_eq_true] at h
  simpa [hc] using h.1.1.2

theorem guardsOk_sigFields {env : Env} {m : Msg} {sem : Sem} (h : guardsOk env m sem = true) :
    ∀ f ∈ sem.sigFields, ∃ p, m.field f = some p ∧ extSigOk env m p = true := by
  intro f hf
  simp only [guardsOk, Bool.and_eq_true, List.all_eq_true] at h
  have := h.1.2 f hf
  cases hp : m.field f with
  | none => simp [hp] at this
  | some p => exact ⟨p, rfl, by simpa [hp] using this⟩

theorem extSigOk_iff (env : Env) (m : Msg) (p : Addr) :
    extSigOk env m p = true ↔ (env.regKey p = some m.sigKey ∧ m.sigItem = m.item) := by
  simp [extSigOk]

/-- a principal a safe, non-governance handler writes FOR is the creator, or signature-proven -/
theorem writeKeys_cases {env : Env} {m : Msg} {sem : Sem} {typ : String} {B : Addr}
    (hsafe : Sem.safe typ sem = true) (hgov : isGov sem = false) (hg : guardsOk env m sem = true)
    (hB : B ∈ writeKeys m sem) :
    B = m.creator ∨ ∃ f ∈ sem.sigFields, m.field f = some B ∧ extSigOk env m B = true := by
  unfold writeKeys at hB
  rcases List.mem_append.1 hB with h1 | h2
  · left
    split at h1
    · simpa using h1
    · simp at h1
  · obtain ⟨f, hf, hfB⟩ := List.mem_filterMap.1 h2
    have hk : sem.keyed.all (fun f => sem.eqCreator.contains f || sem.sigFields.contains f) = true := by
      simp only [Sem.safe, Bool.and_eq_true, hgov, Bool.false_or] at hsafe
      exact hsafe.1.1
    have := (List.all_eq_true.1 hk) f hf
    have this' : sem.eqCreator.contains f = true ∨ sem.sigFields.contains f = true := by
      simpa [Bool.or_eq_true] using this
    rcases this' with h3 | h3
    · left
      have h4 := guardsOk_eqCreator hg f (by simpa using h3)
      rw [hfB] at h4
      exact (Option.some.inj h4)
    · right
      have h3' : f ∈ sem.sigFields := by simpa using h3
      obtain ⟨p, hp, hs⟩ := guardsOk_sigFields hg f h3'
      rw [hfB] at hp
      have : B = p := Option.some.inj hp
      subst this
      exact ⟨f, h3', hfB, hs⟩

theorem own_other {env : Env} {s : State} {m : Msg} {sem : Sem} {B : Addr} (h : B ∉ writeKeys m sem) :
    own env s m sem B = s.slots B := by
  simp [own, h]

theorem added_ne_nil {env : Env} {s : State} {m : Msg} {sem : Sem} {B : Addr}
    (h : added env s m sem B ≠ []) :
    (∃ f ∈ sem.targets, m.field f = some B) ∨ (sem.stateKeyed = true ∧ s.grants env.lightFeegranter B = true) := by
  unfold added at h
  by_cases h1 : (giftKeys m sem).contains B = true
  · left
    have : B ∈ giftKeys m sem := by simpa using h1
    obtain ⟨f, hf, hfB⟩ := List.mem_filterMap.1 this
    exact ⟨f, hf, hfB⟩
  · by_cases h2 : (sem.stateKeyed && s.grants env.lightFeegranter B && env.pending s B) = true
    · right
      simp only [Bool.and_eq_true] at h2
      exact ⟨h2.1.1, h2.1.2⟩
    · rw [if_neg h1, if_neg h2] at h
      simp at h

/-- handler level: message `m` was accepted by a handler that writes FOR `B` (or for anybody) -/
def HWrites (env : Env) (B : Addr) (m : Msg) : Prop :=
  ∃ sem, env.semOf m.typ = some sem ∧ guardsOk env m sem = true ∧
    (isGov sem = true ∨ (isGov sem = false ∧ B = m.creator)
      ∨ (isGov sem = false ∧ ∃ f ∈ sem.sigFields, m.field f = some B ∧ extSigOk env m B = true))

theorem handle_grants {env : Env} {s s' : State} {m : Msg} (h : handle env s m = some s') :
    s'.grants = s.grants := by
  obtain ⟨_, _, _, _, rfl⟩ := handle_some h
  rfl

/-- what an accepted message may do to the records of `B`: it writes for `B`, or it only ADDS
    records, and then only because it names `B` -/
theorem handle_account {env : Env} (hsafe : SafeEnv env) {s s' : State} {m : Msg} (B : Addr)
    (h : handle env s m = some s') :
    HWrites env B m ∨ ∃ l, s'.slots B = s.slots B ++ l ∧ (l ≠ [] → NamedBy env s.grants B m) := by
  obtain ⟨sem, hsem, _, hg, rfl⟩ := handle_some h
  by_cases hgov : isGov sem = true
  · exact Or.inl ⟨sem, hsem, hg, Or.inl hgov⟩
  · have hgov' : isGov sem = false := by simpa using hgov
    by_cases hB : B ∈ writeKeys m sem
    · left
      rcases writeKeys_cases (hsafe _ _ hsem) hgov' hg hB with h1 | h1
      · exact ⟨sem, hsem, hg, Or.inr (Or.inl ⟨hgov', h1⟩)⟩
      · exact ⟨sem, hsem, hg, Or.inr (Or.inr ⟨hgov', h1⟩)⟩
    · right
      refine ⟨added env s m sem B, ?_, fun hne => ⟨sem, hsem, added_ne_nil hne⟩⟩
      simp only [newSlots, hgov', Bool.false_eq_true, if_false, own_other hB]

theorem handleAll_grants (env : Env) (ms : List Msg) :
    ∀ s s' : State, handleAll env s ms = some s' → s'.grants = s.grants := by
  induction ms with
  | nil => intro s s' h; simp [handleAll] at h; rw [h]
  | cons m rest ih =>
    intro s s' h
    simp only [handleAll] at h
    split at h
    · simp at h
    · rename_i s1 h1
      rw [ih s1 s' h, handle_grants h1]

/-- the same for all the messages of a transaction, run in order -/
theorem handleAll_account {env : Env} (hsafe : SafeEnv env) (B : Addr) (ms : List Msg) :
    ∀ s s' : State, handleAll env s ms = some s' →
      (∃ m ∈ ms, HWrites env B m)
      ∨ ∃ l, s'.slots B = s.slots B ++ l ∧ (l ≠ [] → ∃ m ∈ ms, NamedBy env s.grants B m) := by
  induction ms with
  | nil =>
    intro s s' h
    simp only [handleAll, Option.some.injEq] at h
    subst h
    exact Or.inr ⟨[], by simp, fun hne => absurd rfl hne⟩
  | cons m rest ih =>
    intro s s' h
    simp only [handleAll] at h
    split at h
    · simp at h
    · rename_i s1 h1
      rcases handle_account hsafe B h1 with hw | ⟨l1, hl1, hn1⟩
      · exact Or.inl ⟨m, by simp, hw⟩
      · rcases ih s1 s' h with ⟨m', hm', hw⟩ | ⟨l2, hl2, hn2⟩
        · exact Or.inl ⟨m', by simp [hm'], hw⟩
        · right
          refine ⟨l1 ++ l2, by rw [hl2, hl1, List.append_assoc], fun hne => ?_⟩
          by_cases h1e : l1 = []
          · have h2e : l2 ≠ [] := by
              intro h2e; apply hne; simp [h1e, h2e]
            obtain ⟨m', hm', hnb⟩ := hn2 h2e
            rw [handle_grants h1] at hnb
            exact ⟨m', by simp [hm'], hnb⟩
          · exact ⟨m, by simp, hn1 h1e⟩

/-- from the handler's comparisons to the signers of the transaction -/
theorem hwrites_justified {env : Env} (hsafe : SafeEnv env) {grants : Addr → Addr → Bool} {signers : List Addr}
    {B : Addr} {m : Msg} (hante : anteOk m grants = true) (hdecl : ∀ a ∈ declared m, a ∈ signers)
    (hw : HWrites env B m) : Justified env.authority env.regKey grants signers B m := by
  obtain ⟨sem, hsem, hg, hcase⟩ := hw
  have hs := hsafe _ _ hsem
  simp only [Sem.safe, Bool.and_eq_true] at hs
  obtain ⟨⟨_, hs2⟩, hs3⟩ := hs
  have hso := (anteOk_iff m grants).1 hante
  -- a type signed by its Authority field is governance gated
  have hmeta : isGov sem = false → declared m = m.signers := by
    intro hgov
    apply declared_meta
    cases hc : authoritySigned.contains m.typ with
    | false => rfl
    | true =>
      exfalso
      simp only [hc, Bool.not_true, Bool.false_or] at hs2
      have hmem : "Authority" ∈ sem.eqAuthority := by simpa using hs2
      have hne : sem.eqAuthority ≠ [] := fun h => by rw [h] at hmem; simp at hmem
      have : isGov sem = true := by
        simp only [isGov, Bool.or_eq_true, Bool.not_eq_true', List.isEmpty_eq_false_iff]
        exact Or.inr hne
      rw [hgov] at this
      exact Bool.false_ne_true this
  rcases hcase with hgov | ⟨hgov, hB⟩ | ⟨_, f, _, hf, hsig⟩
  · -- governance gated
    right; right
    cases hc : authoritySigned.contains m.typ with
    | true =>
      simp only [hc, Bool.not_true, Bool.false_or] at hs2
      have hfa := guardsOk_eqAuthority hg "Authority" (by simpa using hs2)
      have hd := declared_authority hc hfa
      exact ⟨Or.inr hfa, Or.inl (hdecl _ (by rw [hd]; simp))⟩
    | false =>
      simp only [hgov, hc, Bool.not_true, Bool.false_or, Bool.or_eq_true, List.any_eq_true] at hs3
      have hcr : m.creator = env.authority := by
        rcases hs3 with h | ⟨f, hf, hfc⟩
        · exact guardsOk_creatorIsAuthority hg h
        · have h1 := guardsOk_eqAuthority hg f hf
          have h2 := guardsOk_eqCreator hg f (by simpa using hfc)
          rw [h1] at h2
          exact (Option.some.inj h2).symm
      refine ⟨Or.inl hcr, ?_⟩
      rw [← hcr]
      exact SignedOrGranted.mono (by rw [declared_meta hc] at hdecl; exact hdecl) hso
  · left
    subst hB
    exact ⟨rfl, SignedOrGranted.mono (by rw [hmeta hgov] at hdecl; exact hdecl) hso⟩
  · right; left
    exact ⟨f, hf, (extSigOk_iff env m B).1 hsig⟩

/-! ### transactions -/

theorem deliverTx_cases (env : Env) (s : State) (tx : Tx) :
    (txAccepted env s tx = false ∧ deliverTx env s tx = s)
    ∨ (txAccepted env s tx = true ∧ tx.msgs ≠ [] ∧ sigCheckTx tx.signers (tx.msgs.map declared) = true
        ∧ anteOkTx tx.msgs s.grants = true ∧ handleAll env s tx.msgs = some (deliverTx env s tx)) := by
  unfold deliverTx txAccepted
  by_cases h0 : tx.msgs.isEmpty = true
  · left; simp [h0]
  · by_cases h1 : sigCheckTx tx.signers (tx.msgs.map declared) = true
    · by_cases h2 : anteOkTx tx.msgs s.grants = true
      · cases h3 : handleAll env s tx.msgs with
        | none => left; simp [h0, h1, h2]
        | some s' =>
          right
          have hne : tx.msgs ≠ [] := by simpa using h0
          simp [h0, h1, h2, hne]
      · left; simp [h0, h1, h2]
    · left; simp [h0, h1]

theorem deliverTx_grants (env : Env) (s : State) (tx : Tx) : (deliverTx env s tx).grants = s.grants := by
  rcases deliverTx_cases env s tx with ⟨_, h⟩ | ⟨_, _, _, _, h⟩
  · rw [h]
  · exact handleAll_grants env tx.msgs s _ h

/-- Transaction level, for ANY table of safe handler semantics: if delivering `tx` changes what
is kept for `B`, then `tx` was accepted and either one of its messages is `Justified` for `B`, or
records were only ADDED for `B`, by a message that names it. -/
theorem deliverTx_account {env : Env} (hsafe : SafeEnv env) (s : State) (tx : Tx) (B : Addr)
    (h : (deliverTx env s tx).slots B ≠ s.slots B) :
    txAccepted env s tx = true ∧
    ((∃ m ∈ tx.msgs, Justified env.authority env.regKey s.grants tx.signers B m)
     ∨ ((∃ l, l ≠ [] ∧ (deliverTx env s tx).slots B = s.slots B ++ l)
        ∧ ∃ m ∈ tx.msgs, NamedBy env s.grants B m)) := by
  rcases deliverTx_cases env s tx with ⟨_, h0⟩ | ⟨hacc, _, hsig, hante, hall⟩
  · rw [h0] at h; exact absurd rfl h
  · refine ⟨hacc, ?_⟩
    rcases handleAll_account hsafe B tx.msgs s _ hall with ⟨m, hm, hw⟩ | ⟨l, hl, hn⟩
    · left
      refine ⟨m, hm, hwrites_justified hsafe ?_ ?_ hw⟩
      · exact (List.all_eq_true.1 hante) m hm
      · exact sigCheckTx_mem hsig (declared m) (List.mem_map.2 ⟨m, hm, rfl⟩)
    · right
      have hne : l ≠ [] := by
        intro hnil; apply h; rw [hl, hnil]; simp
      exact ⟨⟨l, hne, hl⟩, hn hne⟩

/-! ### histories -/

theorem run_cons (env : Env) (s : State) (op : Op) (ops : List Op) :
    run env s (op :: ops) = run env (step env s op) ops := rfl

theorem run_append (env : Env) (s : State) (a b : List Op) :
    run env s (a ++ b) = run env (run env s a) b := by
  simp [run, List.foldl_append]

theorem step_slots_of_not_tx {env : Env} {s : State} {op : Op} {B : Addr}
    (h : (step env s op).slots B ≠ s.slots B) : (∃ t, op = Op.tx t) ∨ (∃ m, op = Op.gov m) := by
  cases op with
  | grant a b => exact absurd rfl h
  | revoke a b => exact absurd rfl h
  | tx t => exact Or.inl ⟨t, rfl⟩
  | gov m => exact Or.inr ⟨m, rfl⟩

theorem deliverGov_grants (env : Env) (s : State) (m : Msg) : (deliverGov env s m).grants = s.grants := by
  unfold deliverGov
  split
  · rfl
  · rename_i s' h; exact handle_grants h

/-- is `op` the revocation of the allowance `P → a`? -/
def isRevokeOf (P a : Addr) : Op → Prop
  | .revoke x y => x = P ∧ y = a
  | _ => False

/-- every change of `B`'s records in a history happens in ONE operation of that history -/
theorem run_changed_split (env : Env) (B : Addr) :
    ∀ (ops : List Op) (s : State), (run env s ops).slots B ≠ s.slots B →
      ∃ pre op post, ops = pre ++ op :: post
        ∧ (step env (run env s pre) op).slots B ≠ (run env s pre).slots B := by
  intro ops
  induction ops with
  | nil => intro s h; exact absurd rfl h
  | cons op rest ih =>
    intro s h
    by_cases h1 : (step env s op).slots B = s.slots B
    · rw [run_cons] at h
      have h' : (run env (step env s op) rest).slots B ≠ (step env s op).slots B := by rw [h1]; exact h
      obtain ⟨pre, o, post, hops, hch⟩ := ih (step env s op) h'
      exact ⟨op :: pre, o, post, by rw [hops]; rfl, by rw [run_cons]; exact hch⟩
    · exact ⟨[], op, rest, rfl, h1⟩

/-! ### the handler semantics computed from the source (`Gen/Auth.lean`) -/

open Paloma.Gen.Auth in
/-- name used by the tables and the Go zoo -/
def hname (h : Handler) : String := h.module ++ "." ++ h.method

def isNotPrincipal (typ field : String) : Bool :=
  notPrincipal.any (fun e => e.1 == typ && e.2.1 == field)

open Paloma.Gen.Auth in
/-- request fields whose principal must have made the external-chain signature: role `sigProven`,
    denoting a paloma principal -/
def genSigs (h : Handler) : List String :=
  (h.fields.map (·.1)).filter (fun f => roleOf (hname h) f == some .sigProven && !isNotPrincipal (hname h) f)

open Paloma.Gen.Auth in
/-- The authorisation semantics of a handler, computed from what the extractor found in its Go
source: `usesCreator`, the comparisons (`eqCreator`, `eqAuthority`, with `Metadata.Creator` in
`eqAuthority` meaning creator = authority), the unconditional overwrites (`setFromCreator`), whether
an external-chain signature is verified (`extSig`), and the identity-like fields (`idFields`:
address-typed, parsed as an address, or named like one).  Hand-written input: which identity-like
fields are beneficiaries (`roles`: `target`), which are signature-proven (`roles`: `sigProven`),
which are no paloma principals (`notPrincipal`), and that the light-node migration is state keyed.
An identity-like field that is none of these KEYS A WRITE — and must then be guarded (`Sem.safe`). -/
def genSem (h : Handler) : Sem :=
  { usesCreator := h.usesCreator,
    keyed := (h.idFields.filter (fun f => !isNotPrincipal (hname h) f && !h.setFromCreator.contains f
                && roleOf (hname h) f != some .target && !(genSigs h).contains f)) ++ genSigs h,
    eqCreator := h.eqCreator,
    sigFields := if h.extSig then genSigs h else [],
    eqAuthority := h.eqAuthority.filter (· != "Metadata.Creator"),
    creatorIsAuthority := h.eqAuthority.contains "Metadata.Creator",
    targets := (h.fields.map (·.1)).filter (fun f => roleOf (hname h) f == some .target),
    stateKeyed := hname h == legacyType }

open Paloma.Gen.Auth in
/-- the table the delivery functions are instantiated with -/
def semOfGen (typ : String) : Option Sem := (handlers.find? (fun h => hname h == typ)).map genSem

open Paloma.Gen.Auth in
theorem semOfGen_some {typ : String} {sem : Sem} (h : semOfGen typ = some sem) :
    ∃ hd ∈ handlers, hname hd = typ ∧ genSem hd = sem := by
  unfold semOfGen at h
  cases hf : handlers.find? (fun h => hname h == typ) with
  | none => simp [hf] at h
  | some hd =>
    simp only [hf, Option.map_some, Option.some.injEq] at h
    have h1 := List.find?_some hf
    exact ⟨hd, List.mem_of_find?_eq_some hf, by simpa using h1, h⟩

open Paloma.Gen.Auth in
/-- rule of the hand-written table as computed from the handler's semantics -/
def ruleAgrees (h : Handler) : Bool :=
  let sem := genSem h
  match ruleOf (hname h) with
  | some .authorityOnly => isGov sem && h.authorityCheck
  | some (.sigProven _) => !isGov sem && !sem.sigFields.isEmpty && !sem.usesCreator
  | some .actsFor => !isGov sem && sem.sigFields.isEmpty && !sem.stateKeyed
      && (sem.usesCreator || sem.keyed.any (fun f => sem.eqCreator.contains f))
  | some (.open_ _) => !isGov sem && sem.sigFields.isEmpty && !sem.usesCreator && sem.keyed.isEmpty
  | none => false

open Paloma.Gen.Auth in
/-- role of every field against the source -/
def roleAgrees (h : Handler) : Bool :=
  h.fields.all fun f =>
    match roleOf (hname h) f.1 with
    | none => false
    | some .equatedWithCreator =>
      h.eqCreator.contains f.1 || h.setFromCreator.contains f.1 || equatedByLookup.contains (hname h, f.1)
    | some .authorityField => h.eqAuthority.contains f.1 && !h.eqCreator.contains f.1
    | some .sigProven => h.extSig
    | some .target => true
    | some .freeText =>
      -- an identity-like field is never free text, unless it is listed as no paloma principal
      (!h.idFields.contains f.1 || isNotPrincipal (hname h) f.1)
      && !h.eqCreator.contains f.1 && !h.setFromCreator.contains f.1 && !h.eqAuthority.contains f.1

open Paloma.Gen.Auth in
set_option maxRecDepth 100000 in
/-- every handler of the generated table has safe semantics (the check that fails when a handler
    starts keying a write by an identity field it does not compare with the creator — the defect
    class of the pinned tree: claims cast for `Orchestrator`, fees set for `FeeSetting.ValAddress`) -/
theorem handlers_safe_all : handlers.all (fun h => (genSem h).safe (hname h)) = true := by decide

theorem safeEnv_gen {env : Env} (h : env.semOf = semOfGen) : SafeEnv env := by
  intro typ sem hs
  rw [h] at hs
  obtain ⟨hd, hmem, hn, hg⟩ := semOfGen_some hs
  have := (List.all_eq_true.1 handlers_safe_all) hd hmem
  rw [hn, hg] at this
  exact this

/-- `NamedBy` for the real table, in terms of the hand-written role table: a field of role `target`
    names `B`, or the message is the light-node migration and `B` holds a grant from the
    light-node feegranter -/
def Named (feegranter : Addr) (grants : Addr → Addr → Bool) (B : Addr) (m : Msg) : Prop :=
  (∃ f, roleOf m.typ f = some .target ∧ m.field f = some B)
  ∨ (m.typ = legacyType ∧ grants feegranter B = true)

theorem named_of_namedBy {env : Env} (hsem : env.semOf = semOfGen) {grants : Addr → Addr → Bool} {B : Addr} {m : Msg}
    (h : NamedBy env grants B m) : Named env.lightFeegranter grants B m := by
  obtain ⟨sem, hs, hcase⟩ := h
  rw [hsem] at hs
  obtain ⟨hd, _, hn, hg⟩ := semOfGen_some hs
  subst hg
  rcases hcase with ⟨f, hf, hfB⟩ | ⟨hst, hgr⟩
  · left
    simp only [genSem, List.mem_filter] at hf
    refine ⟨f, ?_, hfB⟩
    rw [← hn]
    simpa using hf.2
  · right
    simp only [genSem] at hst
    refine ⟨?_, hgr⟩
    rw [← hn]
    simpa using hst

theorem not_justified_of {authority : Addr} {regKey : Addr → Option Nat} {grants : Addr → Addr → Bool}
    {signers : List Addr} {B : Addr} {m : Msg}
    (hB : ¬ SignedOrGranted grants signers B)
    (hsig : ∀ f, m.field f = some B → regKey B ≠ some m.sigKey ∨ m.sigItem ≠ m.item)
    (hgov : ¬ SignedOrGranted grants signers authority) :
    ¬ Justified authority regKey grants signers B m := by
  intro h
  rcases h with ⟨_, h⟩ | ⟨f, hf, hk, hi⟩ | ⟨_, h⟩
  · exact hB h
  · rcases hsig f hf with h | h
    · exact h hk
    · exact h hi
  · exact hgov h

/-- grants are changed by grant / revoke operations only -/
theorem step_grants_tx (env : Env) (s : State) (t : Tx) : (step env s (.tx t)).grants = s.grants :=
  deliverTx_grants env s t

theorem step_grants_gov (env : Env) (s : State) (m : Msg) : (step env s (.gov m)).grants = s.grants :=
  deliverGov_grants env s m

theorem run_grants_provenance (env : Env) (P a : Addr) :
    ∀ (ops : List Op) (s : State), (run env s ops).grants P a = true →
      (s.grants P a = true ∧ ∀ o ∈ ops, ¬ isRevokeOf P a o)
      ∨ ∃ pre post, ops = pre ++ Op.grant P a :: post ∧ ∀ o ∈ post, ¬ isRevokeOf P a o := by
  intro ops
  induction ops with
  | nil => intro s h; exact Or.inl ⟨h, fun o ho => by simp at ho⟩
  | cons op rest ih =>
    intro s h
    rw [run_cons] at h
    rcases ih (step env s op) h with ⟨hg, hno⟩ | ⟨pre, post, hops, hno⟩
    · cases op with
      | grant x y =>
        by_cases hxy : x = P ∧ y = a
        · right
          obtain ⟨rfl, rfl⟩ := hxy
          exact ⟨[], rest, rfl, hno⟩
        · left
          simp only [step, setGrant] at hg
          refine ⟨?_, ?_⟩
          · split at hg
            · rename_i hc; exact absurd ⟨hc.1.symm, hc.2.symm⟩ hxy
            · exact hg
          · intro o ho
            rcases List.mem_cons.1 ho with rfl | ho
            · simp [isRevokeOf]
            · exact hno o ho
      | revoke x y =>
        simp only [step, setGrant] at hg
        split at hg
        · exact absurd hg (by simp)
        · rename_i hc
          left
          refine ⟨hg, ?_⟩
          intro o ho
          rcases List.mem_cons.1 ho with rfl | ho
          · simp only [isRevokeOf]
            intro hh; exact hc ⟨hh.1.symm, hh.2.symm⟩
          · exact hno o ho
      | tx t =>
        left
        rw [step_grants_tx] at hg
        refine ⟨hg, ?_⟩
        intro o ho
        rcases List.mem_cons.1 ho with rfl | ho
        · simp [isRevokeOf]
        · exact hno o ho
      | gov m =>
        left
        rw [step_grants_gov] at hg
        refine ⟨hg, ?_⟩
        intro o ho
        rcases List.mem_cons.1 ho with rfl | ho
        · simp [isRevokeOf]
        · exact hno o ho
    · right
      exact ⟨op :: pre, post, by rw [hops]; rfl, hno⟩

/-- generic history invariant: while no transaction is `Justified` for `B`, its records survive
    as a prefix -/
theorem run_prefix {env : Env} (hsafe : SafeEnv env) (B : Addr) :
    ∀ (ops : List Op) (s : State), (∀ m, Op.gov m ∉ ops) →
      (∀ pre t post, ops = pre ++ Op.tx t :: post →
        ∀ m ∈ t.msgs, ¬ Justified env.authority env.regKey (run env s pre).grants t.signers B m) →
      ∃ l, (run env s ops).slots B = s.slots B ++ l := by
  intro ops
  induction ops with
  | nil => intro s _ _; exact ⟨[], by simp [run]⟩
  | cons op rest ih =>
    intro s hnogov hno
    have hrest : ∃ l, (run env (step env s op) rest).slots B = (step env s op).slots B ++ l := by
      apply ih
      · intro m hm; exact hnogov m (by simp [hm])
      intro pre t post hops m hm
      have := hno (op :: pre) t post (by rw [hops]; rfl) m hm
      rwa [run_cons] at this
    obtain ⟨l2, hl2⟩ := hrest
    have hstep : ∃ l, (step env s op).slots B = s.slots B ++ l := by
      by_cases hch : (step env s op).slots B = s.slots B
      · exact ⟨[], by rw [hch]; simp⟩
      · rcases step_slots_of_not_tx hch with ⟨t, rfl⟩ | ⟨m, rfl⟩
        · rcases (deliverTx_account hsafe s t B hch).2 with ⟨m, hm, hj⟩ | ⟨⟨l, _, hl⟩, _⟩
          · exact absurd hj (hno [] t rest rfl m hm)
          · exact ⟨l, hl⟩
        · exact absurd (by simp) (hnogov m)
    obtain ⟨l1, hl1⟩ := hstep
    exact ⟨l1 ++ l2, by rw [run_cons, hl2, hl1, List.append_assoc]⟩

/-- … and while, in addition, no transaction names `B`, nothing of `B`'s changes at all -/
theorem run_unchanged {env : Env} (hsafe : SafeEnv env) (B : Addr) :
    ∀ (ops : List Op) (s : State), (∀ m, Op.gov m ∉ ops) →
      (∀ pre t post, ops = pre ++ Op.tx t :: post →
        ∀ m ∈ t.msgs, ¬ Justified env.authority env.regKey (run env s pre).grants t.signers B m
          ∧ ¬ NamedBy env (run env s pre).grants B m) →
      (run env s ops).slots B = s.slots B := by
  intro ops
  induction ops with
  | nil => intro s _ _; rfl
  | cons op rest ih =>
    intro s hnogov hno
    have hrest : (run env (step env s op) rest).slots B = (step env s op).slots B := by
      apply ih
      · intro m hm; exact hnogov m (by simp [hm])
      intro pre t post hops m hm
      have := hno (op :: pre) t post (by rw [hops]; rfl) m hm
      rwa [run_cons] at this
    have hstep : (step env s op).slots B = s.slots B := by
      apply Classical.byContradiction
      intro hch
      rcases step_slots_of_not_tx hch with ⟨t, rfl⟩ | ⟨m, rfl⟩
      · rcases (deliverTx_account hsafe s t B hch).2 with ⟨m, hm, hj⟩ | ⟨_, m, hm, hn⟩
        · exact (hno [] t rest rfl m hm).1 hj
        · exact (hno [] t rest rfl m hm).2 hn
      · exact absurd (by simp) (hnogov m)
    rw [run_cons, hrest, hstep]

/-! ### Transferable ownership (denoms) -/

theorem setAt_same {α : Type} (f : Nat → α) (d : Nat) (v : α) : setAt f d v d = v := by simp [setAt]

theorem setAt_other {α : Type} (f : Nat → α) {d x : Nat} (v : α) (h : x ≠ d) : setAt f d v x = f x := by
  simp [setAt, h]

theorem dAnteOk_iff (m : DMsg) (g : Addr → Addr → Bool) :
    dAnteOk m g = true ↔ (m.creator ∈ m.signers ∨ ∃ a ∈ m.signers, g m.creator a = true) := by
  simp [dAnteOk, List.any_eq_true]

theorem dHandle_grants (namer : Nat → Addr) (s s' : DState) (m : DMsg) (h : dHandle namer s m = some s') :
    s'.grants = s.grants := by
  unfold dHandle at h
  split at h
  all_goals (repeat' split at h)
  all_goals (simp at h)
  all_goals (subst h; rfl)

/-- handler level: a handler that changes what is kept for `d` acts on `d`, in its owner's name -/
theorem dHandle_changed (namer : Nat → Addr) (s s' : DState) (m : DMsg) (d : Nat)
    (h : dHandle namer s m = some s') (hne : dView s' d ≠ dView s d) :
    d = m.denom ∧ dOwner namer s d = some m.creator := by
  have hd : d = m.denom := by
    apply Classical.byContradiction
    intro hd
    apply hne
    unfold dHandle at h
    split at h
    all_goals (repeat' split at h)
    all_goals (simp at h)
    all_goals (subst h; simp [dView, setAt, hd])
  subst hd
  refine ⟨rfl, ?_⟩
  unfold dHandle at h
  unfold dOwner
  split at h
  · split at h
    · rename_i hc; simp [hc.1, hc.2]
    · simp at h
  · split at h
    · rename_i hc; simp [hc]
    · simp at h
  · split at h
    · rename_i hc; simp [hc]
    · simp at h
  · split at h
    · rename_i hc; simp [hc]
    · simp at h
  · split at h
    · rename_i hc; simp [hc.1, hc.2]
    · simp at h

/-- the same for the bank's metadata record: the handler that changes the record of `d` acts on
    `d` (the key it writes, `metadata.base`, IS the denom whose admin it compared), in its owner's name -/
theorem dHandle_meta_changed (namer : Nat → Addr) (s s' : DState) (m : DMsg) (d : Nat)
    (h : dHandle namer s m = some s') (hne : s'.dmeta d ≠ s.dmeta d) :
    d = m.denom ∧ dOwner namer s d = some m.creator := by
  unfold dHandle at h
  unfold dOwner
  split at h
  · split at h
    · simp at h; subst h; exact absurd rfl hne
    · simp at h
  · split at h
    · simp at h; subst h; exact absurd rfl hne
    · simp at h
  · split at h
    · simp at h; subst h; exact absurd rfl hne
    · simp at h
  · split at h
    · rename_i hc
      split at h
      · rename_i hk
        simp at h; subst h
        rw [hk] at hne
        have hd : d = m.denom := by
          apply Classical.byContradiction
          intro hd
          exact hne (by simp [setAt, hd])
        subst hd
        simp [hc]
      · simp at h
    · simp at h
  · split at h
    · rename_i hc
      split at h
      · rename_i hk
        simp at h; subst h
        rw [hk] at hne
        have hd : d = m.denom := by
          apply Classical.byContradiction
          intro hd
          exact hne (by simp [setAt, hd])
        subst hd
        simp [hc.1, hc.2]
      · simp at h
    · simp at h

theorem dDeliver_grants (namer : Nat → Addr) (s : DState) (m : DMsg) : (dDeliver namer s m).grants = s.grants := by
  unfold dDeliver
  split
  · rfl
  · split
    · rfl
    · rename_i s' h; exact dHandle_grants namer s s' m h

theorem dDeliver_changed (namer : Nat → Addr) (s : DState) (m : DMsg) (d : Nat)
    (h : dView (dDeliver namer s m) d ≠ dView s d) :
    d = m.denom ∧ dOwner namer s d = some m.creator
      ∧ (m.creator ∈ m.signers ∨ ∃ a ∈ m.signers, s.grants m.creator a = true) := by
  unfold dDeliver at h
  split at h
  · exact absurd rfl h
  · rename_i hante
    have hante' : dAnteOk m s.grants = true := by simpa using hante
    split at h
    · exact absurd rfl h
    · rename_i s' hs'
      obtain ⟨h1, h2⟩ := dHandle_changed namer s s' m d hs' h
      exact ⟨h1, h2, (dAnteOk_iff m s.grants).1 hante'⟩

theorem dDeliver_keeps (namer : Nat → Addr) (s : DState) (m : DMsg) (d : Nat) (P : Addr)
    (hown : dOwner namer s d = some P) (hP : P ∉ m.signers) (hg : ∀ a ∈ m.signers, s.grants P a = false) :
    dView (dDeliver namer s m) d = dView s d := by
  apply Classical.byContradiction
  intro hne
  obtain ⟨_, h2, h3⟩ := dDeliver_changed namer s m d hne
  rw [hown] at h2
  have : P = m.creator := by simpa using h2
  subst this
  cases h3 with
  | inl h => exact hP h
  | inr h => obtain ⟨a, ha, hga⟩ := h; simp [hg a ha] at hga

theorem dDeliver_full_changed (namer : Nat → Addr) (s : DState) (m : DMsg) (d : Nat)
    (h : dFull (dDeliver namer s m) d ≠ dFull s d) :
    d = m.denom ∧ dOwner namer s d = some m.creator
      ∧ (m.creator ∈ m.signers ∨ ∃ a ∈ m.signers, s.grants m.creator a = true) := by
  by_cases hv : dView (dDeliver namer s m) d = dView s d
  · have hm : (dDeliver namer s m).dmeta d ≠ s.dmeta d := by
      intro hm; apply h; simp [dFull, hv, hm]
    unfold dDeliver at hm
    split at hm
    · exact absurd rfl hm
    · rename_i hante
      have hante' : dAnteOk m s.grants = true := by simpa using hante
      split at hm
      · exact absurd rfl hm
      · rename_i s' hs'
        obtain ⟨h1, h2⟩ := dHandle_meta_changed namer s s' m d hs' hm
        exact ⟨h1, h2, (dAnteOk_iff m s.grants).1 hante'⟩
  · exact dDeliver_changed namer s m d hv

theorem dDeliver_full_keeps (namer : Nat → Addr) (s : DState) (m : DMsg) (d : Nat) (P : Addr)
    (hown : dOwner namer s d = some P) (hP : P ∉ m.signers) (hg : ∀ a ∈ m.signers, s.grants P a = false) :
    dFull (dDeliver namer s m) d = dFull s d := by
  apply Classical.byContradiction
  intro hne
  obtain ⟨_, h2, h3⟩ := dDeliver_full_changed namer s m d hne
  rw [hown] at h2
  have : P = m.creator := by simpa using h2
  subst this
  cases h3 with
  | inl h => exact hP h
  | inr h => obtain ⟨a, ha, hga⟩ := h; simp [hg a ha] at hga

/-- is principal `P` involved in `op`?  (signs, or grants an allowance; a chain export / import
    involves nobody) -/
def DInvolves (P : Addr) : DOp → Prop
  | .grant g _ => g = P
  | .revoke _ _ => False
  | .msg m => P ∈ m.signers
  | .reimport => False

theorem dOwner_of_view (namer : Nat → Addr) (s s' : DState) (d : Nat) (h : dView s' d = dView s d) :
    dOwner namer s' d = dOwner namer s d := by
  unfold dView at h
  have : s'.den d = s.den d := by simpa using congrArg Prod.fst h
  simp [dOwner, this]

theorem dReimport_view (s : DState) (d : Nat) : dView (dReimport s) d = dView s d := rfl

theorem dReimport_grants (s : DState) : (dReimport s).grants = s.grants := rfl

theorem dReimport_meta (s : DState) (d : Nat) :
    (dReimport s).dmeta d = s.dmeta d ∨ (dReimport s).dmeta d = 0 := by
  unfold dReimport
  by_cases h : (s.den d).isSome = true
  · right; simp [h]
  · left; simp [h]

theorem dStep_keeps (namer : Nat → Addr) (s : DState) (op : DOp) (d : Nat) (P : Addr)
    (hown : dOwner namer s d = some P) (hg : ∀ e, s.grants P e = false) (hop : ¬ DInvolves P op) :
    dView (dStep namer s op) d = dView s d ∧ ∀ e, (dStep namer s op).grants P e = false := by
  cases op with
  | grant a b =>
    refine ⟨rfl, fun e => ?_⟩
    simp only [DInvolves] at hop
    simp only [dStep, setGrant]
    split
    · rename_i h; exact absurd h.1.symm hop
    · exact hg e
  | revoke a b =>
    refine ⟨rfl, fun e => ?_⟩
    simp only [dStep, setGrant]
    split
    · rfl
    · exact hg e
  | msg m =>
    simp only [DInvolves] at hop
    refine ⟨?_, fun e => by simp only [dStep, dDeliver_grants]; exact hg e⟩
    exact dDeliver_keeps namer s m d P hown hop (fun a _ => hg a)
  | reimport => exact ⟨rfl, fun e => hg e⟩

/-- … and the bank's metadata record of `d` is kept too, or reset to the default one (only a
    chain export / import does that) -/
theorem dStep_meta_keeps (namer : Nat → Addr) (s : DState) (op : DOp) (d : Nat) (P : Addr)
    (hown : dOwner namer s d = some P) (hg : ∀ e, s.grants P e = false) (hop : ¬ DInvolves P op) :
    (dStep namer s op).dmeta d = s.dmeta d ∨ (dStep namer s op).dmeta d = 0 := by
  cases op with
  | grant a b => left; rfl
  | revoke a b => left; rfl
  | msg m =>
    simp only [DInvolves] at hop
    left
    have := dDeliver_full_keeps namer s m d P hown hop (fun a _ => hg a)
    have h2 : (dFull (dDeliver namer s m) d).2 = (dFull s d).2 := congrArg Prod.snd this
    simpa [dStep, dFull] using h2
  | reimport => exact dReimport_meta s d

/-! ### Batch confirmations -/

/-- what the handler stores: the new confirmation is appended, filed under the attempt's
    orchestrator, and the attempt carries a signature by the key that orchestrator registered, over
    exactly the batch -/
theorem cHandle_some {s s' : CState} {a : CAttempt} (h : cHandle s a = some s') :
    s' = { s with confirms := s.confirms ++ [⟨a.batch, a.orch, a.ethSigner, a.sigKey, a.sigItem⟩] }
      ∧ a.batchExists = true ∧ regAcct s a.orch = some a.sigKey ∧ a.sigKey = a.ethSigner ∧ a.sigItem = a.batch
      ∧ s.confirms.any (fun c => c.batch == a.batch && c.orch == a.orch) = false
      ∧ s.confirms.any (fun c => c.batch == a.batch && c.key == a.ethSigner) = false := by
  unfold cHandle at h
  split at h
  · simp at h
  · rename_i hb
    split at h
    · simp at h
    · rename_i hreg
      split at h
      · simp at h
      · rename_i hk
        split at h
        · simp at h
        · rename_i hi
          split at h
          · simp at h
          · rename_i hd1
            split at h
            · simp at h
            · rename_i hd2
              simp only [Option.some.injEq] at h
              have hreg' : regAcct s a.orch = some a.ethSigner := by simpa using hreg
              have hk' : a.sigKey = a.ethSigner := by simpa using hk
              refine ⟨h.symm, by simpa using hb, by rw [hreg', hk'], hk', by simpa using hi,
                by simpa using hd1, by simpa using hd2⟩

theorem cDeliver_cases (s : CState) (a : CAttempt) :
    cDeliver s a = s ∨ (cAnteOk a s.grants = true ∧ ∃ s', cHandle s a = some s' ∧ cDeliver s a = s') := by
  unfold cDeliver
  split
  · exact Or.inl rfl
  · rename_i hante
    split
    · exact Or.inl rfl
    · rename_i s' hs'
      exact Or.inr ⟨by simpa using hante, s', hs', rfl⟩

theorem cAnteOk_iff (a : CAttempt) (g : Addr → Addr → Bool) :
    cAnteOk a g = true ↔ SignedOrGranted g a.signers a.creator := by
  simp [cAnteOk, SignedOrGranted, List.any_eq_true]

theorem cRegAnteOk_iff (r : CReg) (g : Addr → Addr → Bool) :
    cRegAnteOk r g = true ↔ SignedOrGranted g r.signers r.creator := by
  simp [cRegAnteOk, SignedOrGranted, List.any_eq_true]

theorem cDeliver_keys (s : CState) (a : CAttempt) : (cDeliver s a).keys = s.keys ∧ (cDeliver s a).grants = s.grants := by
  rcases cDeliver_cases s a with h | ⟨_, s', hs', hd⟩
  · rw [h]; exact ⟨rfl, rfl⟩
  · rw [hd, (cHandle_some hs').1]; exact ⟨rfl, rfl⟩

theorem cDeliver_prefix (s : CState) (a : CAttempt) :
    ∃ l, (cDeliver s a).confirms = s.confirms ++ l := by
  rcases cDeliver_cases s a with h | ⟨_, s', hs', hd⟩
  · exact ⟨[], by rw [h]; simp⟩
  · exact ⟨[_], by rw [hd, (cHandle_some hs').1]⟩

theorem cRegister_some {vals : List Addr} {s s' : CState} {r : CReg} (h : cRegister vals s r = some s') :
    r.creator ∈ vals ∧ (∀ w ∈ vals, w ≠ r.creator → s.keys w ≠ some r.addr)
      ∧ s' = { s with keys := fun v => if v = r.creator then some r.addr else s.keys v } := by
  unfold cRegister at h
  split at h
  · simp at h
  · rename_i hv
    split at h
    · simp at h
    · rename_i hc
      simp only [Option.some.injEq] at h
      refine ⟨by simpa using hv, ?_, h.symm⟩
      intro w hw hne hk
      apply hc
      exact List.any_eq_true.2 ⟨w, hw, by simp [hne, hk]⟩

theorem cRegDeliver_cases (vals : List Addr) (s : CState) (r : CReg) :
    cRegDeliver vals s r = s
    ∨ (cRegAnteOk r s.grants = true ∧ ∃ s', cRegister vals s r = some s' ∧ cRegDeliver vals s r = s') := by
  unfold cRegDeliver
  split
  · exact Or.inl rfl
  · rename_i hante
    split
    · exact Or.inl rfl
    · rename_i s' hs'
      exact Or.inr ⟨by simpa using hante, s', hs', rfl⟩

theorem cRegDeliver_confirms (vals : List Addr) (s : CState) (r : CReg) :
    (cRegDeliver vals s r).confirms = s.confirms ∧ (cRegDeliver vals s r).grants = s.grants := by
  rcases cRegDeliver_cases vals s r with h | ⟨_, s', hs', hd⟩
  · rw [h]; exact ⟨rfl, rfl⟩
  · rw [hd, (cRegister_some hs').2.2]; exact ⟨rfl, rfl⟩

theorem cRun_cons (vals : List Addr) (s : CState) (op : COp) (ops : List COp) :
    cRun vals s (op :: ops) = cRun vals (cStep vals s op) ops := rfl

/-- the confirmations filed under `B` -/
def cView (s : CState) (B : Addr) : List CConfirm := s.confirms.filter (fun c => c.orch == B)

/-- an attempt as a message of the generic model -/
def cMsg (a : CAttempt) : Msg :=
  { typ := "skyway.ConfirmBatch", signers := a.signers, creator := a.creator,
    field := fun f => if f = "Orchestrator" then some a.orch else none,
    sigKey := a.sigKey, sigItem := a.sigItem, item := a.batch }

/-- registered address strings: only validators hold one, and no two validators hold the same -/
def KeysInv (vals : List Addr) (s : CState) : Prop :=
  (∀ v x, s.keys v = some x → v ∈ vals) ∧ (∀ v w x, s.keys v = some x → s.keys w = some x → v = w)

theorem cStep_keysInv (vals : List Addr) (s : CState) (op : COp) (h : KeysInv vals s) :
    KeysInv vals (cStep vals s op) := by
  cases op with
  | attempt a => simp only [cStep]; unfold KeysInv; rw [(cDeliver_keys s a).1]; exact h
  | register r =>
    simp only [cStep]
    rcases cRegDeliver_cases vals s r with h0 | ⟨_, s', hs', hd⟩
    · rw [h0]; exact h
    · rw [hd]
      obtain ⟨hmem, hcol, rfl⟩ := cRegister_some hs'
      obtain ⟨h1, h2⟩ := h
      refine ⟨?_, ?_⟩
      · intro v x hv
        simp only at hv
        split at hv
        · rename_i hc; rw [hc]; exact hmem
        · exact h1 v x hv
      · intro v w x hv hw
        simp only at hv hw
        split at hv
        · rename_i hvc
          split at hw
          · rename_i hwc; rw [hvc, hwc]
          · rename_i hwc
            have hx : r.addr = x := Option.some.inj hv
            exact absurd (by rw [hx]; exact hw) (hcol w (h1 w x hw) hwc)
        · rename_i hvc
          split at hw
          · have hx : r.addr = x := Option.some.inj hw
            exact absurd (by rw [hx]; exact hv) (hcol v (h1 v x hv) hvc)
          · exact h2 v w x hv hw

open Paloma.Gen.Auth in
/-- governance-gated handlers: what their comparisons imply for `authorityOkOf` -/
def govAgrees (h : Handler) : Bool :=
  !isGov (genSem h) ||
    (ruleOf (hname h) == some .authorityOnly
     && ((genSem h).creatorIsAuthority || (genSem h).eqAuthority.any (fun f => (genSem h).eqCreator.contains f)
          || authorityIgnoresCreator.contains (hname h))
     && ((genSem h).eqAuthority.contains "Authority"
          || ((genSem h).eqCreator.contains "Authority" && (genSem h).creatorIsAuthority)
          || !(h.fields.map (·.1)).contains "Authority"))

open Paloma.Gen.Auth in
set_option maxRecDepth 100000 in
theorem govAgrees_all : handlers.all govAgrees = true := by decide

theorem legacy_rule_open :
    ruleOf legacyType = some (.open_ "idempotent migration of feegranter grantees to client records; ignores the sender") := by
  decide

open Paloma.Gen.Auth in
theorem genSigs_mem {h : Handler} {f : String} (hf : f ∈ genSigs h) :
    f ∈ h.fields.map (·.1) ∧ roleOf (hname h) f = some .sigProven := by
  simp only [genSigs, List.mem_filter, Bool.and_eq_true] at hf
  exact ⟨hf.1, by simpa using hf.2.1⟩

open Paloma.Gen.Auth in
theorem genSem_sigFields_mem {h : Handler} {f : String} (hf : f ∈ (genSem h).sigFields) :
    f ∈ h.fields.map (·.1) ∧ roleOf (hname h) f = some .sigProven := by
  simp only [genSem] at hf
  split at hf
  · exact genSigs_mem hf
  · simp at hf

open Paloma.Gen.Auth in
theorem genSem_targets_mem {h : Handler} {f : String} (hf : f ∈ (genSem h).targets) :
    f ∈ h.fields.map (·.1) ∧ roleOf (hname h) f = some .target := by
  simp only [genSem, List.mem_filter] at hf
  exact ⟨hf.1, by simpa using hf.2⟩


/-! ### Light-node client records -/

theorem lAnteOk_iff (m : LMsg) (g : Addr → Addr → Bool) :
    lAnteOk m g = true ↔ SignedOrGranted g m.signers m.creator := by
  simp [lAnteOk, SignedOrGranted, List.any_eq_true]

theorem lLegacy_cases (F : Addr) (now : Nat) (s : LState) (x : Addr) :
    lLegacy F now s x = s.client x
    ∨ (s.grants F x = true ∧ s.client x = none ∧ s.licence x = false ∧ lLegacy F now s x = some ⟨now, now⟩) := by
  unfold lLegacy
  by_cases hg : s.grants F x = false
  · simp [hg]
  · by_cases hc : (s.client x).isSome = true
    · simp [hc]
    · by_cases hl : s.licence x = true
      · simp [hl]
      · right
        have hg' : s.grants F x = true := by simpa using hg
        have hc' : s.client x = none := by simpa using hc
        have hl' : s.licence x = false := by simpa using hl
        simp [hg', hc', hl']

theorem lHandle_grants {F : Addr} {now : Nat} {s s' : LState} {m : LMsg} (h : lHandle F now s m = some s') :
    s'.grants = s.grants := by
  unfold lHandle at h
  split at h
  · split at h
    · simp at h
    · split at h
      · simp at h
      · simp at h; subst h; rfl
  · split at h
    · simp at h; subst h; rfl
    · simp at h
  · split at h
    · simp at h
    · simp at h; subst h; rfl
  · simp at h; subst h; rfl

/-- handler level: whose client record a handler may change, and how -/
theorem lHandle_client_changed {F : Addr} {now : Nat} {s s' : LState} {m : LMsg} {B : Addr}
    (h : lHandle F now s m = some s') (hne : s'.client B ≠ s.client B) :
    (m.creator = B ∧ (m.act = .register ∨ m.act = .auth))
    ∨ (m.act = .setLegacy ∧ s.grants F B = true ∧ s.client B = none ∧ s.licence B = false
        ∧ s'.client B = some ⟨now, now⟩) := by
  unfold lHandle at h
  split at h
  · split at h
    · simp at h
    · split at h
      · simp at h
      · simp at h; subst h; exact absurd rfl hne
  · rename_i hact
    split at h
    · simp at h; subst h
      left
      refine ⟨?_, Or.inl hact⟩
      apply Classical.byContradiction
      intro hB
      exact hne (setAt_other _ _ (fun e => hB e.symm))
    · simp at h
  · rename_i hact
    split at h
    · simp at h
    · simp at h; subst h
      left
      refine ⟨?_, Or.inr hact⟩
      apply Classical.byContradiction
      intro hB
      exact hne (setAt_other _ _ (fun e => hB e.symm))
  · rename_i hact
    simp at h; subst h
    right
    rcases lLegacy_cases F now s B with h0 | ⟨h1, h2, h3, h4⟩
    · exact absurd h0 hne
    · exact ⟨hact, h1, h2, h3, h4⟩

/-- handler level: whose pending licence a handler may change -/
theorem lHandle_licence_changed {F : Addr} {now : Nat} {s s' : LState} {m : LMsg} {B : Addr}
    (h : lHandle F now s m = some s') (hne : s'.licence B ≠ s.licence B) :
    (m.creator = B ∧ m.act = .register ∧ s.licence B = true)
    ∨ (m.act = .addLicence B ∧ s.licence B = false ∧ s.account B = false) := by
  unfold lHandle at h
  split at h
  · rename_i c hact
    split at h
    · simp at h
    · rename_i hl
      split at h
      · simp at h
      · rename_i ha
        simp at h; subst h
        right
        have hB : B = c := by
          apply Classical.byContradiction
          intro hB
          exact hne (setAt_other _ _ hB)
        subst hB
        exact ⟨hact, by simpa using hl, by simpa using ha⟩
  · rename_i hact
    split at h
    · rename_i hl
      simp at h; subst h
      left
      have hB : m.creator = B := by
        apply Classical.byContradiction
        intro hB
        exact hne (setAt_other _ _ (fun e => hB e.symm))
      exact ⟨hB, hact, hB ▸ hl⟩
    · simp at h
  · split at h
    · simp at h
    · simp at h; subst h; exact absurd rfl hne
  · simp at h; subst h; exact absurd rfl hne

theorem lDeliver_grants (F : Addr) (now : Nat) (s : LState) (m : LMsg) : (lDeliver F now s m).grants = s.grants := by
  unfold lDeliver
  split
  · rfl
  · split
    · rfl
    · rename_i s' h; exact lHandle_grants h

theorem lDeliver_cases (F : Addr) (now : Nat) (s : LState) (m : LMsg) :
    (lAccepted F now s m = false ∧ lDeliver F now s m = s)
    ∨ (lAccepted F now s m = true ∧ lAnteOk m s.grants = true ∧ ∃ s', lHandle F now s m = some s' ∧ lDeliver F now s m = s') := by
  unfold lDeliver lAccepted
  by_cases hante : lAnteOk m s.grants = false
  · left; simp [hante]
  · have hante' : lAnteOk m s.grants = true := by simpa using hante
    cases hh : lHandle F now s m with
    | none => left; simp [hante']
    | some s' => right; simp [hante']

end Lemmas

/- ## Property theorems -/

/-! ### One transaction, every handler of the chain

`env.semOf = semOfGen`: the delivery functions interpret, for EVERY message type the chain accepts
(`table_covers`: generated handlers = registered RPCs), the semantics computed from the Go source.
Signers, claimed creators and the principal every identity-bearing field denotes (`Msg.field`) are
arbitrary. -/

/-- Clause "changes only through a transaction signed by that principal or by an address holding a
fee grant from it (or … carrying the validator's own external-chain signature over the exact item),
or by the governance authority", for all 41 handlers at once: if delivering `tx` changes ANYTHING
kept for `B` (adds, alters, removes: `slots B` is a list of records, handlers apply arbitrary
functions to it) then `tx` was accepted and
* one of its messages is `Justified` for `B` — `B` is its creator and signed / granted a fee
  allowance to a signer; or an identity field names `B` and the message carries a signature made by
  the key `B` registered over exactly the item; or it is sent in the governance authority's name
  and the authority signed —, or
* records were only ADDED for `B` (its existing records are a prefix of the new ones), by a
  message that NAMES `B`: through a field of role `target`, or as a grantee of the light-node
  feegranter in the light-node migration (`Named`; the two exceptions are reachable, see
  `adds_clause_fails_for_*` below). -/
theorem change_needs_authorisation (env : Env) (hsem : env.semOf = semOfGen) (s : State) (tx : Tx) (B : Addr)
    (h : (deliverTx env s tx).slots B ≠ s.slots B) :
    txAccepted env s tx = true ∧
    ((∃ m ∈ tx.msgs, Justified env.authority env.regKey s.grants tx.signers B m)
     ∨ ((∃ l, l ≠ [] ∧ (deliverTx env s tx).slots B = s.slots B ++ l)
        ∧ ∃ m ∈ tx.msgs, Named env.lightFeegranter s.grants B m)) := by
  obtain ⟨hacc, hcase⟩ := deliverTx_account (safeEnv_gen hsem) s tx B h
  refine ⟨hacc, ?_⟩
  rcases hcase with hj | ⟨hl, m, hm, hn⟩
  · exact Or.inl hj
  · exact Or.inr ⟨hl, m, hm, named_of_namedBy hsem hn⟩

/-- Clause "A transaction authorised by account A never … alters or removes anything attributed to
a different principal B", full strength: a transaction none of whose messages is `Justified` for
`B` leaves every record kept for `B` in place (the old records are a prefix of the new ones) —
whatever creators it claims, whatever its identity fields name, whatever grants its signers hold
from OTHER principals. -/
theorem no_cross_principal_alteration (env : Env) (hsem : env.semOf = semOfGen) (s : State) (tx : Tx) (B : Addr)
    (hno : ∀ m ∈ tx.msgs, ¬ Justified env.authority env.regKey s.grants tx.signers B m) :
    ∃ l, (deliverTx env s tx).slots B = s.slots B ++ l := by
  by_cases h : (deliverTx env s tx).slots B = s.slots B
  · exact ⟨[], by rw [h]; simp⟩
  · rcases (change_needs_authorisation env hsem s tx B h).2 with ⟨m, hm, hj⟩ | ⟨⟨l, _, hl⟩, _⟩
    · exact absurd hj (hno m hm)
    · exact ⟨l, hl⟩

/- Clause "… never ADDS … anything attributed to a different principal B", full strength:

     (∀ m ∈ tx.msgs, ¬ Justified env.authority env.regKey s.grants tx.signers B m) →
       (deliverTx env s tx).slots B = s.slots B

   is FALSE, in the model and in the implementation (`adds_clause_fails_for_target`,
   `adds_clause_fails_for_light_node_migration` below): a message may name `B` as beneficiary
   (licence bought for `B`, denom handed to `B`, deposit / sale attested for `B`, `B` put on a job's
   runner list, on the gas-exempt list), and anybody may trigger the migration that registers the
   pending grantees of the light-node feegranter.  The best true statement: -/

/-- Clause "never adds", with the two exceptions excluded by hypothesis: a transaction none of whose
messages is `Justified` for `B` or names `B` changes nothing kept for `B`. -/
theorem no_cross_principal_write_partial (env : Env) (hsem : env.semOf = semOfGen) (s : State) (tx : Tx) (B : Addr)
    (hno : ∀ m ∈ tx.msgs, ¬ Justified env.authority env.regKey s.grants tx.signers B m)
    (hnamed : ∀ m ∈ tx.msgs, ¬ Named env.lightFeegranter s.grants B m) :
    (deliverTx env s tx).slots B = s.slots B := by
  apply Classical.byContradiction
  intro h
  rcases (change_needs_authorisation env hsem s tx B h).2 with ⟨m, hm, hj⟩ | ⟨_, m, hm, hn⟩
  · exact hno m hm hj
  · exact hnamed m hm hn

/-- The same in the words of the quantifier "every choice of signer, claimed creator and named
principal": `B` did not sign and granted nothing to a signer; no message carries a signature by
`B`'s registered key over its item while naming `B`; the governance authority did not sign (nor a
grantee of it); no `target` field names `B` and `B` holds no grant from the light-node feegranter.
Then nothing kept for `B` changes — whoever the messages claim as creator. -/
theorem stranger_changes_nothing (env : Env) (hsem : env.semOf = semOfGen) (s : State) (tx : Tx) (B : Addr)
    (hB : B ∉ tx.signers) (hg : ∀ a ∈ tx.signers, s.grants B a = false)
    (hsig : ∀ m ∈ tx.msgs, ∀ f, m.field f = some B → env.regKey B ≠ some m.sigKey ∨ m.sigItem ≠ m.item)
    (hgov : env.authority ∉ tx.signers) (hgovg : ∀ a ∈ tx.signers, s.grants env.authority a = false)
    (htarget : ∀ m ∈ tx.msgs, ∀ f, roleOf m.typ f = some .target → m.field f ≠ some B)
    (hlegacy : s.grants env.lightFeegranter B = false) :
    (deliverTx env s tx).slots B = s.slots B := by
  apply no_cross_principal_write_partial env hsem s tx B
  · intro m hm
    apply not_justified_of
    · rintro (h | ⟨a, ha, hga⟩)
      · exact hB h
      · rw [hg a ha] at hga; exact Bool.false_ne_true hga
    · exact hsig m hm
    · rintro (h | ⟨a, ha, hga⟩)
      · exact hgov h
      · rw [hgovg a ha] at hga; exact Bool.false_ne_true hga
  · intro m hm hn
    rcases hn with ⟨f, hf, hfB⟩ | ⟨_, hgr⟩
    · exact htarget m hm f hf hfB
    · rw [hlegacy] at hgr; exact Bool.false_ne_true hgr

/-- Error branches: a transaction that is not accepted — no message, a signature missing, a
message the decorator refuses, a handler error (including a failed comparison with the creator /
the authority / the registered key), an unknown message type — changes nothing at all, also not
through the messages that ran before the failing one. -/
theorem rejected_tx_changes_nothing (env : Env) (s : State) (tx : Tx) (h : txAccepted env s tx = false) :
    deliverTx env s tx = s := by
  rcases deliverTx_cases env s tx with ⟨_, h0⟩ | ⟨hacc, _⟩
  · exact h0
  · rw [h] at hacc; exact absurd hacc (by simp)

open Paloma.Gen.Auth in
/-- "for every message type the chain accepts": an accepted transaction consists of messages of
the generated handler table only (= the registered RPCs, `table_covers`); a message of any other
type makes the whole transaction fail — no theorem above holds vacuously for unknown types. -/
theorem accepted_types_are_handlers (env : Env) (hsem : env.semOf = semOfGen) (s : State) (tx : Tx)
    (h : txAccepted env s tx = true) : ∀ m ∈ tx.msgs, ∃ hd ∈ handlers, hname hd = m.typ := by
  have hall : ∀ (ms : List Msg) (s s' : State), handleAll env s ms = some s' →
      ∀ m ∈ ms, ∃ hd ∈ handlers, hname hd = m.typ := by
    intro ms
    induction ms with
    | nil => intro _ _ _ m hm; simp at hm
    | cons m0 rest ih =>
      intro s s' h m hm
      simp only [handleAll] at h
      split at h
      · simp at h
      · rename_i s1 h1
        rcases List.mem_cons.1 hm with rfl | hm
        · obtain ⟨sem, hs, _⟩ := handle_some h1
          rw [hsem] at hs
          obtain ⟨hd, hmem, hn, _⟩ := semOfGen_some hs
          exact ⟨hd, hmem, hn⟩
        · exact ih s1 s' h m hm
  rcases deliverTx_cases env s tx with ⟨h0, _⟩ | ⟨_, _, _, _, hh⟩
  · rw [h] at h0; exact absurd h0 (by simp)
  · exact hall tx.msgs s _ hh

/-- Multi-message transactions: an accepted transaction has passed the decorator's check for EVERY
one of its messages individually — each creator is among that message's `metadata.signers`, or
granted an allowance to one of them, itself — and everybody a message declares as signer signed the
transaction.  A grant held from the creator of one message does not carry over to another. -/
theorem multi_msg_each_checked (env : Env) (s : State) (tx : Tx) (h : txAccepted env s tx = true) :
    ∀ m ∈ tx.msgs, SignedOrGranted s.grants m.signers m.creator ∧ ∀ a ∈ declared m, a ∈ tx.signers := by
  rcases deliverTx_cases env s tx with ⟨h0, _⟩ | ⟨_, _, hsig, hante, _⟩
  · rw [h] at h0; exact absurd h0 (by simp)
  · intro m hm
    exact ⟨(anteOk_iff m s.grants).1 ((List.all_eq_true.1 hante) m hm),
      sigCheckTx_mem hsig (declared m) (List.mem_map.2 ⟨m, hm, rfl⟩)⟩

/-- the single-message signature check of the driver (`sigCheck`) is the transaction-level one: it
    implies that every declared signer signed -/
theorem sigCheck_sound (typ : String) (S metaSigners : List Addr) (authf : Option Addr)
    (h : sigCheck typ S metaSigners authf = true) : ∀ a ∈ declaredSigners typ metaSigners authf, a ∈ S := by
  intro a ha
  unfold sigCheck at h
  unfold declaredSigners at ha
  split at h
  · rename_i hc
    rw [if_pos hc] at ha
    cases authf with
    | none => simp at h
    | some x =>
      have hS : S = [x] := by simpa using h
      rw [hS]; simpa using ha
  · rename_i hc
    rw [if_neg hc] at ha
    have hS : S = metaSigners := by simpa using h
    rw [hS]; exact ha

/-! ### Histories -/

/-- how a single operation of a history accounts for a change of `B`'s records, in the state `si`
it is applied to: a transaction as in `change_needs_authorisation`; an executed governance
proposal by being one ("or by the governance authority"); grants and revocations never -/
def Accounted (env : Env) (si : State) (B : Addr) : Op → Prop
  | .tx t => txAccepted env si t = true ∧
      ((∃ m ∈ t.msgs, Justified env.authority env.regKey si.grants t.signers B m)
       ∨ ((∃ l, l ≠ [] ∧ (deliverTx env si t).slots B = si.slots B ++ l)
          ∧ ∃ m ∈ t.msgs, Named env.lightFeegranter si.grants B m))
  | .gov _ => True
  | _ => False

/-- Over ALL histories of grants, revocations, (multi-message) transactions and executed governance
proposals, without any restriction on what `B` does: whenever what is kept for `B` differs between
the start and the end, the history contains an operation that changed it, and THAT operation, in
the state it was applied to, is an accepted transaction justified for `B` (or one that only added
records naming `B`), or an executed governance proposal. -/
theorem history_change_attributed (env : Env) (hsem : env.semOf = semOfGen) (B : Addr) (ops : List Op) (s : State)
    (h : (run env s ops).slots B ≠ s.slots B) :
    ∃ pre op post, ops = pre ++ op :: post ∧
      (step env (run env s pre) op).slots B ≠ (run env s pre).slots B ∧ Accounted env (run env s pre) B op := by
  obtain ⟨pre, op, post, hops, hch⟩ := run_changed_split env B ops s h
  refine ⟨pre, op, post, hops, hch, ?_⟩
  rcases step_slots_of_not_tx hch with ⟨t, rfl⟩ | ⟨m, rfl⟩
  · exact change_needs_authorisation env hsem (run env s pre) t B hch
  · exact trivial

/-- The fee grant a justification rests on was really given: a grant `P → a` in force after a
history was in force at its start and never revoked, or the history contains a `grant P a`
operation (ASSUMPTION: signed by `P`, see `Op`) not followed by its revocation.  Transactions never
create grants. -/
theorem grant_provenance (env : Env) (P a : Addr) (ops : List Op) (s : State)
    (h : (run env s ops).grants P a = true) :
    (s.grants P a = true ∧ ∀ o ∈ ops, ¬ isRevokeOf P a o)
    ∨ ∃ pre post, ops = pre ++ Op.grant P a :: post ∧ ∀ o ∈ post, ¬ isRevokeOf P a o :=
  run_grants_provenance env P a ops s h

/-- "never alters or removes", over histories, `B` free to act in any other way: while governance
passes no proposal and no transaction of the history is `Justified` for `B` in the state it is
delivered in, every record kept for `B` at the start is still there at the end, in place. -/
theorem history_never_altered (env : Env) (hsem : env.semOf = semOfGen) (B : Addr) (ops : List Op) (s : State)
    (hnogov : ∀ m, Op.gov m ∉ ops)
    (hno : ∀ pre t post, ops = pre ++ Op.tx t :: post →
      ∀ m ∈ t.msgs, ¬ Justified env.authority env.regKey (run env s pre).grants t.signers B m) :
    ∃ l, (run env s ops).slots B = s.slots B ++ l :=
  run_prefix (safeEnv_gen hsem) B ops s hnogov hno

/-- … and if moreover no transaction names `B`, nothing kept for `B` changes. -/
theorem history_untouched_partial (env : Env) (hsem : env.semOf = semOfGen) (B : Addr) (ops : List Op) (s : State)
    (hnogov : ∀ m, Op.gov m ∉ ops)
    (hno : ∀ pre t post, ops = pre ++ Op.tx t :: post →
      ∀ m ∈ t.msgs, ¬ Justified env.authority env.regKey (run env s pre).grants t.signers B m
        ∧ ¬ Named env.lightFeegranter (run env s pre).grants B m) :
    (run env s ops).slots B = s.slots B := by
  apply run_unchanged (safeEnv_gen hsem) B ops s hnogov
  intro pre t post hops m hm
  exact ⟨(hno pre t post hops m hm).1, fun hn => (hno pre t post hops m hm).2 (named_of_namedBy hsem hn)⟩

/-- `B` is not involved in `op`: it does not sign, nothing names it, it grants nothing and is not
    granted anything by the light-node feegranter; the governance authority does not act either -/
def Uninvolved (env : Env) (B : Addr) : Op → Prop
  | .grant g e => g ≠ B ∧ g ≠ env.authority ∧ ¬ (g = env.lightFeegranter ∧ e = B)
  | .revoke _ _ => True
  | .tx t => B ∉ t.signers ∧ env.authority ∉ t.signers ∧ ∀ m ∈ t.msgs, ∀ f, m.field f ≠ some B
  | .gov _ => False

/-- The passive special case (the former `history_no_cross_principal_write`, now for the real
handler table and including the `open` types): a principal without outstanding grants that is not
involved in any operation keeps everything — while the governance authority, too, stays out. -/
theorem history_passive_unchanged (env : Env) (hsem : env.semOf = semOfGen) (B : Addr) (ops : List Op) :
    ∀ s : State, (∀ e, s.grants B e = false) → (∀ e, s.grants env.authority e = false) →
      s.grants env.lightFeegranter B = false → (∀ op ∈ ops, Uninvolved env B op) →
      (run env s ops).slots B = s.slots B := by
  induction ops with
  | nil => intro s _ _ _ _; rfl
  | cons op rest ih =>
    intro s hB hA hF hops
    have hop := hops op (by simp)
    have hstep : (step env s op).slots B = s.slots B
        ∧ (∀ e, (step env s op).grants B e = false) ∧ (∀ e, (step env s op).grants env.authority e = false)
        ∧ (step env s op).grants env.lightFeegranter B = false := by
      cases op with
      | grant g e =>
        obtain ⟨h1, h2, h3⟩ := hop
        refine ⟨rfl, fun e' => ?_, fun e' => ?_, ?_⟩
        · simp only [step, setGrant]
          split
          · rename_i hc; exact absurd hc.1.symm h1
          · exact hB e'
        · simp only [step, setGrant]
          split
          · rename_i hc; exact absurd hc.1.symm h2
          · exact hA e'
        · simp only [step, setGrant]
          split
          · rename_i hc; exact absurd ⟨hc.1.symm, hc.2.symm⟩ h3
          · exact hF
      | revoke g e =>
        refine ⟨rfl, fun e' => ?_, fun e' => ?_, ?_⟩
        · simp only [step, setGrant]
          split
          · rfl
          · exact hB e'
        · simp only [step, setGrant]
          split
          · rfl
          · exact hA e'
        · simp only [step, setGrant]
          split
          · rfl
          · exact hF
      | tx t =>
        obtain ⟨h1, h2, h3⟩ := hop
        refine ⟨?_, fun e' => by rw [step_grants_tx]; exact hB e', fun e' => by rw [step_grants_tx]; exact hA e',
          by rw [step_grants_tx]; exact hF⟩
        exact stranger_changes_nothing env hsem s t B h1 (fun a _ => hB a)
          (fun m hm f hf => absurd hf (h3 m hm f)) h2 (fun a _ => hA a)
          (fun m hm f _ => h3 m hm f) hF
      | gov m => exact absurd hop id
    rw [run_cons, ih (step env s op) hstep.2.1 hstep.2.2.1 hstep.2.2.2 (fun o ho => hops o (by simp [ho])), hstep.1]

/-! ### The verdict function of the driver against the delivery model -/

open Paloma.Gen.Auth in
/-- `mayTouch` (with `roles`, `rules`, `authorityOkOf` — what the driver evaluates on every recorded
transaction of the harness) is SOUND for the delivery model: whenever a single-message transaction
of a handler `hd` of the generated table changes what is kept for `B`, the verdict function allows
it, given the list of the request's identity fields that denote `B` — for either value of the
`alteration` flag.  (`hwf`: the message has no fields its type does not have.) -/
theorem mayTouch_sound (env : Env) (hsem : env.semOf = semOfGen) (s : State) (signers : List Addr) (m : Msg)
    (B : Addr) (hd : Handler) (hmem : hd ∈ handlers) (htyp : m.typ = hname hd)
    (hwf : ∀ f, f ∉ hd.fields.map (·.1) → m.field f = none)
    (redirected : List String) (hred : ∀ f ∈ hd.fields.map (·.1), m.field f = some B → f ∈ redirected)
    (alteration : Bool)
    (h : (deliver env s signers m).slots B ≠ s.slots B) :
    mayTouch env.authority m.typ m.signers m.creator s.grants B redirected alteration = true
    ∨ (ruleOf m.typ = some .authorityOnly
        ∧ authorityOkOf env.authority m.typ m.creator (m.field "Authority") = true) := by
  have hsafe := safeEnv_gen hsem
  unfold deliver at h
  rcases deliverTx_cases env s ⟨signers, [m]⟩ with ⟨_, h0⟩ | ⟨_, _, _, hante, hall⟩
  · rw [h0] at h; exact absurd rfl h
  · have hante' : anteOk m s.grants = true := by simpa [anteOkTx] using hante
    simp only [handleAll] at hall
    split at hall
    · simp at hall
    · rename_i s1 h1
      simp only [Option.some.injEq] at hall
      rw [← hall] at h
      -- the semantics `handle` used is that of `hd`
      have hsemhd : ∀ sem, env.semOf m.typ = some sem → sem = genSem hd := by
        intro sem hs
        rw [hsem] at hs
        obtain ⟨hd', hmem', hn', hg'⟩ := semOfGen_some hs
        -- names are unique in the table
        have huniq : ∀ a ∈ handlers, ∀ b ∈ handlers, hname a = hname b → a = b := by decide
        rw [huniq hd hmem hd' hmem' (by rw [hn', htyp]), hg']
      rcases handle_account hsafe B h1 with ⟨sem, hs, hg, hcase⟩ | ⟨l, hl, hn⟩
      · have hsg := hsemhd sem hs
        subst hsg
        rcases hcase with hgov | ⟨_, hB⟩ | ⟨_, f, hf, hfB, _⟩
        · -- governance gated
          right
          have hga := (List.all_eq_true.1 govAgrees_all) hd hmem
          simp only [govAgrees, hgov, Bool.not_true, Bool.false_or, Bool.and_eq_true, Bool.or_eq_true] at hga
          obtain ⟨⟨hrule, hcr⟩, hau⟩ := hga
          refine ⟨by rw [htyp]; simpa using hrule, ?_⟩
          have hcreator : m.typ ∈ authorityIgnoresCreator ∨ m.creator = env.authority := by
            rcases hcr with (hc | hc) | hc
            · exact Or.inr (guardsOk_creatorIsAuthority hg hc)
            · obtain ⟨f, hf, hfc⟩ := List.any_eq_true.1 hc
              have e1 := guardsOk_eqAuthority hg f hf
              have e2 := guardsOk_eqCreator hg f (by simpa using hfc)
              rw [e1] at e2
              exact Or.inr (Option.some.inj e2).symm
            · exact Or.inl (by rw [htyp]; simpa using hc)
          have hauth : m.field "Authority" = none ∨ m.field "Authority" = some env.authority := by
            rcases hau with (ha | ha) | ha
            · exact Or.inr (guardsOk_eqAuthority hg "Authority" (by simpa using ha))
            · have e1 := guardsOk_eqCreator hg "Authority" (by simpa using ha.1)
              rw [guardsOk_creatorIsAuthority hg ha.2] at e1
              exact Or.inr e1
            · exact Or.inl (hwf "Authority" (by simpa using ha))
          unfold authorityOkOf
          rcases hauth with ha | ha <;> rcases hcreator with hc | hc <;> simp [ha, hc]
        · left
          subst hB
          have := (anteOk_iff m s.grants).1 hante'
          unfold mayTouch
          rcases this with hs1 | ⟨a, ha, hga⟩
          · simp [hs1]
          · have : m.signers.any (fun s_1 => s.grants m.creator s_1) = true := List.any_eq_true.2 ⟨a, ha, hga⟩
            simp [this]
        · left
          obtain ⟨hfm, hrole⟩ := genSem_sigFields_mem hf
          have hfr := hred f hfm hfB
          unfold mayTouch
          have : redirected.any (fun f => roleOf m.typ f == some Role.target || roleOf m.typ f == some Role.sigProven
              || (!alteration && roleOf m.typ f == some Role.freeText)) = true :=
            List.any_eq_true.2 ⟨f, hfr, by rw [htyp, hrole]; simp⟩
          simp [this]
      · left
        have hne : l ≠ [] := by
          intro hnil; apply h; rw [hl, hnil]; simp
        obtain ⟨sem, hs, hcase⟩ := hn hne
        have hsg := hsemhd sem hs
        subst hsg
        unfold mayTouch
        rcases hcase with ⟨f, hf, hfB⟩ | ⟨hst, _⟩
        · obtain ⟨hfm, hrole⟩ := genSem_targets_mem hf
          have hfr := hred f hfm hfB
          have : redirected.any (fun f => roleOf m.typ f == some Role.target || roleOf m.typ f == some Role.sigProven
              || (!alteration && roleOf m.typ f == some Role.freeText)) = true :=
            List.any_eq_true.2 ⟨f, hfr, by rw [htyp, hrole]; simp⟩
          simp [this]
        · have hty : m.typ = legacyType := by
            simp only [genSem] at hst
            rw [htyp]; simpa using hst
          rw [hty, legacy_rule_open]
          simp

/-! ### Ownership that can be handed over (token-factory denoms) -/

/-- Clause "a user's … token denoms … change only through a transaction signed by that principal
or by an address holding a fee grant from it", where "that principal" is the denom's CURRENT admin
(`dOwner`; before the denom exists: the account it is named after): if delivering `m` changes
anything kept for denom `d` (existence, admin, supply / metadata / bridge binding) then `m` acts on
`d`, its creator IS the owner, and the owner signed or granted an allowance to a signer.  The
address embedded in the denom's name plays no role once the denom exists. -/
theorem denom_change_authorised (namer : Nat → Addr) (s : DState) (m : DMsg) (d : Nat)
    (h : dView (dDeliver namer s m) d ≠ dView s d) :
    d = m.denom ∧ dOwner namer s d = some m.creator
      ∧ (m.creator ∈ m.signers ∨ ∃ a ∈ m.signers, s.grants m.creator a = true) :=
  dDeliver_changed namer s m d h

/-- Clause "a transaction authorised by account A never adds, alters or removes anything
attributed to a different principal B", for denoms: whatever a transaction names as creator and
whatever it tries (ChangeAdmin, Mint, Burn, SetDenomMetadata, bridge binding, re-creation), if the
denom's owner `P` is not among its signers and granted them nothing, the denom is untouched. -/
theorem denom_no_cross_principal_write (namer : Nat → Addr) (s : DState) (m : DMsg) (d : Nat) (P : Addr)
    (hown : dOwner namer s d = some P) (hP : P ∉ m.signers) (hg : ∀ a ∈ m.signers, s.grants P a = false) :
    dView (dDeliver namer s m) d = dView s d :=
  dDeliver_keeps namer s m d P hown hP hg

/-- A denom whose admin renounced (`ChangeAdmin` to "") belongs to nobody: no transaction of
anybody changes it any more — not even one by the account it is named after. -/
theorem denom_renounced_frozen (namer : Nat → Addr) (s : DState) (m : DMsg) (d : Nat)
    (hown : dOwner namer s d = none) : dView (dDeliver namer s m) d = dView s d := by
  apply Classical.byContradiction
  intro hne
  obtain ⟨_, h2, _⟩ := dDeliver_changed namer s m d hne
  rw [hown] at h2
  simp at h2

/-- The same over ALL histories of grants, revocations and denom messages: while the owner `P` of
`d` does not sign and grants nothing, nothing kept for `d` changes (so `P` stays the owner). -/
theorem denom_history_owner_only (namer : Nat → Addr) (d : Nat) (P : Addr) (ops : List DOp) :
    ∀ s : DState, dOwner namer s d = some P → (∀ e, s.grants P e = false) →
      (∀ op ∈ ops, ¬ DInvolves P op) → dView (dRun namer s ops) d = dView s d := by
  induction ops with
  | nil => intro s _ _ _; rfl
  | cons op rest ih =>
    intro s hown hg hops
    have h1 := dStep_keeps namer s op d P hown hg (hops op (by simp))
    have hown' : dOwner namer (dStep namer s op) d = some P := by
      rw [dOwner_of_view namer s _ d h1.1]; exact hown
    have h2 := ih (dStep namer s op) hown' h1.2 (fun o ho => hops o (by simp [ho]))
    simp only [dRun, List.foldl_cons] at h2 ⊢
    rw [h2, h1.1]

/-- An accepted `ChangeAdmin` was sent in the name of the then owner and makes exactly the named
account (or nobody) the owner. -/
theorem handover_moves_ownership (namer : Nat → Addr) (s : DState) (m : DMsg) (b : Option Addr)
    (hact : m.act = .changeAdmin b) (hacc : dAccepted namer s m = true) :
    dOwner namer s m.denom = some m.creator ∧ dOwner namer (dDeliver namer s m) m.denom = b := by
  unfold dAccepted at hacc
  have hante : dAnteOk m s.grants = true := by
    cases h : dAnteOk m s.grants <;> simp [h] at hacc ⊢
  have hsome : (dHandle namer s m).isSome = true := by
    cases h : (dHandle namer s m).isSome <;> simp [h] at hacc ⊢
  unfold dDeliver
  simp only [hante]
  unfold dHandle at hsome ⊢
  simp only [hact] at hsome ⊢
  by_cases hc : s.den m.denom = some (some m.creator)
  · simp [hc, dOwner, setAt]
  · simp [hc] at hsome

/-- After a hand-over to `b`, NO later history in which `b` neither signs nor grants changes the
denom — in particular nothing the former admin or the account the denom is named after signs
(e.g. a bridge binding for "its" denom). -/
theorem former_admin_locked_out (namer : Nat → Addr) (s : DState) (m : DMsg) (b : Addr) (ops : List DOp)
    (hact : m.act = .changeAdmin (some b)) (hacc : dAccepted namer s m = true)
    (hg : ∀ e, s.grants b e = false) (hops : ∀ op ∈ ops, ¬ DInvolves b op) :
    dView (dRun namer (dDeliver namer s m) ops) m.denom = dView (dDeliver namer s m) m.denom := by
  have h := (handover_moves_ownership namer s m (some b) hact hacc).2
  exact denom_history_owner_only namer m.denom b ops _ h
    (fun e => by rw [dDeliver_grants]; exact hg e) hops

/-- **existing_denom_never_recreated.** A creating message (`MsgCreateDenom`, or the binding `create_denom` with or
without metadata) for a denom that EXISTS changes nothing at all — whoever sends it (the account in the name included),
whoever the admin is now (somebody else, or nobody), and whatever the supply / bridge bindings / metadata record are
(`writes`, `dmeta` are not looked at: a supply of zero does not make an existing denom creatable again). -/
theorem existing_denom_never_recreated (namer : Nat → Addr) (s : DState) (m : DMsg)
    (hact : m.act = .create ∨ ∃ b, m.act = .createMeta b) (hex : s.den m.denom ≠ none) :
    dAccepted namer s m = false ∧ dDeliver namer s m = s := by
  have hnone : dHandle namer s m = none := by
    unfold dHandle
    rcases hact with h | ⟨b, h⟩ <;> simp [h, hex]
  constructor
  · simp [dAccepted, hnone]
  · unfold dDeliver
    simp only [hnone]
    split <;> rfl

/-- **handed_over_denom_not_taken_back_by_creation.** After an accepted hand-over to `b` the account the denom is named
after (or anybody else) cannot get it back by creating it again: every creating message for it is refused and leaves the
state as it is — for every state the hand-over started from. -/
theorem handed_over_denom_not_taken_back_by_creation (namer : Nat → Addr) (s : DState) (m c : DMsg) (b : Option Addr)
    (hact : m.act = .changeAdmin b) (hacc : dAccepted namer s m = true)
    (hc : c.act = .create ∨ ∃ x, c.act = .createMeta x) (hd : c.denom = m.denom) :
    dAccepted namer (dDeliver namer s m) c = false ∧ dDeliver namer (dDeliver namer s m) c = dDeliver namer s m := by
  apply existing_denom_never_recreated namer _ c hc
  have hante : dAnteOk m s.grants = true := by
    unfold dAccepted at hacc
    cases h : dAnteOk m s.grants <;> simp [h] at hacc ⊢
  have hsome : (dHandle namer s m).isSome = true := by
    unfold dAccepted at hacc
    cases h : (dHandle namer s m).isSome <;> simp [h] at hacc ⊢
  unfold dDeliver
  simp only [hante]
  unfold dHandle at hsome ⊢
  simp only [hact] at hsome ⊢
  by_cases hcr : s.den m.denom = some (some m.creator)
  · simp [hcr, hd, setAt]
  · simp [hcr] at hsome

/-- Clause "a transaction authorised by account A never adds, alters or removes anything
attributed to a different principal B" for a message whose OWN FIELDS may disagree (the wasm
bindings `set_metadata` / `create_denom` carry a `denom`, whose admin is compared with the calling
contract, and a `metadata.base`, under which the bank record is written): whatever `base` spells,
if anything kept for denom `d` — the bank's metadata record included (`dFull`) — changes, then `d`
is the message's `denom`, its owner is the creator, and the owner signed or granted to a signer. -/
theorem denom_full_change_authorised (namer : Nat → Addr) (s : DState) (m : DMsg) (d : Nat)
    (h : dFull (dDeliver namer s m) d ≠ dFull s d) :
    d = m.denom ∧ dOwner namer s d = some m.creator
      ∧ (m.creator ∈ m.signers ∨ ∃ a ∈ m.signers, s.grants m.creator a = true) :=
  dDeliver_full_changed namer s m d h

/-- … so a denom whose owner `P` neither signed nor granted keeps everything, whichever denom the
message names in whichever of its fields (a metadata record can neither be rewritten nor
pre-created — which would block `P`'s own `CreateDenom` — under somebody else's denom). -/
theorem denom_no_cross_principal_write_full (namer : Nat → Addr) (s : DState) (m : DMsg) (d : Nat) (P : Addr)
    (hown : dOwner namer s d = some P) (hP : P ∉ m.signers) (hg : ∀ a ∈ m.signers, s.grants P a = false) :
    dFull (dDeliver namer s m) d = dFull s d :=
  dDeliver_full_keeps namer s m d P hown hP hg

/-- An accepted `set_metadata` / `create_denom` with metadata names, as `metadata.base`, nothing
(`none`: filled in) or exactly the denom whose admin was compared. -/
theorem set_metadata_key_is_checked_denom (namer : Nat → Addr) (s : DState) (m : DMsg) (base : Option Nat)
    (hact : m.act = .setMeta base ∨ m.act = .createMeta base) (hacc : dAccepted namer s m = true) :
    base = none ∨ base = some m.denom := by
  unfold dAccepted at hacc
  have hsome : (dHandle namer s m).isSome = true := by
    cases h : (dHandle namer s m).isSome <;> simp [h] at hacc ⊢
  unfold dHandle at hsome
  cases hact with
  | inl hact =>
    simp only [hact] at hsome
    split at hsome
    · split at hsome
      · rename_i hk
        cases base with
        | none => left; rfl
        | some b => right; simpa using hk
      · simp at hsome
    · simp at hsome
  | inr hact =>
    simp only [hact] at hsome
    split at hsome
    · split at hsome
      · rename_i hk
        cases base with
        | none => left; rfl
        | some b => right; simpa using hk
      · simp at hsome
    · simp at hsome

/-- A chain export / import (no transaction of anybody) changes nobody's ownership: existence,
admin — handed over or renounced — and supply / bridge bindings of every denom are as before, so
every denom is attributed to the same principal afterwards. -/
theorem reimport_keeps_ownership (namer : Nat → Addr) (s : DState) (d : Nat) :
    dView (dReimport s) d = dView s d ∧ dOwner namer (dReimport s) d = dOwner namer s d ∧
      (dReimport s).grants = s.grants :=
  ⟨rfl, dOwner_of_view namer s _ d rfl, rfl⟩

/-- As built, the bank's metadata record does not always survive: it is kept or replaced by the
default record (`InitGenesis` runs `createDenomAfterValidation` for every exported denom) — nobody
gains control, but a record the admin had set is lost (observation, also C16). -/
theorem reimport_metadata_kept_or_default (s : DState) (d : Nat) :
    (dReimport s).dmeta d = s.dmeta d ∨ (dReimport s).dmeta d = 0 :=
  dReimport_meta s d

/-- The history theorem for the metadata record: over ALL histories of grants, revocations, denom
messages (with whatever `denom` / `metadata.base`) and chain exports / imports in which the owner
`P` of `d` neither signs nor grants, the record of `d` is the one it was, or the default one (and
the latter only through an export / import: `dStep_meta_keeps`). -/
theorem denom_history_metadata_owner_only (namer : Nat → Addr) (d : Nat) (P : Addr) (ops : List DOp) :
    ∀ s : DState, dOwner namer s d = some P → (∀ e, s.grants P e = false) →
      (∀ op ∈ ops, ¬ DInvolves P op) →
      (dRun namer s ops).dmeta d = s.dmeta d ∨ (dRun namer s ops).dmeta d = 0 := by
  induction ops with
  | nil => intro s _ _ _; left; rfl
  | cons op rest ih =>
    intro s hown hg hops
    have h1 := dStep_keeps namer s op d P hown hg (hops op (by simp))
    have hm := dStep_meta_keeps namer s op d P hown hg (hops op (by simp))
    have hown' : dOwner namer (dStep namer s op) d = some P := by
      rw [dOwner_of_view namer s _ d h1.1]; exact hown
    have h2 := ih (dStep namer s op) hown' h1.2 (fun o ho => hops o (by simp [ho]))
    simp only [dRun, List.foldl_cons] at h2 ⊢
    cases h2 with
    | inl h2 =>
      cases hm with
      | inl hm => left; rw [h2, hm]
      | inr hm => right; rw [h2, hm]
    | inr h2 => right; exact h2

/-- Light-node licences and client records across a chain export / import (no transaction of
anybody): every principal's client record and pending licence, and the grants, are as before. -/
theorem light_node_reimport_keeps_everything (s : LState) (p : Addr) :
    (lReimport s).client p = s.client p ∧ (lReimport s).licence p = s.licence p ∧ (lReimport s).grants = s.grants :=
  ⟨rfl, rfl, rfl⟩

/-- a denom message as a message of the generic model -/
def dMsg (m : DMsg) : Msg :=
  { typ := match m.act with
      | .create => "tokenfactory.CreateDenom"
      | .changeAdmin _ => "tokenfactory.ChangeAdmin"
      | .write => "tokenfactory.Mint"
      | .setMeta _ => "tokenfactory.SetDenomMetadata"
      | .createMeta _ => "tokenfactory.CreateDenom",
    signers := m.signers, creator := m.creator,
    field := fun f => match m.act with
      | .changeAdmin (some n) => if f = "NewAdmin" then some n else none
      | _ => none }

/-- The denom model against the generic one: whenever anything kept for a denom changes, the
principal it is attributed to (`dOwner`: the current admin) is `Justified` — by the SAME predicate
as in `change_needs_authorisation`, first disjunct — for the message seen as a generic message. -/
theorem denom_change_justified (authority : Addr) (regKey : Addr → Option Nat) (namer : Nat → Addr)
    (s : DState) (m : DMsg) (d : Nat) (h : dView (dDeliver namer s m) d ≠ dView s d) :
    ∃ P, dOwner namer s d = some P ∧ Justified authority regKey s.grants m.signers P (dMsg m) := by
  obtain ⟨_, h2, h3⟩ := dDeliver_changed namer s m d h
  exact ⟨m.creator, h2, Or.inl ⟨rfl, h3⟩⟩

/-- … and a hand-over is, for the receiver, exactly the `target` exception of the generic theorem:
`NewAdmin` names it. -/
theorem handover_names_receiver (F : Addr) (g : Addr → Addr → Bool) (m : DMsg) (b : Addr)
    (hact : m.act = .changeAdmin (some b)) : Named F g b (dMsg m) := by
  left
  refine ⟨"NewAdmin", ?_, ?_⟩
  · simp only [dMsg, hact]; decide
  · simp [dMsg, hact]

/-! ### Batch confirmations: filed under the validator whose key signed -/

/-- Clause "(or, for batch confirmations, carrying the validator's own external-chain signature
over the exact item)", concretely: a confirmation that appears through an attempt `a` is filed
under `a`'s ORCHESTRATOR, for `a`'s batch, and `a` carries a signature made by the key that
orchestrator registered, over exactly that batch (and passed the decorator).  Who sent it does not
matter — and cannot help. -/
theorem confirm_appears_only_backed (s : CState) (a : CAttempt) (c : CConfirm)
    (hin : c ∈ (cDeliver s a).confirms) (hnew : c ∉ s.confirms) :
    c.orch = a.orch ∧ c.batch = a.batch ∧ regAcct s a.orch = some a.sigKey ∧ a.sigItem = a.batch
      ∧ SignedOrGranted s.grants a.signers a.creator := by
  rcases cDeliver_cases s a with h | ⟨hante, s', hs', hd⟩
  · rw [h] at hin; exact absurd hin hnew
  · obtain ⟨rfl, _, hreg, _, hi, _, _⟩ := cHandle_some hs'
    rw [hd] at hin
    have : c = ⟨a.batch, a.orch, a.ethSigner, a.sigKey, a.sigItem⟩ := by
      rcases List.mem_append.1 hin with h | h
      · exact absurd h hnew
      · simpa using h
    subst this
    exact ⟨rfl, rfl, hreg, hi, (cAnteOk_iff a s.grants).1 hante⟩

/-- "A transaction authorised by account A never adds … anything attributed to a different
principal B", for confirmations: an attempt whose signature was not made by the key registered by
the validator it names as orchestrator (e.g. A's own key and genuine signature, orchestrator B), or
not over exactly the batch, stores nothing — whoever signs the transaction, whatever `eth_signer`
says. -/
theorem no_confirm_in_anothers_name (s : CState) (a : CAttempt)
    (h : regAcct s a.orch ≠ some a.sigKey ∨ a.sigItem ≠ a.batch) :
    (cDeliver s a).confirms = s.confirms := by
  rcases cDeliver_cases s a with h' | ⟨_, s', hs', _⟩
  · rw [h']
  · obtain ⟨_, _, hreg, _, hi, _, _⟩ := cHandle_some hs'
    rcases h with h | h
    · exact absurd hreg h
    · exact absurd hi h

/-- The confirmation model against the generic one: whenever the confirmations filed under `B`
change, `B` is `Justified` by the SAME predicate as in `change_needs_authorisation`, second
disjunct, with `regKey` := the accounts registered in the confirmation model (`regAcct s`) — the
abstract `Env.regKey` / `extSigOk` of the generic model is instantiated by `cHandle`'s checks. -/
theorem confirm_change_justified (authority : Addr) (s : CState) (a : CAttempt) (B : Addr)
    (h : cView (cDeliver s a) B ≠ cView s B) :
    Justified authority (regAcct s) s.grants a.signers B (cMsg a) := by
  rcases cDeliver_cases s a with h0 | ⟨_, s', hs', hd⟩
  · rw [h0] at h; exact absurd rfl h
  · obtain ⟨rfl, _, hreg, _, hi, _, _⟩ := cHandle_some hs'
    rw [hd] at h
    have hB : a.orch = B := by
      apply Classical.byContradiction
      intro hne
      apply h
      simp [cView, List.filter_append, hne]
    subst hB
    right; left
    exact ⟨"Orchestrator", by simp [cMsg], hreg, hi⟩

/-- Over ALL histories of confirmation attempts and key registrations: confirmations once stored
are never altered or removed (a validator's stored confirmation cannot be overwritten, nor its later
own one pre-empted by an entry it did not sign, see above). -/
theorem confirms_never_altered (vals : List Addr) (ops : List COp) :
    ∀ s : CState, ∃ l, (cRun vals s ops).confirms = s.confirms ++ l := by
  induction ops with
  | nil => intro s; exact ⟨[], by simp [cRun]⟩
  | cons op rest ih =>
    intro s
    obtain ⟨l2, h2⟩ := ih (cStep vals s op)
    have h1 : ∃ l, (cStep vals s op).confirms = s.confirms ++ l := by
      cases op with
      | attempt a => exact cDeliver_prefix s a
      | register r => exact ⟨[], by simp [cStep, (cRegDeliver_confirms vals s r).1]⟩
    obtain ⟨l1, h1⟩ := h1
    exact ⟨l1 ++ l2, by rw [cRun_cons, h2, h1, List.append_assoc]⟩

/-- Provenance of every confirmation the chain holds after ANY history (attempts by anybody,
registrations and re-registrations in between): it was there at the start, or the history contains
the attempt that stored it — filed under that attempt's orchestrator, carrying a signature made by
the key the orchestrator had registered AT THAT TIME, over exactly the batch, in a transaction that
passed the decorator. -/
theorem confirm_provenance (vals : List Addr) (c : CConfirm) :
    ∀ (ops : List COp) (s : CState), c ∈ (cRun vals s ops).confirms →
      c ∈ s.confirms ∨ ∃ pre a post, ops = pre ++ COp.attempt a :: post
        ∧ c = ⟨a.batch, a.orch, a.ethSigner, a.sigKey, a.sigItem⟩
        ∧ regAcct (cRun vals s pre) a.orch = some a.sigKey ∧ a.sigItem = a.batch
        ∧ SignedOrGranted (cRun vals s pre).grants a.signers a.creator := by
  intro ops
  induction ops with
  | nil => intro s h; exact Or.inl h
  | cons op rest ih =>
    intro s h
    rw [cRun_cons] at h
    rcases ih (cStep vals s op) h with h1 | ⟨pre, a, post, hops, hrest⟩
    · cases op with
      | attempt a =>
        by_cases hold : c ∈ s.confirms
        · exact Or.inl hold
        · right
          obtain ⟨_, _, hreg, hi, hso⟩ := confirm_appears_only_backed s a c h1 hold
          refine ⟨[], a, rest, rfl, ?_, hreg, hi, hso⟩
          rcases cDeliver_cases s a with h0 | ⟨_, s', hs', hd⟩
          · simp only [cStep] at h1; rw [h0] at h1; exact absurd h1 hold
          · obtain ⟨rfl, _⟩ := cHandle_some hs'
            simp only [cStep] at h1
            rw [hd] at h1
            rcases List.mem_append.1 h1 with h2 | h2
            · exact absurd h2 hold
            · simpa using h2
      | register r =>
        left
        simp only [cStep] at h1
        rwa [(cRegDeliver_confirms vals s r).1] at h1
    · right
      exact ⟨op :: pre, a, post, by rw [hops]; rfl, hrest⟩

/-- Clause "a validator's … external-chain accounts … change only through a transaction signed by
that principal or by an address holding a fee grant from it": a registration changes the key of
its CREATOR only, and only in a transaction the creator signed (or a grantee of it); every refused
registration (decorator, non-validator, address string held by another validator) changes nothing. -/
theorem key_change_authorised (vals : List Addr) (s : CState) (r : CReg) (v : Addr)
    (h : (cRegDeliver vals s r).keys v ≠ s.keys v) :
    v = r.creator ∧ SignedOrGranted s.grants r.signers r.creator ∧ v ∈ vals
      ∧ ∀ w ∈ vals, w ≠ v → s.keys w ≠ some r.addr := by
  rcases cRegDeliver_cases vals s r with h0 | ⟨hante, s', hs', hd⟩
  · rw [h0] at h; exact absurd rfl h
  · obtain ⟨hmem, hcol, rfl⟩ := cRegister_some hs'
    rw [hd] at h
    simp only at h
    split at h
    · rename_i hv
      subst hv
      exact ⟨rfl, (cRegAnteOk_iff r s.grants).1 hante, hmem, hcol⟩
    · exact absurd rfl h

/-- Provenance of the registered key itself — "the validator's OWN key": the address string
validator `v` holds after any history was there at the start, or the history contains a
registration in `v`'s own name (creator `v`; signed by `v` or by a fee grantee of `v`) for exactly
that string, and `v` is a validator. -/
theorem key_provenance (vals : List Addr) (v : Addr) (x : Nat) :
    ∀ (ops : List COp) (s : CState), (cRun vals s ops).keys v = some x →
      s.keys v = some x ∨ ∃ pre r post, ops = pre ++ COp.register r :: post
        ∧ r.creator = v ∧ r.addr = x ∧ v ∈ vals
        ∧ SignedOrGranted (cRun vals s pre).grants r.signers r.creator := by
  intro ops
  induction ops with
  | nil => intro s h; exact Or.inl h
  | cons op rest ih =>
    intro s h
    rw [cRun_cons] at h
    rcases ih (cStep vals s op) h with h1 | ⟨pre, r, post, hops, hrest⟩
    · cases op with
      | attempt a =>
        left
        simp only [cStep] at h1
        rwa [(cDeliver_keys s a).1] at h1
      | register r =>
        simp only [cStep] at h1
        rcases cRegDeliver_cases vals s r with h0 | ⟨hante, s', hs', hd⟩
        · left; rwa [h0] at h1
        · obtain ⟨hmem, _, rfl⟩ := cRegister_some hs'
          rw [hd] at h1
          simp only at h1
          split at h1
          · rename_i hv
            right
            refine ⟨[], r, rest, rfl, hv.symm, Option.some.inj h1, by rw [hv]; exact hmem,
              (cRegAnteOk_iff r s.grants).1 hante⟩
          · exact Or.inl h1
    · right
      exact ⟨op :: pre, r, post, by rw [hops]; rfl, hrest⟩

/-- Registered address STRINGS are unique over all histories: no two validators ever hold the same
string, and only validators hold one (`SetExternalChainInfoState`'s collision rule).  From the
initial state in particular. -/
theorem registered_strings_injective (vals : List Addr) (ops : List COp) :
    ∀ s : CState, KeysInv vals s → KeysInv vals (cRun vals s ops) := by
  induction ops with
  | nil => intro s h; exact h
  | cons op rest ih => intro s h; rw [cRun_cons]; exact ih _ (cStep_keysInv vals s op h)

theorem keysInv_init (vals : List Addr) : KeysInv vals cInit :=
  ⟨fun _ _ h => by simp [cInit] at h, fun _ _ _ h => by simp [cInit] at h⟩

/- "the validator's own key", full strength — the registered ACCOUNT (what a signature is
   verified against) identifies the validator:

     ∀ ops v w k, let s := cRun vals cInit ops; regAcct s v = some k → regAcct s w = some k → v = w

   is FALSE in the model and in the implementation: the collision rule compares address STRINGS,
   the confirmation handler compares parsed 20-byte accounts, and two spellings (hex case) of one
   account are different strings.  Witness below; the true statements are
   `registered_strings_injective` (strings) and `key_provenance` + `confirm_provenance`: whatever is
   filed under `v` carries a signature by an account `v` ITSELF registered. -/

/-- two validators holding the same account in different spellings is reachable … -/
theorem registered_accounts_not_injective :
    let s := cRun [20, 21] cInit [.register ⟨[20], 20, 80⟩, .register ⟨[21], 21, 81⟩]
    regAcct s 20 = some 20 ∧ regAcct s 21 = some 20 := by decide

/-- … and then a signature by that account's key is filed under whichever of the two is named
first — here by 20 itself under 21 — after which 20's own confirmation of the batch is refused
(one confirmation per key): the confirmation filed under 21 was signed by the key 21 itself chose
to register, so nothing is attributed to 21 against its will, but 20's confirmation is lost. -/
theorem shared_account_confirms_once :
    (cRun [20, 21] cInit [.register ⟨[20], 20, 80⟩, .register ⟨[21], 21, 81⟩,
      .attempt ⟨[20], 20, true, 1, 21, 20, 20, 1⟩, .attempt ⟨[20], 20, true, 1, 20, 20, 20, 1⟩]).confirms
    = [⟨1, 21, 20, 20, 1⟩] := by decide

/-- a stored confirmation is backed w.r.t. a key table: it names the account the validator it is
    filed under registered, and carries that key's signature over exactly the batch it confirms -/
def CBacked (keys : Addr → Option Nat) (c : CConfirm) : Prop :=
  (keys c.orch).map acctOf = some c.key ∧ c.sigKey = c.key ∧ c.sigItem = c.batch

/-- Without re-registrations in between (the situation of one batch's lifetime, and of the
harness): every confirmation the chain holds is backed by the key table as it stands. -/
theorem confirms_always_backed (vals : List Addr) (ops : List COp) (hnoreg : ∀ op ∈ ops, ∃ a, op = COp.attempt a) :
    ∀ s : CState, (∀ c ∈ s.confirms, CBacked s.keys c) →
      ∀ c ∈ (cRun vals s ops).confirms, CBacked s.keys c := by
  induction ops with
  | nil => intro s h; exact h
  | cons op rest ih =>
    intro s h
    obtain ⟨a, rfl⟩ := hnoreg op (by simp)
    rw [cRun_cons]
    have hk : (cStep vals s (.attempt a)).keys = s.keys := (cDeliver_keys s a).1
    have hstep : ∀ c ∈ (cStep vals s (.attempt a)).confirms, CBacked (cStep vals s (.attempt a)).keys c := by
      intro c hc
      rw [hk]
      by_cases hold : c ∈ s.confirms
      · exact h c hold
      · simp only [cStep] at hc
        rcases cDeliver_cases s a with h0 | ⟨_, s', hs', hd⟩
        · rw [h0] at hc; exact absurd hc hold
        · obtain ⟨rfl, _, hreg, hke, hi, _, _⟩ := cHandle_some hs'
          rw [hd] at hc
          rcases List.mem_append.1 hc with h2 | h2
          · exact absurd h2 hold
          · have : c = ⟨a.batch, a.orch, a.ethSigner, a.sigKey, a.sigItem⟩ := by simpa using h2
            subst this
            refine ⟨?_, hke, hi⟩
            have : regAcct s a.orch = some a.ethSigner := by rw [hreg, hke]
            exact this
    have := ih (fun o ho => hnoreg o (by simp [ho])) (cStep vals s (.attempt a)) hstep
    rw [hk] at this
    exact this

/-! ### Declared signers and the transaction's signatures -/
/-- Clause "changes only through a transaction SIGNED BY that principal or by an address holding a
fee grant from it", at the level of the transaction's verified signatures (not of what a message
says about its signers): every metadata-signed message of an accepted transaction has a creator
that signed THE TRANSACTION, or that granted an allowance to an account that signed it.  (What the
decorator reads — `metadata.signers` — is tied to the signatures by the SDK check `sigCheckTx`:
the transaction is signed by exactly the accounts its messages declare.) -/
theorem accepted_creator_signed_the_tx (env : Env) (s : State) (tx : Tx) (h : txAccepted env s tx = true) :
    ∀ m ∈ tx.msgs, authoritySigned.contains m.typ = false → SignedOrGranted s.grants tx.signers m.creator := by
  intro m hm hty
  obtain ⟨h1, h2⟩ := multi_msg_each_checked env s tx h m hm
  rw [declared_meta hty] at h2
  exact SignedOrGranted.mono h2 h1

/-- A message that declares NO signer (`metadata.signers` empty: the SDK then demands no signature
for it) never passes the decorator — whatever creator it names, whatever grants exist. -/
theorem no_declared_signer_no_pass (m : Msg) (g : Addr → Addr → Bool) (h : m.signers = []) : anteOk m g = false := by
  simp [anteOk, h]

/-- … so a transaction carrying such a message — next to any number of properly signed ones, which
supply the transaction's signatures — is rejected as a whole and changes nothing (the four request
types without a `ValidateBasic` reach the decorator in this shape). -/
theorem undeclared_signer_tx_rejected (env : Env) (s : State) (tx : Tx) (m : Msg) (hm : m ∈ tx.msgs)
    (h : m.signers = []) : txAccepted env s tx = false ∧ deliverTx env s tx = s := by
  have hante : anteOkTx tx.msgs s.grants = false := by
    cases hh : anteOkTx tx.msgs s.grants with
    | false => rfl
    | true =>
      unfold anteOkTx at hh
      have h1 := (List.all_eq_true.1 hh) m hm
      rw [no_declared_signer_no_pass m _ h] at h1
      cases h1
  have hacc : txAccepted env s tx = false := by simp [txAccepted, hante]
  exact ⟨hacc, rejected_tx_changes_nothing env s tx hacc⟩

/-! ### Light-node licences and client records: the state-keyed migration -/

/-- Clause "a user's … licences … change only through a transaction signed by that principal or by
an address holding a fee grant from it", for the light-node CLIENT RECORD: if delivering `m` changes
the record kept for `B`, then `m` was accepted and either `B` is its creator, signed / granted to a
signer, and `m` registers or authenticates; or `m` is the migration, `B` is a grantee of the
light-node feegranter that had NO record and no pending licence, and the record is the fresh one.
The migration is never the reason an EXISTING record changes. -/
theorem client_record_change_authorised (F : Addr) (now : Nat) (s : LState) (m : LMsg) (B : Addr)
    (h : (lDeliver F now s m).client B ≠ s.client B) :
    lAccepted F now s m = true ∧
    ((m.creator = B ∧ SignedOrGranted s.grants m.signers B ∧ (m.act = .register ∨ m.act = .auth))
     ∨ (m.act = .setLegacy ∧ s.grants F B = true ∧ s.client B = none ∧ s.licence B = false
        ∧ (lDeliver F now s m).client B = some ⟨now, now⟩)) := by
  rcases lDeliver_cases F now s m with ⟨_, h0⟩ | ⟨hacc, hante, s', hs', hd⟩
  · rw [h0] at h; exact absurd rfl h
  · rw [hd] at h ⊢
    refine ⟨hacc, ?_⟩
    rcases lHandle_client_changed hs' h with ⟨hc, ha⟩ | hleg
    · left; exact ⟨hc, hc ▸ (lAnteOk_iff m s.grants).1 hante, ha⟩
    · right; exact hleg

/-- The same for the pending LICENCE: it disappears only when its holder registers it (creator `B`,
signed / granted), and appears only for an address that has no licence and no account yet (bought
FOR it: role `target` of `ClientAddress`). -/
theorem licence_change_authorised (F : Addr) (now : Nat) (s : LState) (m : LMsg) (B : Addr)
    (h : (lDeliver F now s m).licence B ≠ s.licence B) :
    lAccepted F now s m = true ∧
    ((m.creator = B ∧ SignedOrGranted s.grants m.signers B ∧ m.act = .register ∧ s.licence B = true)
     ∨ (m.act = .addLicence B ∧ s.licence B = false ∧ s.account B = false)) := by
  rcases lDeliver_cases F now s m with ⟨_, h0⟩ | ⟨hacc, hante, s', hs', hd⟩
  · rw [h0] at h; exact absurd rfl h
  · rw [hd] at h
    refine ⟨hacc, ?_⟩
    rcases lHandle_licence_changed hs' h with ⟨hc, ha, hl⟩ | hadd
    · left; exact ⟨hc, hc ▸ (lAnteOk_iff m s.grants).1 hante, ha, hl⟩
    · right; exact hadd

/-- Clause "a transaction authorised by account A never … alters or removes anything attributed to
a different principal B", for the handler that ignores its sender: `SetLegacyLightNodeClients` —
sent by anybody, at any time, in any state of grants and licences — leaves every existing client
record (and every licence) exactly as it is; also for clients that still hold the feegranter's
allowance, as every client of the sale does. -/
theorem migration_never_touches_a_record (F : Addr) (now : Nat) (s : LState) (m : LMsg) (B : Addr) (r : LRec)
    (hact : m.act = .setLegacy) (hr : s.client B = some r) :
    (lDeliver F now s m).client B = some r ∧ (lDeliver F now s m).licence B = s.licence B := by
  constructor
  · apply Classical.byContradiction
    intro hne
    have hne' : (lDeliver F now s m).client B ≠ s.client B := by rw [hr]; exact hne
    rcases (client_record_change_authorised F now s m B hne').2 with ⟨_, _, h | h⟩ | ⟨_, _, hnone, _⟩
    · rw [hact] at h; cases h
    · rw [hact] at h; cases h
    · rw [hr] at hnone; cases hnone
  · apply Classical.byContradiction
    intro hne
    rcases (licence_change_authorised F now s m B hne).2 with ⟨_, _, h, _⟩ | ⟨h, _⟩
    · rw [hact] at h; cases h
    · rw [hact] at h; cases h

/-- … and for every light-node message: a transaction that `B` did not sign and whose signers hold
no allowance from `B` leaves `B`'s client record as it is — whatever creator it claims. -/
theorem no_cross_principal_client_write (F : Addr) (now : Nat) (s : LState) (m : LMsg) (B : Addr) (r : LRec)
    (hr : s.client B = some r) (hB : B ∉ m.signers) (hg : ∀ a ∈ m.signers, s.grants B a = false) :
    (lDeliver F now s m).client B = some r := by
  apply Classical.byContradiction
  intro hne
  have hne' : (lDeliver F now s m).client B ≠ s.client B := by rw [hr]; exact hne
  rcases (client_record_change_authorised F now s m B hne').2 with ⟨_, hsg, _⟩ | ⟨_, _, hnone, _⟩
  · rcases hsg with h | ⟨a, ha, hga⟩
    · exact hB h
    · rw [hg a ha] at hga; exact Bool.false_ne_true hga
  · rw [hr] at hnone; cases hnone

/-- … and leaves `B`'s pending licence in place. -/
theorem no_cross_principal_licence_removal (F : Addr) (now : Nat) (s : LState) (m : LMsg) (B : Addr)
    (hl : s.licence B = true) (hB : B ∉ m.signers) (hg : ∀ a ∈ m.signers, s.grants B a = false) :
    (lDeliver F now s m).licence B = true := by
  apply Classical.byContradiction
  intro hne
  have hne' : (lDeliver F now s m).licence B ≠ s.licence B := by rw [hl]; exact hne
  rcases (licence_change_authorised F now s m B hne').2 with ⟨_, hsg, _⟩ | ⟨_, hfalse, _⟩
  · rcases hsg with h | ⟨a, ha, hga⟩
    · exact hB h
    · rw [hg a ha] at hga; exact Bool.false_ne_true hga
  · rw [hl] at hfalse; cases hfalse

/-- is principal `P` involved in `op`?  (signs, or grants an allowance) -/
def LInvolves (P : Addr) : LOp → Prop
  | .grant g _ => g = P
  | .revoke _ _ => False
  | .sale _ => False
  | .msg _ m => P ∈ m.signers

/-- one step of a history in which `P` is not involved keeps `P`'s record, licence and "granted nothing" -/
theorem lStep_keeps (F : Addr) (s : LState) (op : LOp) (P : Addr) (hF : P ≠ F)
    (hg : ∀ e, s.grants P e = false) (hop : ¬ LInvolves P op) :
    (∀ r, s.client P = some r → (lStep F s op).client P = some r)
    ∧ (s.licence P = true → (lStep F s op).licence P = true)
    ∧ ∀ e, (lStep F s op).grants P e = false := by
  cases op with
  | grant a b =>
    refine ⟨fun r hr => hr, fun hl => hl, fun e => ?_⟩
    simp only [LInvolves] at hop
    simp only [lStep, setGrant]
    split
    · rename_i h; exact absurd h.1.symm hop
    · exact hg e
  | revoke a b =>
    refine ⟨fun r hr => hr, fun hl => hl, fun e => ?_⟩
    simp only [lStep, setGrant]
    split
    · rfl
    · exact hg e
  | sale c =>
    simp only [lStep, lSale]
    split
    · exact ⟨fun r hr => hr, fun hl => hl, hg⟩
    · split
      · exact ⟨fun r hr => hr, fun hl => hl, hg⟩
      · refine ⟨fun r hr => hr, fun hl => ?_, fun e => ?_⟩
        · simp only [setAt]; split
          · rfl
          · exact hl
        · simp only [setGrant]
          split
          · rename_i h; exact absurd h.1 hF
          · exact hg e
  | msg now m =>
    simp only [LInvolves] at hop
    refine ⟨fun r hr => ?_, fun hl => ?_, fun e => ?_⟩
    · exact no_cross_principal_client_write F now s m P r hr hop (fun a _ => hg a)
    · exact no_cross_principal_licence_removal F now s m P hl hop (fun a _ => hg a)
    · simp only [lStep, lDeliver_grants]; exact hg e

/-- Over ALL histories of grants, revocations, attested sales and light-node messages at arbitrary
times: while `P` (not the feegranter itself) neither signs nor grants, its client record and its
pending licence stay exactly as they are — however often anybody runs the migration. -/
theorem light_node_history_owner_only (F : Addr) (P : Addr) (hF : P ≠ F) (ops : List LOp) :
    ∀ s : LState, (∀ e, s.grants P e = false) → (∀ op ∈ ops, ¬ LInvolves P op) →
      (∀ r, s.client P = some r → (lRun F s ops).client P = some r)
      ∧ (s.licence P = true → (lRun F s ops).licence P = true) := by
  induction ops with
  | nil => intro s _ _; exact ⟨fun r hr => hr, fun hl => hl⟩
  | cons op rest ih =>
    intro s hg hops
    obtain ⟨h1, h2, h3⟩ := lStep_keeps F s op P hF hg (hops op (by simp))
    obtain ⟨i1, i2⟩ := ih (lStep F s op) h3 (fun o ho => hops o (by simp [ho]))
    simp only [lRun, List.foldl_cons] at i1 i2 ⊢
    exact ⟨fun r hr => i1 r (h1 r hr), fun hl => i2 (h2 hl)⟩

/-! ### The tables against the source (`Gen/Auth.lean`) -/

open Paloma.Gen.Auth in
/-- rule compatible with what the extractor saw in the handler (first generation check, kept) -/
def ruleCompat (h : Handler) : Bool :=
  match ruleOf (hname h) with
  | some .actsFor =>
    if creatorCheckedInValidateBasic.contains (hname h) then h.vbUsesCreator else h.usesCreator
  | some .authorityOnly => h.authorityCheck
  | some (.sigProven _) => (sigProvenField.find? (·.1 == hname h)).any (fun p => h.reads.contains p.2)
  | some (.open_ _) => true
  | none => false

open Paloma.Gen.Auth in
/-- every string / bytes field of the request has a role, compatible with the reads -/
def rolesCompat (h : Handler) : Bool :=
  h.fields.all fun f =>
    match roleOf (hname h) f.1 with
    | none => false
    | some .equatedWithCreator =>
      (h.reads.contains f.1 && h.usesCreator) || (h.vbReads.contains f.1 && h.vbUsesCreator)
    | some .authorityField => h.authorityCheck && h.reads.contains f.1
    | some .sigProven => h.reads.contains f.1
    | some _ => true

open Paloma.Gen.Auth in
/-- "for every message type the chain accepts": handlers and registered services coincide, every
one of them is classified, names are unique (a new RPC makes this fail). -/
theorem table_covers :
    (handlers.map fun h => (h.module, h.method)) = rpcs
    ∧ handlers.all (fun h => (ruleOf (hname h)).isSome) = true
    ∧ rules.all (fun r => handlers.any (fun h => hname h == r.1)) = true
    ∧ rules.length = handlers.length
    ∧ handlers.all (fun h => (semOfGen (hname h)) == some (genSem h)) = true := by
  decide

open Paloma.Gen.Auth in
/-- The table → step link, as a theorem about the SOURCE: the semantics computed from every
handler's extracted facts is safe — every identity-bearing field that keys a write is compared with
the creator (by the handler, a helper or ValidateBasic, unconditionally, returning an error on a
mismatch) or signature-proven (and the handler does verify an external-chain signature), types
signed by their `Authority` field are gated on it, governance-gated types tie the creator to the
authority.  A handler that starts writing under `msg.Orchestrator` (or any field that is
address-typed, parsed as an address or named like one) without such a comparison makes this fail —
as the pinned tree's `SendToPalomaClaim` / `UpsertRelayerFee` do (`prefix_defects_fail_safety`). -/
theorem handlers_safe : handlers.all (fun h => (genSem h).safe (hname h)) = true := handlers_safe_all

open Paloma.Gen.Auth in
set_option maxRecDepth 100000 in
/-- The hand-written `rules` table (what the driver's verdicts use) is DETERMINED by the extracted
semantics: `authorityOnly` ⇔ governance gated; `sigProven` ⇔ keyed by a signature-proven field and
not by the creator; `actsFor` ⇔ keyed by the creator or a field compared with it; `open_` ⇔ keyed by
nothing the sender controls.  Relabelling any of the 41 entries makes this fail. -/
theorem rules_match_source :
    handlers.all ruleAgrees = true
    ∧ handlers.all (fun h => (genSem h).stateKeyed == (hname h == legacyType)) = true
    ∧ (handlers.filter (fun h => match ruleOf (hname h) with | some (.open_ _) => true | _ => false)).map hname
        = ["evm.RemoveSmartContractDeployment", "paloma.SetLegacyLightNodeClients"] := by
  decide

open Paloma.Gen.Auth in
set_option maxRecDepth 100000 in
/-- "every identity-bearing field": the `roles` table against the source.  `equatedWithCreator` ⇔
the field is compared with / overwritten by the creator (one listed exception resolved by lookup);
`authorityField` ⇔ compared with the authority only; `sigProven` ⇒ a signature is verified; and
NO identity-like field (address-typed, parsed as an address, named like one) is `freeText` unless
it is listed, with its reason, in `notPrincipal`.  Relabelling a guarded or identity-like field
`freeText` makes this fail. -/
theorem roles_match_source :
    handlers.all roleAgrees = true
    ∧ roles.all (fun r => handlers.any (fun h => hname h == r.1 && h.fields.any (·.1 == r.2.1))) = true
    ∧ notPrincipal.all (fun e => handlers.any (fun h => hname h == e.1 && h.idFields.contains e.2.1)) = true
    ∧ equatedByLookup.all (fun e => roleOf e.1 e.2 == some .equatedWithCreator && isNotPrincipal e.1 e.2) = true := by
  decide

/-- the explicit exceptions of the "never adds" clause: ALL fields of role `target` -/
theorem targets_enumerated :
    (roles.filter (fun r => r.2.2 == .target)).map (fun r => (r.1, r.2.1)) =
      [("paloma.AddLightNodeClientLicense", "ClientAddress"), ("paloma.UpdateParams", "Params.GasExemptAddresses"),
       ("scheduler.CreateJob", "Job.Permissions.Whitelist.Address"), ("scheduler.CreateJob", "Job.Permissions.Blacklist.Address"),
       ("skyway.LightNodeSaleClaim", "ClientAddress"), ("skyway.SendToPalomaClaim", "PalomaReceiver"),
       ("skyway.SendToRemote", "EthDest"), ("tokenfactory.ChangeAdmin", "NewAdmin")] := by
  decide

open Paloma.Gen.Auth in
/-- first-generation compatibility checks (reads of the creator / the authority / the fields) -/
theorem table_sound : handlers.all ruleCompat = true ∧ handlers.all rolesCompat = true := by
  decide

open Paloma.Gen.Auth in
/-- the side tables: types signed by their `Authority` field are exactly those whose proto
`cosmos.msg.v1.signer` option says so (all others: "metadata"); the governance-gated handlers that
ignore the creator are exactly those without a comparison tying it to the authority; the other side
tables only name classified types of the right kind -/
theorem side_tables_sound :
    (handlers.filter (fun h => h.signer == "authority")).map hname = authoritySigned
    ∧ handlers.all (fun h => h.signer == "authority" || h.signer == "metadata") = true
    ∧ (handlers.filter (fun h => isGov (genSem h) && !((genSem h).creatorIsAuthority
          || (genSem h).eqAuthority.any (fun f => (genSem h).eqCreator.contains f)))).map hname = authorityIgnoresCreator
    ∧ authoritySigned.all (fun t => ruleOf t == some .authorityOnly) = true
    ∧ creatorCheckedInValidateBasic.all (fun t => ruleOf t == some .actsFor) = true
    ∧ sigProvenField.all (fun p => ruleOf p.1 == some (.sigProven 0) && roleOf p.1 p.2 == some .sigProven) = true := by
  decide

/-! ### Non-vacuity, reachability of the exceptions, and the defect class -/

/-! ### nested messages (authz `MsgExec`) -/

/-- **wrapped_message_is_checked.** Wrapping changes nothing: a `MsgExec` around a message — at any depth — passes the
decorator exactly when the message itself would. -/
theorem wrapped_message_is_checked (g : Addr) (m : Msg) (grants : Addr → Addr → Bool) :
    anteOkTop [.exec g [.plain m]] grants = anteOk m grants ∧
    anteOkTop [.exec g [.exec g [.plain m]]] grants = anteOk m grants := by
  simp [anteOkTop, anteOkTx, scopeList, Top.scope]

/-- **every_nested_message_is_checked.** If the decorator lets a transaction through, every paloma message it brings
along, however deeply wrapped, is signed by its creator or by an address its creator granted an allowance to. -/
theorem every_nested_message_is_checked (tops : List Top) (grants : Addr → Addr → Bool)
    (h : anteOkTop tops grants = true) : ∀ m ∈ scopeList tops, SignedOrGranted grants m.signers m.creator := by
  intro m hm
  exact (anteOk_iff m grants).1 ((List.all_eq_true.1 h) m hm)

/-- **wrapping_bypassed_the_old_decorator.** What the repaired defect was (/repo `ce5cc2b3`; reproduced on the real
application by scenario `x` of the harness): the old decorator passed a transaction signed by account 1 alone whose
`MsgExec` carries a message created in the name of account 2 and declaring signer 1 — a message authz then runs without
reading any authorisation — while the message on its own is refused. -/
theorem wrapping_bypassed_the_old_decorator :
    let m : Msg := { typ := "tokenfactory.ChangeAdmin", signers := [1], creator := 2, field := fun _ => none }
    anteOkTopOld [.exec 1 [.plain m]] (fun _ _ => false) = true ∧
    execNeedsNoAuthorisation 1 m = true ∧
    anteOk m (fun _ _ => false) = false ∧
    anteOkTop [.exec 1 [.plain m]] (fun _ _ => false) = false := by decide


/-- **contract_dispatch_acts_only_for_itself.** A protobuf message a contract dispatches is run only when it is the
contract's own message: its creator is the contract, and the contract is among its declared signers — the very condition
the ante decorator imposes on a transaction's messages (`anteOk`). -/
theorem contract_dispatch_acts_only_for_itself (c : Addr) (m : Msg) (grants : Addr → Addr → Bool)
    (h : wasmDispatchOk c m = true) : m.creator = c ∧ anteOk m grants = true := by
  simp only [wasmDispatchOk, wasmSignerOk, Bool.and_eq_true, beq_iff_eq, Bool.not_eq_true', List.all_eq_true] at h
  obtain ⟨hc, hall, hne⟩ := h
  refine ⟨hc, ?_⟩
  cases hs : m.signers with
  | nil => simp [hs] at hne
  | cons a as =>
    have : a = c := by have := hall a (by simp [hs]); simpa using this
    simp [anteOk, hs, this, hc]

/-- **contract_dispatch_was_unchecked.** What the second repaired defect was (/repo `72c8766b`): wasmd's condition alone
is met by a message created in the name of account 2 and declaring the contract 7 as signer — which the gate refuses. -/
theorem contract_dispatch_was_unchecked :
    let m : Msg := { typ := "tokenfactory.ChangeAdmin", signers := [7], creator := 2, field := fun _ => none }
    wasmSignerOk 7 m = true ∧ wasmDispatchOk 7 m = false ∧ anteOk m (fun _ _ => false) = false := by decide

/-- **contract_dispatch_nested_acts_only_for_itself.** Whatever a contract dispatches — a message, or messages inside any nesting
of `authz.MsgExec` wrappers — every Paloma message that reaches a handler names the contract as its creator. -/
theorem contract_dispatch_nested_acts_only_for_itself (c : Addr) (t : Top) (h : wasmDispatchTop c t = true) :
    ∀ m ∈ t.scope, m.creator = c := by
  intro m hm
  simp only [wasmDispatchTop, List.all_eq_true, beq_iff_eq] at h
  exact h m hm

/-- **contract_dispatch_wrapping_bypassed_the_old_gate.** What the third repaired defect of this kind was: a message created in
the name of account 2, declaring the contract 7 as signer, inside `MsgExec{grantee: 7}` passed the gate that looked at the
dispatched message only — and authz runs it on the grantee's word alone. -/
theorem contract_dispatch_wrapping_bypassed_the_old_gate :
    let m : Msg := { typ := "tokenfactory.ChangeAdmin", signers := [7], creator := 2, field := fun _ => none }
    wasmDispatchTopOld 7 (.exec 7 [.plain m]) = true ∧ execNeedsNoAuthorisation 7 m = true ∧
      wasmDispatchTop 7 (.exec 7 [.plain m]) = false ∧ wasmDispatchTop 7 (.exec 7 [.exec 7 [.plain m]]) = false := by decide

/-- non-vacuity: the contract's own message passes, bare and wrapped twice -/
example : let m : Msg := { typ := "tokenfactory.ChangeAdmin", signers := [7], creator := 7, field := fun _ => none }
    wasmDispatchTop 7 (.plain m) = true ∧ wasmDispatchTop 7 (.exec 7 [.exec 7 [.plain m]]) = true := by decide

/-- **deep_nesting_refused.** A transaction whose messages are wrapped in more `MsgExec` layers than the decorator unfolds is
refused as a whole: very deep nesting is no way around the ownership check. -/
theorem deep_nesting_refused (tops : List Top) (grants : Addr → Addr → Bool) (h : depthList tops > maxNesting) :
    anteOkTopBounded tops grants = false := by
  have : ¬ depthList tops ≤ maxNesting := by omega
  simp [anteOkTopBounded, this]

/-- **bounded_pass_checks_every_message.** What passes the bounded decorator passed the check on every message in scope. -/
theorem bounded_pass_checks_every_message (tops : List Top) (grants : Addr → Addr → Bool)
    (h : anteOkTopBounded tops grants = true) : ∀ m ∈ scopeList tops, anteOk m grants = true := by
  simp only [anteOkTopBounded, Bool.and_eq_true, decide_eq_true_eq] at h
  have := h.2
  simp only [anteOkTop, anteOkTx, List.all_eq_true] at this
  exact this

theorem wrapN_depth (g : Addr) (m : Msg) (k : Nat) : (wrapN g m k).depth = k := by
  induction k with
  | zero => simp [wrapN, Top.depth]
  | succ n ih => simp [wrapN, Top.depth, depthList, ih]; omega

theorem wrapN_scope (g : Addr) (m : Msg) (k : Nat) : (wrapN g m k).scope = [m] := by
  induction k with
  | zero => simp [wrapN, Top.scope]
  | succ n ih => simp [wrapN, Top.scope, scopeList, ih]

/-- **wrapped_k_times.** A single message wrapped `k` times passes exactly when `k` is within the bound and the message itself
passes: no number of wrappers changes the verdict on the message, and more than `maxNesting` of them are refused. -/
theorem wrapped_k_times (g : Addr) (m : Msg) (k : Nat) (grants : Addr → Addr → Bool) :
    anteOkTopBounded [wrapN g m k] grants = (decide (k ≤ maxNesting) && anteOk m grants) := by
  simp [anteOkTopBounded, anteOkTop, anteOkTx, depthList, scopeList, wrapN_depth, wrapN_scope]

/-- non-vacuity: six wrappers are unfolded, seven are refused -/
example : let m : Msg := { typ := "tokenfactory.ChangeAdmin", signers := [7], creator := 7, field := fun _ => none }
    anteOkTopBounded [wrapN 7 m 6] (fun _ _ => false) = true ∧ anteOkTopBounded [wrapN 7 m 7] (fun _ _ => false) = false := by decide


/-! ### several messages in one wrapper; sequences of dispatches -/

theorem scopeList_append (a b : List Top) : scopeList (a ++ b) = scopeList a ++ scopeList b := by
  induction a with
  | nil => simp [scopeList]
  | cons t ts ih => simp [scopeList, ih]

/-- **one_foreign_message_refuses_the_dispatch.** Position does not matter: if ANY message a contract's `MsgExec` brings
along — first, in the middle or last among messages of the contract's own, itself wrapped or not — names somebody else as
creator, the whole dispatch is refused (and authz, which would run every inner message on the grantee's word, runs none). -/
theorem one_foreign_message_refuses_the_dispatch (c g : Addr) (pre post : List Top) (t : Top) (m : Msg)
    (hm : m ∈ t.scope) (hf : m.creator ≠ c) : wasmDispatchTop c (.exec g (pre ++ t :: post)) = false := by
  cases h : wasmDispatchTop c (.exec g (pre ++ t :: post)) with
  | false => rfl
  | true =>
    have := contract_dispatch_nested_acts_only_for_itself c _ h m
      (by simp [Top.scope, scopeList_append, scopeList, hm])
    exact absurd this hf

/-- the same however many more wrappers surround the list -/
theorem wrapTop_scope (g : Addr) (t : Top) (k : Nat) : (wrapTop g t k).scope = t.scope := by
  induction k with
  | zero => simp [wrapTop]
  | succ n ih => simp [wrapTop, Top.scope, scopeList, ih]

theorem one_foreign_message_refuses_the_wrapped_dispatch (c g : Addr) (pre post : List Top) (t : Top) (m : Msg) (k : Nat)
    (hm : m ∈ t.scope) (hf : m.creator ≠ c) :
    wasmDispatchTopBounded c (wrapTop g (.exec g (pre ++ t :: post)) k) = false := by
  have h := one_foreign_message_refuses_the_dispatch c g pre post t m hm hf
  simp only [wasmDispatchTop] at h
  simp [wasmDispatchTopBounded, wasmDispatchTop, wrapTop_scope, h]

/-- **one_unauthorised_message_refuses_the_transaction.** The same for a transaction: a `MsgExec` holding, anywhere in
its list, a message whose creator neither is among its signers nor granted one of them an allowance is refused by the
decorator, whatever else the list holds (e.g. messages of a granter before it). -/
theorem one_unauthorised_message_refuses_the_transaction (g : Addr) (pre post : List Top) (t : Top) (m : Msg)
    (grants : Addr → Addr → Bool) (hm : m ∈ t.scope) (hf : anteOk m grants = false) :
    anteOkTopBounded [.exec g (pre ++ t :: post)] grants = false := by
  cases h : anteOkTopBounded [.exec g (pre ++ t :: post)] grants with
  | false => rfl
  | true =>
    have := bounded_pass_checks_every_message _ grants h m
      (by simp [scopeList, Top.scope, scopeList_append, hm])
    rw [hf] at this
    cases this

/-- **dispatch_verdict_has_no_memory.** The gate's verdict on a dispatch is the same whatever was dispatched through the
same router before it (honest `MsgExec`s of the same type, refused ones, anything): position `before.length` of the run
is the verdict on `t` alone.  Likewise for the decorator over a sequence of transactions. -/
theorem dispatch_verdict_has_no_memory (c : Addr) (before after : List Top) (t : Top) :
    (wasmRouterRun c (before ++ t :: after))[before.length]? = some (wasmDispatchTopBounded c t) := by
  simp [wasmRouterRun]

theorem ante_verdict_has_no_memory (before after : List (List Top × (Addr → Addr → Bool))) (tops : List Top)
    (grants : Addr → Addr → Bool) :
    (anteRun (before ++ (tops, grants) :: after))[before.length]? = some (anteOkTopBounded tops grants) := by
  simp [anteRun]

/-- **every_accepted_dispatch_of_a_run_is_the_contracts_own.** Over any sequence of dispatches through one router: whenever
the k-th is let through, every message it brings along names the contract as creator. -/
theorem every_accepted_dispatch_of_a_run_is_the_contracts_own (c : Addr) (ts : List Top) (k : Nat) (t : Top)
    (ht : ts[k]? = some t) (hpass : (wasmRouterRun c ts)[k]? = some true) : ∀ m ∈ t.scope, m.creator = c := by
  simp only [wasmRouterRun, List.getElem?_map, ht, Option.map_some, Option.some.injEq] at hpass
  simp only [wasmDispatchTopBounded, Bool.and_eq_true] at hpass
  exact contract_dispatch_nested_acts_only_for_itself c t hpass.2

/-- non-vacuity: own messages pass in a list; a foreign one first / middle / last refuses it; after two honest
dispatches the forged one is still refused -/
example : let own : Msg := { typ := "tokenfactory.CreateDenom", signers := [7], creator := 7, field := fun _ => none }
    let foreign : Msg := { typ := "tokenfactory.Burn", signers := [7], creator := 2, field := fun _ => none }
    wasmDispatchTopBounded 7 (.exec 7 [.plain own, .plain own, .plain own]) = true ∧
    wasmDispatchTopBounded 7 (.exec 7 [.plain foreign, .plain own, .plain own]) = false ∧
    wasmDispatchTopBounded 7 (.exec 7 [.plain own, .plain foreign, .plain own]) = false ∧
    wasmDispatchTopBounded 7 (.exec 7 [.plain own, .plain own, .plain foreign]) = false ∧
    wasmRouterRun 7 [.exec 7 [.plain own], .exec 7 [.plain own, .plain own], .exec 7 [.plain foreign, .plain own]]
      = [true, true, false] ∧
    anteOkTopBounded [.exec 7 [.plain foreign, .plain own]] (fun _ _ => false) = false ∧
    anteOkTopBounded [.exec 7 [.plain foreign, .plain own]] (fun a b => a == 2 && b == 7) = true := by decide

section Examples

/-- the real handler table; governance authority 99, light-node feegranter 50; validator 7
registered key 7; handlers ADD a record `1` for a principal they write for when the message is
about item 0 and REMOVE all its records otherwise; beneficiaries get a record `9`; governance
handlers add `5` to the authority's settings and `6` to principal 4 -/
def exEnv : Env where
  authority := 99
  lightFeegranter := 50
  semOf := semOfGen
  regKey := fun v => if v = 7 then some 7 else none
  handlerOk := fun _ _ => true
  eff := fun _ m _ v => if m.item = 0 then v ++ [1] else []
  gift := fun _ _ _ => [9]
  govEff := fun _ _ sl => fun x => if x = 99 then sl x ++ [5] else if x = 4 then sl x ++ [6] else sl x
  pending := fun s x => (s.slots x).isEmpty

def exMsg (typ : String) (signer creator : Addr) (fields : List (String × Addr)) (item : Nat := 0) : Msg :=
  { typ := typ, signers := [signer], creator := creator,
    field := fun f => (fields.find? (·.1 == f)).map (·.2), item := item }

def exTx (typ : String) (signer creator : Addr) (fields : List (String × Addr)) (item : Nat := 0) : Op :=
  .tx ⟨[signer], [exMsg typ signer creator fields item]⟩

/-- A signs for itself: a record is added; a second message about another item removes them -/
example : (run exEnv init [exTx "valset.KeepAlive" 1 1 []]).slots 1 = [1] := by decide
example : (run exEnv init [exTx "valset.KeepAlive" 1 1 [], exTx "valset.KeepAlive" 1 1 [] 3]).slots 1 = [] := by decide
/-- A signs with creator = B = 3 and no grant: rejected, nothing changes; with a grant 3 → 1: A acts
    for B; after the revocation: rejected again -/
example : (run exEnv init [exTx "valset.KeepAlive" 1 3 []]).slots 3 = [] := by decide
example : (run exEnv init [.grant 3 1, exTx "valset.KeepAlive" 1 3 []]).slots 3 = [1] := by decide
example : (run exEnv init [.grant 3 1, exTx "valset.KeepAlive" 1 3 [], .revoke 3 1, exTx "valset.KeepAlive" 1 3 [] 3]).slots 3
    = [1] := by decide
/-- forged metadata: creator 3, metadata.signers [3], but the transaction is signed by 1 only -/
example : (run exEnv init [.tx ⟨[1], [exMsg "valset.KeepAlive" 3 3 []]⟩]).slots 3 = [] := by decide
/-- a claim naming 3 as orchestrator, sent by 1 (the pinned tree's defect): the comparison rejects;
    3 itself may -/
example : (run exEnv init [exTx "skyway.SendToPalomaClaim" 1 1 [("Orchestrator", 3)]]).slots 3 = [] := by decide
example : (run exEnv init [exTx "skyway.SendToPalomaClaim" 1 1 [("Orchestrator", 3)]]).slots 1 = [] := by decide
example : (run exEnv init [exTx "skyway.SendToPalomaClaim" 3 3 [("Orchestrator", 3)]]).slots 3 = [1] := by decide
/-- relayer fee: keyed by the `ValAddress` field, compared with the creator by ValidateBasic -/
example : (run exEnv init [exTx "treasury.UpsertRelayerFee" 1 1 [("FeeSetting.ValAddress", 3)]]).slots 3 = [] := by decide
example : (run exEnv init [exTx "treasury.UpsertRelayerFee" 3 3 [("FeeSetting.ValAddress", 3)]]).slots 3 = [1] := by decide
/-- governance: from a user nothing; in the authority's name without its signature nothing; from the
    authority: settings change, and somebody else's records may (4) -/
example : (run exEnv init [exTx "skyway.OverrideNonceProposal" 1 1 []]).slots 99 = [] := by decide
example : (run exEnv init [exTx "skyway.OverrideNonceProposal" 1 99 []]).slots 99 = [] := by decide
example : (run exEnv init [exTx "skyway.OverrideNonceProposal" 99 99 []]).slots 99 = [5] := by decide
example : (run exEnv init [exTx "skyway.OverrideNonceProposal" 99 99 []]).slots 4 = [6] := by decide
/-- a type signed by its `Authority` field: metadata is decorative, the field must be the authority
    AND have signed -/
example : (run exEnv init [.tx ⟨[99], [exMsg "skyway.UpdateParams" 1 1 [("Authority", 99)]]⟩]).slots 99 = [5] := by decide
example : (run exEnv init [.tx ⟨[1], [exMsg "skyway.UpdateParams" 99 99 [("Authority", 1)]]⟩]).slots 99 = [] := by decide
example : (run exEnv init [.tx ⟨[1], [exMsg "skyway.UpdateParams" 99 99 [("Authority", 99)]]⟩]).slots 99 = [] := by decide
/-- batch confirmation naming validator 7 with a signature by 7's key over the item, relayed by 1:
    filed under 7; by another key, or over another item: nothing -/
example : (run exEnv init [.tx ⟨[1], [{ exMsg "skyway.ConfirmBatch" 1 1 [("Orchestrator", 7)] with sigKey := 7 }]⟩]).slots 7 = [1] := by decide
example : (run exEnv init [.tx ⟨[1], [{ exMsg "skyway.ConfirmBatch" 1 1 [("Orchestrator", 7)] with sigKey := 8 }]⟩]).slots 7 = [] := by decide
example : (run exEnv init [.tx ⟨[1], [{ exMsg "skyway.ConfirmBatch" 1 1 [("Orchestrator", 7)] with sigKey := 7, sigItem := 2 }]⟩]).slots 7 = [] := by decide
/-- unknown message type: the transaction fails as a whole -/
example : txAccepted exEnv init ⟨[1], [exMsg "valset.KeepAlive" 1 1 [], exMsg "bank.Send" 1 1 []]⟩ = false := by decide
example : (run exEnv init [.tx ⟨[1], [exMsg "valset.KeepAlive" 1 1 [], exMsg "bank.Send" 1 1 []]⟩]).slots 1 = [] := by decide
/-- the attack order: S = 1 holds a grant from G = 2 but none from B = 3; [creator G, creator B] and
    its reverse are rejected as a whole (G's records do not change either), [G, S] is accepted -/
example : (run exEnv init [.grant 2 1, .tx ⟨[1], [exMsg "valset.KeepAlive" 1 2 [], exMsg "valset.KeepAlive" 1 3 []]⟩]).slots 3 = [] := by decide
example : (run exEnv init [.grant 2 1, .tx ⟨[1], [exMsg "valset.KeepAlive" 1 2 [], exMsg "valset.KeepAlive" 1 3 []]⟩]).slots 2 = [] := by decide
example : (run exEnv init [.grant 2 1, .tx ⟨[1], [exMsg "valset.KeepAlive" 1 3 [], exMsg "valset.KeepAlive" 1 2 []]⟩]).slots 2 = [] := by decide
example : (run exEnv init [.grant 2 1, .tx ⟨[1], [exMsg "valset.KeepAlive" 1 2 [], exMsg "tokenfactory.Mint" 1 1 []]⟩]).slots 2 = [1] := by decide
/-- atomicity: a governance message from a user at the end reverts the first message too -/
example : (run exEnv init [.tx ⟨[1], [exMsg "valset.KeepAlive" 1 1 [], exMsg "skyway.OverrideNonceProposal" 1 1 []]⟩]).slots 1 = [] := by decide
/-- the hypotheses of `history_passive_unchanged` / `stranger_changes_nothing` are satisfiable on a
    non-trivial history that changes other principals' records -/
example : (run exEnv init [.grant 4 1, exTx "valset.KeepAlive" 1 4 [], exTx "tokenfactory.Mint" 1 1 [],
    .revoke 4 1, exTx "valset.KeepAlive" 1 4 []]).slots 4 = [1] := by decide

/-- executed governance proposals (no ante chain): the handlers' own gate still applies to the
    governance-only types; any other message runs in whatever name the proposal says -/
example : (run exEnv init [.gov (exMsg "skyway.OverrideNonceProposal" 99 99 [])]).slots 99 = [5] := by decide
example : (run exEnv init [.gov (exMsg "skyway.OverrideNonceProposal" 1 1 [])]).slots 99 = [] := by decide
example : (run exEnv init [.gov (exMsg "valset.KeepAlive" 99 3 [])]).slots 3 = [1] := by decide

/-- `evm.RemoveSmartContractDeployment` (no sender check at all) touches no principal's records -/
example : (run exEnv init [exTx "valset.KeepAlive" 3 3 [], exTx "evm.RemoveSmartContractDeployment" 1 1 []]).slots 3 = [1] := by decide

/-- "never ADDS" is false for `target` fields: 1 signs for itself, names 3 as licence holder; no
    message is `Justified` for 3, yet a record attributed to 3 appears -/
theorem adds_clause_fails_for_target :
    ∃ (env : Env) (s : State) (tx : Tx) (B : Addr), env.semOf = semOfGen
      ∧ (∀ m ∈ tx.msgs, ¬ Justified env.authority env.regKey s.grants tx.signers B m)
      ∧ (deliverTx env s tx).slots B ≠ s.slots B := by
  refine ⟨exEnv, init, ⟨[1], [exMsg "paloma.AddLightNodeClientLicense" 1 1 [("ClientAddress", 3)]]⟩, 3, rfl, ?_, by decide⟩
  intro m _
  apply not_justified_of
  · rintro (h | ⟨a, _, hg⟩)
    · simp at h
    · simp [init] at hg
  · intro f _; left; simp [exEnv]
  · rintro (h | ⟨a, _, hg⟩)
    · simp [exEnv] at h
    · simp [init] at hg

/-- … and for the light-node migration: 3 holds a grant from the light-node feegranter 50; ANY
    account (1) triggers the migration and a client record attributed to 3 appears -/
theorem adds_clause_fails_for_light_node_migration :
    ∃ (env : Env) (s : State) (tx : Tx) (B : Addr), env.semOf = semOfGen
      ∧ (∀ m ∈ tx.msgs, ¬ Justified env.authority env.regKey s.grants tx.signers B m)
      ∧ (deliverTx env s tx).slots B ≠ s.slots B := by
  refine ⟨exEnv, run exEnv init [.grant 50 3], ⟨[1], [exMsg "paloma.SetLegacyLightNodeClients" 1 1 []]⟩, 3, rfl, ?_, by decide⟩
  intro m _
  apply not_justified_of
  · rintro (h | ⟨a, ha, hg⟩)
    · simp at h
    · have ha' : a = 1 := by simpa using ha
      subst ha'
      revert hg; decide
  · intro f _; left; simp [exEnv]
  · rintro (h | ⟨a, ha, hg⟩)
    · simp [exEnv] at h
    · have ha' : a = 1 := by simpa using ha
      subst ha'
      revert hg; decide

/-- only ADDED: an existing record of 3 stays in place -/
example : (run exEnv init [exTx "valset.KeepAlive" 3 3 [],
    exTx "paloma.AddLightNodeClientLicense" 1 1 [("ClientAddress", 3)]]).slots 3 = [1, 9] := by decide

/-! The defect class the safety check rules out — the semantics the extractor computes for the
pinned tree's (22c12540~1) claim and relayer-fee handlers: keyed by the field, no comparison. -/

def preFixClaim : Sem := { usesCreator := true, keyed := ["Orchestrator"], targets := ["PalomaReceiver"] }
def preFixFee : Sem := { keyed := ["FeeSetting.ValAddress"] }

theorem prefix_defects_fail_safety :
    Sem.safe "skyway.SendToPalomaClaim" preFixClaim = false ∧ Sem.safe "treasury.UpsertRelayerFee" preFixFee = false := by
  decide

def preFixEnv : Env := { exEnv with semOf := fun t =>
  if t = "skyway.SendToPalomaClaim" then some preFixClaim
  else if t = "treasury.UpsertRelayerFee" then some preFixFee else semOfGen t }

/-- … and with them the model does what the pinned tree did: 1 votes as 3, 1 removes 3's fee -/
example : (run preFixEnv init [exTx "skyway.SendToPalomaClaim" 1 1 [("Orchestrator", 3)]]).slots 3 = [1] := by decide
example : (run preFixEnv init [exTx "treasury.UpsertRelayerFee" 3 3 [("FeeSetting.ValAddress", 3)],
    exTx "treasury.UpsertRelayerFee" 1 1 [("FeeSetting.ValAddress", 3)] 3]).slots 3 = [] := by decide

/-! hand-over histories: denom 1 is named after account 10 -/
def exNamer : Nat → Addr := fun _ => 10
def exD (signer creator : Addr) (act : DAct) : DOp := .msg { signers := [signer], creator := creator, denom := 1, act := act }

/-- 10 creates, hands over to 22; then 10 (former admin AND the account in the name) is refused a
    write (e.g. the bridge binding) and a second hand-over, 22 is not -/
example : dView (dRun exNamer dInit [exD 10 10 .create, exD 10 10 (.changeAdmin (some 22)), exD 10 10 .write,
    exD 10 10 (.changeAdmin (some 10))]) 1 = (some (some 22), 0) := by decide
example : dView (dRun exNamer dInit [exD 10 10 .create, exD 10 10 (.changeAdmin (some 22)), exD 22 22 .write]) 1
    = (some (some 22), 1) := by decide
/-- in the admin's name without a grant: refused; with a grant 22 → 11: accepted -/
example : dView (dRun exNamer dInit [exD 10 10 .create, exD 10 10 (.changeAdmin (some 22)), exD 11 22 .write]) 1
    = (some (some 22), 0) := by decide
example : dView (dRun exNamer dInit [exD 10 10 .create, exD 10 10 (.changeAdmin (some 22)), .grant 22 11, exD 11 22 .write]) 1
    = (some (some 22), 1) := by decide
/-- renounced: frozen, also for the namesake; nobody but the namesake can create -/
example : dView (dRun exNamer dInit [exD 10 10 .create, exD 10 10 (.changeAdmin none), exD 10 10 .write, exD 10 10 .create]) 1
    = (some none, 0) := by decide
example : dView (dRun exNamer dInit [exD 11 11 .create]) 1 = (none, 0) := by decide
/-- two denoms: 1 named after 10, 2 named after 11.  10 (admin of 1 only) names denom 2 as
    `metadata.base` of a set_metadata / create_denom for denom 1: refused, nothing of denom 2 (nor of
    denom 1) changes — whether denom 2 exists already or not; with `base` empty or = denom 1 it is
    accepted and writes denom 1's record -/
def exNamer2 : Nat → Addr := fun d => if d = 2 then 11 else 10
def exD2 (signer creator : Addr) (denom : Nat) (act : DAct) : DOp :=
  .msg { signers := [signer], creator := creator, denom := denom, act := act }
example : (fun s => (dFull s 1, dFull s 2)) (dRun exNamer2 dInit [exD2 10 10 1 .create, exD2 11 11 2 .create,
    exD2 10 10 1 (.setMeta (some 2))]) = (((some (some 10), 0), 0), ((some (some 11), 0), 0)) := by decide
example : (fun s => (dFull s 1, dFull s 2)) (dRun exNamer2 dInit [exD2 10 10 1 .create, exD2 11 11 2 .create,
    exD2 10 10 1 (.setMeta none), exD2 10 10 1 (.setMeta (some 1))]) = (((some (some 10), 0), 2), ((some (some 11), 0), 0)) := by decide
example : (fun s => (dFull s 1, dFull s 2)) (dRun exNamer2 dInit [exD2 10 10 1 (.createMeta (some 2))])
    = (((none, 0), 0), ((none, 0), 0)) := by decide
example : (fun s => (dFull s 1, dFull s 2)) (dRun exNamer2 dInit [exD2 10 10 1 (.createMeta none), exD2 11 11 2 .create])
    = (((some (some 10), 0), 1), ((some (some 11), 0), 0)) := by decide
/-- across a chain export / import: the hand-over to 22 (and a renouncement) survives, the former
    admin stays locked out, the new admin is not; the custom metadata record is reset (as built) -/
example : dFull (dRun exNamer dInit [exD 10 10 .create, exD 10 10 (.setMeta none), exD 10 10 (.changeAdmin (some 22)),
    .reimport, exD 10 10 .write, exD 10 10 (.changeAdmin (some 10)), exD 22 22 .write]) 1 = ((some (some 22), 1), 0) := by decide
example : dFull (dRun exNamer dInit [exD 10 10 .create, exD 10 10 (.changeAdmin none), .reimport, exD 10 10 .write]) 1
    = ((some none, 0), 0) := by decide
example : (dRun exNamer dInit [exD 10 10 .create, exD 10 10 (.setMeta none)]).dmeta 1 = 1
    ∧ (dRun exNamer dInit [exD 10 10 .create, exD 10 10 (.setMeta none), .reimport]).dmeta 1 = 0 := by decide
/-- the hypotheses of `former_admin_locked_out` are satisfiable -/
example : dAccepted exNamer (dRun exNamer dInit [exD 10 10 .create])
    { signers := [10], creator := 10, denom := 1, act := .changeAdmin (some 22) } = true := by decide

/-! confirmations: validators 20, 21 registered (canonical spellings of) keys 20, 21; batch 1 -/
def exC0 : CState where
  confirms := []
  grants := fun _ _ => false
  keys := fun v => if v = 20 then some 80 else if v = 21 then some 84 else none

/-- attempt on batch 1: sender, orchestrator, key named, key that signed, item signed -/
def exAtt (sender orch ethSigner sigKey sigItem : Nat) : COp :=
  .attempt ⟨[sender], sender, true, 1, orch, ethSigner, sigKey, sigItem⟩

/-- honest; relayed by user 10 with 21's own signature: both stored -/
example : (cRun [20, 21] exC0 [exAtt 20 20 20 20 1, exAtt 10 21 21 21 1]).confirms
    = [⟨1, 20, 20, 20, 1⟩, ⟨1, 21, 21, 21, 1⟩] := by decide
/-- validator 20 files its own key and genuine signature under 21; 21's key named but 20's
    signature; 21's signature over another batch: nothing stored, and 21 can still confirm -/
example : (cRun [20, 21] exC0 [exAtt 20 21 20 20 1, exAtt 20 21 21 20 1, exAtt 20 21 21 21 2, exAtt 21 21 21 21 1]).confirms
    = [⟨1, 21, 21, 21, 1⟩] := by decide
/-- replay: once per validator -/
example : (cRun [20, 21] exC0 [exAtt 20 20 20 20 1, exAtt 21 20 20 20 1]).confirms = [⟨1, 20, 20, 20, 1⟩] := by decide
/-- registration from the initial state: a second validator naming the same STRING is refused, a
    non-validator is refused, a registration in 21's name by 20 without a grant is refused; then 21
    confirms with the key it registered -/
example : ((cRun [20, 21] cInit [.register ⟨[20], 20, 80⟩, .register ⟨[21], 21, 80⟩, .register ⟨[30], 30, 88⟩,
    .register ⟨[20], 21, 84⟩]).keys 21, (cRun [20, 21] cInit [.register ⟨[20], 20, 80⟩, .register ⟨[21], 21, 80⟩,
    .register ⟨[30], 30, 88⟩, .register ⟨[20], 21, 84⟩]).keys 30) = (none, none) := by decide
example : (cRun [20, 21] cInit [.register ⟨[20], 20, 80⟩, .register ⟨[21], 21, 84⟩, exAtt 21 21 21 21 1]).confirms
    = [⟨1, 21, 21, 21, 1⟩] := by decide
/-- key rotation: 20 moves to key 22, 21 takes over 20's old key — 21 cannot confirm the batch 20
    already confirmed with it -/
example : (cRun [20, 21] cInit [.register ⟨[20], 20, 80⟩, exAtt 20 20 20 20 1, .register ⟨[20], 20, 88⟩,
    .register ⟨[21], 21, 80⟩, exAtt 21 21 20 20 1]).confirms = [⟨1, 20, 20, 20, 1⟩] := by decide

/-! light-node histories: feegranter 13; 31 and 33 bought in the sale (licence + allowance), 31
registered at time 1 and authenticated at time 2, 32 is a legacy grantee; at time 3 account 10 runs
the migration: 32 gets a record, 31 keeps its own although it still holds the allowance, 33 (licence
pending) gets none.  10 cannot authenticate for 31 without a grant, can with one; a licence cannot
be bought for an address that already has an account. -/
def exL : List LOp := [.sale 31, .msg 1 ⟨[31], 31, .register⟩, .msg 2 ⟨[31], 31, .auth⟩, .grant 13 32,
  .sale 33, .msg 3 ⟨[10], 10, .setLegacy⟩]
example : (lRun 13 (lInit [10, 13]) exL).client 31 = some ⟨1, 2⟩ := by decide
example : (lRun 13 (lInit [10, 13]) exL).grants 13 31 = true := by decide
example : (lRun 13 (lInit [10, 13]) exL).client 32 = some ⟨3, 3⟩ := by decide
example : (lRun 13 (lInit [10, 13]) exL).client 33 = none ∧ (lRun 13 (lInit [10, 13]) exL).licence 33 = true := by decide
example : (lRun 13 (lInit [10, 13]) (exL ++ [.msg 4 ⟨[10], 31, .auth⟩])).client 31 = some ⟨1, 2⟩ := by decide
example : (lRun 13 (lInit [10, 13]) (exL ++ [.grant 31 10, .msg 4 ⟨[10], 31, .auth⟩])).client 31 = some ⟨1, 4⟩ := by decide
example : (lRun 13 (lInit [10, 13]) (exL ++ [.msg 4 ⟨[10], 10, .addLicence 32⟩])).licence 32 = false := by decide

-- re-creation after a hand-over, with no admin-gated write ever made (supply zero): refused, admin stays 22
example : dView (dRun exNamer dInit [exD 10 10 .create, exD 10 10 (.changeAdmin (some 22)), exD 10 10 .create]) 1
    = (some (some 22), 0) := by decide
example : dAccepted exNamer (dRun exNamer dInit [exD 10 10 .create, exD 10 10 (.changeAdmin (some 22))]) ⟨[10], 10, 1, .create⟩ = false := by
  decide

end Examples

end Paloma.Auth
