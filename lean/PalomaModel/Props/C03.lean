import PalomaModel.Model.Auth
import PalomaModel.Gen.Auth

/-!
# C03 — state kept on behalf of a principal changes only with that principal's authorisation

"State that Paloma keeps on behalf of a principal … changes only through a transaction signed by
that principal or by an address holding a fee grant from it (or, for batch confirmations,
carrying the validator's own external-chain signature over the exact item), or by the governance
authority.  A transaction authorised by account A never adds, alters or removes anything
attributed to a different principal B."

The model (`Model/Auth.lean`) is the authorisation decorator plus, per message type, the
principal in whose name the handler writes.  The per-type classification is data; the last
section proves by `decide` that it covers, and is compatible with, what the extractor found in
the Go source (`Gen/Auth.lean`).
-/

namespace Paloma.Auth

section Lemmas

theorem bump_other {slots : Addr → Nat} {a x : Addr} (h : x ≠ a) : bump slots a x = slots x := by
  simp [bump, h]

theorem bump_changed {slots : Addr → Nat} {a x : Addr} (h : bump slots a x ≠ slots x) : x = a := by
  unfold bump at h
  split at h
  · assumption
  · exact absurd rfl h

theorem anteOk_iff (m : Msg) (g : Addr → Addr → Bool) :
    anteOk m g = true ↔ (m.creator ∈ m.signers ∨ ∃ a ∈ m.signers, g m.creator a = true) := by
  simp [anteOk, List.any_eq_true]

theorem applyRule_grants (cfg : Cfg) (s : State) (m : Msg) (r : Rule) :
    (applyRule cfg s m r).grants = s.grants := by
  cases r <;> simp only [applyRule] <;> (try split) <;> rfl

theorem deliver_grants (cfg : Cfg) (s : State) (m : Msg) : (deliver cfg s m).grants = s.grants := by
  unfold deliver
  split
  · rfl
  · split
    · rfl
    · split
      · rfl
      · exact applyRule_grants cfg s m _

/-- who is entitled to see its slot change when `m` is delivered -/
def Authorises (cfg : Cfg) (grants : Addr → Addr → Bool) (B : Addr) (m : Msg) : Prop :=
  match cfg.ruleOf m.typ with
  | some .actsFor => B = m.creator ∧ (B ∈ m.signers ∨ ∃ a ∈ m.signers, grants B a = true)
  | some .authorityOnly => B = cfg.authority ∧ m.creator = cfg.authority ∧ anteOk m grants = true
  | some (.sigProven f) => B = m.idField f ∧ cfg.sigOk m f = true
  | some (.open_ _) => True
  | none => False

/-- the only way a slot changes -/
theorem deliver_changed (cfg : Cfg) (s : State) (m : Msg) (B : Addr)
    (h : (deliver cfg s m).slots B ≠ s.slots B) : Authorises cfg s.grants B m := by
  unfold Authorises
  by_cases hante : anteOk m s.grants = true
  · by_cases hh : cfg.handlerOk s m = true
    · cases hr : cfg.ruleOf m.typ with
      | none => simp [deliver, hante, hh, hr] at h
      | some r =>
        cases r with
        | actsFor =>
          simp only [deliver, hante, hh, hr, applyRule] at h
          have hB : B = m.creator := bump_changed (by simpa using h)
          subst hB
          exact ⟨rfl, (anteOk_iff m s.grants).1 hante⟩
        | authorityOnly =>
          simp only [deliver, hante, hh, hr, applyRule] at h
          by_cases hc : m.creator = cfg.authority
          · simp only [hc, if_true] at h
            exact ⟨bump_changed (by simpa using h), hc, hante⟩
          · simp [hc] at h
        | sigProven f =>
          simp only [deliver, hante, hh, hr, applyRule] at h
          by_cases hs : cfg.sigOk m f = true
          · simp only [hs, if_true] at h
            exact ⟨bump_changed (by simpa using h), hs⟩
          · simp [hs] at h
        | open_ reason => trivial
    · simp [deliver, hante, hh] at h
  · simp [deliver, hante] at h

/-- handler level: `B` is the principal in whose name the handler of `m` writes -/
def Writes (cfg : Cfg) (B : Addr) (m : Msg) : Prop :=
  match cfg.ruleOf m.typ with
  | some .actsFor => B = m.creator
  | some .authorityOnly => B = cfg.authority ∧ m.creator = cfg.authority
  | some (.sigProven f) => B = m.idField f ∧ cfg.sigOk m f = true
  | some (.open_ _) => True
  | none => False

theorem handle_grants (cfg : Cfg) (s s' : State) (m : Msg) (h : handle cfg s m = some s') :
    s'.grants = s.grants := by
  unfold handle at h
  split at h
  · simp at h
  · split at h
    · simp at h
    · split at h
      · simp at h; rw [← h]; exact applyRule_grants cfg s m _
      · simp at h

theorem handle_changed (cfg : Cfg) (s s' : State) (m : Msg) (B : Addr)
    (h : handle cfg s m = some s') (hne : s'.slots B ≠ s.slots B) : Writes cfg B m := by
  unfold handle at h
  unfold Writes
  split at h
  · simp at h
  · cases hr : cfg.ruleOf m.typ with
    | none => simp [hr] at h
    | some r =>
      simp only [hr] at h
      split at h
      · rename_i hacc
        simp at h
        subst h
        cases r with
        | actsFor =>
          simp only [applyRule] at hne
          exact bump_changed (by simpa using hne)
        | authorityOnly =>
          have hc : m.creator = cfg.authority := by simpa [accepts] using hacc
          simp only [applyRule, hc, if_true] at hne
          exact ⟨bump_changed (by simpa using hne), hc⟩
        | sigProven f =>
          have hs : cfg.sigOk m f = true := by simpa [accepts] using hacc
          simp only [applyRule, hs, if_true] at hne
          exact ⟨bump_changed (by simpa using hne), hs⟩
        | open_ reason => trivial
      · simp at h

theorem handleAll_grants (cfg : Cfg) (ms : List Msg) :
    ∀ s s' : State, handleAll cfg s ms = some s' → s'.grants = s.grants := by
  induction ms with
  | nil => intro s s' h; simp [handleAll] at h; rw [h]
  | cons m rest ih =>
    intro s s' h
    simp only [handleAll] at h
    split at h
    · simp at h
    · rename_i s1 h1
      rw [ih s1 s' h, handle_grants cfg s s1 m h1]

theorem handleAll_changed (cfg : Cfg) (B : Addr) (ms : List Msg) :
    ∀ s s' : State, handleAll cfg s ms = some s' → s'.slots B ≠ s.slots B → ∃ m ∈ ms, Writes cfg B m := by
  induction ms with
  | nil => intro s s' h hne; simp [handleAll] at h; subst h; exact absurd rfl hne
  | cons m rest ih =>
    intro s s' h hne
    simp only [handleAll] at h
    split at h
    · simp at h
    · rename_i s1 h1
      by_cases h0 : s1.slots B = s.slots B
      · have hne' : s'.slots B ≠ s1.slots B := by rw [h0]; exact hne
        obtain ⟨m', hm', hw⟩ := ih s1 s' h hne'
        exact ⟨m', by simp [hm'], hw⟩
      · exact ⟨m, by simp, handle_changed cfg s s1 m B h1 h0⟩

theorem deliverTx_grants (cfg : Cfg) (s : State) (ms : List Msg) : (deliverTx cfg s ms).grants = s.grants := by
  unfold deliverTx
  split
  · rfl
  · split
    · rfl
    · rename_i s' h; exact handleAll_grants cfg ms s s' h

/-- is principal `B` involved in message `m`?  (everything that could entitle a change of `B`'s
    slot when `B` has no outstanding fee grants) -/
def InvolvesMsg (cfg : Cfg) (B : Addr) (m : Msg) : Prop :=
  B ∈ m.signers
  ∨ (∃ f, cfg.ruleOf m.typ = some (.sigProven f) ∧ m.idField f = B ∧ cfg.sigOk m f = true)
  ∨ (cfg.ruleOf m.typ = some .authorityOnly ∧ B = cfg.authority)
  ∨ (∃ r, cfg.ruleOf m.typ = some (.open_ r))

/-- is principal `B` involved in `op`? -/
def Involves (cfg : Cfg) (B : Addr) : Op → Prop
  | .grant g _ => g = B
  | .revoke _ _ => False
  | .tx m => InvolvesMsg cfg B m
  | .mtx ms => ∃ m ∈ ms, InvolvesMsg cfg B m

/-- a message that passed the decorator and writes for `B` involves `B` (given `B` granted nothing) -/
theorem writes_involves (cfg : Cfg) (g : Addr → Addr → Bool) (B : Addr) (m : Msg)
    (hg : ∀ e, g B e = false) (hante : anteOk m g = true) (hw : Writes cfg B m) : InvolvesMsg cfg B m := by
  unfold Writes at hw
  unfold InvolvesMsg
  split at hw
  · subst hw
    cases (anteOk_iff m g).1 hante with
    | inl h => exact Or.inl h
    | inr h => obtain ⟨a, _, hga⟩ := h; simp [hg a] at hga
  · rename_i hr
    exact Or.inr (Or.inr (Or.inl ⟨hr, hw.1⟩))
  · rename_i f hr
    exact Or.inr (Or.inl ⟨f, hr, hw.1.symm, hw.2⟩)
  · rename_i r hr
    exact Or.inr (Or.inr (Or.inr ⟨r, hr⟩))
  · exact absurd hw id

theorem step_keeps (cfg : Cfg) (s : State) (op : Op) (B : Addr)
    (hg : ∀ e, s.grants B e = false) (hop : ¬ Involves cfg B op) :
    (step cfg s op).slots B = s.slots B ∧ ∀ e, (step cfg s op).grants B e = false := by
  cases op with
  | grant a b =>
    simp only [Involves] at hop
    refine ⟨rfl, fun e => ?_⟩
    simp only [step, setGrant]
    split
    · rename_i h; exact absurd h.1.symm hop
    · exact hg e
  | revoke a b =>
    refine ⟨rfl, fun e => ?_⟩
    simp only [step, setGrant]
    split
    · rfl
    · exact hg e
  | tx m =>
    simp only [Involves] at hop
    refine ⟨?_, fun e => by simp only [step, deliver_grants]; exact hg e⟩
    simp only [step]
    apply Classical.byContradiction
    intro hne
    have ha := deliver_changed cfg s m B hne
    apply hop
    unfold Authorises at ha
    unfold InvolvesMsg
    split at ha
    · obtain ⟨_, h2⟩ := ha
      cases h2 with
      | inl h => exact Or.inl h
      | inr h => obtain ⟨a, _, hga⟩ := h; simp [hg a] at hga
    · rename_i hr
      exact Or.inr (Or.inr (Or.inl ⟨hr, ha.1⟩))
    · rename_i f hr
      exact Or.inr (Or.inl ⟨f, hr, ha.1.symm, ha.2⟩)
    · rename_i r hr
      exact Or.inr (Or.inr (Or.inr ⟨r, hr⟩))
    · exact absurd ha id
  | mtx ms =>
    simp only [Involves] at hop
    refine ⟨?_, fun e => by simp only [step, deliverTx_grants]; exact hg e⟩
    simp only [step]
    apply Classical.byContradiction
    intro hne
    unfold deliverTx at hne
    split at hne
    · exact hne rfl
    · rename_i hante
      have hall : anteOkTx ms s.grants = true := by simpa using hante
      split at hne
      · exact hne rfl
      · rename_i s' hs'
        obtain ⟨m, hm, hw⟩ := handleAll_changed cfg B ms s s' hs' hne
        have hm_ante : anteOk m s.grants = true := by
          unfold anteOkTx at hall
          exact (List.all_eq_true.1 hall) m hm
        exact hop ⟨m, hm, writes_involves cfg s.grants B m hg hm_ante hw⟩

end Lemmas

/- ## Property theorems -/

/-- Clause "changes only through a transaction signed by that principal or by an address holding a
fee grant from it", for every handler that writes in the creator's name: if delivering `m`
changes the slot of `B` then `B` is the creator AND `B` signed or granted an allowance to a
signer.  This is exactly what `VerifyAuthorisedSignatureDecorator` implies — no more (any fee
grant, of any size or message filter, delegates everything). -/
theorem write_authorised (cfg : Cfg) (s : State) (m : Msg) (B : Addr)
    (hr : cfg.ruleOf m.typ = some .actsFor)
    (h : (deliver cfg s m).slots B ≠ s.slots B) :
    B = m.creator ∧ (B ∈ m.signers ∨ ∃ a ∈ m.signers, s.grants B a = true) := by
  have := deliver_changed cfg s m B h
  simpa [Authorises, hr] using this

/-- Clause "A transaction authorised by account A never adds, alters or removes anything
attributed to a different principal B": a transaction whose signers do not include `B` and hold no
grant from `B` leaves `B`'s slot alone, whatever creator and identity fields it claims. -/
theorem no_cross_principal_write (cfg : Cfg) (s : State) (m : Msg) (B : Addr)
    (hr : cfg.ruleOf m.typ = some .actsFor)
    (hB : B ∉ m.signers) (hg : ∀ a ∈ m.signers, s.grants B a = false) :
    (deliver cfg s m).slots B = s.slots B := by
  apply Classical.byContradiction
  intro hne
  obtain ⟨_, h2⟩ := write_authorised cfg s m B hr hne
  cases h2 with
  | inl h => exact hB h
  | inr h => obtain ⟨a, ha, hga⟩ := h; simp [hg a ha] at hga

/-- Clause "or by the governance authority": an authority-only handler changes state only when
the creator is the governance authority (and then only the authority's own slot: the settings). -/
theorem authority_only (cfg : Cfg) (s : State) (m : Msg) (X : Addr)
    (hr : cfg.ruleOf m.typ = some .authorityOnly)
    (h : (deliver cfg s m).slots X ≠ s.slots X) :
    X = cfg.authority ∧ m.creator = cfg.authority ∧ anteOk m s.grants = true := by
  have := deliver_changed cfg s m X h
  simpa [Authorises, hr] using this

/-- Clause "(or, for batch confirmations, carrying the validator's own external-chain signature
over the exact item)": a signature-proven handler changes only the slot of the principal named
by the proven field, and only when that signature verifies. -/
theorem sig_proven_only (cfg : Cfg) (s : State) (m : Msg) (X : Addr) (f : Nat)
    (hr : cfg.ruleOf m.typ = some (.sigProven f))
    (h : (deliver cfg s m).slots X ≠ s.slots X) :
    X = m.idField f ∧ cfg.sigOk m f = true := by
  have := deliver_changed cfg s m X h
  simpa [Authorises, hr] using this

/-- The whole property over ALL histories of grants, revocations, single- and MULTI-message
transactions (`Op.mtx`: the history version of `multi_msg_each_checked`): a principal
that starts without outstanding fee grants and is not involved in any operation (never signs,
never grants, is never named by a verifying signature-proven field, is not the authority of an
authority-only message) keeps its slot — unless an `open_` message type occurs, about which
nothing is claimed. -/
theorem history_no_cross_principal_write (cfg : Cfg) (B : Addr) (ops : List Op) :
    ∀ s : State, (∀ e, s.grants B e = false) → (∀ op ∈ ops, ¬ Involves cfg B op) →
      (run cfg s ops).slots B = s.slots B := by
  induction ops with
  | nil => intro s _ _; rfl
  | cons op rest ih =>
    intro s hg hops
    have h1 := step_keeps cfg s op B hg (hops op (by simp))
    have h2 := ih (step cfg s op) h1.2 (fun o ho => hops o (by simp [ho]))
    simp only [run, List.foldl_cons] at h2 ⊢
    rw [h2, h1.1]

/-- Multi-message transactions, clause "signed by that principal or by an address holding a fee
grant FROM IT": an accepted transaction has passed the decorator's check for EVERY one of its
messages individually — each creator signed, or granted an allowance to a signer, itself.  A
grant held from the creator of one message does not carry over to another message. -/
theorem multi_msg_each_checked (cfg : Cfg) (s : State) (msgs : List Msg)
    (h : txAccepted cfg s msgs = true) : ∀ m ∈ msgs, anteOk m s.grants = true := by
  unfold txAccepted anteOkTx at h
  have h1 : (msgs.all fun m => anteOk m s.grants) = true := by
    cases hh : (msgs.all fun m => anteOk m s.grants) <;> simp [hh] at h ⊢
  exact fun m hm => (List.all_eq_true.1 h1) m hm

/-- …and a transaction that is not accepted changes nothing at all (atomicity), while an accepted
one changes `B`'s slot only through a message that writes for `B` and was itself let through. -/
theorem multi_msg_changed (cfg : Cfg) (s : State) (msgs : List Msg) (B : Addr)
    (hne : (deliverTx cfg s msgs).slots B ≠ s.slots B) :
    txAccepted cfg s msgs = true ∧ ∃ m ∈ msgs, Writes cfg B m ∧ anteOk m s.grants = true := by
  unfold deliverTx at hne
  split at hne
  · exact absurd rfl hne
  · rename_i hante
    have hall : anteOkTx msgs s.grants = true := by simpa using hante
    split at hne
    · exact absurd rfl hne
    · rename_i s' hs'
      obtain ⟨m, hm, hw⟩ := handleAll_changed cfg B msgs s s' hs' hne
      refine ⟨by simp [txAccepted, hall, hs'], m, hm, hw, ?_⟩
      unfold anteOkTx at hall
      exact (List.all_eq_true.1 hall) m hm

/-- The attack the per-message check rules out: in a transaction signed by signers none of which
is `B` or holds a grant from `B`, no message in `B`'s name (nor any other `actsFor` message) can
change `B`'s slot — whatever grants the signers hold from the creators of the OTHER messages. -/
theorem multi_msg_no_cross_principal_write (cfg : Cfg) (s : State) (msgs : List Msg) (B : Addr)
    (hr : ∀ m ∈ msgs, cfg.ruleOf m.typ = some .actsFor)
    (hB : ∀ m ∈ msgs, B ∉ m.signers) (hg : ∀ m ∈ msgs, ∀ a ∈ m.signers, s.grants B a = false) :
    (deliverTx cfg s msgs).slots B = s.slots B := by
  apply Classical.byContradiction
  intro hne
  obtain ⟨_, m, hm, hw, hante⟩ := multi_msg_changed cfg s msgs B hne
  simp only [Writes, hr m hm] at hw
  subst hw
  cases (anteOk_iff m s.grants).1 hante with
  | inl h => exact hB m hm h
  | inr h => obtain ⟨a, ha, hga⟩ := h; simp [hg m hm a ha] at hga

/-! ### The tables against the source (`Gen/Auth.lean`) -/

open Paloma.Gen.Auth in
/-- name used by the tables and the Go zoo -/
def hname (h : Handler) : String := h.module ++ "." ++ h.method

open Paloma.Gen.Auth in
/-- rule compatible with what the extractor saw in the handler -/
def ruleCompat (h : Handler) : Bool :=
  match ruleOf (hname h) with
  | some .actsFor =>
    if creatorCheckedInValidateBasic.contains (hname h) then h.vbUsesCreator else h.usesCreator
  | some .authorityOnly => h.authorityCheck
  | some (.sigProven _) => (sigProvenField.find? (·.1 == hname h)).any (fun p => h.reads.contains p.2)
  | some (.open_ _) => true
  | none => false

open Paloma.Gen.Auth in
/-- every string / bytes field of the request has a role, compatible with the reads -/
def rolesCompat (h : Handler) : Bool :=
  h.fields.all fun f =>
    match roleOf (hname h) f.1 with
    | none => false
    | some .equatedWithCreator =>
      (h.reads.contains f.1 && h.usesCreator) || (h.vbReads.contains f.1 && h.vbUsesCreator)
    | some .authorityField => h.authorityCheck && h.reads.contains f.1
    | some .sigProven => h.reads.contains f.1
    | some _ => true

open Paloma.Gen.Auth in
/-- `table_sound`, part 1: handlers and registered services coincide, and every one of them is
classified (a new RPC makes this fail). -/
theorem table_covers :
    (handlers.map fun h => (h.module, h.method)) = rpcs
    ∧ handlers.all (fun h => (ruleOf (hname h)).isSome) = true
    ∧ rules.all (fun r => handlers.any (fun h => hname h == r.1)) = true
    ∧ rules.length = handlers.length := by
  decide

open Paloma.Gen.Auth in
/-- `table_sound`, part 2: every rule is compatible with the handler's source: `actsFor` ⇒ the
handler (or, where stated, its ValidateBasic) reads the creator; `authorityOnly` ⇒ it compares
against the keeper's authority / calls the governance guard; `sigProven` ⇒ it reads the proven
field.  A handler that stops reading the creator makes this fail. -/
theorem table_sound : handlers.all ruleCompat = true := by
  decide

open Paloma.Gen.Auth in
/-- `table_sound`, part 3: every string / bytes field of every request type has a hand-written
role and `equatedWithCreator` / `authorityField` / `sigProven` roles are backed by reads of both
the field and the thing it is compared with.  A new field makes this fail. -/
theorem roles_sound :
    handlers.all rolesCompat = true
    ∧ roles.all (fun r => handlers.any (fun h => hname h == r.1 && h.fields.any (·.1 == r.2.1))) = true := by
  decide

/-- the `authoritySigned` / `creatorCheckedInValidateBasic` / `sigProvenField` side tables only
    name classified types of the right kind -/
theorem side_tables_sound :
    authoritySigned.all (fun t => ruleOf t == some .authorityOnly) = true
    ∧ creatorCheckedInValidateBasic.all (fun t => ruleOf t == some .actsFor) = true
    ∧ sigProvenField.all (fun p => ruleOf p.1 == some (.sigProven 0) && roleOf p.1 p.2 == some .sigProven) = true := by
  decide

/-! ### Non-vacuity -/

section Examples

def exCfg : Cfg where
  authority := 99
  ruleOf := ruleOf
  sigOk := fun m f => m.idField f == 7
  handlerOk := fun _ _ => true
  openEffect := fun _ s => s

def exState : State where
  slots := fun _ => 0
  grants := fun g e => g == 2 && e == 1

def exMsg (typ : String) (signer creator field : Addr) : Msg :=
  { typ := typ, signers := [signer], creator := creator, idField := fun _ => field }

/-- A signs for itself: its slot changes -/
example : (deliver exCfg exState (exMsg "valset.KeepAlive" 1 1 0)).slots 1 = 1 := by decide
/-- A signs with creator = B = 3 and no grant: rejected, nothing changes -/
example : (deliver exCfg exState (exMsg "valset.KeepAlive" 1 3 0)).slots 3 = 0 := by decide
/-- A signs with creator = B = 2 and a grant 2 → 1: accepted, B's slot changes -/
example : (deliver exCfg exState (exMsg "valset.KeepAlive" 1 2 0)).slots 2 = 1 := by decide
/-- governance message from a user: nothing; from the authority: the settings change -/
example : (deliver exCfg exState (exMsg "skyway.OverrideNonceProposal" 1 1 0)).slots 99 = 0 := by decide
example : (deliver exCfg exState (exMsg "skyway.OverrideNonceProposal" 99 99 0)).slots 99 = 1 := by decide
/-- batch confirmation naming validator 7 with 7's signature (sigOk), sent by 1: 7's slot changes;
    naming 8 (no valid signature): nothing -/
example : (deliver exCfg exState (exMsg "skyway.ConfirmBatch" 1 1 7)).slots 7 = 1 := by decide
example : (deliver exCfg exState (exMsg "skyway.ConfirmBatch" 1 1 8)).slots 8 = 0 := by decide
/-- the history theorem's hypotheses are satisfiable on a non-trivial history -/
example : (run exCfg exState [.grant 4 1, .tx (exMsg "valset.KeepAlive" 1 4 0), .tx (exMsg "tokenfactory.Mint" 1 3 3),
    .revoke 4 1, .tx (exMsg "valset.KeepAlive" 1 4 0)]).slots 4 = 1 := by decide
example : (run exCfg exState [.grant 4 1, .tx (exMsg "valset.KeepAlive" 1 4 0), .tx (exMsg "tokenfactory.Mint" 1 3 3),
    .revoke 4 1, .tx (exMsg "valset.KeepAlive" 1 4 0)]).slots 3 = 0 := by decide

/-- the attack order: S = 1 holds a grant from G = 2 but none from B = 3; [creator G, creator B] and
    its reverse are rejected as a whole (G's slot does not change either), [G, S] is accepted -/
example : (deliverTx exCfg exState [exMsg "valset.KeepAlive" 1 2 0, exMsg "valset.KeepAlive" 1 3 0]).slots 3 = 0 := by decide
example : (deliverTx exCfg exState [exMsg "valset.KeepAlive" 1 2 0, exMsg "valset.KeepAlive" 1 3 0]).slots 2 = 0 := by decide
example : (deliverTx exCfg exState [exMsg "valset.KeepAlive" 1 3 0, exMsg "valset.KeepAlive" 1 2 0]).slots 2 = 0 := by decide
example : txAccepted exCfg exState [exMsg "valset.KeepAlive" 1 2 0, exMsg "valset.KeepAlive" 1 3 0] = false := by decide
example : (deliverTx exCfg exState [exMsg "valset.KeepAlive" 1 2 0, exMsg "tokenfactory.Mint" 1 1 0]).slots 2 = 1 := by decide
example : (deliverTx exCfg exState [exMsg "valset.KeepAlive" 1 2 0, exMsg "tokenfactory.Mint" 1 1 0]).slots 1 = 1 := by decide
/-- atomicity: a governance message from a user at the end reverts the first message too -/
example : (deliverTx exCfg exState [exMsg "valset.KeepAlive" 1 1 0, exMsg "skyway.OverrideNonceProposal" 1 1 0]).slots 1 = 0 := by decide
example : (run exCfg exState [.mtx [exMsg "valset.KeepAlive" 1 2 0, exMsg "valset.KeepAlive" 1 3 0], .grant 3 1,
    .mtx [exMsg "valset.KeepAlive" 1 2 0, exMsg "valset.KeepAlive" 1 3 0]]).slots 3 = 1 := by decide

end Examples

end Paloma.Auth
