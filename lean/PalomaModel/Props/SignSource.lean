/-
Tie between the signing / delivery code of /repo and the hand-written model (`Model/SignBytes.lean`,
`Model/Attest.lean`) that does not go through sampling.

`Gen/SignBytes.lean` is regenerated from the repository's CURRENT source on every run (`extract/signbytes.go`):
for every `keccak256` method of the turnstone actions, skyway's `GetCheckpoint`, every `VerifyAgainstTX`, and the
helpers they call (`feesOrDefault`, `BuildCompassConsensus`, `TransformValsetToCompassValset`, `uint64ToByte`,
`Keccak256WithSignedMessage`) it records the ABI type list of every `abi.Arguments` literal, every `abi.NewMethod`,
the source text of every argument of every `Pack` call, every statement that can influence those arguments
(logging and error plumbing dropped), and the final hashing call.

`expectedFns` below is the transcription the model was written from.  The theorems say

* `signing_code_as_transcribed`: the regenerated table IS that transcription (`rfl` on closed terms: any change of an
  argument, its order, a default, a conversion, a type, a method name breaks this obligation);
* `…_types_as_in_source`: the type lists the MODEL encodes with render to exactly the ABI type strings of the
  source;
* `…_selector_from_source`: the 4-byte selector constants of the model are the first four bytes of the (Lean)
  Keccak-256 of the signature string assembled from the generated method name and type list — by kernel
  evaluation (`decide +kernel`, no `native_decide`; axioms: propext, Quot.sound).
* `delivered_methods_as_in_source`: the compass methods `VerifyAgainstTX` packs for are the ones the delivery model
  uses, and every delivered argument list starts with the consensus built from a signature PREFIX.

A harmless rewrite of one of these functions breaks `signing_code_as_transcribed` too; the check then searches
with the correspondence harness (real digests vs the model's) and reports `no-failing-input-found` when model and
code still agree — the transcription then has to be re-read and updated by hand, which is the point.
-/
import PalomaModel.Gen.SignBytes
import PalomaModel.Model.SignBytes
import PalomaModel.Model.Attest

namespace Paloma.SignSource
open Paloma.Gen.SignBytes Paloma.Abi Paloma.SignBytes

def expectedFns : List Fn := [
  { name := "evm.BuildCompassConsensus",
    params := ["v *Valset", "signatures []*consensustypes.SignData"],
    argLists := [],
    methods := [],
    packs := [],
    flow := [
      "signatureMap := slice.MakeMapKeys( signatures, func(sig *consensustypes.SignData) string { return sig.ExternalAccountAddress }, )",
      "con := CompassConsensus{ Valset: TransformValsetToCompassValset(v), }",
      "for i, _ := range v.GetValidators() {",
      "  sig, ok := signatureMap[v.GetValidators()[i]]",
      "  if !ok {",
      "    con.Signatures = append(con.Signatures, Signature{ V: big.NewInt(0), R: big.NewInt(0), S: big.NewInt(0), })",
      "    con.originalSignatures = append(con.originalSignatures, nil)",
      "  } else {",
      "    con.Signatures = append(con.Signatures, Signature{ V: new(big.Int).SetInt64(int64(sig.Signature[64]) + 27), R: new(big.Int).SetBytes(sig.Signature[:32]), S: new(big.Int).SetBytes(sig.Signature[32:64]), }, )",
      "    con.originalSignatures = append(con.originalSignatures, sig.Signature)",
      "  }",
      "}",
      "return con"],
    hashes := [] },
  { name := "evm.CompassHandover.VerifyAgainstTX",
    params := ["ctx context.Context", "tx *ethtypes.Transaction", "msg consensustypes.QueuedSignedMessageI", "valset *Valset", "compass *SmartContract", "relayer string"],
    argLists := [],
    methods := [],
    packs := [{ recv := "contractABI", method := "compass_update_batch", args := [
      "BuildCompassConsensus(valset, msg.GetSignData()[0:i])",
      "forwardArgs",
      "new(big.Int).SetInt64(m.GetDeadline())",
      "big.NewInt(0).SetUint64(msg.GetGasEstimate())",
      "common.HexToAddress(relayer)"] }],
    flow := [
      "if valset == nil || compass == nil {",
      "  return err",
      "}",
      "contractABI, err := abi.JSON(strings.NewReader(compass.GetAbiJSON()))",
      "forwardArgs := slice.Map(m.GetForwardCallArgs(), func(arg CompassHandover_ForwardCallArgs) CompassLogicCallArgs { return CompassLogicCallArgs{ common.HexToAddress(arg.GetHexContractAddress()), arg.GetPayload(), } })",
      "for i := len(msg.GetSignData()); i > 0; i-- {",
      "  input := <pack>",
      "  if bytes.Equal(tx.Data(), input) {",
      "    return nil",
      "  }",
      "}",
      "return ErrEthTxNotVerified"],
    hashes := [] },
  { name := "evm.Message.Keccak256WithSignedMessage",
    params := ["q *consensustypes.QueuedSignedMessage"],
    argLists := [],
    methods := [],
    packs := [],
    flow := [
      "k, ok := m.GetAction().(keccak256able)",
      "if !ok {",
      "  return nil, errors.New(\"message's action is not hashable\")",
      "}",
      "return k.keccak256(m, q.GetId(), q.GasEstimate)"],
    hashes := [] },
  { name := "evm.Message_CompassHandover.keccak256",
    params := ["orig *Message", "_ uint64", "gasEstimate uint64"],
    argLists := [{ var := "arguments", types := ["(address,bytes)[]", "uint256", "address", "uint256"] }],
    methods := [{ name := "compass_update_batch", rawName := "compass_update_batch", kind := "abi.Function", args := "arguments" }],
    packs := [{ recv := "arguments", method := "", args := [
      "slice.Map(m.GetForwardCallArgs(), func(arg CompassHandover_ForwardCallArgs) logicCallArg { return logicCallArg{ common.HexToAddress(arg.GetHexContractAddress()), arg.GetPayload(), } })",
      "big.NewInt(m.GetDeadline())",
      "common.HexToAddress(orig.AssigneeRemoteAddress)",
      "big.NewInt(0).SetUint64(estimate)"] }],
    flow := [
      "m := _m.CompassHandover",
      "method := <method>",
      "estimate := gasEstimate",
      "if estimate == 0 {",
      "  estimate = 300_000",
      "}",
      "type logicCallArg struct { Address common.Address Payload []byte }",
      "bytes := <pack>",
      "bytes = append(method.ID[:], bytes...)",
      "return crypto.Keccak256(bytes), nil"],
    hashes := ["crypto.Keccak256(bytes)"] },
  { name := "evm.Message_SubmitLogicCall.keccak256",
    params := ["orig *Message", "nonce uint64", "_ uint64"],
    argLists := [{ var := "arguments", types := ["(address,bytes)", "(uint256,uint256,uint256,bytes32)", "uint256", "bytes32", "uint256", "address"] }],
    methods := [{ name := "logic_call", rawName := "logic_call", kind := "abi.Function", args := "arguments" }],
    packs := [{ recv := "arguments", method := "", args := [
      "struct { Address common.Address Payload []byte }{ common.HexToAddress(m.GetHexContractAddress()), m.GetPayload(), }",
      "struct { RelayerFee *big.Int CommunityFee *big.Int SecurityFee *big.Int FeePayerPalomaAddress [32]byte }{ new(big.Int).SetUint64(fees.RelayerFee), new(big.Int).SetUint64(fees.CommunityFee), new(big.Int).SetUint64(fees.SecurityFee), senderAddress, }",
      "new(big.Int).SetInt64(int64(nonce))",
      "bytes32",
      "big.NewInt(m.GetDeadline())",
      "common.HexToAddress(orig.AssigneeRemoteAddress)"] }],
    flow := [
      "m := _m.SubmitLogicCall",
      "method := <method>",
      "var bytes32 [32]byte",
      "copy(bytes32[:], orig.GetTurnstoneID())",
      "fees := feesOrDefault(m.Fees)",
      "padding := bytes.Repeat([]byte{0}, 32-len(m.SenderAddress))",
      "senderAddress := [32]byte(append(padding, m.SenderAddress...))",
      "bytes := <pack>",
      "bytes = append(method.ID[:], bytes...)",
      "return crypto.Keccak256(bytes), nil"],
    hashes := ["crypto.Keccak256(bytes)"] },
  { name := "evm.Message_UpdateValset.keccak256",
    params := ["orig *Message", "_ uint64", "gasEstimate uint64"],
    argLists := [{ var := "checkpointArgs", types := ["address[]", "uint256[]", "uint256", "bytes32"] }, { var := "arguments", types := ["bytes32", "address", "uint256"] }],
    methods := [{ name := "checkpoint", rawName := "checkpoint", kind := "abi.Function", args := "checkpointArgs" }, { name := "update_valset", rawName := "update_valset", kind := "abi.Function", args := "arguments" }],
    packs := [{ recv := "checkpointArgs", method := "", args := [
      "slice.Map(m.GetValset().GetValidators(), func(s string) common.Address { return common.HexToAddress(s) })",
      "slice.Map(m.GetValset().GetPowers(), func(a uint64) *big.Int { return big.NewInt(int64(a)) })",
      "big.NewInt(int64(m.GetValset().GetValsetID()))",
      "bytes32"] }, { recv := "arguments", method := "", args := [
      "hash32",
      "common.HexToAddress(orig.AssigneeRemoteAddress)",
      "big.NewInt(0).SetUint64(estimate)"] }],
    flow := [
      "m := _m.UpdateValset",
      "checkpointMethod := <method>",
      "var bytes32 [32]byte",
      "copy(bytes32[:], orig.GetTurnstoneID())",
      "checkpointBytes := <pack>",
      "checkpointBytes = append(checkpointMethod.ID[:], checkpointBytes...)",
      "checkpointHash := crypto.Keccak256(checkpointBytes)",
      "var hash32 [32]byte",
      "copy(hash32[:], checkpointHash)",
      "method := <method>",
      "estimate := gasEstimate",
      "if estimate == 0 {",
      "  estimate = 300_000",
      "}",
      "bytes := <pack>",
      "bytes = append(method.ID[:], bytes...)",
      "return crypto.Keccak256(bytes), nil"],
    hashes := ["crypto.Keccak256(checkpointBytes)", "crypto.Keccak256(bytes)"] },
  { name := "evm.Message_UploadSmartContract.keccak256",
    params := ["_ *Message", "nonce uint64", "_ uint64"],
    argLists := [],
    methods := [],
    packs := [],
    flow := [
      "m := _m.UploadSmartContract",
      "return crypto.Keccak256(append(m.GetBytecode()[:], uint64ToByte(nonce)...)), nil"],
    hashes := ["crypto.Keccak256(append(m.GetBytecode()[:], uint64ToByte(nonce)...))"] },
  { name := "evm.Message_UploadUserSmartContract.keccak256",
    params := ["orig *Message", "nonce uint64", "_ uint64"],
    argLists := [{ var := "arguments", types := ["address", "bytes", "(uint256,uint256,uint256,bytes32)", "uint256", "bytes32", "uint256", "address"] }],
    methods := [{ name := "deploy_contract", rawName := "deploy_contract", kind := "abi.Function", args := "arguments" }],
    packs := [{ recv := "arguments", method := "", args := [
      "common.HexToAddress(m.GetDeployerAddress())",
      "m.GetBytecode()",
      "struct { RelayerFee *big.Int CommunityFee *big.Int SecurityFee *big.Int FeePayerPalomaAddress [32]byte }{ new(big.Int).SetUint64(fees.RelayerFee), new(big.Int).SetUint64(fees.CommunityFee), new(big.Int).SetUint64(fees.SecurityFee), senderAddress, }",
      "new(big.Int).SetInt64(int64(nonce))",
      "bytes32",
      "big.NewInt(m.GetDeadline())",
      "common.HexToAddress(orig.AssigneeRemoteAddress)"] }],
    flow := [
      "m := _m.UploadUserSmartContract",
      "method := <method>",
      "var bytes32 [32]byte",
      "copy(bytes32[:], orig.GetTurnstoneID())",
      "fees := feesOrDefault(m.Fees)",
      "padding := bytes.Repeat([]byte{0}, 32-len(m.SenderAddress))",
      "senderAddress := [32]byte(append(padding, m.SenderAddress...))",
      "bytes := <pack>",
      "bytes = append(method.ID[:], bytes...)",
      "return crypto.Keccak256(bytes), nil"],
    hashes := ["crypto.Keccak256(bytes)"] },
  { name := "evm.ReferenceBlockAttestation.Keccak256WithSignedMessage",
    params := ["_ *consensustypes.QueuedSignedMessage"],
    argLists := [],
    methods := [],
    packs := [],
    flow := [
      "return crypto.Keccak256([]byte(m.FromBlockTime.String())), nil"],
    hashes := ["crypto.Keccak256([]byte(m.FromBlockTime.String()))"] },
  { name := "evm.SubmitLogicCall.VerifyAgainstTX",
    params := ["ctx context.Context", "tx *ethtypes.Transaction", "msg consensustypes.QueuedSignedMessageI", "valset *Valset", "compass *SmartContract", "relayer string"],
    argLists := [],
    methods := [],
    packs := [{ recv := "contractABI", method := "submit_logic_call", args := [
      "BuildCompassConsensus(valset, msg.GetSignData()[0:i])",
      "CompassLogicCallArgs{ LogicContractAddress: common.HexToAddress(m.GetHexContractAddress()), Payload: m.GetPayload(), }",
      "feeArgs",
      "new(big.Int).SetInt64(int64(msg.GetId()))",
      "new(big.Int).SetInt64(m.GetDeadline())",
      "common.HexToAddress(relayer)"] }],
    flow := [
      "if valset == nil || compass == nil {",
      "  return err",
      "}",
      "contractABI, err := abi.JSON(strings.NewReader(compass.GetAbiJSON()))",
      "padding := bytes.Repeat([]byte{0}, 32-len(m.SenderAddress))",
      "paddedSenderAddress := [32]byte(append(padding, m.SenderAddress...))",
      "fees := feesOrDefault(m.Fees)",
      "feeArgs := FeeArgs{ RelayerFee: big.NewInt(0).SetUint64(fees.RelayerFee), CommunityFee: big.NewInt(0).SetUint64(fees.CommunityFee), SecurityFee: big.NewInt(0).SetUint64(fees.SecurityFee), FeePayerPalomaAddress: paddedSenderAddress, }",
      "for i := len(msg.GetSignData()); i > 0; i-- {",
      "  input := <pack>",
      "  if bytes.Equal(tx.Data(), input) {",
      "    return nil",
      "  }",
      "}",
      "return ErrEthTxNotVerified"],
    hashes := [] },
  { name := "evm.TransformValsetToCompassValset",
    params := ["val *Valset"],
    argLists := [],
    methods := [],
    packs := [],
    flow := [
      "return CompassValset{ Validators: slice.Map(val.GetValidators(), func(s string) common.Address { return common.HexToAddress(s) }), Powers: slice.Map(val.GetPowers(), func(p uint64) *big.Int { return big.NewInt(int64(p)) }), ValsetId: big.NewInt(int64(val.GetValsetID())), }"],
    hashes := [] },
  { name := "evm.UpdateValset.VerifyAgainstTX",
    params := ["ctx context.Context", "tx *ethtypes.Transaction", "msg consensustypes.QueuedSignedMessageI", "valset *Valset", "compass *SmartContract", "relayer string"],
    argLists := [],
    methods := [],
    packs := [{ recv := "contractABI", method := "update_valset", args := [
      "BuildCompassConsensus(valset, msg.GetSignData()[0:i])",
      "TransformValsetToCompassValset(m.Valset)",
      "common.HexToAddress(relayer)",
      "big.NewInt(0).SetUint64(msg.GetGasEstimate())"] }],
    flow := [
      "if valset == nil || compass == nil {",
      "  return err",
      "}",
      "contractABI, err := abi.JSON(strings.NewReader(compass.GetAbiJSON()))",
      "for i := len(msg.GetSignData()); i > 0; i-- {",
      "  input := <pack>",
      "  if bytes.Equal(tx.Data(), input) {",
      "    return nil",
      "  }",
      "}",
      "return ErrEthTxNotVerified"],
    hashes := [] },
  { name := "evm.UploadSmartContract.VerifyAgainstTX",
    params := ["ctx context.Context", "tx *ethtypes.Transaction", "_ consensustypes.QueuedSignedMessageI", "_ *Valset", "_ *SmartContract", "_ string"],
    argLists := [],
    methods := [],
    packs := [{ recv := "contractABI", method := "", args := [
      "opaque-spread:params"] }],
    flow := [
      "contractABI, err := abi.JSON(strings.NewReader(m.GetAbi()))",
      "mData := make([]byte, len(m.GetBytecode()))",
      "copy(mData, m.GetBytecode())",
      "if len(m.GetConstructorInput()) > 0 {",
      "  params, err := contractABI.Constructor.Inputs.Unpack(m.GetConstructorInput())",
      "  input := <pack>",
      "  mData = append(mData, input...)",
      "}",
      "if !bytes.Equal(tx.Data(), mData) {",
      "  return ErrEthTxNotVerified",
      "}",
      "return nil"],
    hashes := [] },
  { name := "evm.UploadUserSmartContract.VerifyAgainstTX",
    params := ["ctx context.Context", "tx *ethtypes.Transaction", "msg consensustypes.QueuedSignedMessageI", "valset *Valset", "compass *SmartContract", "relayer string"],
    argLists := [],
    methods := [],
    packs := [{ recv := "contractABI", method := "deploy_contract", args := [
      "BuildCompassConsensus(valset, msg.GetSignData()[0:i])",
      "common.HexToAddress(m.GetDeployerAddress())",
      "m.GetBytecode()",
      "feeArgs",
      "new(big.Int).SetInt64(int64(msg.GetId()))",
      "new(big.Int).SetInt64(m.GetDeadline())",
      "common.HexToAddress(relayer)"] }],
    flow := [
      "if valset == nil || compass == nil {",
      "  return err",
      "}",
      "contractABI, err := abi.JSON(strings.NewReader(compass.GetAbiJSON()))",
      "padding := bytes.Repeat([]byte{0}, 32-len(m.SenderAddress))",
      "paddedAuthor := [32]byte(append(padding, m.SenderAddress...))",
      "fees := feesOrDefault(m.Fees)",
      "feeArgs := FeeArgs{ RelayerFee: big.NewInt(0).SetUint64(fees.RelayerFee), CommunityFee: big.NewInt(0).SetUint64(fees.CommunityFee), SecurityFee: big.NewInt(0).SetUint64(fees.SecurityFee), FeePayerPalomaAddress: paddedAuthor, }",
      "for i := len(msg.GetSignData()); i > 0; i-- {",
      "  input := <pack>",
      "  if bytes.Equal(tx.Data(), input) {",
      "    return nil",
      "  }",
      "}",
      "return ErrEthTxNotVerified"],
    hashes := [] },
  { name := "evm.ValidatorBalancesAttestation.Keccak256WithSignedMessage",
    params := ["_ *consensustypes.QueuedSignedMessage"],
    argLists := [],
    methods := [],
    packs := [],
    flow := [
      "var sb strings.Builder",
      "sb.WriteString(m.FromBlockTime.String())",
      "sb.WriteRune('\\n')",
      "for i, _ := range m.ValAddresses {",
      "  sb.WriteString(m.ValAddresses[i].String())",
      "  sb.WriteRune('\\t')",
      "  sb.WriteString(m.HexAddresses[i])",
      "  sb.WriteRune('\\n')",
      "}",
      "return crypto.Keccak256([]byte(sb.String())), nil"],
    hashes := ["crypto.Keccak256([]byte(sb.String()))"] },
  { name := "evm.feesOrDefault",
    params := ["fees *Fees"],
    argLists := [],
    methods := [],
    packs := [],
    flow := [
      "if fees != nil {",
      "  return fees",
      "}",
      "return &Fees{ RelayerFee: 100_000, CommunityFee: 100_000, SecurityFee: 100_000, }"],
    hashes := [] },
  { name := "evm.uint64ToByte",
    params := ["n uint64"],
    argLists := [],
    methods := [],
    packs := [],
    flow := [
      "b := make([]byte, 8)",
      "binary.BigEndian.PutUint64(b, n)",
      "return b"],
    hashes := [] },
  { name := "skyway.InternalOutgoingTxBatch.GetCheckpoint",
    params := ["turnstoneID string"],
    argLists := [{ var := "arguments", types := ["address", "(address[],uint256[])", "uint256", "bytes32", "uint256", "address", "uint256"] }],
    methods := [{ name := "batch_call", rawName := "batch_call", kind := "abi.Function", args := "arguments" }],
    packs := [{ recv := "arguments", method := "", args := [
      "i.TokenContract.GetAddress()",
      "args",
      "big.NewInt(int64(i.BatchNonce))",
      "turnstoneBytes32",
      "big.NewInt(int64(i.BatchTimeout))",
      "i.AssigneeRemoteAddress",
      "estimate"] }],
    flow := [
      "var turnstoneBytes32 [32]byte",
      "copy(turnstoneBytes32[:], turnstoneID)",
      "method := <method>",
      "methodNameBytes := []uint8(\"batch_call\")",
      "var batchMethodName [32]uint8",
      "copy(batchMethodName[:], methodNameBytes)",
      "txAmounts := make([]*big.Int, len(i.Transactions))",
      "txDestinations := make([]common.Address, len(i.Transactions))",
      "for j, tx := range i.Transactions {",
      "  txAmounts[j] = tx.Erc20Token.Amount.BigInt()",
      "  txDestinations[j] = tx.DestAddress.GetAddress()",
      "}",
      "args := struct { Receiver []common.Address Amount []*big.Int }{ Receiver: txDestinations, Amount: txAmounts, }",
      "estimate := big.NewInt(cConservativeDummyGasEstimate)",
      "if i.GasEstimate != 0 {",
      "  estimate.SetUint64(i.GasEstimate)",
      "}",
      "abiEncodedBatch := <pack>",
      "abiEncodedBatch = append(method.ID[:], abiEncodedBatch...)",
      "return crypto.Keccak256(abiEncodedBatch), nil"],
    hashes := ["crypto.Keccak256(abiEncodedBatch)"] },
  { name := "skyway.OutgoingTxBatch.GetCheckpoint",
    params := ["turnstoneID string"],
    argLists := [],
    methods := [],
    packs := [],
    flow := [
      "i, err := o.ToInternal()",
      "return i.GetCheckpoint(turnstoneID)"],
    hashes := [] }
]

def expectedConsts : List (String × String) := [
  ("types.cConservativeDummyGasEstimate", "300_000")
]


/-! ## helpers -/

/-- canonical ABI spelling of a model type (go-ethereum `abi.Type.String()`) -/
def tyName : Ty → String
  | .uint256 => "uint256"
  | .address => "address"
  | .bytes32 => "bytes32"
  | .bytes => "bytes"
  | .array e => tyName e ++ "[]"
  | .tuple ms => "(" ++ ",".intercalate (tyNames ms) ++ ")"
where tyNames : List Ty → List String
  | [] => []
  | t :: ts => tyName t :: tyNames ts

def findFn (n : String) : Option Fn := fns.find? (·.name == n)

/-- the ABI type strings of the `abi.Arguments` literal bound to variable `v` in function `n` -/
def srcTypes (n v : String) : Option (List String) :=
  (findFn n).bind fun f => (f.argLists.find? (·.var == v)).map (·.types)

/-- `name(type,…)` of the `abi.NewMethod` built from arguments variable `v` in function `n` -/
def srcSignature (n v : String) : Option String :=
  (findFn n).bind fun f => (f.methods.find? (·.args == v)).bind fun m =>
    (srcTypes n v).map fun ts => m.name ++ "(" ++ ",".intercalate ts ++ ")"

def srcSel (n v : String) : Option Bytes := (srcSignature n v).map sigSel

/-- the compass method name and the first argument of the `contractABI.Pack` call of a `VerifyAgainstTX` -/
def deliveredHead (n : String) : Option (String × Option String) :=
  (findFn n).bind fun f => f.packs.head?.map fun p => (p.method, p.args.head?)

/-! ## Property theorems -/

/-- the regenerated description of the signing and delivery-verification code equals the transcription the model
    was written from -/
theorem signing_code_as_transcribed : fns = expectedFns := rfl

/-- skyway's default estimate constant -/
theorem consts_as_transcribed : consts = expectedConsts := rfl

theorem uv_checkpoint_types_as_in_source :
    srcTypes "evm.Message_UpdateValset.keccak256" "checkpointArgs" = some (UV.cpTys.map tyName) := by decide
theorem uv_types_as_in_source :
    srcTypes "evm.Message_UpdateValset.keccak256" "arguments" = some (UV.signedTys.map tyName) := by decide
theorem slc_types_as_in_source :
    srcTypes "evm.Message_SubmitLogicCall.keccak256" "arguments" = some (SLC.signedTys.map tyName) := by decide
theorem usc_types_as_in_source :
    srcTypes "evm.Message_UploadUserSmartContract.keccak256" "arguments" = some (USC.signedTys.map tyName) := by decide
theorem ch_types_as_in_source :
    srcTypes "evm.Message_CompassHandover.keccak256" "arguments" = some (CH.signedTys.map tyName) := by decide
theorem batch_types_as_in_source :
    srcTypes "skyway.InternalOutgoingTxBatch.GetCheckpoint" "arguments" = some (Batch.signedTys.map tyName) := by decide

theorem uv_checkpoint_selector_from_source :
    srcSel "evm.Message_UpdateValset.keccak256" "checkpointArgs" = some selCheckpoint := by decide +kernel
theorem uv_selector_from_source :
    srcSel "evm.Message_UpdateValset.keccak256" "arguments" = some selUpdateValset := by decide +kernel
theorem slc_selector_from_source :
    srcSel "evm.Message_SubmitLogicCall.keccak256" "arguments" = some selLogicCall := by decide +kernel
theorem usc_selector_from_source :
    srcSel "evm.Message_UploadUserSmartContract.keccak256" "arguments" = some selDeployContract := by decide +kernel
theorem ch_selector_from_source :
    srcSel "evm.Message_CompassHandover.keccak256" "arguments" = some selCompassUpdateBatch := by decide +kernel
theorem batch_selector_from_source :
    srcSel "skyway.InternalOutgoingTxBatch.GetCheckpoint" "arguments" = some selBatchCall := by decide +kernel

/-- every ABI-packing `VerifyAgainstTX` packs for the compass method the delivery model uses, and its first argument
    is the consensus over a PREFIX `[0:i]` of the collected signatures -/
theorem delivered_methods_as_in_source :
    deliveredHead "evm.UpdateValset.VerifyAgainstTX" =
      some ("update_valset", some "BuildCompassConsensus(valset, msg.GetSignData()[0:i])") ∧
    deliveredHead "evm.SubmitLogicCall.VerifyAgainstTX" =
      some ("submit_logic_call", some "BuildCompassConsensus(valset, msg.GetSignData()[0:i])") ∧
    deliveredHead "evm.UploadUserSmartContract.VerifyAgainstTX" =
      some ("deploy_contract", some "BuildCompassConsensus(valset, msg.GetSignData()[0:i])") ∧
    deliveredHead "evm.CompassHandover.VerifyAgainstTX" =
      some ("compass_update_batch", some "BuildCompassConsensus(valset, msg.GetSignData()[0:i])") := by decide

end Paloma.SignSource
